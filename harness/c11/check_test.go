package c11

// C11 — block portability. (1) Whatever an honest node builds from its mempool (valid, invalid, oversize, conflicting,
// duplicate and unusually encoded transactions are all thrown in) must be accepted by every other honest node on the
// same prefix. (2) What a node serves from its archive for a committed height (LoadCertificate: certificate + block
// re-assembled from the indexed transaction results) must carry the originally certified block hash and must
// re-validate on fresh nodes — one fed with full certificate checks, one through the sync path — reproducing every
// block hash and state root from genesis.

import (
	"bytes"
	"fmt"
	"math/rand"
	"testing"

	"github.com/canopy-network/canopy/fsm"
	"github.com/canopy-network/canopy/lib"
	"github.com/canopy-network/canopy/lib/crypto"
	"verif/core"
	"verif/node"
	"verif/txvar"
)

func runCase(t *testing.T, run *core.Run, name string, idx int, rng *rand.Rand) {
	opts := node.WorldOpts{
		Nodes: 2, GenesisVals: 4, ExtraVals: 3, Users: 8, Gov: true, Delegates: 1,
		Weights: map[string]int{"send": 40, "send-edge": 10, "stake": 5, "edit-stake": 6, "unstake": 3, "pause": 3, "unpause": 3, "subsidy": 4, "invalid": 10, "change-param": 3, "dao-transfer": 3},
		Params: func(p *fsm.Params, r *rand.Rand) {
			p.Consensus.ProtocolVersion = fsm.NewProtocolVersion(0, uint64(1+idx%2))
			if idx%2 == 0 {
				p.Consensus.BlockSize = lib.MaxBlockHeaderSize + 2500 // the mempool regularly holds more than fits
			}
		},
	}
	w, err := node.NewWorld(rng, opts)
	if err != nil {
		t.Fatalf("%s: world: %v", name, err)
	}
	ch := w.Ch
	defer ch.Close()
	ch.MidwayRecheck = idx%2 == 1 // the proposer builds its proposal several times per height
	blocks := core.Pick(18, 50)
	fail := func(kind string, h uint64, d map[string]any) {
		d["case"], d["height"] = name, h
		run.Violation(kind, "^"+name+"$", d)
	}
	type rec struct {
		h          uint64
		hash, root []byte
	}
	var recs []rec
	for b := 0; b < blocks; b++ {
		h := w.Height()
		proposer := b % 2
		var txs [][]byte
		for i, n := 0, 4+rng.Intn(14); i < n; i++ {
			ti := w.RandomTx()
			if ti == nil {
				continue
			}
			txs = append(txs, ti.Bytes)
			switch rng.Intn(6) {
			case 0: // a same-content re-encoding of a transaction that is also in the mempool
				if vs := txvar.Variants(ti.Bytes); len(vs) > 0 {
					txs = append(txs, vs[rng.Intn(len(vs))].Bytes)
					run.Count("unusually_encoded_transactions_offered", 1)
				}
			case 1: // the re-encoding instead of the canonical bytes
				if vs := txvar.Variants(ti.Bytes); len(vs) > 0 {
					txs[len(txs)-1] = vs[rng.Intn(len(vs))].Bytes
					run.Count("unusually_encoded_transactions_offered", 1)
				}
			case 2: // an exact duplicate
				txs = append(txs, ti.Bytes)
			}
		}
		rng.Shuffle(len(txs), func(i, j int) { txs[i], txs[j] = txs[j], txs[i] })
		p, e := ch.Propose(proposer, txs, nil)
		if e != nil {
			fail("proposer-cannot-build-block", h, map[string]any{"error": e.Error(), "mempool_txs": len(txs)})
			return
		}
		run.Count("proposals_built", 1)
		run.Count("transactions_in_mempool", int64(len(txs)))
		run.Count("transactions_included", int64(len(p.Block.Transactions)))
		other := 1 - proposer
		res, e := ch.Validate(other, p, nil)
		if e != nil {
			fail("honest-proposal-rejected", h, map[string]any{"error": e.Error(), "proposer": proposer, "txs_in_block": len(p.Block.Transactions), "mempool_txs": len(txs)})
			return
		}
		run.Count("proposals_accepted_by_peer", 1)
		vs, e := ch.Committee(ch.Nodes[proposer], p.QC.Header.RootHeight)
		if e != nil {
			t.Fatalf("%s: committee: %v", name, e)
		}
		if _, _, er := ch.Certify(p.QC, vs, w.SignerPick()); er != nil {
			t.Fatalf("%s: certify: %v", name, er)
		}
		if e := ch.Deliver(proposer, p.QC, nil, false); e != nil {
			fail("commit-failed", h, map[string]any{"node": "proposer", "error": e.Error()})
			return
		}
		if e := ch.Deliver(other, p.QC, res, false); e != nil {
			fail("commit-failed", h, map[string]any{"node": "peer", "error": e.Error()})
			return
		}
		recs = append(recs, rec{h, p.Block.BlockHeader.Hash, p.Block.BlockHeader.StateRoot})
	}
	// archive -> fresh nodes
	full, err := ch.AddNode()
	if err != nil {
		t.Fatalf("%s: fresh node: %v", name, err)
	}
	syncing, err := ch.AddNode()
	if err != nil {
		t.Fatalf("%s: fresh node: %v", name, err)
	}
	for i, r := range recs {
		qc, e := ch.Archive(i%2, r.h)
		if e != nil || qc == nil {
			fail("archive-cannot-serve-height", r.h, map[string]any{"error": fmt.Sprint(e)})
			return
		}
		blk := new(lib.Block)
		if e := lib.Unmarshal(qc.Block, blk); e != nil || blk.BlockHeader == nil {
			fail("archive-block-undecodable", r.h, map[string]any{"error": fmt.Sprint(e)})
			return
		}
		if !bytes.Equal(blk.BlockHeader.Hash, r.hash) || !bytes.Equal(qc.BlockHash, r.hash) {
			fail("archive-serves-different-block-hash", r.h, map[string]any{"certified": core.Hex(r.hash), "served": core.Hex(blk.BlockHeader.Hash)})
			return
		}
		run.Count("archive_heights_served", 1)
		for _, target := range []struct {
			idx  int
			sync bool
			name string
		}{{full, false, "full-validation"}, {syncing, true, "sync-path"}} {
			if e := ch.Deliver(target.idx, qc, nil, target.sync); e != nil {
				fail("archive-block-rejected-by-fresh-node path="+target.name, r.h, map[string]any{"error": e.Error()})
				return
			}
			got, e := ch.Block(target.idx, r.h)
			if e != nil || !bytes.Equal(got.BlockHeader.Hash, r.hash) || !bytes.Equal(got.BlockHeader.StateRoot, r.root) {
				fail("replay-differs path="+target.name, r.h, map[string]any{"error": fmt.Sprint(e)})
				return
			}
			run.Count("archive_blocks_revalidated_"+target.name, 1)
		}
	}
	d0, n0, _ := node.DumpState(ch.Nodes[0].C.FSM.Store())
	for _, j := range []int{full, syncing} {
		d, _, _ := node.DumpState(ch.Nodes[j].C.FSM.Store())
		if d != d0 {
			fail("replayed-state-differs", w.Height(), map[string]any{"node": j})
			return
		}
	}
	run.Count("state_records_compared", int64(n0))
	run.Eval(1)
	run.Distinct(fmt.Sprintf("%s|%d", name, len(recs)))
	run.Sample(map[string]any{"case": name, "blocks": blocks, "small_blocks": idx%2 == 0, "generated": w.NTx})
}

// bigBlock: one height with more than 5000 transactions (the page size of the indexer's readers), committed and then served
// from the archive: the served block must carry every transaction and re-validate on a fresh node.
//
// fullBlock (same driver): a block size of header allowance + 200 kB and a mempool backlog of 1000 small sends: the honest
// proposer fills the block to the limit of the state machine (hundreds of transactions, so that the framing bytes of the
// serialized block add up); peers, archive readers and a fresh node must accept exactly that block.
func bigBlock(t *testing.T, run *core.Run, name string, rng *rand.Rand, nTx int, blockSize uint64, full bool) {
	w, err := node.NewWorld(rng, node.WorldOpts{Nodes: 2, GenesisVals: 3, Users: 4, UserFunds: 50_000_000_000, Weights: map[string]int{"send": 1},
		Params: func(p *fsm.Params, r *rand.Rand) { p.Consensus.BlockSize = blockSize },
		Tweak: func(c *lib.Config) {
			c.MempoolConfig.MaxTransactionCount, c.MempoolConfig.MaxTotalBytes = 20000, 64<<20
		}})
	if err != nil {
		t.Fatalf("%s: world: %v", name, err)
	}
	ch := w.Ch
	defer ch.Close()
	fail := func(kind string, h uint64, d map[string]any) {
		d["case"], d["height"] = name, h
		run.Violation(kind, "^"+name+"$", d)
	}
	if _, err := ch.Step(0, nil, nil); err != nil {
		t.Fatalf("%s: first block: %v", name, err)
	}
	h := w.Height()
	txs := make([][]byte, 0, nTx)
	for i := 0; i < nTx; i++ {
		from := w.Users[i%len(w.Users)]
		to := crypto.NewAddressFromBytes(crypto.Hash([]byte(fmt.Sprintf("%s/%d", name, i)))[:20])
		tx, e := fsm.NewSendTransaction(from, to, uint64(1+i), node.NetworkID, 1, 10000, h, fmt.Sprint(i))
		if e != nil {
			t.Fatal(e)
		}
		bz, _ := lib.Marshal(tx)
		txs = append(txs, bz)
	}
	// hand the whole set to the mempool at once
	if e := ch.Nodes[0].C.Mempool.HandleTransactions(txs...); e != nil {
		t.Fatalf("%s: mempool: %v", name, e)
	}
	rec, err := ch.Step(0, nil, nil)
	if err != nil {
		fail("honest-proposal-rejected", h, map[string]any{"error": err.Error(), "which": "big block", "full": full})
		return
	}
	included := len(rec.Block.Transactions)
	run.Count("big_block_transactions_included", int64(included))
	if !full && included <= 5000 {
		run.Inconclusive("%s: the big block holds only %d transactions (need > 5000)", name, included)
		return
	}
	if full {
		sum := 0
		for _, tx := range rec.Block.Transactions {
			sum += len(tx)
		}
		run.Count("full_block_transaction_bytes", int64(sum))
		if included >= nTx || included < 400 || uint64(sum)+400 < blockSize-lib.MaxBlockHeaderSize {
			run.Inconclusive("%s: the block is not a full one: %d of %d transactions, %d bytes of %d", name, included, nTx, sum, blockSize-lib.MaxBlockHeaderSize)
			return
		}
	}
	if _, err := ch.Step(1, nil, nil); err != nil {
		t.Fatalf("%s: block after the big one: %v", name, err)
	}
	fresh, err := ch.AddNode()
	if err != nil {
		t.Fatalf("%s: fresh node: %v", name, err)
	}
	for hh := uint64(1); hh < w.Height(); hh++ {
		qc, e := ch.Archive(int(hh%2), hh)
		if e != nil || qc == nil {
			fail("archive-cannot-serve-height", hh, map[string]any{"error": fmt.Sprint(e)})
			return
		}
		blk := new(lib.Block)
		if e := lib.Unmarshal(qc.Block, blk); e != nil || blk.BlockHeader == nil {
			fail("archive-block-undecodable", hh, map[string]any{"error": fmt.Sprint(e)})
			return
		}
		if uint64(len(blk.Transactions)) != blk.BlockHeader.NumTxs {
			fail("archive-serves-truncated-block", hh, map[string]any{"header_num_txs": blk.BlockHeader.NumTxs, "transactions_served": len(blk.Transactions)})
			return
		}
		if e := ch.Deliver(fresh, qc, nil, hh%2 == 0); e != nil {
			fail("archive-block-rejected-by-fresh-node path=big-block", hh, map[string]any{"error": e.Error(), "transactions_served": len(blk.Transactions)})
			return
		}
		run.Count("archive_heights_served", 1)
	}
	run.Eval(1)
	run.Distinct(fmt.Sprintf("%s|%d", name, included))
}

func TestCheck(t *testing.T) {
	run := core.Start(t, "C11", "exploration",
		"seeded chains on two full nodes with alternating proposers: the mempool gets 4-17 generated transactions per block (valid, failing, oversize with a 2.5 kB block limit, "+
			"exact duplicates and same-content re-encodings); every proposal must be accepted by the peer; afterwards every height is served from an archive (LoadCertificate) and "+
			"re-validated on two fresh nodes (full certificate checks / sync path) with hash, state-root and final state-dump equality; distinct_nontrivial = distinct completed chains")
	defer run.Finish()
	run.MinDistinct = 2
	run.Assume("both nodes are in the same governance-vote mode (approve list); process-wide caches are purged when control passes between nodes of one test binary")
	n := core.Pick(6, 120)
	run.Sharded(n+1, func(i int) {
		if i == n {
			if name := "bigblock/0"; run.Want(name) {
				bigBlock(t, run, name, run.Rand(name), 5003, 8<<20, false)
			}
			if name := "fullblock/0"; run.Want(name) {
				bigBlock(t, run, name, run.Rand(name), 1000, lib.MaxBlockHeaderSize+200_000, true)
			}
			return
		}
		name := fmt.Sprintf("chain/%d", i)
		if run.Want(name) {
			runCase(t, run, name, i, run.Rand(name))
		}
	})
}
