package c17

// The attacker's protocol stack. An interposer has to *speak* canopy's handshake and frame format, but it
// cannot use p2p.EncryptedConn for that (its state is unexported and it refuses to deviate), so this file
// is the attacker's own codec built from canopy's exported primitives (crypto.SharedSecret,
// crypto.HKDFSecretsAndChallenge, lib.Marshal, the frame-size constants). It is a TOOL of the adversary,
// never an oracle: whether it speaks the protocol correctly is itself observed (control strategy
// "ctl-attacker-own-identity": the real NewHandshake must accept it when it behaves honestly, and the
// stream monitor exchanges data with it in both directions).

import (
	"crypto/cipher"
	"encoding/binary"
	"errors"
	"fmt"
	"io"
	"net"

	"github.com/canopy-network/canopy/lib"
	"github.com/canopy-network/canopy/lib/crypto"
	"google.golang.org/protobuf/proto"
)

type atkSession struct {
	c         net.Conn
	eph       crypto.PrivateKeyI // ed25519 ephemeral private key (nil when a bad point is presented)
	ephPub    []byte             // bytes presented as our ephemeral public key
	peerEph   []byte
	send      cipher.AEAD
	recv      cipher.AEAD
	sn, rn    [crypto.AEADNonceSize]byte
	challenge [crypto.ChallengeSize]byte
	unread    []byte
	lastFrame []byte // last decrypted plaintext frame (whole 1028 bytes), for padding inspection
	peerSig   *lib.Signature
	peerMeta  *lib.PeerMeta
}

func newAtk(c net.Conn) *atkSession {
	k, err := crypto.NewEd25519PrivateKey()
	if err != nil {
		panic(err)
	}
	return &atkSession{c: c, eph: k, ephPub: k.PublicKey().Bytes()}
}

func writeLenPrefixed(w io.Writer, bz []byte) error {
	b := make([]byte, 4, 4+len(bz))
	binary.BigEndian.PutUint32(b, uint32(len(bz)))
	_, err := w.Write(append(b, bz...))
	return err
}

func readLenPrefixed(r io.Reader) ([]byte, error) {
	var lb [4]byte
	if _, err := io.ReadFull(r, lb[:]); err != nil {
		return nil, err
	}
	n := binary.BigEndian.Uint32(lb[:])
	if n > 1<<20 {
		return nil, fmt.Errorf("attacker: absurd length %d", n)
	}
	b := make([]byte, n)
	if _, err := io.ReadFull(r, b); err != nil {
		return nil, err
	}
	return b, nil
}

// ---- plain phase ----

func (a *atkSession) sendEph() error {
	bz, e := lib.Marshal(&crypto.ProtoPubKey{Pubkey: a.ephPub})
	if e != nil {
		return e
	}
	return writeLenPrefixed(a.c, bz)
}

func (a *atkSession) recvEph() error {
	bz, err := readLenPrefixed(a.c)
	if err != nil {
		return err
	}
	k := new(crypto.ProtoPubKey)
	if e := lib.Unmarshal(bz, k); e != nil {
		return e
	}
	a.peerEph = k.Pubkey
	return nil
}

// derive computes the session keys. secret == nil: the real Diffie-Hellman secret from our ephemeral key;
// otherwise the given bytes (what an attacker who forced a degenerate exchange would assume).
func (a *atkSession) derive(secret []byte) error {
	if secret == nil {
		if a.eph == nil {
			return errors.New("attacker: no ephemeral private key")
		}
		s, err := crypto.SharedSecret(a.peerEph, a.eph.Bytes())
		if err != nil {
			return err
		}
		secret = s
	}
	snd, rcv, ch, err := crypto.HKDFSecretsAndChallenge(secret, a.ephPub, a.peerEph)
	if err != nil {
		return err
	}
	a.send, a.recv, a.challenge = snd, rcv, *ch
	return nil
}

// ---- frame codec ----

func bumpNonce(n *[crypto.AEADNonceSize]byte) {
	binary.LittleEndian.PutUint64(n[4:], binary.LittleEndian.Uint64(n[4:])+1)
}

// sealFrame builds one encrypted frame with an arbitrary length header (hdr may lie) and payload.
func (a *atkSession) sealFrame(hdr uint32, payload []byte, padFill byte) []byte {
	pt := make([]byte, crypto.FrameSize)
	for i := range pt {
		pt[i] = padFill
	}
	binary.LittleEndian.PutUint32(pt, hdr)
	copy(pt[crypto.LengthHeaderSize:], payload)
	ct := a.send.Seal(nil, a.sn[:], pt, nil)
	bumpNonce(&a.sn)
	return ct
}

func (a *atkSession) Write(data []byte) (int, error) {
	n := 0
	for len(data) > 0 {
		chunk := data
		if len(chunk) > crypto.MaxDataSize {
			chunk = data[:crypto.MaxDataSize]
		}
		data = data[len(chunk):]
		if _, err := a.c.Write(a.sealFrame(uint32(len(chunk)), chunk, 0)); err != nil {
			return n, err
		}
		n += len(chunk)
	}
	return n, nil
}

func (a *atkSession) readFrame() ([]byte, error) {
	ct := make([]byte, crypto.EncryptedFrameSize)
	if _, err := io.ReadFull(a.c, ct); err != nil {
		return nil, err
	}
	pt, err := a.recv.Open(nil, a.rn[:], ct, nil)
	if err != nil {
		return nil, fmt.Errorf("attacker: cannot decrypt: %w", err)
	}
	bumpNonce(&a.rn)
	a.lastFrame = pt
	n := binary.LittleEndian.Uint32(pt)
	if n > crypto.MaxDataSize {
		return nil, fmt.Errorf("attacker: bad length header %d", n)
	}
	return pt[crypto.LengthHeaderSize : crypto.LengthHeaderSize+n], nil
}

func (a *atkSession) Read(p []byte) (int, error) {
	for len(a.unread) == 0 {
		f, err := a.readFrame()
		if err != nil {
			return 0, err
		}
		a.unread = f
	}
	n := copy(p, a.unread)
	a.unread = a.unread[n:]
	return n, nil
}

// ---- encrypted handshake messages ----

func (a *atkSession) sendMsg(m proto.Message) error {
	bz, e := lib.Marshal(m)
	if e != nil {
		return e
	}
	return writeLenPrefixed(a, bz)
}

func (a *atkSession) recvMsg(m proto.Message) error {
	bz, err := readLenPrefixed(a)
	if err != nil {
		return err
	}
	if e := lib.Unmarshal(bz, m); e != nil {
		return e
	}
	return nil
}

func (a *atkSession) recvSig() (*lib.Signature, error) {
	s := new(lib.Signature)
	return s, a.recvMsg(s)
}

func (a *atkSession) recvMeta() (*lib.PeerMeta, error) {
	m := new(lib.PeerMeta)
	return m, a.recvMsg(m)
}

// honestSig / honestMeta: what an honest holder of key would send.
func (a *atkSession) honestSig(key crypto.PrivateKeyI) *lib.Signature {
	return &lib.Signature{PublicKey: key.PublicKey().Bytes(), Signature: key.Sign(a.challenge[:])}
}

func signedMeta(network, chain uint64, key crypto.PrivateKeyI) *lib.PeerMeta {
	return (&lib.PeerMeta{NetworkId: network, ChainId: chain}).Sign(key)
}

// honestHandshake: the attacker codec behaving exactly like an honest holder of key.
func (a *atkSession) honestHandshake(key crypto.PrivateKeyI, network, chain uint64) error {
	if err := a.sendEph(); err != nil {
		return err
	}
	if err := a.recvEph(); err != nil {
		return err
	}
	if err := a.derive(nil); err != nil {
		return err
	}
	return a.finishHandshake(a.honestSig(key), signedMeta(network, chain, key))
}

// finishHandshake sends the given (possibly forged) signature and meta and collects the peer's.
func (a *atkSession) finishHandshake(sig *lib.Signature, meta *lib.PeerMeta) error {
	if err := a.sendMsg(sig); err != nil {
		return err
	}
	ps, err := a.recvSig()
	if err != nil {
		return err
	}
	a.peerSig = ps
	if err := a.sendMsg(meta); err != nil {
		return err
	}
	pm, err := a.recvMeta()
	if err != nil {
		return err
	}
	a.peerMeta = pm
	return nil
}
