package c17

// In-memory transport for the C17 monitors.
//
// A duplex connection is two `link`s (one per direction). A link is a byte queue between exactly one
// writer endpoint and one reader endpoint with
//   - an optional capacity (0 = unbounded; small capacities give net.Pipe-like back-pressure),
//   - a delivery segmentation that is a pure function of the stream offset (the reader never gets more
//     than "the rest of the current segment" in one Read - models arbitrary TCP segment boundaries,
//     down to byte-by-byte),
//   - real read/write deadlines (canopy's handshake sets them),
//   - a tape of everything ever written (capture of whole frames),
//   - a gate ("hold") that lets the harness park the written bytes, rewrite them (tamper) and release.

import (
	"io"
	"math/rand"
	"net"
	"os"
	"sync"
	"sync/atomic"
	"time"
)

// link.fires counts deadline expirations; a case on whose links it moved was touched by wall-clock and is
// never judged (it is retried, then reported inconclusive).

type segmenter func() int // size of the next delivery segment (>=1); nil = unlimited

type link struct {
	mu      sync.Mutex
	cond    *sync.Cond
	buf     []byte
	capN    int
	wclosed bool
	rclosed bool
	hold    bool
	seg     segmenter
	segLeft int
	written int64
	tape    []byte
	tapeOn  bool
	rdl     time.Time
	wdl     time.Time
	rtimer  *time.Timer
	wtimer  *time.Timer
	fires   atomic.Int64
}

func newLink(capN int, seg segmenter, tape bool) *link {
	l := &link{capN: capN, seg: seg, tapeOn: tape}
	l.cond = sync.NewCond(&l.mu)
	return l
}

func (l *link) wake() { l.mu.Lock(); l.cond.Broadcast(); l.mu.Unlock() }

func (l *link) read(p []byte) (int, error) {
	l.mu.Lock()
	defer l.mu.Unlock()
	if len(p) == 0 {
		return 0, nil
	}
	for {
		if l.rclosed {
			return 0, io.ErrClosedPipe
		}
		if !l.hold {
			if len(l.buf) > 0 {
				break
			}
			if l.wclosed {
				return 0, io.EOF
			}
		}
		if !l.rdl.IsZero() && !time.Now().Before(l.rdl) {
			l.fires.Add(1)
			return 0, os.ErrDeadlineExceeded
		}
		l.cond.Wait()
	}
	n := len(p)
	if n > len(l.buf) {
		n = len(l.buf)
	}
	if l.seg != nil {
		if l.segLeft <= 0 {
			l.segLeft = l.seg()
			if l.segLeft < 1 {
				l.segLeft = 1
			}
		}
		if n > l.segLeft {
			n = l.segLeft
		}
		l.segLeft -= n
	}
	copy(p, l.buf[:n])
	l.buf = l.buf[n:]
	if len(l.buf) == 0 {
		l.buf = nil
	}
	l.cond.Broadcast()
	return n, nil
}

func (l *link) write(p []byte) (int, error) {
	l.mu.Lock()
	defer l.mu.Unlock()
	done := 0
	for {
		if l.wclosed || l.rclosed {
			return done, io.ErrClosedPipe
		}
		if done == len(p) {
			return done, nil
		}
		space := len(p) - done
		if l.capN > 0 {
			if free := l.capN - len(l.buf); free < space {
				space = free
			}
		}
		if space > 0 {
			l.buf = append(l.buf, p[done:done+space]...)
			if l.tapeOn {
				l.tape = append(l.tape, p[done:done+space]...)
			}
			l.written += int64(space)
			done += space
			l.cond.Broadcast()
			continue
		}
		if !l.wdl.IsZero() && !time.Now().Before(l.wdl) {
			l.fires.Add(1)
			return done, os.ErrDeadlineExceeded
		}
		l.cond.Wait()
	}
}

func (l *link) closeWrite() { l.mu.Lock(); l.wclosed = true; l.cond.Broadcast(); l.mu.Unlock() }
func (l *link) closeRead() {
	l.mu.Lock()
	l.rclosed = true
	l.buf = nil
	l.cond.Broadcast()
	l.mu.Unlock()
}

func (l *link) setDeadline(read bool, t time.Time) {
	l.mu.Lock()
	defer l.mu.Unlock()
	tp, dl := &l.wtimer, &l.wdl
	if read {
		tp, dl = &l.rtimer, &l.rdl
	}
	if *tp != nil {
		(*tp).Stop()
		*tp = nil
	}
	*dl = t
	if !t.IsZero() {
		d := time.Until(t)
		if d < 0 {
			d = 0
		}
		*tp = time.AfterFunc(d+time.Millisecond, l.wake)
	}
	l.cond.Broadcast()
}

// ---- harness-side controls ----

func (l *link) setHold(h bool) { l.mu.Lock(); l.hold = h; l.cond.Broadcast(); l.mu.Unlock() }

// pending returns how many bytes are queued; takePending removes and returns them.
func (l *link) pending() int { l.mu.Lock(); defer l.mu.Unlock(); return len(l.buf) }
func (l *link) takePending() []byte {
	l.mu.Lock()
	defer l.mu.Unlock()
	b := append([]byte(nil), l.buf...)
	l.buf = nil
	l.cond.Broadcast()
	return b
}

// inject queues bytes as if the writer had written them (not taped, not counted).
func (l *link) inject(b []byte) {
	l.mu.Lock()
	l.buf = append(l.buf, b...)
	l.cond.Broadcast()
	l.mu.Unlock()
}
func (l *link) totalWritten() int64 { l.mu.Lock(); defer l.mu.Unlock(); return l.written }
func (l *link) tapeCopy() []byte {
	l.mu.Lock()
	defer l.mu.Unlock()
	return append([]byte(nil), l.tape...)
}

// ---- net.Conn endpoint ----

type pipeAddr string

func (a pipeAddr) Network() string { return "verif-pipe" }
func (a pipeAddr) String() string  { return string(a) }

type pconn struct {
	in, out       *link
	local, remote pipeAddr
}

var _ net.Conn = (*pconn)(nil)

// fired reports how many deadlines expired on this connection (either direction).
func (c *pconn) fired() int64 { return c.in.fires.Load() + c.out.fires.Load() }

func (c *pconn) Read(p []byte) (int, error)  { return c.in.read(p) }
func (c *pconn) Write(p []byte) (int, error) { return c.out.write(p) }
func (c *pconn) Close() error                { c.out.closeWrite(); c.in.closeRead(); return nil }
func (c *pconn) CloseWrite()                 { c.out.closeWrite() }
func (c *pconn) LocalAddr() net.Addr         { return c.local }
func (c *pconn) RemoteAddr() net.Addr        { return c.remote }
func (c *pconn) SetDeadline(t time.Time) error {
	c.in.setDeadline(true, t)
	c.out.setDeadline(false, t)
	return nil
}
func (c *pconn) SetReadDeadline(t time.Time) error  { c.in.setDeadline(true, t); return nil }
func (c *pconn) SetWriteDeadline(t time.Time) error { c.out.setDeadline(false, t); return nil }

// pipeOpts describes one duplex connection x<->y.
type pipeOpts struct {
	CapXY, CapYX int    // capacities (0 = unbounded)
	SegXY, SegYX string // segmentation mode names, see mkSeg
	Tape         bool
}

// segModes are the delivery segmentations; sizes straddle the 1044-byte encrypted frame.
var segModes = []string{"whole", "byte", "small", "rand", "frame-1", "frame+1", "frame", "mixed"}

func mkSeg(mode string, rng *rand.Rand) segmenter {
	switch mode {
	case "", "whole":
		return nil
	case "byte":
		return func() int { return 1 }
	case "small":
		return func() int { return 1 + rng.Intn(16) }
	case "rand":
		return func() int { return 1 + rng.Intn(2500) }
	case "frame-1":
		return func() int { return 1043 }
	case "frame+1":
		return func() int { return 1045 }
	case "frame":
		return func() int { return 1044 }
	default: // mixed
		return func() int {
			switch rng.Intn(6) {
			case 0:
				return 1
			case 1:
				return 1 + rng.Intn(8)
			case 2:
				return 1040 + rng.Intn(9)
			case 3:
				return 4 // the 4-byte length prefixes
			default:
				return 1 + rng.Intn(5000)
			}
		}
	}
}

// newPipe builds a duplex connection; each direction gets its own PRNG derived from rng.
func newPipe(nameX, nameY string, o pipeOpts, rng *rand.Rand) (x, y *pconn) {
	r1, r2 := rand.New(rand.NewSource(rng.Int63())), rand.New(rand.NewSource(rng.Int63()))
	xy := newLink(o.CapXY, mkSeg(o.SegXY, r1), o.Tape)
	yx := newLink(o.CapYX, mkSeg(o.SegYX, r2), o.Tape)
	x = &pconn{in: yx, out: xy, local: pipeAddr(nameX), remote: pipeAddr(nameY)}
	y = &pconn{in: xy, out: yx, local: pipeAddr(nameY), remote: pipeAddr(nameX)}
	return
}
