package c17

import (
	"crypto/ed25519"
	"fmt"
	"math/rand"
	"os"
	"regexp"
	"sync"
	"time"

	"github.com/canopy-network/canopy/lib"
	"github.com/canopy-network/canopy/lib/crypto"
	"github.com/canopy-network/canopy/p2p"
	"verif/core"
)

// ---- identities ----

type ident struct {
	Name string
	Kind string
	Key  crypto.PrivateKeyI
	Pub  []byte
}

var keyKinds = []string{"ed25519", "bls12381", "secp256k1", "ethsecp256k1"}

// keyPool: a few identity keys of every supported type, generated once (which key plays which role is seeded).
var (
	keyPoolOnce sync.Once
	keyPool     map[string][]*ident
)

func pool() map[string][]*ident {
	keyPoolOnce.Do(func() {
		keyPool = map[string][]*ident{}
		r := core.NewRand(core.Seed(), "C17/keys")
		for _, kind := range keyKinds {
			for i := 0; i < 6; i++ {
				var k crypto.PrivateKeyI
				var err error
				switch kind {
				case "ed25519":
					seed := make([]byte, 32)
					r.Read(seed)
					k = crypto.BytesToED25519Private(ed25519.NewKeyFromSeed(seed))
				case "bls12381":
					k, err = crypto.NewBLS12381PrivateKey()
				case "secp256k1":
					k, err = crypto.NewSECP256K1PrivateKey()
				default:
					k, err = crypto.NewETHSECP256K1PrivateKey()
				}
				if err != nil {
					panic(err)
				}
				keyPool[kind] = append(keyPool[kind], &ident{Name: fmt.Sprintf("%s#%d", kind, i), Kind: kind, Key: k, Pub: k.PublicKey().Bytes()})
			}
		}
	})
	return keyPool
}

// pickIdents returns n distinct identities; kinds are mixed (BLS is what a node really uses, so it is over-weighted).
func pickIdents(rng *rand.Rand, n int) []*ident {
	p := pool()
	seen := map[string]bool{}
	var out []*ident
	for len(out) < n {
		kind := keyKinds[rng.Intn(len(keyKinds))]
		if rng.Intn(3) == 0 {
			kind = "bls12381"
		}
		id := p[kind][rng.Intn(len(p[kind]))]
		if !seen[id.Name] {
			seen[id.Name] = true
			out = append(out, id)
		}
	}
	return out
}

// ---- running the real handshake ----

type hsOut struct {
	EC   *p2p.EncryptedConn
	Err  lib.ErrorI
	Done chan struct{}
}

func (h *hsOut) ok() bool { return h.Err == nil && h.EC != nil && h.EC.Address != nil }

func (h *hsOut) errString() string {
	if h.Err == nil {
		return ""
	}
	return h.Err.Error()
}

// startHonest runs canopy's NewHandshake for an honest endpoint; a failing endpoint hangs up (as the node
// does), so that nobody ever waits for the 1 s internal deadline of the other side.
func startHonest(c *pconn, network, chain uint64, id *ident) *hsOut {
	h := &hsOut{Done: make(chan struct{})}
	go func() {
		defer close(h.Done)
		defer func() {
			if r := recover(); r != nil {
				h.Err = lib.NewError(0, "verif", fmt.Sprintf("PANIC in NewHandshake: %v", r))
				h.EC = nil
				c.Close()
			}
		}()
		h.EC, h.Err = p2p.NewHandshake(c, &lib.PeerMeta{NetworkId: network, ChainId: chain}, id.Key)
		if h.Err != nil {
			c.Close()
		}
	}()
	return h
}

// wait waits for the given handshakes with a generous watchdog; false = watchdog fired.
func waitAll(d time.Duration, hs ...*hsOut) bool {
	t := time.NewTimer(d)
	defer t.Stop()
	for _, h := range hs {
		select {
		case <-h.Done:
		case <-t.C:
			return false
		}
	}
	return true
}

const caseWatchdog = 120 * time.Second

// honestPair: two honest endpoints connected directly.
type honestPair struct {
	A, B   *ident
	CA, CB *pconn
	HA, HB *hsOut
}

// connectHonest performs an honest handshake over a fresh pipe. It returns timing=true when a deadline fired
// (the attempt is then not judged by anybody).
func connectHonest(a, b *ident, o pipeOpts, rng *rand.Rand, netA, chainA, netB, chainB uint64) (p *honestPair, timing bool, watchdog bool) {
	ca, cb := newPipe("A:"+a.Name, "B:"+b.Name, o, rng)
	p = &honestPair{A: a, B: b, CA: ca, CB: cb}
	p.HA = startHonest(ca, netA, chainA, a)
	p.HB = startHonest(cb, netB, chainB, b)
	if !waitAll(caseWatchdog, p.HA, p.HB) {
		ca.Close()
		cb.Close()
		return p, false, true
	}
	return p, ca.fired() > 0, false
}

func (p *honestPair) close() { p.CA.Close(); p.CB.Close() }

// frameLens returns the plaintext length carried by each frame that Write(data of size s) must produce.
func frameLens(s int) []int {
	var out []int
	for s > 0 {
		if s >= crypto.MaxDataSize {
			out = append(out, crypto.MaxDataSize)
			s -= crypto.MaxDataSize
		} else {
			out = append(out, s)
			s = 0
		}
	}
	return out
}

func firstDiff(a, b []byte) int {
	n := len(a)
	if len(b) < n {
		n = len(b)
	}
	for i := 0; i < n; i++ {
		if a[i] != b[i] {
			return i
		}
	}
	if len(a) != len(b) {
		return n
	}
	return -1
}

// notJudged records why a case produced no verdict: a fired deadline is wall-clock (counted, the case is simply not
// judged); anything else means the harness itself did not get where it wanted and makes the run inconclusive.
func notJudged(run *core.Run, name string, fired int64, format string, a ...any) {
	if fired > 0 {
		run.Count("cases_not_judged_deadline_fired", 1)
		if os.Getenv("VERIF_DEBUG") != "" {
			fmt.Fprintf(os.Stderr, "DEADLINE %s: %s\n", name, fmt.Sprintf(format, a...))
		}
		return
	}
	run.Inconclusive("%s: %s", name, fmt.Sprintf(format, a...))
}

// cn turns a case name into the anchored regular expression that re-selects exactly that case on replay.
func cn(name string) string { return "^" + regexp.QuoteMeta(name) + "$" }
