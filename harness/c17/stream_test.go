package c17

// Monitor 1 - stream equality. Two honest endpoints (real NewHandshake, real EncryptedConn) over a pipe
// with hostile segmentation and back-pressure; per direction one writer goroutine and one reader goroutine
// run concurrently; the byte stream read must equal the byte stream written.

import (
	"bytes"
	"fmt"
	"io"
	"math/rand"
	"os"
	"sync"
	"time"

	"verif/core"
)

// sizes around MaxDataSize=1024, FrameSize=1028, EncryptedFrameSize=1044 and their multiples
var (
	writeSizesBase = []int{0, 1, 1023, 1024, 1025, 2047, 2048, 4096, -1} // -1 = random <= 64 KiB
	readSizesBase  = []int{1, 7, 1023, 1024, 1025, 4096}
	writeSizesEdge = []int{2, 3, 4, 5, 1020, 1021, 1022, 1026, 1027, 1028, 1029, 1043, 1044, 1045, 2049, 3071, 3072, 3073, 4095, 4097, 8192}
	readSizesEdge  = []int{2, 3, 4, 5, 1020, 1022, 1026, 1027, 1028, 1029, 1043, 1044, 1045, 2048, 65536}
	pipeCaps       = []int{0, 0, 0, 1, 7, 512, 1043, 1044, 1045, 4096}
)

type dirPlan struct {
	Writes   []int  `json:"writes"`
	Reads    []int  `json:"reads"` // read buffer sizes, cycled
	Seg      string `json:"seg"`
	Cap      int    `json:"cap"`
	Total    int    `json:"total"`
	dataSeed int64
}

type dirResult struct {
	want, got []byte
	rerr      error
	werrs     []string
	reads     int
	// decided: the reader saw a delivered byte that differs from the written byte at that offset, or more bytes than were
	// ever written - the verdict for this direction is final; abort() then closes the link so that the writer (blocked on a
	// reader that stopped) returns instead of running into the watchdog
	decided bool
	abort   func()
}

func planDir(rng *rand.Rand, i, k int) dirPlan {
	var p dirPlan
	nW, nR := len(writeSizesBase), len(readSizesBase)
	rsz := func(s int) int {
		if s == -1 {
			return rng.Intn(64*1024 + 1)
		}
		return s
	}
	budget := 96 * 1024
	if i < nW*nR { // the full matrix of the property text, write size x read size, fixed per direction
		idx := (i + k*17) % (nW * nR)
		w, r := writeSizesBase[idx%nW], readSizesBase[idx/nW]
		n := 2 + rng.Intn(5)
		if w == -1 {
			n = 2
		}
		for j := 0; j < n; j++ {
			p.Writes = append(p.Writes, rsz(w))
		}
		if w == 0 { // a zero-length write must be a no-op inside a stream: surround it with data
			p.Writes = []int{0, 1 + rng.Intn(2000), 0, 0, 1 + rng.Intn(2000), 0}
		}
		p.Reads = []int{r}
	} else { // mixed sequences
		n := 1 + rng.Intn(12)
		for j := 0; j < n; j++ {
			var s int
			switch rng.Intn(4) {
			case 0:
				s = rsz(writeSizesBase[rng.Intn(nW)])
			case 1:
				s = writeSizesEdge[rng.Intn(len(writeSizesEdge))]
			case 2:
				s = 1024*(1+rng.Intn(4)) + rng.Intn(5) - 2
			default:
				s = rng.Intn(3000)
			}
			p.Writes = append(p.Writes, s)
		}
		m := 1 + rng.Intn(4)
		for j := 0; j < m; j++ {
			if rng.Intn(2) == 0 {
				p.Reads = append(p.Reads, readSizesBase[rng.Intn(nR)])
			} else {
				p.Reads = append(p.Reads, readSizesEdge[rng.Intn(len(readSizesEdge))])
			}
		}
	}
	for j, s := range p.Writes { // keep one case bounded
		if p.Total+s > budget {
			p.Writes = p.Writes[:j]
			break
		}
		p.Total += s
	}
	p.Seg = segModes[rng.Intn(len(segModes))]
	p.Cap = pipeCaps[rng.Intn(len(pipeCaps))]
	if p.Reads[0] <= 7 && p.Total > 40*1024 && (p.Cap > 0 && p.Cap < 64 || p.Seg == "byte") {
		p.Cap = 0 // tiny reads x tiny capacity x long stream only burns scheduler time
	}
	p.dataSeed = rng.Int63()
	return p
}

// pump writes plan.Writes through w and reads everything through r until an error, concurrently.
func pump(w io.Writer, r io.Reader, closeWrite func(), plan dirPlan, wg *sync.WaitGroup, out *dirResult) {
	drng := rand.New(rand.NewSource(plan.dataSeed))
	out.want = make([]byte, plan.Total)
	drng.Read(out.want)
	wg.Add(2)
	go func() {
		defer wg.Done()
		defer closeWrite()
		defer func() {
			if p := recover(); p != nil {
				out.werrs = append(out.werrs, fmt.Sprintf("PANIC in Write: %v", p))
			}
		}()
		off := 0
		for _, s := range plan.Writes {
			n, err := w.Write(out.want[off : off+s])
			if err != nil || n != s {
				out.werrs = append(out.werrs, fmt.Sprintf("Write(%d bytes at offset %d) = (%d, %v)", s, off, n, err))
				return
			}
			off += s
		}
	}()
	go func() {
		defer wg.Done()
		defer func() {
			if p := recover(); p != nil {
				out.rerr = fmt.Errorf("PANIC in Read: %v", p)
			}
		}()
		buf := make([]byte, 65536)
		for i := 0; ; i++ {
			sz := plan.Reads[i%len(plan.Reads)]
			n, err := r.Read(buf[:sz])
			out.reads++
			if n < 0 || n > sz {
				out.rerr = fmt.Errorf("Read returned n=%d for a %d-byte buffer", n, sz)
				return
			}
			at := len(out.got)
			out.got = append(out.got, buf[:n]...)
			if len(out.got) > len(out.want) || !bytes.Equal(out.got[at:], out.want[at:len(out.got)]) {
				out.decided = true
				if err == nil {
					err = fmt.Errorf("reader stopped: delivered bytes differ from the written bytes")
				}
				out.rerr = err
				if out.abort != nil {
					out.abort()
				}
				return
			}
			if err != nil {
				out.rerr = err
				return
			}
		}
	}()
}

func judgeStream(run *core.Run, name, dir string, plan dirPlan, res *dirResult, extra map[string]any) bool {
	reason := ""
	d := firstDiff(res.want, res.got)
	switch {
	case len(res.werrs) > 0 && !res.decided:
		reason = "write-failed"
	case d >= 0 && d < len(res.got) && d < len(res.want):
		reason = "different-byte"
	case len(res.got) > len(res.want):
		reason = "extra-bytes"
	case len(res.got) < len(res.want):
		reason = "lost-bytes"
	case res.rerr != io.EOF:
		reason = "error-instead-of-eof"
	}
	run.Count("stream_bytes_compared", int64(len(res.got)))
	run.Count("stream_reads", int64(res.reads))
	if reason == "" {
		return true
	}
	w := map[string]any{"direction": dir, "plan": plan, "written": len(res.want), "delivered": len(res.got),
		"first_difference_at": d, "read_error": fmt.Sprint(res.rerr), "write_errors": res.werrs}
	if d >= 0 {
		lo, hiW, hiG := d, min(d+16, len(res.want)), min(d+16, len(res.got))
		w["want_at_diff"] = core.Hex(res.want[lo:hiW])
		if lo <= hiG {
			w["got_at_diff"] = core.Hex(res.got[lo:hiG])
		}
		w["diff_offset_mod_1024"] = d % 1024
	}
	for k, v := range extra {
		w[k] = v
	}
	run.Violation("stream-mismatch reason="+reason, cn(name), w)
	return false
}

// streamCase: honest A <-> honest B.
func streamCase(run *core.Run, name string, i int) {
	rng := run.Rand(name)
	ids := pickIdents(rng, 2)
	pa, pb := planDir(rng, i, 0), planDir(rng, i, 1)
	o := pipeOpts{CapXY: pa.Cap, CapYX: pb.Cap, SegXY: pa.Seg, SegYX: pb.Seg}
	var pair *honestPair
	for attempt := 0; ; attempt++ {
		var timing, wd bool
		pair, timing, wd = connectHonest(ids[0], ids[1], o, rng, 1, 1, 1, 1)
		if wd {
			run.Inconclusive("%s: watchdog during honest handshake", name)
			return
		}
		if !timing {
			break
		}
		pair.close()
		run.Count("timing_retries", 1)
		if os.Getenv("VERIF_DEBUG") != "" {
			fmt.Fprintf(os.Stderr, "DEADLINE-RETRY %s: %q %q\n", name, pair.HA.errString(), pair.HB.errString())
		}
		if attempt == 7 {
			run.Inconclusive("%s: honest handshake hit its internal deadline 8 times", name)
			return
		}
	}
	defer pair.close()
	if !checkHonestOutcome(run, name, "stream", pair, map[string]any{"pipe": o}) {
		return
	}
	var wg sync.WaitGroup
	var ab, ba dirResult
	ab.abort, ba.abort = pair.close, pair.close
	pump(pair.HA.EC, pair.HB.EC, pair.CA.CloseWrite, pa, &wg, &ab)
	pump(pair.HB.EC, pair.HA.EC, pair.CB.CloseWrite, pb, &wg, &ba)
	if !waitWG(&wg, caseWatchdog) {
		pair.close()
		run.Inconclusive("%s: watchdog (reader or writer never returned); plans %+v %+v", name, pa, pb)
		return
	}
	run.Eval(1)
	// a direction whose verdict was final closed the link: the other direction is then cut short and not judged
	ok1 := (ba.decided && !ab.decided) || judgeStream(run, name, "A->B", pa, &ab, map[string]any{"keys": []string{ids[0].Name, ids[1].Name}})
	ok2 := (ab.decided && !ba.decided) || judgeStream(run, name, "B->A", pb, &ba, map[string]any{"keys": []string{ids[0].Name, ids[1].Name}})
	ok1, ok2 = ok1 && !ba.decided, ok2 && !ab.decided
	if ok1 && ok2 && pa.Total+pb.Total > 0 {
		run.Distinct(fmt.Sprintf("S/%v/%v/%s/%d|%v/%v/%s/%d", pa.Writes, pa.Reads, pa.Seg, pa.Cap, pb.Writes, pb.Reads, pb.Seg, pb.Cap))
	}
	if i%197 == 3 {
		run.Sample(map[string]any{"monitor": "stream", "case": name, "A->B": pa, "B->A": pb})
	}
}

// checkHonestOutcome: an honest pair on the same network/chain. A failure that is not a deadline is a
// deterministic defect of the transport (the monitors would be vacuous otherwise), reported under its own kind.
func checkHonestOutcome(run *core.Run, name, monitor string, pair *honestPair, extra map[string]any) bool {
	w := map[string]any{"monitor": monitor, "A": pair.A.Name, "B": pair.B.Name, "errA": pair.HA.errString(), "errB": pair.HB.errString()}
	for k, v := range extra {
		w[k] = v
	}
	if !pair.HA.ok() || !pair.HB.ok() {
		run.Violation("honest-handshake-failed", cn(name), w)
		return false
	}
	run.Count("honest_handshakes_ok", 1)
	if !bytes.Equal(pair.HA.EC.Address.PublicKey, pair.B.Pub) || !bytes.Equal(pair.HB.EC.Address.PublicKey, pair.A.Pub) {
		w["A_sees"], w["B_sees"] = core.Hex(pair.HA.EC.Address.PublicKey), core.Hex(pair.HB.EC.Address.PublicKey)
		run.Violation("handshake-accepted strategy=honest-pair reason=wrong-identity", cn(name), w)
		return false
	}
	return true
}

func waitWG(wg *sync.WaitGroup, d time.Duration) bool {
	ch := make(chan struct{})
	go func() { wg.Wait(); close(ch) }()
	select {
	case <-ch:
		return true
	case <-time.After(d):
		return false
	}
}

// streamAtkCase: honest A <-> attacker-codec peer M behaving honestly. Validates the attacker's codec against
// the real implementation in both directions (so that its failures elsewhere mean something) and is one more
// independent implementation the real EncryptedConn must interoperate with byte for byte.
func streamAtkCase(run *core.Run, name string, i int) {
	rng := run.Rand(name)
	ids := pickIdents(rng, 2)
	pa, pb := planDir(rng, 1000+i, 0), planDir(rng, 1000+i, 1)
	o := pipeOpts{CapXY: pa.Cap, CapYX: pb.Cap, SegXY: pa.Seg, SegYX: pb.Seg}
	ca, cm := newPipe("A:"+ids[0].Name, "M:"+ids[1].Name, o, rng)
	defer ca.Close()
	defer cm.Close()
	ha := startHonest(ca, 1, 1, ids[0])
	m := newAtk(cm)
	merr := make(chan error, 1)
	go func() { merr <- m.honestHandshake(ids[1].Key, 1, 1) }()
	if !waitAll(caseWatchdog, ha) {
		run.Inconclusive("%s: watchdog in handshake with attacker codec", name)
		return
	}
	me := <-merr
	if !ha.ok() || me != nil {
		notJudged(run, name, ca.fired(), "attacker codec does not interoperate: honest=%q attacker=%v", ha.errString(), me)
		return
	}
	var wg sync.WaitGroup
	var ab, ba dirResult
	ab.abort = func() { ca.Close(); cm.Close() }
	ba.abort = ab.abort
	pump(ha.EC, m, ca.CloseWrite, pa, &wg, &ab)
	pump(m, ha.EC, cm.CloseWrite, pb, &wg, &ba)
	if !waitWG(&wg, caseWatchdog) {
		run.Inconclusive("%s: watchdog", name)
		return
	}
	run.Eval(1)
	run.Count("stream_cases_against_independent_codec", 1)
	ok1 := (ba.decided && !ab.decided) || judgeStream(run, name, "real->codec", pa, &ab, nil)
	ok2 := (ab.decided && !ba.decided) || judgeStream(run, name, "codec->real", pb, &ba, nil)
	ok1, ok2 = ok1 && !ba.decided, ok2 && !ab.decided
	if ok1 && ok2 && pa.Total+pb.Total > 0 {
		run.Distinct(fmt.Sprintf("SM/%v/%v/%s|%v/%v/%s", pa.Writes, pa.Reads, pa.Seg, pb.Writes, pb.Reads, pb.Seg))
	}
}
