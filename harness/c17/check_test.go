package c17

// C17 - encrypted transport: integrity, authentication, no man in the middle.
//
// Three monitors over the REAL p2p.NewHandshake / p2p.EncryptedConn, all on in-memory connections:
//   1. stream equality        (stream_test.go)    kind "stream-mismatch ..."
//   2. tamper detection       (tamper_test.go)    kind "tamper-accepted fault=..."
//   3. handshake authentication (handshake_test.go) kind "handshake-accepted strategy=..."
// plus "honest-handshake-failed" (two honest endpoints on the same network cannot connect, and no deadline
// was involved) because every other observation presupposes it.

import (
	"bytes"
	"fmt"
	"math/rand"
	"os"
	"testing"

	"github.com/canopy-network/canopy/lib/crypto"
	"verif/core"
)

// hostileFrameCase: an AUTHENTICATED peer (attacker codec, own identity) sends frames whose authenticated length
// header lies. The real Read must answer with an error or with exactly the announced bytes - never panic, never
// deliver bytes beyond the frame.
func hostileFrameCase(run *core.Run, name string, rng *rand.Rand, hdr uint32) {
	ids := pickIdents(rng, 2)
	ca, cm := newPipe("A", "M", pipeOpts{}, rng)
	defer ca.Close()
	defer cm.Close()
	ha := startHonest(ca, 1, 1, ids[0])
	m := newAtk(cm)
	var merr error
	done := make(chan struct{})
	go func() { defer close(done); merr = m.honestHandshake(ids[1].Key, 1, 1) }()
	if !waitAll(caseWatchdog, ha) {
		run.Inconclusive("%s: watchdog", name)
		return
	}
	<-done
	if !ha.ok() || merr != nil {
		notJudged(run, name, ca.fired(), "setup handshake failed: %q / %v", ha.errString(), merr)
		return
	}
	payload := make([]byte, crypto.MaxDataSize)
	rng.Read(payload)
	_, _ = cm.Write(m.sealFrame(hdr, payload, 0xAA))
	cm.CloseWrite()
	var got []byte
	var rerr error
	func() {
		defer func() {
			if p := recover(); p != nil {
				rerr = fmt.Errorf("PANIC in Read: %v", p)
			}
		}()
		buf := make([]byte, 4096)
		for len(got) < 1<<20 {
			n, err := ha.EC.Read(buf[:1+rng.Intn(4096)])
			got = append(got, buf[:n]...)
			if err != nil {
				rerr = err
				return
			}
		}
	}()
	run.Eval(1)
	run.Count("hostile_length_headers", 1)
	bad := ""
	switch {
	case rerr != nil && len(rerr.Error()) > 5 && rerr.Error()[:5] == "PANIC":
		bad = "reader-panic"
	case hdr > crypto.MaxDataSize && len(got) > 0:
		bad = "delivered-data-for-oversize-header"
	case hdr <= crypto.MaxDataSize && !bytes.Equal(got, payload[:hdr]):
		bad = "delivered-wrong-bytes"
	}
	if bad != "" {
		run.Violation("tamper-accepted fault=lying-length-header effect="+bad, cn(name), map[string]any{"header": hdr, "delivered": len(got), "read_error": fmt.Sprint(rerr)})
		return
	}
	run.Distinct(fmt.Sprintf("F/hdr/%d", hdr))
}

// paddingObservation (evidence only, outside the stated property): does a frame that carries 1 byte of data carry
// stale plaintext of another session in its padding? The honest node decrypts a marker-filled message from peer B and
// then writes 1 byte to peer M; M looks at the padding of the frame it receives.
func paddingObservation(run *core.Run, rng *rand.Rand) {
	ids := pickIdents(rng, 3)
	marker := bytes.Repeat([]byte("SECRET-OF-SESSION-B!"), 60)[:1024]
	leaks, tries := 0, 0
	for k := 0; k < 20; k++ {
		pb, t1, w1 := connectHonest(ids[0], ids[1], pipeOpts{}, rng, 1, 1, 1, 1)
		if t1 || w1 || !pb.HA.ok() || !pb.HB.ok() {
			pb.close()
			continue
		}
		ca, cm := newPipe("A", "M", pipeOpts{}, rng)
		ha := startHonest(ca, 1, 1, ids[0])
		m := newAtk(cm)
		var merr error
		done := make(chan struct{})
		go func() { defer close(done); merr = m.honestHandshake(ids[2].Key, 1, 1) }()
		waitAll(caseWatchdog, ha)
		<-done
		if ha.ok() && merr == nil {
			buf := make([]byte, 2048)
			for j := 0; j < 4; j++ {
				_, _ = pb.HB.EC.Write(marker)
				_, _ = pb.HA.EC.Read(buf) // A decrypts B's secret into a pooled buffer
				_, _ = ha.EC.Write([]byte{0x42})
				one := make([]byte, 1)
				if _, err := m.Read(one); err == nil && len(m.lastFrame) == crypto.FrameSize {
					tries++
					if bytes.Contains(m.lastFrame[crypto.LengthHeaderSize+1:], marker[:40]) {
						leaks++
					}
				}
			}
		}
		ca.Close()
		cm.Close()
		pb.close()
	}
	run.Count("obs_padding_frames_inspected", int64(tries))
	run.Count("obs_padding_frames_with_other_sessions_plaintext", int64(leaks))
}

func TestCheck(t *testing.T) {
	run := core.Start(t, "C17", "fault_enumeration",
		"real NewHandshake/EncryptedConn over in-memory links with seeded segmentation (byte-by-byte .. whole) and back-pressure. "+
			"distinct_nontrivial = distinct cases in which the real code processed frames and an oracle compared the outcome: "+
			"stream cases (write-size list, read-buffer list, segmentation, capacity per direction) with >0 bytes compared and equal; "+
			"tamper cases (fault list, direction, read buffers, segmentation) whose fault changed the ciphertext and whose reader ran to its error; "+
			"handshake transcripts (strategy, variant, key types) in which the attacker reached its deviation")
	defer run.Finish()
	run.MinDistinct = core.Pick(1500, 150000)
	run.Assume("ChaCha20-Poly1305, X25519, HKDF-SHA256 and the signature schemes are secure; the attacker is computationally bounded")
	run.Assume("in-memory links stand in for kernel TCP: arbitrary segmentation, back-pressure and deadlines are modelled, packet-level TCP behaviour is not")
	run.Assume("plaintext carried per frame follows the Write loop (1024-byte chunks, last chunk shorter); checked per case against the observed ciphertext length")
	pool()
	var bp []string
	for _, p := range badPoints() {
		bp = append(bp, p.Name+": "+p.Note)
	}
	run.Extra("degenerate_points_presented", bp)

	// 1. stream equality
	nS, nSM := core.Pick(400, 120000), core.Pick(80, 10000)
	core.Parallel(nS, func(i int) {
		name := fmt.Sprintf("stream/%d", i)
		if run.Want(name) {
			streamCase(run, name, i)
		}
	})
	core.Parallel(nSM, func(i int) {
		name := fmt.Sprintf("stream-codec/%d", i)
		if run.Want(name) {
			streamAtkCase(run, name, i)
		}
	})

	// 2. tamper detection
	specs := tamperSpecs(run.Rand("tamper-specs"))
	core.Parallel(len(specs), func(i int) {
		name := fmt.Sprintf("tamper/%d/%s", i, specs[i].kind())
		if run.Want(name) {
			tamperCase(run, name, specs[i])
			if i%500 == 7 {
				run.Sample(map[string]any{"monitor": "tamper", "case": name, "spec": specs[i]})
			}
		}
	})
	hdrs := []uint32{0, 1, 1023, 1024, 1025, 1028, 1029, 1044, 2048, 65535, 65536, 1 << 31, 1<<32 - 1, 1<<32 - 4}
	core.Parallel(len(hdrs)*core.Pick(2, 20), func(i int) {
		name := fmt.Sprintf("hostile-frame/%d", i)
		if run.Want(name) {
			hostileFrameCase(run, name, run.Rand(name), hdrs[i%len(hdrs)])
		}
	})

	// 3. handshake authentication
	cases := hsCases(run.Rand("hs-cases"))
	core.Parallel(len(cases), func(i int) {
		if run.Want(cases[i].Name) {
			cases[i].Run(run, cases[i].Name, run.Rand(cases[i].Name))
			if i%60 == 5 {
				run.Sample(map[string]any{"monitor": "handshake", "case": cases[i].Name})
			}
		}
	})

	if run.Want("observation/padding") {
		paddingObservation(run, run.Rand("observation/padding"))
	}
	// each monitor must have looked at something (full runs only)
	if os.Getenv("VERIF_CASE") == "" {
		for _, c := range []string{"stream_bytes_compared", "frames_tampered", "handshake_endpoints_judged", "attacker_codec_validated",
			"attacks_reaching_their_deviation", "hostile_length_headers", "stream_cases_against_independent_codec"} {
			if run.Counter(c) < 1 {
				run.Inconclusive("monitor counter %s = %d", c, run.Counter(c))
			}
		}
	}
}
