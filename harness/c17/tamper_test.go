package c17

// Monitor 2 - tamper detection. One honest pair per case (real handshake). The sender's whole conversation
// (~40 encrypted frames) is parked in the link, rewritten by ONE fault specification (one or two faults),
// released with hostile segmentation, and the real EncryptedConn.Read is driven until it returns an error.
//
// Oracle (no knowledge of keys needed): let d be the first offset at which the delivered ciphertext stream
// differs from the sent one (or ends early). Frames before frame f = d/1044 are untouched. Everything the
// reader delivers must be a prefix of what the sender wrote, and not one byte beyond the plaintext carried by
// frames < f may be delivered.

import (
	"bytes"
	"encoding/binary"
	"errors"
	"fmt"
	"io"
	"math/rand"
	"os"
	"strings"
	"sync"

	"github.com/canopy-network/canopy/lib/crypto"
	"verif/core"
)

const encFrame = crypto.EncryptedFrameSize

type fault struct {
	Type string `json:"type"`
	I    int    `json:"i"`           // frame index
	J    int    `json:"j,omitempty"` // second frame index / byte count
	Bit  int    `json:"bit,omitempty"`
}

func (f fault) String() string { return fmt.Sprintf("%s(i=%d,j=%d,bit=%d)", f.Type, f.I, f.J, f.Bit) }

type tamperCtx struct {
	hsFrames  [][]byte // encrypted frames of the same direction recorded during the handshake (old nonces)
	revFrames [][]byte // frames of the opposite direction (other key)
	foreign   []byte   // a frame from an unrelated session
	rng       *rand.Rand
}

func splitFrames(b []byte) [][]byte {
	var out [][]byte
	for len(b) >= encFrame {
		out = append(out, append([]byte(nil), b[:encFrame]...))
		b = b[encFrame:]
	}
	if len(b) > 0 {
		out = append(out, append([]byte(nil), b...))
	}
	return out
}

func joinFrames(fr [][]byte) []byte {
	var out []byte
	for _, f := range fr {
		out = append(out, f...)
	}
	return out
}

func insertAt(fr [][]byte, pos int, f []byte) [][]byte {
	out := make([][]byte, 0, len(fr)+1)
	out = append(out, fr[:pos]...)
	out = append(out, append([]byte(nil), f...))
	return append(out, fr[pos:]...)
}

// applyFault rewrites the frame list. Indices are clamped by the generators to valid ranges.
func applyFault(fr [][]byte, f fault, c *tamperCtx) [][]byte {
	n := len(fr)
	i := f.I % n
	switch f.Type {
	case "bitflip":
		b := f.Bit % (len(fr[i]) * 8)
		fr[i][b/8] ^= 1 << uint(b%8)
	case "swap":
		j := f.J % n
		fr[i], fr[j] = fr[j], fr[i]
	case "duplicate": // a copy of frame i immediately after it
		fr = insertAt(fr, i+1, fr[i])
	case "duplicate-later": // a copy of frame i inserted after frame j >= i
		j := f.J % n
		if j < i {
			i, j = j, i
		}
		fr = insertAt(fr, j+1, fr[i])
	case "replay-replace": // frame i replaced by the earlier frame j
		j := f.J % n
		fr[i] = append([]byte(nil), fr[j]...)
	case "replay-insert": // earlier frame j inserted before frame i
		j := f.J % n
		fr = insertAt(fr, i, fr[j])
	case "drop":
		fr = append(fr[:i:i], fr[i+1:]...)
	case "truncate-tail": // last k bytes of frame i removed, stream continues (misaligned)
		k := 1 + f.J%(encFrame-1)
		fr[i] = fr[i][:len(fr[i])-k]
	case "truncate-head":
		k := 1 + f.J%(encFrame-1)
		fr[i] = fr[i][k:]
	case "cut": // the stream ends k bytes into frame i (k may be 0: clean cut at a frame boundary)
		k := f.J % encFrame
		fr[i] = fr[i][:k]
		fr = fr[:i+1]
	case "zero":
		fr[i] = make([]byte, encFrame)
	case "random":
		fr[i] = make([]byte, encFrame)
		c.rng.Read(fr[i])
	case "insert-random":
		g := make([]byte, encFrame)
		c.rng.Read(g)
		fr = insertAt(fr, i, g)
	case "replay-handshake-frame": // a frame of the same direction and key, nonce 0 or 1
		fr[i] = append([]byte(nil), c.hsFrames[f.J%len(c.hsFrames)]...)
	case "insert-handshake-frame":
		fr = insertAt(fr, i, c.hsFrames[f.J%len(c.hsFrames)])
	case "reflect-reverse-frame": // a frame the reader itself sent (other direction's key)
		fr[i] = append([]byte(nil), c.revFrames[f.J%len(c.revFrames)]...)
	case "foreign-session-frame":
		fr[i] = append([]byte(nil), c.foreign...)
	case "tag-swap": // frame i keeps its body but gets frame j's Poly1305 tag
		j := f.J % n
		copy(fr[i][encFrame-crypto.Poly1305TagSize:], fr[j][encFrame-crypto.Poly1305TagSize:])
	case "splice": // first half of frame i with second half of frame j
		j := f.J % n
		copy(fr[i][encFrame/2:], fr[j][encFrame/2:])
	default:
		panic("unknown fault " + f.Type)
	}
	return fr
}

type tamperSpec struct {
	Faults  []fault `json:"faults"`
	Dir     string  `json:"dir"`
	ReadBuf []int   `json:"read_buf"`
	Seg     string  `json:"seg"`
	Frames  int     `json:"frames"`
}

func (s tamperSpec) kind() string {
	k := s.Faults[0].Type
	for _, f := range s.Faults[1:] {
		k += "+" + f.Type
	}
	return k
}

// conversation returns message sizes that produce exactly n frames, mixing partial, full and multi-frame writes.
func conversation(rng *rand.Rand, n int) (sizes []int, perFrame []int) {
	for len(perFrame) < n {
		var s int
		switch rng.Intn(6) {
		case 0:
			s = 1 + rng.Intn(16)
		case 1:
			s = 1024
		case 2:
			s = 1023 + rng.Intn(3)
		case 3:
			s = 1 + rng.Intn(3*1024)
		default:
			s = 1 + rng.Intn(1024)
		}
		fl := frameLens(s)
		if len(perFrame)+len(fl) > n {
			s = 1 + rng.Intn(1024)
			fl = frameLens(s)
		}
		sizes = append(sizes, s)
		perFrame = append(perFrame, fl...)
	}
	return
}

func tamperCase(run *core.Run, name string, spec tamperSpec) {
	rng := run.Rand(name)
	ids := pickIdents(rng, 2)
	o := pipeOpts{Tape: true, SegXY: spec.Seg, SegYX: spec.Seg}
	var pair *honestPair
	for attempt := 0; ; attempt++ {
		var timing, wd bool
		pair, timing, wd = connectHonest(ids[0], ids[1], o, rng, 1, 1, 1, 1)
		if wd {
			run.Inconclusive("%s: watchdog during honest handshake", name)
			return
		}
		if !timing {
			break
		}
		pair.close()
		run.Count("timing_retries", 1)
		if os.Getenv("VERIF_DEBUG") != "" {
			fmt.Fprintf(os.Stderr, "DEADLINE-RETRY %s: %q %q\n", name, pair.HA.errString(), pair.HB.errString())
		}
		if attempt == 7 {
			run.Inconclusive("%s: honest handshake hit its internal deadline 8 times", name)
			return
		}
	}
	defer pair.close()
	if !checkHonestOutcome(run, name, "tamper", pair, nil) {
		return
	}
	W, R, L, rev := pair.HA.EC, pair.HB.EC, pair.CA.out, pair.CB.out
	if spec.Dir == "B->A" {
		W, R, L, rev = pair.HB.EC, pair.HA.EC, pair.CB.out, pair.CA.out
	}
	if L.pending() != 0 || rev.pending() != 0 {
		run.Inconclusive("%s: handshake bytes left in the link after both handshakes returned", name)
		return
	}
	ctx := &tamperCtx{rng: rng}
	tape, rtape := L.tapeCopy(), rev.tapeCopy()
	ctx.hsFrames = splitFrames(tape[len(tape)%encFrame:])
	ctx.revFrames = splitFrames(rtape[len(rtape)%encFrame:])
	ctx.foreign = foreignFrame()
	if len(ctx.hsFrames) < 2 || len(ctx.revFrames) < 2 {
		run.Inconclusive("%s: expected >=2 encrypted handshake frames per direction, saw %d/%d", name, len(ctx.hsFrames), len(ctx.revFrames))
		return
	}
	// park the sender's conversation
	L.setHold(true)
	sizes, perFrame := conversation(rng, spec.Frames)
	total := 0
	for _, s := range sizes {
		total += s
	}
	want := make([]byte, total)
	rng.Read(want)
	off := 0
	for _, s := range sizes {
		n, err := W.Write(want[off : off+s])
		if err != nil || n != s {
			run.Violation("stream-mismatch reason=write-failed", cn(name), map[string]any{"size": s, "n": n, "err": fmt.Sprint(err)})
			return
		}
		off += s
	}
	O := L.takePending()
	if len(O) != encFrame*len(perFrame) {
		run.Inconclusive("%s: frame-format assumption broken: %d writes %v gave %d ciphertext bytes, expected %d frames of %d", name, len(sizes), sizes, len(O), len(perFrame), encFrame)
		return
	}
	fr := splitFrames(O)
	for _, f := range spec.Faults {
		fr = applyFault(fr, f, ctx)
	}
	T := joinFrames(fr)
	d := firstDiff(O, T)
	if d < 0 {
		run.Count("tamper_noop_faults", 1)
		return
	}
	f0 := d / encFrame
	allowed := 0
	for _, l := range perFrame[:f0] {
		allowed += l
	}
	L.inject(T)
	L.closeWrite()
	L.setHold(false)
	// drive the real reader until it reports an error
	var got, after []byte // delivered before / after the first read error
	var rerr error
	reads, errsAfter := 0, 0
	var wg sync.WaitGroup
	wg.Add(1)
	go func() {
		defer wg.Done()
		defer func() {
			if p := recover(); p != nil {
				rerr = fmt.Errorf("PANIC in Read: %v", p)
			}
		}()
		buf := make([]byte, 65536)
		for i := 0; ; i++ {
			sz := spec.ReadBuf[i%len(spec.ReadBuf)]
			n, err := R.Read(buf[:sz])
			reads++
			if rerr == nil {
				got = append(got, buf[:n]...)
			} else {
				after = append(after, buf[:n]...)
			}
			if err != nil {
				if rerr == nil {
					rerr = err
				}
				// keep reading after the first error (a consumer that retries must still never be handed bytes that were
				// not written at that stream position) until the wire is exhausted
				errsAfter++
				if errors.Is(err, io.EOF) || strings.Contains(err.Error(), "EOF") || strings.Contains(err.Error(), "closed") || errsAfter > 3*len(perFrame)+8 {
					return
				}
				continue
			}
			if len(got) > total+4096 {
				rerr = fmt.Errorf("reader delivered more than was ever written")
				return
			}
		}
	}()
	if !waitWG(&wg, caseWatchdog) {
		pair.close()
		run.Inconclusive("%s: watchdog: reader never returned an error after %s", name, spec.kind())
		return
	}
	run.Eval(1)
	run.Count("frames_tampered", int64(len(spec.Faults)))
	run.Count("tamper_reads", int64(reads))
	run.Count("tamper_fault_"+spec.kind(), 1)
	pd := firstDiff(want[:min(len(got), len(want))], got)
	bad := ""
	switch {
	case len(got) > len(want) || (pd >= 0 && pd < len(got)):
		bad = "delivered-bytes-never-written"
	case len(got) > allowed:
		bad = "delivered-beyond-first-tampered-frame"
	case len(after) > 0 && (len(got)+len(after) > len(want) || !bytes.Equal(after, want[len(got):len(got)+len(after)])):
		// whatever is delivered after an error must still be the bytes written at that position (a duplicated frame is
		// refused and the stream continues; a modified or dropped frame must not be skipped over)
		bad = "stream-spliced-after-read-error"
	case rerr != nil && len(rerr.Error()) >= 5 && rerr.Error()[:5] == "PANIC":
		bad = "reader-panic"
	}
	if bad != "" {
		run.Violation("tamper-accepted fault="+spec.kind()+" effect="+bad, cn(name), map[string]any{
			"spec": spec, "keys": []string{ids[0].Name, ids[1].Name}, "frames_sent": len(perFrame), "plaintext_per_frame": perFrame,
			"first_ciphertext_difference_at": d, "first_tampered_frame": f0, "allowed_plaintext_bytes": allowed,
			"delivered": len(got), "written": total, "first_plaintext_difference_at": pd, "read_error": fmt.Sprint(rerr)})
		return
	}
	if len(got) < allowed {
		run.Count("tamper_untouched_prefix_not_fully_delivered", 1)
	} else {
		run.Count("tamper_untouched_prefix_delivered_exactly", 1)
	}
	run.Distinct(fmt.Sprintf("T/%v/%s/%v/%s", spec.Faults, spec.Dir, spec.ReadBuf, spec.Seg))
}

// foreignFrame: one valid frame of an unrelated honest session (cached; any session will do).
var (
	foreignOnce sync.Once
	foreignBz   []byte
)

func foreignFrame() []byte {
	foreignOnce.Do(func() {
		rng := core.NewRand(core.Seed(), "C17/foreign")
		ids := pickIdents(rng, 2)
		for k := 0; k < 5 && foreignBz == nil; k++ {
			p, _, _ := connectHonest(ids[0], ids[1], pipeOpts{Tape: true}, rng, 1, 1, 1, 1)
			if p.HA.ok() && p.HB.ok() {
				p.CA.out.setHold(true)
				_, _ = p.HA.EC.Write([]byte("a frame of some other session"))
				foreignBz = p.CA.out.takePending()
			}
			p.close()
		}
		if len(foreignBz) != encFrame {
			foreignBz = make([]byte, encFrame)
			binary.LittleEndian.PutUint32(foreignBz, 29)
		}
	})
	return foreignBz
}

// tamperSpecs is the case list of the tamper monitor: a pure function of (seed, tier).
func tamperSpecs(rng *rand.Rand) []tamperSpec {
	const N = 40
	var specs []tamperSpec
	dirs := []string{"A->B", "B->A"}
	add := func(fs ...fault) {
		rb := []int{readSizesBase[rng.Intn(len(readSizesBase))]}
		if rng.Intn(4) == 0 {
			rb = append(rb, readSizesEdge[rng.Intn(len(readSizesEdge))])
		}
		specs = append(specs, tamperSpec{Faults: fs, Dir: dirs[rng.Intn(2)], ReadBuf: rb, Seg: segModes[rng.Intn(len(segModes))], Frames: N})
	}
	earlier := func(i int) int {
		if i == 0 {
			return 0
		}
		return rng.Intn(i)
	}
	interesting := []int{0, 1, 7, 8, 31, 32, 8 * 4, 8*4 + 1, 8*(encFrame-16) - 1, 8 * (encFrame - 16), 8*encFrame - 1} // header, tag boundary, last bit
	rounds := core.Pick(2, 90)
	for r := 0; r < rounds; r++ {
		for i := 0; i < N; i++ {
			for k := 0; k < 4; k++ { // sampled bit flips at every frame index
				b := rng.Intn(encFrame * 8)
				if k == 0 {
					b = interesting[rng.Intn(len(interesting))]
				}
				add(fault{Type: "bitflip", I: i, Bit: b})
			}
			if i+1 < N {
				add(fault{Type: "swap", I: i, J: i + 1})
			}
			if i > 0 {
				add(fault{Type: "swap", I: i, J: earlier(i)})
				add(fault{Type: "replay-replace", I: i, J: earlier(i)})
			}
			add(fault{Type: "replay-insert", I: i, J: earlier(i + 1)})
			if i > 0 { // replay at a power-of-two distance (a nonce counter that wraps early would accept it)
				d := 1 << uint(rng.Intn(6))
				for d > i {
					d >>= 1
				}
				add(fault{Type: "replay-replace", I: i, J: i - d})
			}
			add(fault{Type: "duplicate", I: i})
			add(fault{Type: "duplicate-later", I: i, J: i + rng.Intn(N-i)})
			add(fault{Type: "drop", I: i})
			add(fault{Type: "truncate-tail", I: i, J: []int{0, 15, 16, encFrame - 2, rng.Intn(encFrame)}[rng.Intn(5)]})
			add(fault{Type: "cut", I: i, J: []int{0, 1, 4, encFrame - 17, encFrame - 1, rng.Intn(encFrame)}[rng.Intn(6)]})
			switch i % 8 {
			case 0:
				add(fault{Type: "truncate-head", I: i, J: rng.Intn(encFrame)})
			case 1:
				add(fault{Type: "zero", I: i})
			case 2:
				add(fault{Type: "random", I: i})
			case 3:
				add(fault{Type: "insert-random", I: i})
			case 4:
				add(fault{Type: "replay-handshake-frame", I: i, J: rng.Intn(2)})
				add(fault{Type: "insert-handshake-frame", I: i, J: rng.Intn(2)})
			case 5:
				add(fault{Type: "reflect-reverse-frame", I: i, J: rng.Intn(2)})
			case 6:
				add(fault{Type: "foreign-session-frame", I: i})
				add(fault{Type: "tag-swap", I: i, J: (i + 1 + rng.Intn(N-1)) % N})
			case 7:
				add(fault{Type: "splice", I: i, J: (i + 1 + rng.Intn(N-1)) % N})
			}
			// two faults: the second one "repairs" the frame count / alignment the first one disturbed
			j := (i + 1 + rng.Intn(N-1)) % N
			switch i % 5 {
			case 0:
				add(fault{Type: "bitflip", I: i, Bit: rng.Intn(encFrame * 8)}, fault{Type: "bitflip", I: j, Bit: rng.Intn(encFrame * 8)})
			case 1:
				add(fault{Type: "drop", I: i}, fault{Type: "duplicate", I: j % (N - 1)})
			case 2:
				add(fault{Type: "duplicate", I: i}, fault{Type: "drop", I: j})
			case 3:
				add(fault{Type: "truncate-tail", I: i, J: 7}, fault{Type: "insert-random", I: j})
			case 4:
				add(fault{Type: "swap", I: i, J: j}, fault{Type: "bitflip", I: min(i, j), Bit: rng.Intn(encFrame * 8)})
			}
		}
	}
	// long conversations: replays at distance 128 / 256 / 512, and ordinary faults deep into the stream
	for r := 0; r < core.Pick(6, 120); r++ {
		n := 530 + rng.Intn(40)
		i := 513 + rng.Intn(n-513)
		var f fault
		switch r % 6 {
		case 0:
			f = fault{Type: "replay-replace", I: i, J: i - 256}
		case 1:
			f = fault{Type: "replay-replace", I: i, J: i - 512}
		case 2:
			f = fault{Type: "replay-replace", I: i, J: i - 128}
		case 3:
			f = fault{Type: "replay-insert", I: i, J: i - 256}
		case 4:
			f = fault{Type: "swap", I: i, J: i - 256}
		default:
			f = fault{Type: "bitflip", I: i, Bit: rng.Intn(encFrame * 8)}
		}
		add(f)
		specs[len(specs)-1].Frames = n
		specs[len(specs)-1].ReadBuf = []int{[]int{1024, 1025, 4096, 1023}[rng.Intn(4)]}
	}
	if core.Thorough() { // every bit of five frames: the first two, two in the middle, the last
		for _, i := range []int{0, 1, 17, 32, N - 1} {
			for b := 0; b < encFrame*8; b++ {
				add(fault{Type: "bitflip", I: i, Bit: b})
			}
		}
	} else { // quick: every bit of the length header, every bit of the tag and every 16th other bit of one frame
		i := rng.Intn(N)
		for b := 0; b < encFrame*8; b++ {
			if b < 32 || b >= 8*(encFrame-16) || b%16 == 5 {
				add(fault{Type: "bitflip", I: i, Bit: b})
			}
		}
	}
	return specs
}
