package c17

// Monitor 3 - handshake authentication. The harness knows who holds which private key. An honest endpoint
// (real p2p.NewHandshake) may finish with Address.PublicKey = I only if the party that terminates its
// secure channel holds I's private key and runs on the same network and chain id.

import (
	"bytes"
	"encoding/hex"
	"fmt"
	"io"
	"math/rand"
	"time"

	"filippo.io/edwards25519"
	"github.com/canopy-network/canopy/lib"
	"github.com/canopy-network/canopy/lib/crypto"
	"verif/core"
)

// holder: an identity some party really holds, with the network/chain that party really runs on.
type holder struct {
	Pub        []byte
	Net, Chain uint64
}

type hsWitness map[string]any

// judgeEndpoint applies the oracle to one honest endpoint. allowed = identities held by whoever terminates
// this endpoint's channel in this scenario. Returns true when the endpoint completed.
func judgeEndpoint(run *core.Run, name, strategy, ep string, h *hsOut, selfNet, selfChain uint64, allowed []holder, w hsWitness) bool {
	run.Count("handshake_endpoints_judged", 1)
	if !h.ok() {
		run.Count("handshake_rejections", 1)
		return false
	}
	run.Count("handshake_completions", 1)
	pk := h.EC.Address.PublicKey
	reason := "identity-not-held-by-peer"
	for _, a := range allowed {
		if bytes.Equal(pk, a.Pub) {
			if a.Net != selfNet || a.Chain != selfChain {
				reason = "different-network-or-chain"
				break
			}
			m := h.EC.Address.PeerMeta
			if m == nil || m.NetworkId != selfNet || m.ChainId != selfChain {
				reason = "reported-meta-differs"
				break
			}
			run.Count("handshake_completions_legitimate", 1)
			return true
		}
	}
	ww := hsWitness{"endpoint": ep, "accepted_identity": hex.EncodeToString(pk), "own_network": selfNet, "own_chain": selfChain, "reason": reason}
	if m := h.EC.Address.PeerMeta; m != nil {
		ww["accepted_meta"] = fmt.Sprintf("network=%d chain=%d", m.NetworkId, m.ChainId)
	}
	var al []string
	for _, a := range allowed {
		al = append(al, fmt.Sprintf("%s@%d/%d", core.Hex(a.Pub), a.Net, a.Chain))
	}
	ww["identities_the_peer_really_holds"] = al
	for k, v := range w {
		ww[k] = v
	}
	run.Violation("handshake-accepted strategy="+strategy, cn(name), ww)
	return true
}

// attackRun: honest endpoints + one attacker goroutine. Waits for the honest endpoints (that is all a verdict
// needs), then half-closes the honest ends (they have sent all they will ever send; the attacker can still
// drain what is buffered and then sees EOF), waits for the attacker, and hangs up everything.
// The attacker's connection ends are the ones named "M"; they are closed as soon as the attacker is done, so that
// an honest endpoint still waiting for it sees a hang-up instead of its 1 s deadline.
func attackRun(honest []*hsOut, conns []*pconn, attacker func()) (watchdog bool) {
	done := make(chan struct{})
	go func() {
		defer close(done)
		attacker()
		for _, c := range conns {
			if len(c.local) > 0 && c.local[0] == 'M' {
				c.Close()
			}
		}
	}()
	ok := waitAll(caseWatchdog, honest...)
	for _, c := range conns {
		if len(c.local) > 0 && c.local[0] != 'M' {
			c.CloseWrite()
		}
	}
	select {
	case <-done:
	case <-time.After(caseWatchdog):
		ok = false
	}
	for _, c := range conns {
		c.Close()
	}
	return !ok
}

// ---- degenerate curve points ----

type badPoint struct {
	Name string
	Bz   []byte
	Note string
}

func mustHex(s string) []byte {
	b, err := hex.DecodeString(s)
	if err != nil {
		panic(err)
	}
	return b
}

func withSign(b []byte) []byte {
	o := append([]byte(nil), b...)
	o[31] ^= 0x80
	return o
}

// badPoints: low-order Edwards points (what the key-swap message really carries: an Ed25519 public key),
// their non-canonical encodings, canopy's blacklist entries (Montgomery u values), malformed encodings.
func badPoints() []badPoint {
	ff := func(first byte, last byte) []byte {
		b := bytes.Repeat([]byte{0xff}, 32)
		b[0], b[31] = first, last
		return b
	}
	one := make([]byte, 32)
	one[0] = 1
	zero := make([]byte, 32)
	o8a := mustHex("26e8958fc2b227b045c3f489f2ef98f0d5dfac05d3c63339b13802886d53fc05")
	o8b := mustHex("c7176a703d4dd84fba3c0b760d10670f2a2053fa2c39ccc64ec7fd7792ac037a")
	pts := []badPoint{
		{Name: "ed-identity", Bz: one},
		{Name: "ed-identity-signbit", Bz: withSign(one)},
		{Name: "ed-order2", Bz: ff(0xec, 0x7f)},
		{Name: "ed-order2-signbit", Bz: ff(0xec, 0xff)},
		{Name: "ed-order4", Bz: zero},
		{Name: "ed-order4-neg", Bz: withSign(zero)},
		{Name: "ed-order8-a", Bz: o8a},
		{Name: "ed-order8-a-neg", Bz: withSign(o8a)},
		{Name: "ed-order8-b", Bz: o8b},
		{Name: "ed-order8-b-neg", Bz: withSign(o8b)},
		{Name: "noncanonical-y=p", Bz: ff(0xed, 0x7f)},
		{Name: "noncanonical-y=p-signbit", Bz: ff(0xed, 0xff)},
		{Name: "noncanonical-y=p+1", Bz: ff(0xee, 0x7f)},
		{Name: "noncanonical-y=p+1-signbit", Bz: ff(0xee, 0xff)},
		{Name: "x25519-blacklist-order8-a", Bz: mustHex("e0eb7a7c3b41b8ae1656e3faf19fc46ada098deb9c32b1fd866205165f49b800")},
		{Name: "x25519-blacklist-order8-b", Bz: mustHex("5f9c95bca3508c24b1d0b1559c83ef5b04445cc4581c8e86d8224eddd09f1157")},
		{Name: "len-0", Bz: []byte{}},
		{Name: "len-31", Bz: one[:31]},
		{Name: "len-33", Bz: append(append([]byte(nil), one...), 0)},
		{Name: "len-64", Bz: append(append([]byte(nil), one...), one...)},
	}
	// an encoding that is not on the curve
	for c := byte(2); c < 40; c++ {
		b := make([]byte, 32)
		b[0] = c
		if _, err := new(edwards25519.Point).SetBytes(b); err != nil {
			pts = append(pts, badPoint{Name: "off-curve", Bz: b})
			break
		}
	}
	id := edwards25519.NewIdentityPoint()
	for i := range pts {
		p, err := new(edwards25519.Point).SetBytes(pts[i].Bz)
		switch {
		case err != nil:
			pts[i].Note = "not decodable as an Edwards point"
		case new(edwards25519.Point).MultByCofactor(p).Equal(id) == 1:
			pts[i].Note = "decodes; 8*P = identity (low order)"
		default:
			pts[i].Note = "decodes; NOT low order"
		}
		if len(pts[i].Bz) == 32 && crypto.PubIsBlacklisted(pts[i].Bz) {
			pts[i].Note += "; on canopy's blacklist"
		}
	}
	return pts
}

// ---- strategies ----

type hsCase struct {
	Name string
	Run  func(run *core.Run, name string, rng *rand.Rand)
}

// sigVariants: what an attacker without B's private key can put in the Signature message while claiming B.
var sigVariants = []string{"signed-by-attacker-key", "zeros", "empty", "random", "victims-public-key-as-signature"}

func forgeSig(variant string, victim *ident, atk *ident, challenge []byte, rng *rand.Rand) *lib.Signature {
	good := atk.Key.Sign(challenge)
	s := &lib.Signature{PublicKey: victim.Pub}
	switch variant {
	case "signed-by-attacker-key":
		s.Signature = good
	case "zeros":
		s.Signature = make([]byte, len(victim.Key.Sign(nil)))
	case "empty":
		s.Signature = nil
	case "random":
		s.Signature = make([]byte, len(victim.Key.Sign(nil)))
		rng.Read(s.Signature)
	case "victims-public-key-as-signature":
		s.Signature = append(append([]byte(nil), victim.Pub...), victim.Pub...)
	}
	return s
}

func hsCases(rng *rand.Rand) []hsCase {
	var cs []hsCase
	add := func(name string, fn func(run *core.Run, name string, rng *rand.Rand)) {
		cs = append(cs, hsCase{Name: name, Run: fn})
	}
	rep := core.Pick(1, 300)
	for r := 0; r < rep; r++ {
		for k := 0; k < 6; k++ {
			add(fmt.Sprintf("hs/ctl-attacker-own-identity/%d.%d", r, k), ctlAttackerOwnIdentity)
			add(fmt.Sprintf("hs/ctl-passive-relay/%d.%d", r, k), func(run *core.Run, n string, g *rand.Rand) { relayCase(run, n, g, relayMod{}) })
		}
		add(fmt.Sprintf("hs/ctl-self-connection/%d", r), ctlSelf)
		for k := 0; k < 8; k++ {
			add(fmt.Sprintf("hs/mitm-relay-signatures/%d.%d", r, k), mitmRelay)
		}
		for _, v := range sigVariants {
			v := v
			for k := 0; k < 3; k++ {
				add(fmt.Sprintf("hs/claim-victim-key/%s/%d.%d", v, r, k), func(run *core.Run, n string, g *rand.Rand) { claimVictimKey(run, n, g, v) })
			}
		}
		for k := 0; k < 6; k++ {
			add(fmt.Sprintf("hs/replay-recorded-signature/%d.%d", r, k), replayRecordedSig)
			add(fmt.Sprintf("hs/replay-recorded-transcript/%d.%d", r, k), replayTranscript)
		}
		for k := 0; k < 4; k++ {
			add(fmt.Sprintf("hs/reflect-same-session/%d.%d", r, k), func(run *core.Run, n string, g *rand.Rand) { reflectCase(run, n, g, false) })
			add(fmt.Sprintf("hs/reflect-same-session-negated-ephemeral/%d.%d", r, k), func(run *core.Run, n string, g *rand.Rand) { reflectCase(run, n, g, true) })
		}
		for _, bp := range badPoints() {
			bp := bp
			add(fmt.Sprintf("hs/mitm-bad-ephemeral/%s/%d", bp.Name, r), func(run *core.Run, n string, g *rand.Rand) { mitmBadEphemeral(run, n, g, bp) })
		}
		metas := [][4]uint64{{1, 1, 1, 2}, {1, 1, 2, 1}, {1, 1, 2, 2}, {1, 1, 0, 1}, {1, 1, 1, 0}, {0, 0, 0, 1}, {1, 1, 1 + 1<<32, 1}, {1, 1, 1, 1 + 1<<32}, {7, 9, 9, 7}, {1, 1, 1 + 1<<63, 1}}
		for _, m := range metas {
			m := m
			add(fmt.Sprintf("hs/meta-mismatch-honest/%d.%d-vs-%d.%d/%d", m[0], m[1], m[2], m[3], r), func(run *core.Run, n string, g *rand.Rand) { metaMismatchHonest(run, n, g, m) })
			add(fmt.Sprintf("hs/meta-mismatch-attacker/%d.%d-vs-%d.%d/%d", m[0], m[1], m[2], m[3], r), func(run *core.Run, n string, g *rand.Rand) { metaAttack(run, n, g, "mismatch", m) })
		}
		for _, v := range []string{"signed-by-other-key", "unsigned", "signature-over-other-values", "replayed-from-victim", "random-signature"} {
			v := v
			for k := 0; k < 3; k++ {
				add(fmt.Sprintf("hs/meta-forged/%s/%d.%d", v, r, k), func(run *core.Run, n string, g *rand.Rand) { metaAttack(run, n, g, v, [4]uint64{1, 1, 1, 1}) })
			}
		}
		for _, v := range []string{"ed25519-identity-point", "ed25519-identity-point-signbit", "ed25519-order2-point", "bls-infinity"} {
			v := v
			add(fmt.Sprintf("hs/degenerate-identity-key/%s/%d", v, r), func(run *core.Run, n string, g *rand.Rand) { degenerateIdentity(run, n, g, v) })
		}
		mods := []relayMod{
			{What: "eph-bitflip", Bit: -1}, {What: "eph-bitflip", Bit: -1}, {What: "eph-bitflip", Bit: -1}, {What: "eph-signbit"}, {What: "eph-signbit"},
			{What: "frame-bitflip", Frame: 0, Bit: -1}, {What: "frame-bitflip", Frame: 1, Bit: -1}, {What: "frame-bitflip", Frame: 0, Bit: 0}, {What: "frame-bitflip", Frame: 1, Bit: encFrame*8 - 1},
			{What: "frame-swap"}, {What: "frame-drop", Frame: 0}, {What: "frame-duplicate", Frame: 0},
		}
		if r == 0 {
			mods = append(mods, relayMod{What: "frame-drop", Frame: 1}) // the one scenario that legitimately ends in a 1 s deadline
		}
		for i, m := range mods {
			m := m
			add(fmt.Sprintf("hs/relay-tamper/%s/%d.%d", m.What, r, i), func(run *core.Run, n string, g *rand.Rand) { relayCase(run, n, g, m) })
		}
	}
	_ = rng
	return cs
}

// ctl-attacker-own-identity: the attacker's codec, behaving honestly with its OWN key, must be accepted by the real
// code and attributed to that key. If not, the attack strategies would fail for the wrong reason.
func ctlAttackerOwnIdentity(run *core.Run, name string, rng *rand.Rand) {
	ids := pickIdents(rng, 2)
	a, m := ids[0], ids[1]
	ca, cm := newPipe("A", "M", pipeOpts{SegXY: segModes[rng.Intn(len(segModes))], SegYX: segModes[rng.Intn(len(segModes))]}, rng)
	ha := startHonest(ca, 1, 1, a)
	var merr error
	at := newAtk(cm)
	if attackRun([]*hsOut{ha}, []*pconn{ca, cm}, func() { merr = at.honestHandshake(m.Key, 1, 1) }) {
		run.Inconclusive("%s: watchdog", name)
		return
	}
	run.Eval(1)
	if !ha.ok() || merr != nil {
		notJudged(run, name, ca.fired(), "attacker codec is not accepted when honest (honest side: %q, attacker side: %v) - attack outcomes would be vacuous", ha.errString(), merr)
		return
	}
	judgeEndpoint(run, name, "ctl-attacker-own-identity", "A", ha, 1, 1, []holder{{m.Pub, 1, 1}}, nil)
	if at.peerSig == nil || !bytes.Equal(at.peerSig.PublicKey, a.Pub) {
		run.Inconclusive("%s: attacker codec did not see A's identity", name)
		return
	}
	run.Count("attacker_codec_validated", 1)
	run.Distinct("H/ctl-own/" + a.Kind + "/" + m.Kind)
}

func ctlSelf(run *core.Run, name string, rng *rand.Rand) {
	a := pickIdents(rng, 1)[0]
	p, timing, wd := connectHonest(a, a, pipeOpts{}, rng, 1, 1, 1, 1)
	defer p.close()
	if wd || timing {
		notJudged(run, name, p.CA.fired(), "watchdog in self connection")
		return
	}
	run.Eval(1)
	// two sessions of the same key holder wired to each other: the peer really holds the key
	judgeEndpoint(run, name, "self-connection", "A1", p.HA, 1, 1, []holder{{a.Pub, 1, 1}}, nil)
	judgeEndpoint(run, name, "self-connection", "A2", p.HB, 1, 1, []holder{{a.Pub, 1, 1}}, nil)
	if p.HA.ok() && p.HB.ok() {
		run.Count("obs_self_connection_accepted", 1)
	}
	run.Distinct("H/self/" + a.Kind)
}

// mitm-relay-signatures: classic man in the middle. M runs its own key exchange with A and with B and forwards
// (decrypts, re-encrypts) the identity signatures and metas of the two honest parties.
func mitmRelay(run *core.Run, name string, rng *rand.Rand) {
	ids := pickIdents(rng, 2)
	a, b := ids[0], ids[1]
	ca, ma := newPipe("A", "M", pipeOpts{}, rng)
	cb, mb := newPipe("B", "M", pipeOpts{}, rng)
	ha, hb := startHonest(ca, 1, 1, a), startHonest(cb, 1, 1, b)
	stage := "start"
	wd := attackRun([]*hsOut{ha, hb}, []*pconn{ca, ma, cb, mb}, func() {
		sa, sb := newAtk(ma), newAtk(mb)
		for _, s := range []*atkSession{sa, sb} {
			if s.sendEph() != nil || s.recvEph() != nil || s.derive(nil) != nil {
				return
			}
		}
		stage = "keys-substituted"
		sigA, e1 := sa.recvSig()
		sigB, e2 := sb.recvSig()
		if e1 != nil || e2 != nil {
			return
		}
		stage = "signatures-captured"
		if sb.sendMsg(sigA) != nil || sa.sendMsg(sigB) != nil {
			return
		}
		stage = "signatures-forwarded"
		metaA, e1 := sa.recvMeta()
		metaB, e2 := sb.recvMeta()
		if e1 != nil || e2 != nil {
			return
		}
		_ = sb.sendMsg(metaA)
		_ = sa.sendMsg(metaB)
		stage = "metas-forwarded"
	})
	if wd {
		run.Inconclusive("%s: watchdog", name)
		return
	}
	run.Eval(1)
	w := hsWitness{"A": a.Name, "B": b.Name, "attacker_progress": stage, "errA": ha.errString(), "errB": hb.errString()}
	// M terminates both channels and holds no identity key at all
	judgeEndpoint(run, name, "mitm-relay-signatures", "A", ha, 1, 1, nil, w)
	judgeEndpoint(run, name, "mitm-relay-signatures", "B", hb, 1, 1, nil, w)
	if stage == "signatures-forwarded" || stage == "metas-forwarded" {
		run.Count("attacks_reaching_their_deviation", 1)
		run.Distinct("H/mitm/" + a.Kind + "/" + b.Kind)
	}
}

// recordFrom: M, an honest peer under its own identity, connects to the victim (real NewHandshake) and keeps what the
// victim sent inside the encrypted channel: its Signature message and its signed PeerMeta. The meta signature covers
// only (network, chain) - it is not bound to a session, so it is the best meta an impersonator can present.
func recordFrom(run *core.Run, name string, victim, m *ident, rng *rand.Rand) (*lib.Signature, *lib.PeerMeta, bool) {
	cv, mv := newPipe("V", "M", pipeOpts{}, rng)
	hv := startHonest(cv, 1, 1, victim)
	s0 := newAtk(mv)
	var e0 error
	if attackRun([]*hsOut{hv}, []*pconn{cv, mv}, func() { e0 = s0.honestHandshake(m.Key, 1, 1) }) {
		run.Inconclusive("%s: watchdog in recording session", name)
		return nil, nil, false
	}
	if e0 != nil || !hv.ok() || s0.peerSig == nil || s0.peerMeta == nil {
		notJudged(run, name, cv.fired(), "recording session failed: %v / %s", e0, hv.errString())
		return nil, nil, false
	}
	run.Count("victim_messages_recorded", 1)
	return s0.peerSig, s0.peerMeta, true
}

// claim-victim-key: M (own ephemeral key, own identity key) presents B's public key without B's private key.
func claimVictimKey(run *core.Run, name string, rng *rand.Rand, variant string) {
	ids := pickIdents(rng, 3)
	a, b, m := ids[0], ids[1], ids[2]
	_, victimMeta, ok := recordFrom(run, name, b, m, rng)
	if !ok {
		return
	}
	ca, cm := newPipe("A", "M", pipeOpts{}, rng)
	ha := startHonest(ca, 1, 1, a)
	reached := false
	wd := attackRun([]*hsOut{ha}, []*pconn{ca, cm}, func() {
		s := newAtk(cm)
		if s.sendEph() != nil || s.recvEph() != nil || s.derive(nil) != nil {
			return
		}
		reached = true
		// the victim's own signed meta, recorded earlier: valid under the victim's key in any session
		_ = s.finishHandshake(forgeSig(variant, b, m, s.challenge[:], rng), victimMeta)
	})
	if wd {
		run.Inconclusive("%s: watchdog", name)
		return
	}
	run.Eval(1)
	judgeEndpoint(run, name, "claim-victim-key variant="+variant, "A", ha, 1, 1, []holder{{m.Pub, 1, 1}},
		hsWitness{"A": a.Name, "victim": b.Name, "attacker": m.Name, "errA": ha.errString()})
	if reached {
		run.Count("attacks_reaching_their_deviation", 1)
		run.Distinct("H/claim/" + variant + "/" + b.Kind + "/" + m.Kind)
	}
}

// replay-recorded-signature: M first is an honest peer of B (own identity) and records B's Signature and PeerMeta;
// then it presents them to A.
func replayRecordedSig(run *core.Run, name string, rng *rand.Rand) {
	ids := pickIdents(rng, 3)
	a, b, m := ids[0], ids[1], ids[2]
	recSig, recMeta, ok := recordFrom(run, name, b, m, rng)
	if !ok {
		return
	}
	ca, cm := newPipe("A", "M", pipeOpts{}, rng)
	ha := startHonest(ca, 1, 1, a)
	wd := attackRun([]*hsOut{ha}, []*pconn{ca, cm}, func() {
		s := newAtk(cm)
		if s.sendEph() != nil || s.recvEph() != nil || s.derive(nil) != nil {
			return
		}
		_ = s.finishHandshake(recSig, recMeta)
	})
	if wd {
		run.Inconclusive("%s: watchdog", name)
		return
	}
	run.Eval(1)
	judgeEndpoint(run, name, "replay-recorded-signature", "A", ha, 1, 1, []holder{{m.Pub, 1, 1}},
		hsWitness{"A": a.Name, "victim": b.Name, "attacker": m.Name, "errA": ha.errString()})
	run.Count("attacks_reaching_their_deviation", 1)
	run.Distinct("H/replay-sig/" + b.Kind)
}

// replay-recorded-transcript: M records every byte B sent to A in an honest session and plays it to a new
// handshake of A.
func replayTranscript(run *core.Run, name string, rng *rand.Rand) {
	ids := pickIdents(rng, 2)
	a, b := ids[0], ids[1]
	p, timing, wd := connectHonest(a, b, pipeOpts{Tape: true}, rng, 1, 1, 1, 1)
	if wd || timing || !p.HA.ok() || !p.HB.ok() {
		p.close()
		notJudged(run, name, p.CA.fired(), "recording session failed: wd=%v %q %q", wd, p.HA.errString(), p.HB.errString())
		return
	}
	_, _ = p.HB.EC.Write([]byte("some application data of the recorded session"))
	rec := p.CB.out.tapeCopy()
	p.close()
	ca, cm := newPipe("A", "M", pipeOpts{SegYX: segModes[rng.Intn(len(segModes))]}, rng)
	ha := startHonest(ca, 1, 1, a)
	wd = attackRun([]*hsOut{ha}, []*pconn{ca, cm}, func() {
		_, _ = cm.Write(rec)
		_, _ = io.Copy(io.Discard, cm)
	})
	if wd {
		run.Inconclusive("%s: watchdog", name)
		return
	}
	run.Eval(1)
	judgeEndpoint(run, name, "replay-recorded-transcript", "A", ha, 1, 1, nil, hsWitness{"A": a.Name, "recorded_peer": b.Name, "recorded_bytes": len(rec), "errA": ha.errString()})
	run.Count("attacks_reaching_their_deviation", 1)
	run.Distinct("H/replay-transcript/" + a.Kind + "/" + b.Kind)
}

// reflect: every byte A sends comes back to A (optionally with the sign bit of the ephemeral key flipped:
// -P has the same Montgomery u coordinate, hence the same X25519 secret, but a different encoding).
func reflectCase(run *core.Run, name string, rng *rand.Rand, negate bool) {
	a := pickIdents(rng, 1)[0]
	ca, cm := newPipe("A", "M", pipeOpts{}, rng)
	ha := startHonest(ca, 1, 1, a)
	wd := attackRun([]*hsOut{ha}, []*pconn{ca, cm}, func() {
		if negate {
			bz, err := readLenPrefixed(cm)
			if err != nil {
				return
			}
			k := new(crypto.ProtoPubKey)
			if lib.Unmarshal(bz, k) != nil || len(k.Pubkey) != 32 {
				return
			}
			k.Pubkey[31] ^= 0x80
			out, _ := lib.Marshal(k)
			if writeLenPrefixed(cm, out) != nil {
				return
			}
		}
		_, _ = io.Copy(cm, cm)
	})
	if wd {
		run.Inconclusive("%s: watchdog", name)
		return
	}
	run.Eval(1)
	st := "reflect-same-session"
	if negate {
		st += "-negated-ephemeral"
	}
	judgeEndpoint(run, name, st, "A", ha, 1, 1, nil, hsWitness{"A": a.Name, "errA": ha.errString()})
	run.Count("attacks_reaching_their_deviation", 1)
	run.Distinct("H/" + st + "/" + a.Kind)
}

// mitm-bad-ephemeral: M presents a degenerate "ephemeral key" to both A and B. If an endpoint went on, the
// Diffie-Hellman output would be the all-zero string on both legs, so M derives its keys from that and relays the
// identity signatures, which would then verify on the other leg (the challenge depends only on the secret).
func mitmBadEphemeral(run *core.Run, name string, rng *rand.Rand, bp badPoint) {
	ids := pickIdents(rng, 2)
	a, b := ids[0], ids[1]
	ca, ma := newPipe("A", "M", pipeOpts{}, rng)
	cb, mb := newPipe("B", "M", pipeOpts{}, rng)
	ha, hb := startHonest(ca, 1, 1, a), startHonest(cb, 1, 1, b)
	wd := attackRun([]*hsOut{ha, hb}, []*pconn{ca, ma, cb, mb}, func() {
		sa, sb := newAtk(ma), newAtk(mb)
		for _, s := range []*atkSession{sa, sb} {
			s.eph, s.ephPub = nil, bp.Bz
			if s.sendEph() != nil || s.recvEph() != nil || s.derive(make([]byte, 32)) != nil {
				return
			}
		}
		sigA, e1 := sa.recvSig()
		sigB, e2 := sb.recvSig()
		if e1 != nil || e2 != nil {
			return
		}
		_ = sb.sendMsg(sigA)
		_ = sa.sendMsg(sigB)
		metaA, e1 := sa.recvMeta()
		metaB, e2 := sb.recvMeta()
		if e1 != nil || e2 != nil {
			return
		}
		_ = sb.sendMsg(metaA)
		_ = sa.sendMsg(metaB)
	})
	if wd {
		run.Inconclusive("%s: watchdog", name)
		return
	}
	run.Eval(1)
	w := hsWitness{"point": bp.Name, "encoding": hex.EncodeToString(bp.Bz), "classification": bp.Note, "errA": ha.errString(), "errB": hb.errString()}
	judgeEndpoint(run, name, "mitm-bad-ephemeral point="+bp.Name, "A", ha, 1, 1, nil, w)
	judgeEndpoint(run, name, "mitm-bad-ephemeral point="+bp.Name, "B", hb, 1, 1, nil, w)
	run.Count("attacks_reaching_their_deviation", 1)
	run.Count("bad_ephemeral_points_presented", 2)
	run.Distinct("H/bad-eph/" + bp.Name)
}

// meta-mismatch-honest: two honest nodes configured for different networks / chains.
func metaMismatchHonest(run *core.Run, name string, rng *rand.Rand, m [4]uint64) {
	ids := pickIdents(rng, 2)
	p, _, wd := connectHonest(ids[0], ids[1], pipeOpts{}, rng, m[0], m[1], m[2], m[3])
	defer p.close()
	if wd {
		run.Inconclusive("%s: watchdog", name)
		return
	}
	run.Eval(1)
	w := hsWitness{"A_meta": fmt.Sprintf("%d/%d", m[0], m[1]), "B_meta": fmt.Sprintf("%d/%d", m[2], m[3]), "errA": p.HA.errString(), "errB": p.HB.errString()}
	judgeEndpoint(run, name, "meta-mismatch-honest", "A", p.HA, m[0], m[1], []holder{{ids[1].Pub, m[2], m[3]}}, w)
	judgeEndpoint(run, name, "meta-mismatch-honest", "B", p.HB, m[2], m[3], []holder{{ids[0].Pub, m[0], m[1]}}, w)
	run.Count("attacks_reaching_their_deviation", 1)
	run.Distinct(fmt.Sprintf("H/meta-honest/%v", m))
}

// metaAttack: M authenticates with its own key (valid challenge signature) and then deviates in the PeerMeta.
func metaAttack(run *core.Run, name string, rng *rand.Rand, variant string, m [4]uint64) {
	ids := pickIdents(rng, 3)
	a, mk, other := ids[0], ids[1], ids[2]
	var victimMeta *lib.PeerMeta
	if variant == "replayed-from-victim" { // learn A's own signed meta in an earlier, honest session
		c0, m0 := newPipe("A", "M", pipeOpts{}, rng)
		h0 := startHonest(c0, m[0], m[1], a)
		s0 := newAtk(m0)
		var e0 error
		attackRun([]*hsOut{h0}, []*pconn{c0, m0}, func() { e0 = s0.honestHandshake(mk.Key, m[0], m[1]) })
		if e0 != nil || s0.peerMeta == nil {
			notJudged(run, name, c0.fired(), "recording session failed: %v", e0)
			return
		}
		victimMeta = s0.peerMeta
	}
	ca, cm := newPipe("A", "M", pipeOpts{}, rng)
	ha := startHonest(ca, m[0], m[1], a)
	var sent *lib.PeerMeta
	wd := attackRun([]*hsOut{ha}, []*pconn{ca, cm}, func() {
		s := newAtk(cm)
		if s.sendEph() != nil || s.recvEph() != nil || s.derive(nil) != nil {
			return
		}
		switch variant {
		case "mismatch": // honestly signed, but for another network / chain
			sent = signedMeta(m[2], m[3], mk.Key)
		case "signed-by-other-key":
			sent = signedMeta(m[0], m[1], other.Key)
		case "unsigned":
			sent = &lib.PeerMeta{NetworkId: m[0], ChainId: m[1]}
		case "signature-over-other-values":
			sent = signedMeta(m[0]+1, m[1]+1, mk.Key)
			sent.NetworkId, sent.ChainId = m[0], m[1]
		case "replayed-from-victim":
			sent = victimMeta
		case "random-signature":
			sent = signedMeta(m[0], m[1], mk.Key)
			rng.Read(sent.Signature)
		}
		_ = s.finishHandshake(s.honestSig(mk.Key), sent)
	})
	if wd {
		run.Inconclusive("%s: watchdog", name)
		return
	}
	run.Eval(1)
	w := hsWitness{"A": a.Name, "attacker": mk.Name, "A_meta": fmt.Sprintf("%d/%d", m[0], m[1]), "errA": ha.errString()}
	if sent != nil {
		w["meta_sent"] = fmt.Sprintf("network=%d chain=%d sig=%s", sent.NetworkId, sent.ChainId, core.Hex(sent.Signature))
	}
	strategy, allowed := "meta-forged variant="+variant, []holder(nil) // a meta not signed by the session identity must never be accepted
	if variant == "mismatch" {
		strategy, allowed = "meta-mismatch-attacker", []holder{{mk.Pub, m[2], m[3]}}
	}
	judgeEndpoint(run, name, strategy, "A", ha, m[0], m[1], allowed, w)
	run.Count("attacks_reaching_their_deviation", 1)
	run.Distinct(fmt.Sprintf("H/meta/%s/%v/%s", variant, m, mk.Kind))
}

// degenerate-identity-key: M presents a public key for which signatures verify without any private key.
func degenerateIdentity(run *core.Run, name string, rng *rand.Rand, variant string) {
	a := pickIdents(rng, 1)[0]
	var pub, sig []byte
	one := make([]byte, 32)
	one[0] = 1
	switch variant {
	case "ed25519-identity-point": // A = identity: [k]A vanishes, so R = identity, S = 0 verifies for every message
		pub, sig = one, append(append([]byte(nil), one...), make([]byte, 32)...)
	case "ed25519-identity-point-signbit":
		pub, sig = withSign(one), append(append([]byte(nil), one...), make([]byte, 32)...)
	case "ed25519-order2-point":
		o2 := bytes.Repeat([]byte{0xff}, 32)
		o2[0], o2[31] = 0xec, 0x7f
		pub, sig = o2, append(append([]byte(nil), one...), make([]byte, 32)...)
	case "bls-infinity": // compressed point at infinity in G1 / G2
		pub, sig = make([]byte, 48), make([]byte, 96)
		pub[0], sig[0] = 0xc0, 0xc0
	}
	ca, cm := newPipe("A", "M", pipeOpts{}, rng)
	ha := startHonest(ca, 1, 1, a)
	wd := attackRun([]*hsOut{ha}, []*pconn{ca, cm}, func() {
		s := newAtk(cm)
		if s.sendEph() != nil || s.recvEph() != nil || s.derive(nil) != nil {
			return
		}
		_ = s.finishHandshake(&lib.Signature{PublicKey: pub, Signature: sig}, &lib.PeerMeta{NetworkId: 1, ChainId: 1, Signature: sig})
	})
	if wd {
		run.Inconclusive("%s: watchdog", name)
		return
	}
	run.Eval(1)
	judgeEndpoint(run, name, "degenerate-identity-key variant="+variant, "A", ha, 1, 1, nil,
		hsWitness{"A": a.Name, "presented_public_key": hex.EncodeToString(pub), "presented_signature": hex.EncodeToString(sig), "errA": ha.errString(),
			"note": "nobody holds a private key for this public key; the same constant signature is offered for the challenge and for the meta"})
	run.Count("attacks_reaching_their_deviation", 1)
	run.Distinct("H/degenerate/" + variant)
}

// ---- relay with optional modification of the handshake bytes ----

type relayMod struct {
	What  string // "", eph-bitflip, eph-signbit, frame-bitflip, frame-swap, frame-drop, frame-duplicate
	Frame int
	Bit   int // -1 = seeded random
}

// relayCase: A <-> M <-> B where M forwards bytes, modifying one thing in the A->B direction.
func relayCase(run *core.Run, name string, rng *rand.Rand, mod relayMod) {
	ids := pickIdents(rng, 2)
	a, b := ids[0], ids[1]
	seg := segModes[rng.Intn(len(segModes))]
	ca, ma := newPipe("A", "M", pipeOpts{SegXY: seg, SegYX: seg}, rng)
	cb, mb := newPipe("B", "M", pipeOpts{SegXY: seg, SegYX: seg}, rng)
	ha, hb := startHonest(ca, 1, 1, a), startHonest(cb, 1, 1, b)
	bit := mod.Bit
	modified := false
	wd := attackRun([]*hsOut{ha, hb}, []*pconn{ca, ma, cb, mb}, func() {
		back := make(chan struct{})
		go func() { defer close(back); _, _ = io.Copy(ma, mb); ma.CloseWrite() }() // B -> A untouched
		defer func() { mb.CloseWrite(); <-back }()
		if mod.What == "" {
			_, _ = io.Copy(mb, ma)
			return
		}
		ephMsg, err := readLenPrefixed(ma)
		if err != nil {
			return
		}
		switch mod.What {
		case "eph-bitflip", "eph-signbit":
			k := new(crypto.ProtoPubKey)
			if lib.Unmarshal(ephMsg, k) != nil || len(k.Pubkey) != 32 {
				return
			}
			if mod.What == "eph-signbit" {
				bit = 255
			} else if bit < 0 {
				bit = rng.Intn(255)
			}
			k.Pubkey[bit/8] ^= 1 << uint(bit%8)
			ephMsg, _ = lib.Marshal(k)
			modified = true
		}
		if writeLenPrefixed(mb, ephMsg) != nil {
			return
		}
		if mod.What == "eph-bitflip" || mod.What == "eph-signbit" {
			_, _ = io.Copy(mb, ma)
			return
		}
		f0, f1 := make([]byte, encFrame), make([]byte, encFrame)
		if _, err := io.ReadFull(ma, f0); err != nil {
			return
		}
		if bit < 0 {
			bit = rng.Intn(encFrame * 8)
		}
		modified = true
		switch mod.What {
		case "frame-bitflip":
			if mod.Frame == 0 {
				f0[bit/8] ^= 1 << uint(bit%8)
				_, _ = mb.Write(f0)
			} else {
				_, _ = mb.Write(f0)
				if _, err := io.ReadFull(ma, f1); err != nil {
					return
				}
				f1[bit/8] ^= 1 << uint(bit%8)
				_, _ = mb.Write(f1)
			}
		case "frame-drop":
			if mod.Frame == 1 {
				_, _ = mb.Write(f0)
				if _, err := io.ReadFull(ma, f1); err != nil {
					return
				}
			}
		case "frame-duplicate":
			if mod.Frame == 0 {
				_, _ = mb.Write(append(append([]byte(nil), f0...), f0...))
			} else {
				_, _ = mb.Write(f0)
				if _, err := io.ReadFull(ma, f1); err != nil {
					return
				}
				_, _ = mb.Write(append(append([]byte(nil), f1...), f1...))
			}
		case "frame-swap": // B gets A's meta frame first; A only sends it after B's signature arrived, which is not modified
			if _, err := io.ReadFull(ma, f1); err != nil {
				return
			}
			_, _ = mb.Write(append(append([]byte(nil), f1...), f0...))
		}
		_, _ = io.Copy(mb, ma)
	})
	if wd {
		run.Inconclusive("%s: watchdog", name)
		return
	}
	run.Eval(1)
	w := hsWitness{"A": a.Name, "B": b.Name, "modification": mod.What, "frame": mod.Frame, "bit": bit, "errA": ha.errString(), "errB": hb.errString()}
	switch {
	case mod.What == "":
		if (!ha.ok() || !hb.ok()) && ca.fired()+cb.fired() > 0 {
			notJudged(run, name, 1, "passive relay: %q %q", ha.errString(), hb.errString())
			return
		}
		if !ha.ok() || !hb.ok() {
			run.Violation("honest-handshake-failed", cn(name), w)
			return
		}
		judgeEndpoint(run, name, "ctl-passive-relay", "A", ha, 1, 1, []holder{{b.Pub, 1, 1}}, w)
		judgeEndpoint(run, name, "ctl-passive-relay", "B", hb, 1, 1, []holder{{a.Pub, 1, 1}}, w)
		run.Distinct("H/relay/" + seg + "/" + a.Kind + "/" + b.Kind)
		return
	case mod.What == "eph-bitflip" || mod.What == "eph-signbit":
		// plaintext of the key exchange modified: the endpoints may only ever end up attributed to each other
		okA := judgeEndpoint(run, name, "relay-tamper-"+mod.What, "A", ha, 1, 1, []holder{{b.Pub, 1, 1}}, w)
		okB := judgeEndpoint(run, name, "relay-tamper-"+mod.What, "B", hb, 1, 1, []holder{{a.Pub, 1, 1}}, w)
		if okA && okB {
			run.Count("obs_modified_ephemeral_key_still_completed_"+mod.What, 1)
		}
	default:
		// a ciphertext frame on its way to B was modified / reordered / dropped / duplicated: B must not finish
		if modified && hb.ok() {
			run.Violation("tamper-accepted fault=handshake-"+mod.What, cn(name), w)
		}
		run.Count("frames_tampered", 1)
		judgeEndpoint(run, name, "relay-tamper-"+mod.What, "A", ha, 1, 1, []holder{{b.Pub, 1, 1}}, w)
		judgeEndpoint(run, name, "relay-tamper-"+mod.What, "B", hb, 1, 1, []holder{{a.Pub, 1, 1}}, w)
	}
	if modified {
		run.Count("attacks_reaching_their_deviation", 1)
		run.Distinct(fmt.Sprintf("H/relay-tamper/%s/%d/%d", mod.What, mod.Frame, bit))
	}
}
