package c09

// A counting wrapper around a pebble vfs.FS: every mutating file-system operation (create, write, sync, rename,
// remove, link, mkdir, close of a written file, ...) gets a sequence number and is reported to a callback AFTER it
// completed, in the goroutine that performed it (pebble's WAL flusher, flush and compaction goroutines included).
// The callback may take a crash image of the underlying crashable MemFS at that boundary (memory mode) or kill the
// process (disk mode).

import (
	"io"
	"os"
	"strings"
	"sync/atomic"

	"github.com/cockroachdb/pebble/v2/vfs"
)

// fsOp describes one completed mutating operation.
type fsOp struct {
	Seq  int64
	Kind string // create, write, writeat, sync, syncdata, syncto, close, rename, remove, removeall, link, mkdir, reuse, dirsync, prealloc
	File string // class of the file operated on: wal, sst, manifest, options, current, lock, dir, marker, temp, other
	Path string
}

type countFS struct {
	inner vfs.FS
	seq   atomic.Int64
	// after is called after every mutating operation completed (nil = only count)
	after atomic.Pointer[func(op fsOp)]
}

func newCountFS(inner vfs.FS) *countFS { return &countFS{inner: inner} }

func fileClass(p string) string {
	b := p
	if i := strings.LastIndexByte(b, '/'); i >= 0 {
		b = b[i+1:]
	}
	switch {
	case strings.HasSuffix(b, ".log"):
		return "wal"
	case strings.HasSuffix(b, ".sst"):
		return "sst"
	case strings.HasPrefix(b, "MANIFEST"):
		return "manifest"
	case strings.HasPrefix(b, "OPTIONS"):
		return "options"
	case strings.HasPrefix(b, "CURRENT"):
		return "current"
	case b == "LOCK":
		return "lock"
	case strings.HasPrefix(b, "marker."):
		return "marker"
	case strings.HasSuffix(b, ".dbtmp") || strings.HasPrefix(b, "temp"):
		return "temp"
	case !strings.Contains(b, "."):
		return "dir"
	}
	return "other"
}

func (c *countFS) did(kind, path, class string) {
	n := c.seq.Add(1)
	if f := c.after.Load(); f != nil {
		if class == "" {
			class = fileClass(path)
		}
		(*f)(fsOp{Seq: n, Kind: kind, File: class, Path: path})
	}
}

func (c *countFS) wrap(f vfs.File, err error, path string, dir bool) (vfs.File, error) {
	if err != nil || f == nil {
		return f, err
	}
	return &countFile{File: f, fs: c, path: path, dir: dir}, nil
}

func (c *countFS) Create(name string, cat vfs.DiskWriteCategory) (vfs.File, error) {
	f, err := c.inner.Create(name, cat)
	if err == nil {
		c.did("create", name, "")
	}
	return c.wrap(f, err, name, false)
}

func (c *countFS) Link(oldname, newname string) error {
	err := c.inner.Link(oldname, newname)
	if err == nil {
		c.did("link", newname, "")
	}
	return err
}

func (c *countFS) Open(name string, opts ...vfs.OpenOption) (vfs.File, error) {
	f, err := c.inner.Open(name, opts...)
	return c.wrap(f, err, name, false)
}

func (c *countFS) OpenReadWrite(name string, cat vfs.DiskWriteCategory, opts ...vfs.OpenOption) (vfs.File, error) {
	f, err := c.inner.OpenReadWrite(name, cat, opts...)
	return c.wrap(f, err, name, false)
}

func (c *countFS) OpenDir(name string) (vfs.File, error) {
	f, err := c.inner.OpenDir(name)
	return c.wrap(f, err, name, true)
}

func (c *countFS) Remove(name string) error {
	err := c.inner.Remove(name)
	if err == nil {
		c.did("remove", name, "")
	}
	return err
}

func (c *countFS) RemoveAll(name string) error {
	err := c.inner.RemoveAll(name)
	if err == nil {
		c.did("removeall", name, "")
	}
	return err
}

func (c *countFS) Rename(oldname, newname string) error {
	err := c.inner.Rename(oldname, newname)
	if err == nil {
		c.did("rename", newname, "")
	}
	return err
}

func (c *countFS) ReuseForWrite(oldname, newname string, cat vfs.DiskWriteCategory) (vfs.File, error) {
	f, err := c.inner.ReuseForWrite(oldname, newname, cat)
	if err == nil {
		c.did("reuse", newname, "")
	}
	return c.wrap(f, err, newname, false)
}

func (c *countFS) MkdirAll(dir string, perm os.FileMode) error {
	err := c.inner.MkdirAll(dir, perm)
	if err == nil {
		c.did("mkdir", dir, "dir")
	}
	return err
}

func (c *countFS) Lock(name string) (io.Closer, error)          { return c.inner.Lock(name) }
func (c *countFS) List(dir string) ([]string, error)            { return c.inner.List(dir) }
func (c *countFS) Stat(name string) (vfs.FileInfo, error)       { return c.inner.Stat(name) }
func (c *countFS) PathBase(p string) string                     { return c.inner.PathBase(p) }
func (c *countFS) PathJoin(elem ...string) string               { return c.inner.PathJoin(elem...) }
func (c *countFS) PathDir(p string) string                      { return c.inner.PathDir(p) }
func (c *countFS) GetDiskUsage(p string) (vfs.DiskUsage, error) { return c.inner.GetDiskUsage(p) }
func (c *countFS) Unwrap() vfs.FS                               { return c.inner }

var _ vfs.FS = (*countFS)(nil)

type countFile struct {
	vfs.File
	fs      *countFS
	path    string
	dir     bool
	written bool
}

func (f *countFile) class() string {
	if f.dir {
		return "dir"
	}
	return ""
}

func (f *countFile) Write(p []byte) (int, error) {
	n, err := f.File.Write(p)
	f.written = true
	f.fs.did("write", f.path, "")
	return n, err
}

func (f *countFile) WriteAt(p []byte, off int64) (int, error) {
	n, err := f.File.WriteAt(p, off)
	f.written = true
	f.fs.did("writeat", f.path, "")
	return n, err
}

func (f *countFile) Sync() error {
	err := f.File.Sync()
	if f.dir {
		f.fs.did("dirsync", f.path, "dir")
	} else {
		f.fs.did("sync", f.path, "")
	}
	return err
}

func (f *countFile) SyncData() error {
	err := f.File.SyncData()
	f.fs.did("syncdata", f.path, f.class())
	return err
}

func (f *countFile) SyncTo(length int64) (bool, error) {
	full, err := f.File.SyncTo(length)
	f.fs.did("syncto", f.path, f.class())
	return full, err
}

func (f *countFile) Preallocate(off, length int64) error {
	err := f.File.Preallocate(off, length)
	f.fs.did("prealloc", f.path, f.class())
	return err
}

func (f *countFile) Close() error {
	err := f.File.Close()
	if f.written {
		f.fs.did("close", f.path, "")
	}
	return err
}

var _ vfs.File = (*countFile)(nil)
