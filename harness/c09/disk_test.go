package c09

// Disk mode: a child process commits a chain on the operating system's file system (pebble on vfs.Default behind the
// counting wrapper) and kills itself with SIGKILL right after a chosen file-system operation. An in-memory node in the
// same child runs two blocks ahead and its tuples are appended to a file before the disk node is given a block, so
// the parent knows the tuple of every version the disk node can possibly hold. The parent loads the directory the
// killed process left and applies the oracle of the memory mode.

import (
	"bufio"
	"encoding/hex"
	"encoding/json"
	"fmt"
	"io/fs"
	"os"
	"os/exec"
	"path/filepath"
	"strconv"
	"strings"
	"sync/atomic"
	"syscall"
	"testing"

	"github.com/canopy-network/canopy/fsm"
	"github.com/canopy-network/canopy/lib"
	"github.com/canopy-network/canopy/store"
	"github.com/cockroachdb/pebble/v2/vfs"
	"verif/core"
	"verif/node"
)

const diskLag = 2

func diskMemTable(idx int) uint64 {
	if idx%3 == 2 {
		return 0 // the production value: no flush inside the run, everything lives in the WAL
	}
	return memTables[idx%len(memTables)]
}

// TestDiskChild is the process that gets killed.
func TestDiskChild(t *testing.T) {
	dir := os.Getenv("C09_DISK_DIR")
	if dir == "" {
		t.Skip("helper process of TestCheck")
	}
	killAt, _ := strconv.ParseInt(os.Getenv("C09_KILL_AT"), 10, 64)
	idx, _ := strconv.Atoi(os.Getenv("C09_DISK_IDX"))
	name := os.Getenv("C09_DISK_NAME")
	blocks, _ := strconv.Atoi(os.Getenv("C09_DISK_BLOCKS"))
	if err := os.Chdir(dir); err != nil {
		t.Fatal(err)
	}
	progress, err := os.OpenFile(filepath.Join(dir, "progress"), os.O_CREATE|os.O_WRONLY|os.O_APPEND, 0o644)
	if err != nil {
		t.Fatal(err)
	}
	recFile, err := os.OpenFile(filepath.Join(dir, "records.jsonl"), os.O_CREATE|os.O_WRONLY|os.O_APPEND, 0o644)
	if err != nil {
		t.Fatal(err)
	}
	say := func(format string, a ...any) { _, _ = fmt.Fprintf(progress, format+"\n", a...) }
	cfs := newCountFS(vfs.Default)
	after := func(op fsOp) {
		if op.Seq == killAt {
			say("kill %d %s %s", op.Seq, op.Kind, op.File)
			_ = syscall.Kill(syscall.Getpid(), syscall.SIGKILL)
			select {}
		}
	}
	cfs.after.Store(&after)
	var disk atomic.Bool // the disk node is being driven
	hook := func(pt string, i int) {
		if pt == "store.commit.beforeApply" && disk.Load() {
			say("started %d", i)
		}
	}
	store.VerifPoint.Store(&hook)
	rng := core.NewRand(core.Seed(), "C09/"+name)
	w, err := node.NewWorld(rng, worldOpts(idx, nil))
	if err != nil {
		t.Fatal(err)
	}
	ch := w.Ch
	writeRec := func(qc *lib.QuorumCertificate) {
		r, err := takeRecord(ch.Nodes[0], qc)
		if err != nil {
			t.Fatal(err)
		}
		if qc != nil {
			bz, e := lib.Marshal(qc)
			if e != nil {
				t.Fatal(e)
			}
			r.QCBytes = hex.EncodeToString(bz)
		}
		bz, _ := json.Marshal(r)
		_, _ = recFile.Write(append(bz, '\n'))
	}
	writeRec(nil)
	ch.NodeOpts = func(i int, o *node.Options) {
		o.FS, o.MemTableSize = cfs, diskMemTable(idx)
		g, _ := json.Marshal(o.Genesis)
		_ = os.WriteFile(filepath.Join(dir, "genesis.json"), g, 0o644)
	}
	disk.Store(true)
	if _, err = ch.AddNode(); err != nil { // the genesis commit of the disk node
		t.Fatal(err)
	}
	disk.Store(false)
	say("done 1")
	var queue []*lib.QuorumCertificate
	for b := 0; b < blocks+diskLag; b++ {
		nTx := 4 + rng.Intn(30)
		var txs [][]byte
		for i := 0; i < nTx; i++ {
			if ti := w.RandomTx(); ti != nil {
				txs = append(txs, ti.Bytes)
			}
		}
		abort := func(e error) {
			// the chain cannot go on (a failure of another property): the disk node is left as it is, not closed
			say("abort %v", strings.ReplaceAll(e.Error(), "\n", " "))
			os.Exit(0)
		}
		p, e := ch.Propose(0, txs, nil)
		if e != nil {
			abort(e)
		}
		vs, e := ch.Committee(ch.Nodes[0], p.QC.Header.RootHeight)
		if e != nil {
			abort(e)
		}
		if _, _, er := ch.Certify(p.QC, vs, w.SignerPick()); er != nil {
			abort(er)
		}
		if e := ch.Deliver(0, p.QC, nil, false); e != nil {
			abort(e)
		}
		writeRec(p.QC)
		queue = append(queue, p.QC)
		if len(queue) > diskLag {
			qc := queue[0]
			queue = queue[1:]
			disk.Store(true)
			e := ch.Deliver(1, qc, nil, false)
			disk.Store(false)
			if e != nil {
				t.Fatal(e)
			}
			say("done %d", ch.Nodes[1].Store.Version())
		}
	}
	say("end %d", cfs.seq.Load())
	os.Exit(0) // the process ends without closing the store
}

// loadDir copies the database directory a process left behind into a memory file system.
func loadDir(dir string) (*vfs.MemFS, int, error) {
	mem := vfs.NewCrashableMem()
	if err := mem.MkdirAll("db", 0o755); err != nil {
		return nil, 0, err
	}
	n := 0
	root := filepath.Join(dir, "db")
	err := filepath.WalkDir(root, func(p string, d fs.DirEntry, err error) error {
		if err != nil {
			return err
		}
		rel, _ := filepath.Rel(root, p)
		if rel == "." {
			return nil
		}
		if d.IsDir() {
			return mem.MkdirAll(mem.PathJoin("db", rel), 0o755)
		}
		bz, e := os.ReadFile(p)
		if e != nil {
			return e
		}
		f, e := mem.Create(mem.PathJoin("db", rel), vfs.WriteCategoryUnspecified)
		if e != nil {
			return e
		}
		if _, e = f.Write(bz); e != nil {
			return e
		}
		n++
		return f.Close()
	})
	if os.IsNotExist(err) {
		err = nil
	}
	return mem, n, err
}

func runDiskCase(t *testing.T, run *core.Run, name string, idx int) {
	rng := run.Rand(name + "/kill")
	dir, err := os.MkdirTemp("", "verif-c09-disk-")
	if err != nil {
		t.Fatal(err)
	}
	defer os.RemoveAll(dir)
	blocks := core.Pick(4, 8)
	// the kill point: a file-system operation number. Chains of this size perform 15-35 operations per block with small
	// memtables and 2-4 with the production memtable; a number beyond the end gives a process that exits without closing.
	span := 25 * (blocks + 1)
	if diskMemTable(idx) == 0 {
		span = 4*(blocks+1) + 12
	}
	killAt := 1 + rng.Intn(span)
	cmd := exec.Command(os.Args[0], "-test.run", "^TestDiskChild$", "-test.count=1", "-test.timeout", "30m")
	_ = os.MkdirAll(filepath.Join(dir, "tmp"), 0o755) // the killed child cannot clean up its nodes' data dirs: keep them under dir
	cmd.Env = append(os.Environ(), "TMPDIR="+filepath.Join(dir, "tmp"), "C09_DISK_DIR="+dir, fmt.Sprintf("C09_KILL_AT=%d", killAt), fmt.Sprintf("C09_DISK_IDX=%d", idx),
		"C09_DISK_NAME="+name, fmt.Sprintf("C09_DISK_BLOCKS=%d", blocks))
	out, runErr := cmd.CombinedOutput()
	killed := false
	if ee, ok := runErr.(*exec.ExitError); ok {
		if ws, ok := ee.Sys().(syscall.WaitStatus); ok && ws.Signaled() && ws.Signal() == syscall.SIGKILL {
			killed = true
		}
	}
	if runErr != nil && !killed {
		t.Fatalf("%s: child failed: %v\n%s", name, runErr, out)
	}
	// what the child wrote
	ver := &verifier{run: run, name: name, records: map[uint64]*record{}, gov: true, rng: rng, open: func(f vfs.FS) vfs.FS { return f }}
	rf, err := os.Open(filepath.Join(dir, "records.jsonl"))
	if err != nil {
		t.Fatalf("%s: %v\n%s", name, err, out)
	}
	sc := bufio.NewScanner(rf)
	sc.Buffer(make([]byte, 1<<20), 64<<20)
	for sc.Scan() {
		r := new(record)
		if err := json.Unmarshal(sc.Bytes(), r); err != nil {
			break // a torn last line: the child was killed while writing it (the disk node is at least two versions behind)
		}
		if r.QCBytes != "" {
			bz, _ := hex.DecodeString(r.QCBytes)
			r.QC = new(lib.QuorumCertificate)
			if e := lib.Unmarshal(bz, r.QC); e != nil {
				break
			}
		}
		ver.records[r.Version] = r
		if r.Version > ver.lastV {
			ver.lastV = r.Version
		}
	}
	rf.Close()
	im := &image{At: "kill", Pct: 100, Op: fsOp{Seq: int64(killAt)}}
	if !killed {
		im.At = "exit-without-close"
	}
	pf, _ := os.ReadFile(filepath.Join(dir, "progress"))
	for _, line := range strings.Split(string(pf), "\n") {
		f := strings.Fields(line)
		if len(f) < 2 {
			continue
		}
		v, _ := strconv.ParseUint(f[1], 10, 64)
		switch f[0] {
		case "started":
			im.MaxV = v
		case "done":
			im.DoneV = v
		case "abort":
			run.Count("chains_ended_early_by_an_unrelated_failure", 1)
		case "kill":
			if len(f) >= 4 {
				im.Op.Kind, im.Op.File = f[2], f[3]
				im.At = "kill:" + f[2] + "/" + f[3]
			}
		}
	}
	gbz, err := os.ReadFile(filepath.Join(dir, "genesis.json"))
	if err != nil {
		// killed before the disk node was even configured: nothing to judge
		run.Count("disk_children_killed_before_first_operation", 1)
		return
	}
	gen := new(fsm.GenesisState)
	if err := json.Unmarshal(gbz, gen); err != nil {
		t.Fatalf("%s: genesis: %v", name, err)
	}
	wo := worldOpts(idx, nil)
	ver.opts = node.Options{Name: "n1", ChainID: 1, Key: node.BLSKey(1), Genesis: gen, Tweak: wo.Tweak, MemTableSize: diskMemTable(idx)}
	mem, files, err := loadDir(dir)
	if err != nil {
		t.Fatalf("%s: load: %v", name, err)
	}
	im.FS = mem
	run.Count("disk_children_run", 1)
	if killed {
		run.Count("disk_children_sigkilled", 1)
	}
	run.Count("disk_files_loaded", int64(files))
	ver.check(im, mem, idx%2 == 0)
	run.Sample(map[string]any{"case": name, "mode": "disk", "memtable": diskMemTable(idx), "kill_at_op": killAt, "killed": killed, "boundary": im.At, "max_version": im.MaxV, "returned_version": im.DoneV, "files": files})
}
