package c09

// C09 — crash-consistent, all-or-nothing block commit.
//
// Memory mode: a seeded chain of generated transactions is committed through the real controller
// (ProduceProposal -> HandlePeerBlock -> CommitCertificate -> Store.Commit) on a node whose store lives on pebble's
// crashable in-memory file system behind a counting wrapper. At operation boundaries of the file system (any goroutine:
// WAL flusher, memtable flush, compaction, manifest rotation) and at the hook points inside Store.Commit, crash images
// are taken (CrashClone with 0 / 50 / 100 percent of the unsynced data surviving). After every commit the driver
// records (version, commit ids, tree root, full state dump hash, digest of everything indexed for the new height).
// Every image is re-opened through the real path (pebble.Open with NewStore's options -> NewStoreWithDB; then
// fsm.New -> controller.New on a second copy) and must be exactly one of the recorded versions: any version from 0 to
// the one whose batch had been handed to pebble when the image was taken. Then the next two recorded blocks must apply
// through HandlePeerBlock and give the recorded roots and states.
//
// Disk mode: a child process runs the same kind of chain on the operating system's file system and kills itself
// (SIGKILL) at a chosen file-system operation; the parent re-opens the directory and applies the same oracle.

import (
	"bytes"
	"crypto/sha256"
	"encoding/binary"
	"encoding/hex"
	"fmt"
	"math/rand"
	randv2 "math/rand/v2"
	"os"
	"sort"
	"strings"
	"sync"
	"sync/atomic"
	"testing"
	"time"

	"github.com/canopy-network/canopy/fsm"
	"github.com/canopy-network/canopy/lib"
	"github.com/canopy-network/canopy/store"
	"github.com/cockroachdb/pebble/v2"
	"github.com/cockroachdb/pebble/v2/vfs"
	"verif/core"
	"verif/node"
)

// ---------------------------------------------------------------------------------------------------------------------
// what the driver records after every successful commit

type record struct {
	Version   uint64 // store version after the commit (genesis = 1; block h gives version h+1)
	Root      string // root of the state-commitment tree as a read-only view of this version reports it
	LastCID   string // raw value under the 'latest commit id' key
	CID       string // raw value under the per-version commit id key
	Dump      string // hash of every key/value of the state
	DumpN     int
	Index     string   // digest of block, certificate, transactions, events indexed for height Version-1 ("" for genesis)
	TxHashes  []string // hashes of the transactions of block Version-1
	BlockHash string
	QC        *lib.QuorumCertificate `json:"-"` // the certified block as gossiped (what a restarted node is sent)
	QCBytes   string                 `json:",omitempty"`
	Raw       map[string]string      // per component: digest of every raw key/value in the database after the commit
}

// raw layout of the commit ids (store/store.go: lastCommitIDPrefix, stateCommitIDPrefix + version) — read raw so that the
// check observes what a re-opening process reads first
func lastCIDKey() []byte {
	return append(lib.JoinLenPrefix([]byte("a/")), make([]byte, 8)...) // version math.MaxUint64, inverted
}

func cidKey(v uint64) []byte {
	k := append(lib.JoinLenPrefix([]byte("x/")), lib.JoinLenPrefix([]byte(fmt.Sprintf("%d", v)))...)
	var s [8]byte
	binary.BigEndian.PutUint64(s[:], ^v)
	return append(k, s[:]...)
}

func rawGet(db *pebble.DB, k []byte) []byte {
	v, closer, err := db.Get(k)
	if err != nil {
		return nil
	}
	out := bytes.Clone(v)
	_ = closer.Close()
	return out
}

func decodeCID(raw []byte) (*lib.CommitID, bool) {
	if len(raw) < 1 || raw[0] != store.AliveTombstone {
		return nil, false
	}
	id := new(lib.CommitID)
	if err := lib.Unmarshal(raw[1:], id); err != nil {
		return nil, false
	}
	return id, true
}

type rawResult struct {
	digest      map[string]string // per component (first key segment): hash of all raw keys and values of versions <= ver
	total       int
	latest      int // entries of the 'latest' pseudo-version
	orphans     int // entries of versions > ver
	firstOrphan string
}

// rawScan walks the whole pebble database. Versioned keys end in the inverted 8-byte version.
func rawScan(db *pebble.DB, ver uint64) (*rawResult, error) {
	it, err := db.NewIter(nil)
	if err != nil {
		return nil, err
	}
	defer it.Close()
	r := &rawResult{digest: map[string]string{}}
	hs := map[string]interface {
		Write([]byte) (int, error)
		Sum([]byte) []byte
	}{}
	for ok := it.First(); ok; ok = it.Next() {
		k := it.Key()
		r.total++
		if len(k) < 9 {
			continue
		}
		kv := ^binary.BigEndian.Uint64(k[len(k)-8:])
		if kv == ^uint64(0) {
			r.latest++
		} else if kv > ver {
			if r.orphans == 0 {
				r.firstOrphan = fmt.Sprintf("%q @%d", k[:len(k)-8], kv)
			}
			r.orphans++
			continue
		}
		comp := "?"
		if int(k[0]) < len(k) {
			comp = string(k[1 : 1+int(k[0])])
		}
		h := hs[comp]
		if h == nil {
			h = sha256.New()
			hs[comp] = h
		}
		val, e := it.ValueAndErr()
		if e != nil {
			return nil, e
		}
		var l [8]byte
		binary.BigEndian.PutUint32(l[:4], uint32(len(k)))
		binary.BigEndian.PutUint32(l[4:], uint32(len(val)))
		h.Write(l[:])
		h.Write(k)
		h.Write(val)
	}
	for c, h := range hs {
		r.digest[c] = hex.EncodeToString(h.Sum(nil)[:12])
	}
	return r, it.Error()
}

func diffRaw(got, want map[string]string) string {
	var out []string
	for c, d := range want {
		if got[c] != d {
			out = append(out, c)
		}
	}
	for c := range got {
		if _, ok := want[c]; !ok {
			out = append(out, c)
		}
	}
	sort.Strings(out)
	return strings.Join(out, ",")
}

// indexDigest reads everything the indexer serves for a block height (from the database: caches purged) and hashes it.
func indexDigest(st *store.Store, height uint64, txHashes []string) (digest string, blockHash []byte, hashes []string, err error) {
	store.VerifPurgeProcessCaches()
	defer store.VerifPurgeProcessCaches()
	h := sha256.New()
	put := func(tag string, m any) error {
		bz, e := lib.Marshal(m)
		if e != nil {
			return fmt.Errorf("%s: %v", tag, e)
		}
		var l [4]byte
		binary.BigEndian.PutUint32(l[:], uint32(len(bz)))
		h.Write([]byte(tag))
		h.Write(l[:])
		h.Write(bz)
		return nil
	}
	blk, e := st.GetBlockByHeight(height)
	if e != nil {
		return "", nil, nil, fmt.Errorf("GetBlockByHeight(%d): %v", height, e)
	}
	if blk == nil || blk.BlockHeader == nil || blk.BlockHeader.Height != height {
		return "", nil, nil, fmt.Errorf("GetBlockByHeight(%d): no such block", height)
	}
	blk.Meta = nil // size/took are derived on read
	if err = put("block", blk); err != nil {
		return
	}
	byHash, e := st.GetBlockByHash(blk.BlockHeader.Hash)
	if e != nil || byHash == nil || byHash.BlockHeader == nil {
		return "", nil, nil, fmt.Errorf("GetBlockByHash(%x): %v", blk.BlockHeader.Hash, e)
	}
	byHash.Meta = nil
	if err = put("block-by-hash", byHash); err != nil {
		return
	}
	qc, e := st.GetQCByHeight(height)
	if e != nil {
		return "", nil, nil, fmt.Errorf("GetQCByHeight(%d): %v", height, e)
	}
	if err = put("qc", qc); err != nil {
		return
	}
	for _, tx := range blk.Transactions {
		hashes = append(hashes, tx.TxHash)
	}
	if txHashes == nil {
		txHashes = hashes
	}
	for _, hs := range txHashes {
		bz, _ := lib.StringToBytes(hs)
		tx, e := st.GetTxByHash(bz)
		if e != nil {
			return "", nil, nil, fmt.Errorf("GetTxByHash(%s): %v", hs, e)
		}
		if err = put("tx", tx); err != nil {
			return
		}
	}
	evs, e := st.GetEventsNonPaginated(height, false)
	if e != nil {
		return "", nil, nil, fmt.Errorf("events(%d): %v", height, e)
	}
	for _, ev := range evs {
		if err = put("event", ev); err != nil {
			return
		}
	}
	return hex.EncodeToString(h.Sum(nil)[:16]), blk.BlockHeader.Hash, hashes, nil
}

// takeRecord reads the tuple of the version the live node just committed.
func takeRecord(n *node.Node, qc *lib.QuorumCertificate) (*record, error) {
	st := n.Store
	v := st.Version()
	r := &record{Version: v, QC: qc}
	ro, e := st.NewReadOnly(v)
	if e != nil {
		return nil, fmt.Errorf("NewReadOnly(%d): %v", v, e)
	}
	root, e := ro.Root()
	if e != nil {
		return nil, fmt.Errorf("root: %v", e)
	}
	r.Root = hex.EncodeToString(root)
	d, cnt, err := node.DumpState(ro)
	ro.Discard()
	if err != nil {
		return nil, err
	}
	r.Dump, r.DumpN = d, cnt
	raw, err := rawScan(n.DB, ^uint64(0))
	if err != nil {
		return nil, err
	}
	r.Raw = raw.digest
	r.LastCID = hex.EncodeToString(rawGet(n.DB, lastCIDKey()))
	r.CID = hex.EncodeToString(rawGet(n.DB, cidKey(v)))
	if v >= 2 {
		dg, bh, hashes, err := indexDigest(st, v-1, nil)
		if err != nil {
			return nil, err
		}
		r.Index, r.TxHashes, r.BlockHash = dg, hashes, hex.EncodeToString(bh)
	}
	return r, nil
}

// ---------------------------------------------------------------------------------------------------------------------
// crash images

type image struct {
	FS    *vfs.MemFS `json:"-"`
	At    string     // op | hook:<name> | clean-shutdown | kill
	Op    fsOp
	Pct   int
	Draw  int
	MaxV  uint64 // the newest version whose batch had been handed to pebble when the image was taken
	DoneV uint64 // the newest version whose Commit() had returned
	Exact bool   // the image must re-open at exactly MaxV (clean shutdown)
}

func (im *image) label() string {
	if im.At == "op" {
		return fmt.Sprintf("op#%d %s/%s pct=%d draw=%d", im.Op.Seq, im.Op.Kind, im.Op.File, im.Pct, im.Draw)
	}
	return fmt.Sprintf("%s v=%d pct=%d draw=%d", im.At, im.MaxV, im.Pct, im.Draw)
}

func (im *image) site() string {
	if im.At == "op" {
		return im.Op.Kind + "/" + im.Op.File
	}
	return im.At
}

// dupFS copies an image exactly (a clone in which 100% of the unsynced data survives)
func dupFS(m *vfs.MemFS) *vfs.MemFS {
	return m.CrashClone(vfs.CrashCloneCfg{UnsyncedDataPercent: 100, RNG: randv2.New(randv2.NewPCG(1, 1))})
}

type cfg struct{ pct, draw int }

// recorder drives one chain on a crashable file system and collects images.
type recorder struct {
	name     string
	seed     uint64
	mem      *vfs.MemFS
	cfs      *countFS
	started  atomic.Uint64
	done     atomic.Uint64
	live     atomic.Bool // the recorded node is being driven (the hook is process-global: verification nodes commit too)
	window   atomic.Bool // images are being taken
	mu       sync.Mutex
	queue    []*image
	every    int // take op images at every n-th boundary (1 = all) ...
	offset   int
	thorough bool
	nTaken   atomic.Int64
}

func (rc *recorder) snap(at string, op fsOp, c cfg, maxV func() uint64, exact bool) {
	done := rc.done.Load()
	cc := vfs.CrashCloneCfg{UnsyncedDataPercent: c.pct}
	if c.pct > 0 {
		cc.RNG = randv2.New(randv2.NewPCG(rc.seed, uint64(op.Seq)<<16|uint64(c.pct)<<8|uint64(c.draw)))
	}
	clone := rc.mem.CrashClone(cc)
	im := &image{FS: clone, At: at, Op: op, Pct: c.pct, Draw: c.draw, MaxV: maxV(), DoneV: done, Exact: exact}
	rc.mu.Lock()
	rc.queue = append(rc.queue, im)
	rc.mu.Unlock()
	rc.nTaken.Add(1)
}

var allCfgs = []cfg{{0, 0}, {100, 0}, {50, 0}, {50, 1}, {50, 2}}

// cfgsFor is the imaging policy: a pure function of (tier, boundary number, kind of operation).
func (rc *recorder) cfgsFor(op fsOp) []cfg {
	if rc.thorough {
		return allCfgs
	}
	key := op.File == "wal" || op.File == "manifest" || op.Kind == "rename" || op.Kind == "dirsync"
	n := int(op.Seq) + rc.offset
	switch {
	case op.File == "wal" && (op.Kind == "write" || op.Kind == "writeat"):
		// the records of a commit reach the file system here: everything survives / a random half of the new 4K blocks survives
		return []cfg{{100, 0}, {50, n % 3}}
	case key && n%2 == 0:
		return []cfg{allCfgs[(n/2)%len(allCfgs)]}
	case key:
		return nil
	case n%rc.every == 0:
		return []cfg{allCfgs[(n/rc.every)%len(allCfgs)]}
	}
	return nil
}

func (rc *recorder) afterOp(op fsOp) {
	if !rc.window.Load() {
		return
	}
	for _, c := range rc.cfgsFor(op) {
		// the bound is read AFTER the clone: a batch can only be in the clone if its version was published before
		rc.snap("op", op, c, rc.started.Load, false)
	}
}

func (rc *recorder) hook(name string, i int) {
	if !rc.live.Load() {
		return
	}
	switch name {
	case "store.commit.beforeApply":
		// nothing of version i has been handed to pebble yet: an image taken here must re-open at an older version
		if rc.window.Load() {
			prev := uint64(i) - 1
			cs := []cfg{{100, 0}, allCfgs[(i+rc.offset)%len(allCfgs)]}
			if rc.thorough {
				cs = allCfgs
			}
			for _, c := range cs {
				rc.snap("hook:beforeApply", fsOp{Seq: int64(i) << 32}, c, func() uint64 { return prev }, false)
			}
		}
		rc.started.Store(uint64(i))
	case "store.commit.afterApply":
		if rc.window.Load() {
			cs := []cfg{{100, 0}, allCfgs[(i+rc.offset+2)%len(allCfgs)]}
			if rc.thorough {
				cs = allCfgs
			}
			for _, c := range cs {
				rc.snap("hook:afterApply", fsOp{Seq: int64(i)<<32 | 1}, c, func() uint64 { return uint64(i) }, false)
			}
		}
	}
}

func (rc *recorder) drain() []*image {
	rc.mu.Lock()
	q := rc.queue
	rc.queue = nil
	rc.mu.Unlock()
	return q
}

// ---------------------------------------------------------------------------------------------------------------------
// the oracle over one re-opened image

type fatalLog struct {
	lib.LoggerI
	msg atomic.Pointer[string]
}

type fatalPanic string

func (l *fatalLog) Fatalf(format string, args ...any) {
	s := fmt.Sprintf(format, args...)
	l.msg.Store(&s)
	panic(fatalPanic(s))
}
func (l *fatalLog) Fatal(msg string) { l.Fatalf("%s", msg) }

type verifier struct {
	run     *core.Run
	name    string
	records map[uint64]*record // by version
	lastV   uint64             // newest recorded version
	opts    node.Options       // options of the recorded node (key, chain id, genesis, tweak, memtable size)
	gov     bool
	rng     *rand.Rand
	open    func(fs vfs.FS) vfs.FS // how an image's file system is handed to the store (identity)
}

func (v *verifier) violate(kind string, im *image, detail map[string]any) {
	detail["case"], detail["image"], detail["max_version"], detail["returned_version"] = v.name, im.label(), im.MaxV, im.DoneV
	v.run.Violation(fmt.Sprintf("%s at=%s pct=%d", kind, im.site(), im.Pct), "^"+v.name+"$", detail)
}

// check re-opens one image and compares everything with the records. It returns the version the image opened at.
func (v *verifier) check(im *image, fs *vfs.MemFS, live bool) {
	v.run.Eval(1)
	v.run.Count("images_opened", 1)
	store.VerifPurgeProcessCaches()
	defer store.VerifPurgeProcessCaches()
	// ---- A: the store alone, the way a starting process opens it
	flog := &fatalLog{LoggerI: lib.NewNullLogger()}
	var st *store.Store
	var openErr string
	func() {
		defer func() {
			if r := recover(); r != nil {
				if fp, ok := r.(fatalPanic); ok {
					openErr = "fatal: " + string(fp)
					return
				}
				panic(r)
			}
		}()
		s, e := store.VerifNewStoreOnFS(v.cfgOf(), dupFS(fs), "db", v.opts.MemTableSize, flog)
		if e != nil {
			openErr = e.Error()
			return
		}
		st = s
	}()
	if st == nil {
		if im.MaxV == 0 {
			// no version had ever been handed to pebble (the database itself was still being created): the property speaks
			// about nodes that had committed something. Counted, not judged.
			v.run.Count("images_before_first_commit_unopenable", 1)
			return
		}
		v.violate("reopen-failed stage=store", im, map[string]any{"error": openErr})
		return
	}
	ver := st.Version()
	ok := v.checkStore(im, st, ver)
	_ = st.Close()
	if !ok {
		return
	}
	// ---- B: the full node (store -> fsm.New -> controller.New) on a second copy, then the next two recorded blocks
	v.checkContinue(im, fs, ver, live)
}

func (v *verifier) cfgOf() lib.Config {
	c := lib.DefaultConfig()
	c.ChainId = v.opts.ChainID
	c.P2PConfig.NetworkID = node.NetworkID
	c.StoreConfig.LSSCompactionInterval = 0
	if v.opts.Tweak != nil {
		v.opts.Tweak(&c)
	}
	return c
}

func relation(im *image, ver uint64) string {
	switch {
	case ver > im.DoneV:
		return "in-flight-complete"
	case ver == im.DoneV:
		return "newest-returned"
	case ver+1 == im.DoneV:
		return "previous"
	case ver == 0:
		return "empty"
	}
	return "older"
}

func (v *verifier) checkStore(im *image, st *store.Store, ver uint64) bool {
	if ver > im.MaxV {
		v.violate("version-never-committed", im, map[string]any{"version": ver})
		return false
	}
	if im.Exact && ver != im.MaxV {
		v.violate("version-lost-after-clean-shutdown", im, map[string]any{"version": ver})
		return false
	}
	rec := v.records[ver]
	if rec == nil && ver != 0 {
		v.violate("version-never-committed", im, map[string]any{"version": ver, "note": "no record"})
		return false
	}
	db := st.DB()
	// commit ids
	if ver == 0 {
		if raw := rawGet(db, lastCIDKey()); raw != nil {
			if id, ok := decodeCID(raw); !ok || id.Height != 0 {
				v.violate("commit-id-mismatch which=latest", im, map[string]any{"version": ver, "raw": core.Hex(raw)})
				return false
			}
		}
	} else {
		raw := rawGet(db, lastCIDKey())
		id, ok := decodeCID(raw)
		if !ok || id.Height != ver || hex.EncodeToString(id.Root) != rec.Root {
			v.violate("commit-id-mismatch which=latest", im, map[string]any{"version": ver, "raw": core.Hex(raw), "recorded_root": rec.Root})
			return false
		}
		for u := uint64(1); u <= ver; u++ {
			raw := rawGet(db, cidKey(u))
			id, ok := decodeCID(raw)
			if !ok || id.Height != u || hex.EncodeToString(id.Root) != v.records[u].Root {
				v.violate("commit-id-mismatch which=per-version", im, map[string]any{"version": ver, "of_version": u, "raw": core.Hex(raw), "recorded_root": v.records[u].Root})
				return false
			}
		}
		v.run.Count("commit_ids_compared", int64(ver)+1)
	}
	// nothing of a later version may be in the database (every versioned key carries its version in the last 8 bytes)
	raw, err := rawScan(db, ver)
	if err != nil {
		v.violate("reopen-failed stage=scan", im, map[string]any{"error": err.Error()})
		return false
	}
	orphans, firstOrphan, latestKeys := raw.orphans, raw.firstOrphan, raw.latest
	v.run.Count("raw_keys_scanned", int64(raw.total))
	if orphans > 0 {
		v.violate("keys-of-uncommitted-version-present", im, map[string]any{"version": ver, "keys": orphans, "first": firstOrphan})
		return false
	}
	if ver == 0 {
		if latestKeys > 0 {
			v.violate("state-mismatch view=latest", im, map[string]any{"version": 0, "latest_state_keys": latestKeys})
			return false
		}
		v.run.Distinct(fmt.Sprintf("%s|%d|%s", im.site(), im.Pct, relation(im, ver)))
		v.run.Count("reopened_"+relation(im, ver), 1)
		return true
	}
	// latest state
	d, cnt, e := node.DumpState(st)
	if e != nil || d != rec.Dump {
		v.violate("state-mismatch view=latest", im, map[string]any{"version": ver, "dump": d, "records": cnt, "recorded_dump": rec.Dump, "recorded_records": rec.DumpN, "error": fmt.Sprint(e)})
		return false
	}
	v.run.Count("state_records_compared", int64(cnt))
	// tree root: as the writable store computes it from what is on disk, and as a read-only view reports it
	root, le := st.Root()
	if le != nil || hex.EncodeToString(root) != rec.Root {
		v.violate("root-mismatch view=store", im, map[string]any{"version": ver, "root": hex.EncodeToString(root), "recorded": rec.Root, "error": fmt.Sprint(le)})
		return false
	}
	// history: read-only views of earlier versions (all of them on small chains)
	for u := uint64(1); u <= ver; u++ {
		ro, le := st.NewReadOnly(u)
		if le != nil {
			v.violate("state-mismatch view=historical", im, map[string]any{"version": ver, "of_version": u, "error": le.Error()})
			return false
		}
		r2, _ := ro.Root()
		d2, _, e2 := node.DumpState(ro)
		ro.Discard()
		if hex.EncodeToString(r2) != v.records[u].Root {
			v.violate("root-mismatch view=historical", im, map[string]any{"version": ver, "of_version": u, "root": hex.EncodeToString(r2), "recorded": v.records[u].Root})
			return false
		}
		if e2 != nil || d2 != v.records[u].Dump {
			v.violate("state-mismatch view=historical", im, map[string]any{"version": ver, "of_version": u, "dump": d2, "recorded_dump": v.records[u].Dump, "error": fmt.Sprint(e2)})
			return false
		}
		v.run.Count("historical_views_compared", 1)
	}
	// indexes of every committed height
	for u := uint64(2); u <= ver; u++ {
		dg, _, _, e := indexDigest(st, u-1, v.records[u].TxHashes)
		if e != nil || dg != v.records[u].Index {
			v.violate("index-mismatch", im, map[string]any{"version": ver, "height": u - 1, "digest": dg, "recorded": v.records[u].Index, "error": fmt.Sprint(e)})
			return false
		}
		v.run.Count("indexed_heights_compared", 1)
	}
	// nothing indexed for later heights
	store.VerifPurgeProcessCaches()
	for u := ver + 1; u <= v.lastV && u <= ver+3; u++ {
		if b, e := st.GetBlockByHeight(u - 1); e == nil && b != nil && b.BlockHeader != nil && (b.BlockHeader.Height != 0 || len(b.BlockHeader.Hash) != 0) {
			v.violate("index-of-later-height-visible what=block", im, map[string]any{"version": ver, "height": u - 1})
			return false
		}
		for _, hs := range v.records[u].TxHashes {
			bz, _ := lib.StringToBytes(hs)
			if tx, e := st.GetTxByHash(bz); e == nil && tx != nil && tx.TxHash != "" {
				// the same transaction hash may legitimately be in an earlier block only if it was recorded there
				if tx.Height > ver-1 {
					v.violate("index-of-later-height-visible what=tx", im, map[string]any{"version": ver, "height": u - 1, "tx": hs})
					return false
				}
			}
		}
		v.run.Count("later_heights_checked_absent", 1)
	}
	store.VerifPurgeProcessCaches()
	// finally the database itself: every raw key/value of every component (latest state, historical state, tree nodes,
	// indexes, commit ids) up to this version must be what the uncrashed node had right after committing it
	if diff := diffRaw(raw.digest, rec.Raw); diff != "" {
		v.violate("raw-content-mismatch component="+diff, im, map[string]any{"version": ver, "digests": raw.digest, "recorded": rec.Raw})
		return false
	}
	v.run.Count("raw_components_compared", int64(len(rec.Raw)))
	rel := relation(im, ver)
	v.run.Distinct(fmt.Sprintf("%s|%d|%s", im.site(), im.Pct, rel))
	v.run.Count("reopened_"+rel, 1)
	return true
}

// checkContinue builds the full node on the image and applies the next two recorded blocks.
func (v *verifier) checkContinue(im *image, fs *vfs.MemFS, ver uint64, live bool) {
	o := v.opts
	o.FS, o.Dir = v.open(dupFS(fs)), ""
	n, err := node.New(o)
	if err != nil {
		v.violate("reopen-failed stage=node", im, map[string]any{"version": ver, "error": err.Error()})
		return
	}
	defer n.Close()
	ch := &node.Chain{ChainID: o.ChainID, Nodes: []*node.Node{n}, Time: 1_800_000_000_000_000}
	if v.gov {
		n.C.Consensus.VerifSetProposalVoteDeadline(time.Now().Add(1000 * time.Hour).UnixMilli())
	}
	if live {
		// the path of a validator that comes back and is immediately in consensus
		if e := n.Start(); e != nil {
			v.violate("reopen-failed stage=start", im, map[string]any{"version": ver, "error": e.Error()})
			return
		}
	} else {
		// the path of every restarted node: it is syncing until it caught up
		rcid, e := n.C.FSM.GetRootChainId()
		if e == nil {
			_, e = n.RCM.GetRootChainInfo(rcid, n.Cfg.ChainId)
		}
		if e != nil {
			v.violate("reopen-failed stage=start", im, map[string]any{"version": ver, "error": e.Error()})
			return
		}
		n.C.Syncing().Store(true)
	}
	at := n.Store.Version()
	if ver == 0 {
		// an empty database: the node starts over from the genesis file
		if at != 1 {
			v.violate("reopen-failed stage=genesis", im, map[string]any{"version": at})
			return
		}
	} else if at != ver {
		v.violate("version-differs-between-opens", im, map[string]any{"store": ver, "node": at})
		return
	}
	for step := 1; step <= 2; step++ {
		next := v.records[at+1]
		if next == nil {
			return
		}
		if e := ch.Deliver(0, next.QC, nil, !live); e != nil {
			v.violate(fmt.Sprintf("cannot-continue step=%d", step), im, map[string]any{"from_version": at, "error": e.Error()})
			return
		}
		at = n.Store.Version()
		got, e2 := takeRecord(n, nil)
		if e2 != nil {
			v.violate(fmt.Sprintf("cannot-continue step=%d", step), im, map[string]any{"from_version": at - 1, "error": e2.Error()})
			return
		}
		if got.Version != next.Version || got.Root != next.Root || got.Dump != next.Dump || got.Index != next.Index || got.CID != next.CID || got.LastCID != next.LastCID || diffRaw(got.Raw, next.Raw) != "" {
			v.violate(fmt.Sprintf("continuation-diverges step=%d", step), im, map[string]any{"from_version": ver, "got": summary(got), "recorded": summary(next)})
			return
		}
		v.run.Count("blocks_applied_after_reopen", 1)
	}
}

func summary(r *record) map[string]any {
	return map[string]any{"version": r.Version, "root": r.Root, "dump": r.Dump, "index": r.Index, "cid": r.CID, "last_cid": r.LastCID, "raw": r.Raw}
}

// ---------------------------------------------------------------------------------------------------------------------
// one chain in memory mode

func worldOpts(idx int, nodeOpts func(i int, o *node.Options)) node.WorldOpts {
	return node.WorldOpts{
		Nodes: 1, GenesisVals: 4, ExtraVals: 3, Users: 8, Gov: true, Delegates: 1,
		Stake:   func(i int, r *rand.Rand) uint64 { return uint64(1000 + r.Intn(3_000_000)) },
		Weights: map[string]int{"send": 40, "send-edge": 10, "stake": 6, "edit-stake": 8, "unstake": 4, "pause": 4, "unpause": 3, "subsidy": 5, "invalid": 6, "change-param": 3, "dao-transfer": 3},
		Params: func(p *fsm.Params, r *rand.Rand) {
			p.Validator.NonSignWindow, p.Validator.MaxNonSign = 3, 1
		},
		Tweak: func(c *lib.Config) {
			c.StoreConfig.StateChangeJournalEnabled = idx%2 == 0
			c.IndexByAccount = idx%3 != 0
		},
		NodeOpts: nodeOpts,
	}
}

var memTables = []uint64{64 << 10, 128 << 10, 256 << 10, 96 << 10, 1 << 20, 32 << 10}

func runMemChain(t *testing.T, run *core.Run, name string, idx int) {
	rng := run.Rand(name)
	mem := vfs.NewCrashableMem()
	rc := &recorder{name: name, seed: uint64(rng.Int63()), mem: mem, cfs: newCountFS(mem), thorough: core.Thorough(), every: 9, offset: idx}
	after := rc.afterOp
	rc.cfs.after.Store(&after)
	hook := rc.hook
	store.VerifPoint.Store(&hook)
	defer store.VerifPoint.Store(nil)
	memTable := memTables[idx%len(memTables)]
	var nodeOptions node.Options
	wo := worldOpts(idx, func(i int, o *node.Options) {
		o.FS, o.MemTableSize = rc.cfs, memTable
		nodeOptions = *o
	})
	// the genesis commit is part of the history: images are taken from the first file-system operation on
	rc.live.Store(true)
	rc.window.Store(true)
	w, err := node.NewWorld(rng, wo)
	if err != nil {
		t.Fatalf("%s: world: %v", name, err)
	}
	rc.live.Store(false)
	ch := w.Ch
	n0 := func() *node.Node { return ch.Nodes[0] }
	ver := &verifier{run: run, name: name, records: map[uint64]*record{}, opts: nodeOptions, gov: true, rng: rng, open: func(fs vfs.FS) vfs.FS { return fs }}
	ver.opts.Genesis = nodeOptions.Genesis
	addRecord := func(qc *lib.QuorumCertificate) *record {
		r, err := takeRecord(n0(), qc)
		if err != nil {
			t.Fatalf("%s: record of version %d: %v", name, n0().Store.Version(), err)
		}
		ver.records[r.Version] = r
		ver.lastV = r.Version
		rc.done.Store(r.Version)
		return r
	}
	if g := addRecord(nil); g.Version != 1 {
		t.Fatalf("%s: genesis left the store at version %d", name, g.Version)
	}
	blocks, tail := core.Pick(6, 10), 2
	var pending []*image
	nImg := 0
	var tChain, tVerify time.Duration
	flush := func(final bool) {
		pending = append(pending, rc.drain()...)
		keep := pending[:0]
		for _, im := range pending {
			// an image can be judged once the records of the two versions after the newest it may hold exist
			if !final && im.MaxV+2 > ver.lastV {
				keep = append(keep, im)
				continue
			}
			nImg++
			t0 := time.Now()
			ver.check(im, im.FS, nImg%4 == 0)
			tVerify += time.Since(t0) // reporting only
			im.FS = nil
		}
		pending = keep
	}
	for b := 0; b < blocks+tail; b++ {
		if b == blocks {
			rc.window.Store(false)
		}
		nTx := 4 + rng.Intn(30)
		if b%4 == 3 {
			nTx = 40 + rng.Intn(40)
		}
		rc.live.Store(true)
		t0 := time.Now()
		rec, _, err := w.Step(nTx)
		tChain += time.Since(t0) // reporting only
		rc.live.Store(false)
		if err != nil {
			// the uncrashed node cannot go on (a failure of another property, ex. a generated governance change that wedges
			// the chain): the images taken so far are still judged, the chain just ends here
			run.Count("chains_ended_early_by_an_unrelated_failure", 1)
			run.Sample(map[string]any{"case": name, "ended_early_at_block": b, "error": err.Error()})
			rc.window.Store(false)
			break
		}
		r := addRecord(rec.QC)
		run.Count("commits_recorded", 1)
		run.Count("transactions_committed", int64(len(r.TxHashes)))
		if run.Violations() > 3 {
			break
		}
		flush(false)
	}
	// a clean shutdown must keep everything: Close() flushes; then only synced data is kept
	last := n0().Store.Version()
	func() {
		defer func() { _ = recover() }()
		n0().C.Mempool.FSM.Discard()
	}()
	if err := n0().Store.Close(); err != nil {
		t.Fatalf("%s: close: %v", name, err)
	}
	pending = append(pending, &image{FS: mem.CrashClone(vfs.CrashCloneCfg{}), At: "clean-shutdown", MaxV: last, DoneV: last, Exact: true})
	flush(true)
	if os.Getenv("C09_DEBUG") != "" {
		fmt.Printf("DEBUG %s memtable=%d ops=%d images=%d chain=%.1fs verify=%.1fs\n", name, memTable, rc.cfs.seq.Load(), nImg, tChain.Seconds(), tVerify.Seconds())
	}
	run.Count("fs_operations_numbered", rc.cfs.seq.Load())
	run.Count("images_taken", rc.nTaken.Load()+1)
	run.Sample(map[string]any{"case": name, "mode": "memfs", "memtable": memTable, "blocks": blocks + tail, "fs_ops": rc.cfs.seq.Load(), "images": nImg, "generated": w.NTx})
	_ = os.RemoveAll(n0().Dir)
}

func TestCheck(t *testing.T) {
	run := core.Start(t, "C09", "fault_enumeration",
		"crash images of a node's store taken at numbered file-system operation boundaries (and at the hook points inside Store.Commit) while seeded chains of generated blocks are committed through the real controller; "+
			"each image re-opened through NewStoreWithDB and fsm.New/controller.New and compared with the recorded tuple of the version it opened at, then two more recorded blocks applied; "+
			"distinct_nontrivial = distinct (operation kind/file class or hook at the crash boundary, percent of unsynced data surviving, relation of the surviving version to the commit in flight) among images that re-opened")
	defer run.Finish()
	run.MinDistinct = 12
	run.Assume("pebble's own recovery (WAL replay, manifest, CrashClone's model of what a crash may keep) is the trusted base")
	run.Assume("memory mode opens pebble through the verif hook VerifNewStoreOnFS, which repeats NewStore's option literal (FS, cache size, memtable size differ)")
	run.Assume("commits are written with pebble.NoSync: WHICH committed version survives a crash is not constrained, only that it is one of them, whole")
	run.Assume("disk mode kills the process (SIGKILL): what the operating system had been given survives; power loss is only modelled in memory mode")
	nMem, nDisk := core.Pick(13, 32), core.Pick(3, 32)
	defer func() {
		if early := run.Counter("chains_ended_early_by_an_unrelated_failure"); early*4 > int64(nMem+nDisk) {
			run.Inconclusive("%d of %d chains could not be driven to their end", early, nMem+nDisk)
		}
	}()
	run.Sharded(nMem+nDisk, func(i int) {
		if i < nMem {
			if name := fmt.Sprintf("mem/%d", i); run.Want(name) {
				runMemChain(t, run, name, i)
			}
			return
		}
		if name := fmt.Sprintf("disk/%d", i-nMem); run.Want(name) {
			runDiskCase(t, run, name, i-nMem)
		}
	})
}
