package c07

// C07 — transaction and block atomicity. Two full nodes share a prefix. Node Y only ever sees honest proposals and
// blocks. Node X is additionally offered, at every height, a series of proposals and fully certified peer blocks that
// must be rejected at different stages (bad last certificate, a failing transaction inside the block, tampered header
// fields, mismatched certificate results, unjustified slash recipients, oversize, wrong parent). After every rejected
// call X's version, full state dump and indexed history must be what they were; then X must accept the honest block,
// and after every block X and Y must be byte-identical. The proposer path is fed transactions engineered to fail at
// late steps (after fee deduction, after validation) next to successful transactions touching the same records: the
// block it builds (failures dropped) must be exactly what a node computes from the successful transactions alone.

import (
	"bytes"
	"fmt"
	"math/rand"
	"testing"

	"github.com/canopy-network/canopy/fsm"
	"github.com/canopy-network/canopy/lib"
	"github.com/canopy-network/canopy/lib/crypto"
	"verif/core"
	"verif/node"
)

type fingerprint struct {
	version uint64
	dump    string
	records int
	lastBlk string
}

func finger(ch *node.Chain, i int) fingerprint {
	n := ch.Nodes[i]
	d, cnt, _ := node.DumpState(n.C.FSM.Store())
	f := fingerprint{version: n.Store.Version(), dump: d, records: cnt}
	if b, err := ch.Block(i, n.Height()-1); err == nil && b != nil && b.BlockHeader != nil {
		f.lastBlk = fmt.Sprintf("%x", b.BlockHeader.Hash)
	}
	return f
}

func rehash(b *lib.Block) []byte {
	if _, err := b.BlockHeader.SetHash(); err != nil {
		panic(err)
	}
	bz, err := lib.Marshal(b)
	if err != nil {
		panic(err)
	}
	return bz
}

func cloneBlock(bz []byte) *lib.Block {
	b := new(lib.Block)
	if err := lib.Unmarshal(bz, b); err != nil {
		panic(err)
	}
	return b
}

type bad struct {
	name string
	p    *node.Proposal
	// certificate results are vouched for by the +2/3 that signed them and are not re-derived by HandlePeerBlock, so a
	// results deviation is a rejection point of proposal validation only
	blockLevel bool
}

// badProposals derives proposals from the honest one that must be rejected.
func badProposals(w *node.World, p *node.Proposal, failing []byte, rng *rand.Rand) []bad {
	var out []bad
	mk := func(name string, blk *lib.Block, res *lib.CertificateResult) {
		bz := rehash(blk)
		q := &node.Proposal{RCBuildHeight: p.RCBuildHeight, BlockBytes: bz, Block: blk, Results: res, Proposer: p.Proposer}
		q.QC = &lib.QuorumCertificate{Header: p.QC.Header, Block: bz, BlockHash: blk.BlockHeader.Hash, Results: res, ResultsHash: res.Hash(), ProposerKey: p.QC.ProposerKey}
		out = append(out, bad{name, q, !bytes.Equal(bz, p.BlockBytes)})
	}
	cloneRes := func() *lib.CertificateResult {
		bz, _ := lib.Marshal(p.Results)
		r := new(lib.CertificateResult)
		_ = lib.Unmarshal(bz, r)
		return r
	}
	// a failing transaction inside the block
	if failing != nil {
		b := cloneBlock(p.BlockBytes)
		pos := rng.Intn(len(b.Transactions) + 1)
		b.Transactions = append(b.Transactions[:pos], append([][]byte{failing}, b.Transactions[pos:]...)...)
		mk("failing-transaction-in-block", b, cloneRes())
	}
	// a successful transaction removed (header no longer matches the execution)
	if len(p.Block.Transactions) > 0 {
		b := cloneBlock(p.BlockBytes)
		pos := rng.Intn(len(b.Transactions))
		b.Transactions = append(b.Transactions[:pos], b.Transactions[pos+1:]...)
		mk("transaction-removed", b, cloneRes())
		if len(p.Block.Transactions) > 1 {
			b = cloneBlock(p.BlockBytes)
			b.Transactions[0], b.Transactions[len(b.Transactions)-1] = b.Transactions[len(b.Transactions)-1], b.Transactions[0]
			mk("transactions-reordered", b, cloneRes())
		}
	}
	// tampered header fields
	{
		b := cloneBlock(p.BlockBytes)
		b.BlockHeader.StateRoot = crypto.Hash([]byte("other state"))
		mk("header-state-root", b, cloneRes())
		b = cloneBlock(p.BlockBytes)
		b.BlockHeader.TotalTxs++
		mk("header-total-txs", b, cloneRes())
		b = cloneBlock(p.BlockBytes)
		b.BlockHeader.LastBlockHash = crypto.Hash([]byte("other parent"))
		mk("header-wrong-parent", b, cloneRes())
		b = cloneBlock(p.BlockBytes)
		b.BlockHeader.NextValidatorRoot = crypto.Hash([]byte("other validators"))
		mk("header-next-validator-root", b, cloneRes())
		if b.BlockHeader.Height > 1 && b.BlockHeader.LastQuorumCertificate != nil {
			b = cloneBlock(p.BlockBytes)
			b.BlockHeader.LastQuorumCertificate.BlockHash = crypto.Hash([]byte("other last block"))
			mk("bad-last-certificate-payload", b, cloneRes())
			b = cloneBlock(p.BlockBytes)
			b.BlockHeader.LastQuorumCertificate.Signature.Signature[7] ^= 0x20
			mk("bad-last-certificate-signature", b, cloneRes())
		}
	}
	// certificate results that the replica does not reproduce
	{
		r := cloneRes()
		if len(r.RewardRecipients.PaymentPercents) > 0 && r.RewardRecipients.PaymentPercents[0].Percent > 1 {
			r.RewardRecipients.PaymentPercents[0].Percent--
			mk("results-reward-percent", cloneBlock(p.BlockBytes), r)
		}
		r = cloneRes()
		r.SlashRecipients = &lib.SlashRecipients{DoubleSigners: []*lib.DoubleSigner{{Id: w.ValKeys[1].PublicKey().Bytes(), Heights: []uint64{p.Block.BlockHeader.Height - 1}}}}
		mk("results-unjustified-double-signer", cloneBlock(p.BlockBytes), r)
		r = cloneRes()
		r.Retired = !r.Retired
		mk("results-retired-flag", cloneBlock(p.BlockBytes), r)
	}
	return out
}

func runCase(t *testing.T, run *core.Run, name string, idx int, rng *rand.Rand) {
	opts := node.WorldOpts{
		Nodes: 2, GenesisVals: 4, ExtraVals: 3, Users: 5, Gov: true, Delegates: 1, // few users: successful and failing transactions hit the same accounts
		Weights: map[string]int{"send": 25, "send-edge": 25, "stake": 8, "edit-stake": 10, "unstake": 4, "pause": 5, "unpause": 5, "subsidy": 4, "invalid": 6, "change-param": 8, "dao-transfer": 8},
		Params: func(p *fsm.Params, r *rand.Rand) {
			p.Consensus.ProtocolVersion = fsm.NewProtocolVersion(0, uint64(1+idx%2))
			p.Validator.NonSignWindow, p.Validator.MaxNonSign = 3, 1
		},
	}
	w, err := node.NewWorld(rng, opts)
	if err != nil {
		t.Fatalf("%s: world: %v", name, err)
	}
	ch := w.Ch
	defer ch.Close()
	const X, Y = 0, 1
	blocks := core.Pick(14, 30)
	fail := func(kind string, h uint64, d map[string]any) {
		d["case"], d["height"] = name, h
		run.Violation(kind, "^"+name+"$", d)
	}
	for b := 0; b < blocks; b++ {
		h := w.Height()
		proposer := b % 2
		var txs [][]byte
		var infos []node.TxInfo
		for i, n := 0, 5+rng.Intn(12); i < n; i++ {
			if ti := w.RandomTx(); ti != nil {
				txs = append(txs, ti.Bytes)
				infos = append(infos, *ti)
			}
		}
		p, e := ch.Propose(proposer, txs, nil)
		if e != nil {
			fail("proposer-cannot-build-block", h, map[string]any{"error": e.Error()})
			return
		}
		included := map[string]bool{}
		for _, tx := range p.Block.Transactions {
			included[node.HashOf(tx)] = true
		}
		var failing []byte
		for _, ti := range infos {
			if !included[ti.Hash] {
				failing = ti.Bytes
				run.Count("failed_transactions_on_proposer_path", 1)
				run.Count("failed_kind_"+ti.Kind, 1)
			}
		}
		run.Count("transactions_included", int64(len(p.Block.Transactions)))
		// --- node X: everything that must be rejected first ---
		before := finger(ch, X)
		vs, e := ch.Committee(ch.Nodes[proposer], p.QC.Header.RootHeight)
		if e != nil {
			t.Fatalf("%s: committee: %v", name, e)
		}
		for _, bd := range badProposals(w, p, failing, rng) {
			// as a proposal in PROPOSE_VOTE (ValidateProposal, then RoundInterrupt's ResetFSM)
			if _, e := ch.Validate(X, bd.p, nil); e == nil {
				fail("bad-proposal-accepted kind="+bd.name, h, map[string]any{"stage": "ValidateProposal"})
				return
			}
			ch.Nodes[X].C.ResetFSM()
			run.Count("bad_proposals_rejected", 1)
			if after := finger(ch, X); after != before {
				fail("state-changed-by-rejected-proposal kind="+bd.name, h, map[string]any{"before": fmt.Sprint(before), "after": fmt.Sprint(after)})
				return
			}
			run.Distinct(fmt.Sprintf("proposal|%s|%v", bd.name, len(p.Block.Transactions) > 0))
			if !bd.blockLevel {
				continue
			}
			// as a gossiped block with a full +2/3 certificate (HandlePeerBlock -> CommitCertificate replay)
			q := bd.p.QC
			if _, _, er := ch.Certify(q, vs, nil); er != nil {
				t.Fatalf("%s: certify: %v", name, er)
			}
			if e := ch.Deliver(X, q, nil, false); e == nil {
				fail("bad-block-committed kind="+bd.name, h, map[string]any{"stage": "HandlePeerBlock"})
				return
			}
			run.Count("bad_blocks_rejected", 1)
			run.Distinct(fmt.Sprintf("peer-block|%s|%v", bd.name, len(p.Block.Transactions) > 0))
			if after := finger(ch, X); after != before {
				fail("state-changed-by-rejected-block kind="+bd.name, h, map[string]any{"before": fmt.Sprint(before), "after": fmt.Sprint(after)})
				return
			}
		}
		// --- a competing VALID proposal for this height is validated first and never committed: what it left in the working
		// state must not leak into the validation or the commit of the block that is certified (no FSM reset in between, as
		// after a NEW_COMMITTEE reset of the BFT, which restarts the round but does not reset the FSM) ---
		if b%3 == 1 {
			var alt [][]byte
			for i := 0; i < 3; i++ {
				if ti := w.RandomTx(); ti != nil {
					alt = append(alt, ti.Bytes)
				}
			}
			if p2, e2 := ch.Propose(1-proposer, alt, nil); e2 == nil && !bytes.Equal(p2.BlockBytes, p.BlockBytes) {
				for _, i := range []int{X, Y} {
					if _, e := ch.Validate(i, p2, nil); e != nil {
						fail("honest-proposal-rejected", h, map[string]any{"node": i, "error": e.Error(), "which": "competing proposal"})
						return
					}
				}
				run.Count("competing_valid_proposals_validated_then_dropped", 1)
			}
		}
		// --- both nodes: the honest block ---
		var results [2]*lib.BlockResult
		for _, i := range []int{X, Y} {
			r, e := ch.Validate(i, p, nil)
			if e != nil {
				kind := "honest-proposal-rejected"
				if i == X {
					kind = "honest-proposal-rejected-after-rejections"
				}
				fail(kind, h, map[string]any{"node": i, "error": e.Error(), "failed_txs_dropped_by_proposer": len(txs) - len(p.Block.Transactions)})
				return
			}
			results[i] = r
		}
		if _, _, er := ch.Certify(p.QC, vs, w.SignerPick()); er != nil {
			t.Fatalf("%s: certify: %v", name, er)
		}
		for _, i := range []int{X, Y} {
			cached := results[i]
			if rng.Intn(2) == 0 {
				cached = nil
			}
			if e := ch.Deliver(i, p.QC, cached, false); e != nil {
				fail("honest-block-not-committed", h, map[string]any{"node": i, "error": e.Error()})
				return
			}
		}
		fx, fy := finger(ch, X), finger(ch, Y)
		if fx != fy {
			fail("abused-node-differs-from-clean-node", h, map[string]any{"x": fmt.Sprint(fx), "y": fmt.Sprint(fy)})
			return
		}
		bx, _ := ch.Block(X, h)
		by, _ := ch.Block(Y, h)
		ax, _ := lib.Marshal(bx)
		ay, _ := lib.Marshal(by)
		if !bytes.Equal(ax, ay) {
			fail("indexed-block-differs-from-clean-node", h, map[string]any{})
			return
		}
		run.Count("blocks_compared_with_clean_node", 1)
		run.Count("state_records_compared", int64(fx.records))
	}
	run.Eval(1)
	run.Sample(map[string]any{"case": name, "blocks": blocks, "generated": w.NTx})
}

func TestCheck(t *testing.T) {
	run := core.Start(t, "C07", "fault_enumeration",
		"seeded chains on two full nodes; per height ~12 proposals/blocks derived from the honest one that must be rejected at different stages are offered to node X (ValidateProposal + "+
			"ResetFSM, and HandlePeerBlock with a full certificate), with version / full state dump / last indexed block compared before and after each; then the honest block (built from a mempool with "+
			"transactions failing after fee deduction or inside handlers among successful ones on the same 5 accounts) must be accepted, and X must equal the clean node Y byte for byte; "+
			"distinct_nontrivial = distinct (rejection kind, block has transactions)")
	defer run.Finish()
	run.MinDistinct = 10
	run.Assume("rollback inside certificate-result transactions (nested chain) is exercised by C20's two-chain runs, not here")
	n := core.Pick(6, 80)
	run.Sharded(n, func(i int) {
		name := fmt.Sprintf("chain/%d", i)
		if run.Want(name) {
			runCase(t, run, name, i, run.Rand(name))
		}
	})
}
