package c19util

import (
	"math/rand"
	"strings"

	"google.golang.org/protobuf/encoding/protowire"
	"google.golang.org/protobuf/reflect/protoreflect"
	"google.golang.org/protobuf/reflect/protoregistry"
)

// WNode is an encoded message parsed into its fields, guided by the message descriptor so that
// length-delimited fields that are sub-messages are parsed recursively ("typed structure").
type WNode struct {
	MD        protoreflect.MessageDescriptor
	Fields    []*WField
	InsideAny bool // this node is (inside) the payload of a google.protobuf.Any
	Embedded  bool // this node is (inside) a bytes field that carries an encoded message (decoded by a later, separate step)
	Depth     int
}

// EmbeddedBytes maps the full name of a bytes field to the message type its content encodes
// (e.g. types.QuorumCertificate.block -> types.Block). The outer decoder treats such content as opaque.
var EmbeddedBytes = map[protoreflect.FullName]protoreflect.MessageDescriptor{}

// WField is one field occurrence.
type WField struct {
	Num   protowire.Number
	Typ   protowire.Type
	Val   uint64 // varint / fixed value
	Bytes []byte // bytes-type payload when Child == nil
	Child *WNode // parsed sub-message
	// overrides applied by mutators
	RawTag    []byte  // replaces the encoded tag
	RawValue  []byte  // replaces the encoded value (including any length prefix)
	LenDelta  int64   // added to the encoded length prefix
	LenAbs    *uint64 // absolute length prefix
	TruncBody int     // bytes cut from the end of the body after the length prefix was computed
}

// ParseTree parses b as a message of type md. ok=false if b is not a well-formed encoding.
func ParseTree(b []byte, md protoreflect.MessageDescriptor, depth int, insideAny bool) (*WNode, bool) {
	n := &WNode{MD: md, InsideAny: insideAny, Depth: depth}
	var anyURL string
	for len(b) > 0 {
		num, typ, tl := protowire.ConsumeTag(b)
		if tl < 0 {
			return nil, false
		}
		b = b[tl:]
		f := &WField{Num: num, Typ: typ}
		switch typ {
		case protowire.VarintType:
			v, l := protowire.ConsumeVarint(b)
			if l < 0 {
				return nil, false
			}
			f.Val, b = v, b[l:]
		case protowire.Fixed32Type:
			v, l := protowire.ConsumeFixed32(b)
			if l < 0 {
				return nil, false
			}
			f.Val, b = uint64(v), b[l:]
		case protowire.Fixed64Type:
			v, l := protowire.ConsumeFixed64(b)
			if l < 0 {
				return nil, false
			}
			f.Val, b = v, b[l:]
		case protowire.BytesType:
			v, l := protowire.ConsumeBytes(b)
			if l < 0 {
				return nil, false
			}
			f.Bytes, b = append([]byte{}, v...), b[l:]
			var fd protoreflect.FieldDescriptor
			if md != nil {
				fd = md.Fields().ByNumber(num)
			}
			if md != nil && md.FullName() == anyFullName {
				if num == 1 {
					anyURL = string(v)
				}
				if num == 2 && anyURL != "" {
					name := anyURL
					if i := strings.LastIndexByte(name, '/'); i >= 0 {
						name = name[i+1:]
					}
					if mt, err := protoregistry.GlobalTypes.FindMessageByName(protoreflect.FullName(name)); err == nil {
						if c, ok := ParseTree(v, mt.Descriptor(), depth+1, true); ok {
							f.Child = c
						}
					}
				}
			} else if fd != nil && fd.Message() != nil && !fd.IsMap() {
				if c, ok := ParseTree(v, fd.Message(), depth+1, insideAny); ok {
					f.Child = c
				}
			} else if fd != nil && len(v) > 0 {
				if emd, ok := EmbeddedBytes[fd.FullName()]; ok {
					if c, ok := ParseTree(v, emd, depth+1, insideAny); ok {
						c.markEmbedded()
						f.Child = c
					}
				}
			}
		default:
			return nil, false // groups do not occur in canopy messages
		}
		n.Fields = append(n.Fields, f)
	}
	return n, true
}

func (n *WNode) markEmbedded() {
	for _, x := range n.Nodes() {
		x.Embedded = true
	}
}

// Encode re-encodes the tree applying mutator overrides.
func (n *WNode) Encode() []byte { return n.EncodeMax(1 << 40) }

// EncodeMax is Encode that stops adding fields once max bytes were produced (mutations that multiply shared
// sub-trees would otherwise build gigabytes that are cut off afterwards anyway).
func (n *WNode) EncodeMax(max int) []byte {
	var out []byte
	for _, f := range n.Fields {
		if len(out) > max {
			break
		}
		if f.RawTag != nil {
			out = append(out, f.RawTag...)
		} else {
			out = protowire.AppendTag(out, f.Num, f.Typ)
		}
		if f.RawValue != nil {
			out = append(out, f.RawValue...)
			continue
		}
		switch f.Typ {
		case protowire.VarintType:
			out = protowire.AppendVarint(out, f.Val)
		case protowire.Fixed32Type:
			out = protowire.AppendFixed32(out, uint32(f.Val))
		case protowire.Fixed64Type:
			out = protowire.AppendFixed64(out, f.Val)
		case protowire.BytesType:
			body := f.Bytes
			if f.Child != nil {
				body = f.Child.EncodeMax(max - len(out))
			}
			l := uint64(int64(len(body)) + f.LenDelta)
			if f.LenAbs != nil {
				l = *f.LenAbs
			}
			out = protowire.AppendVarint(out, l)
			if f.TruncBody > 0 && f.TruncBody <= len(body) {
				body = body[:len(body)-f.TruncBody]
			}
			out = append(out, body...)
		}
	}
	return out
}

// Nodes returns every message node of the tree in pre-order.
func (n *WNode) Nodes() []*WNode {
	out := []*WNode{n}
	for _, f := range n.Fields {
		if f.Child != nil {
			out = append(out, f.Child.Nodes()...)
		}
	}
	return out
}

// AllFields returns every field occurrence of the tree together with its owning node.
func (n *WNode) AllFields() (fs []*WField, owners []*WNode) {
	for _, nd := range n.Nodes() {
		for _, f := range nd.Fields {
			fs = append(fs, f)
			owners = append(owners, nd)
		}
	}
	return
}

// UnknownNumber returns a field number that the node's descriptor does not define.
func (n *WNode) UnknownNumber(rng *rand.Rand) protowire.Number {
	for {
		var c protowire.Number
		switch rng.Intn(4) {
		case 0:
			c = protowire.Number(15 + rng.Intn(10))
		case 1:
			c = protowire.Number(1 + rng.Intn(40))
		case 2:
			c = protowire.Number(536870911) // maximum field number
		default:
			c = protowire.Number(100 + rng.Intn(100000))
		}
		if c >= 19000 && c <= 19999 {
			continue // reserved range
		}
		if n.MD == nil || n.MD.Fields().ByNumber(c) == nil {
			return c
		}
	}
}

// InjectUnknown inserts one well-formed field with an undefined number into node nd (at a random position).
func InjectUnknown(rng *rand.Rand, nd *WNode) (num protowire.Number, typ protowire.Type) {
	num = nd.UnknownNumber(rng)
	f := &WField{Num: num}
	switch rng.Intn(4) {
	case 0:
		f.Typ, f.Val = protowire.VarintType, uint64(rng.Intn(1000))
	case 1:
		f.Typ, f.Val = protowire.Fixed32Type, uint64(rng.Uint32())
	case 2:
		f.Typ, f.Val = protowire.Fixed64Type, rng.Uint64()
	default:
		f.Typ, f.Bytes = protowire.BytesType, RandBytes(rng, rng.Intn(12))
	}
	pos := rng.Intn(len(nd.Fields) + 1)
	nd.Fields = append(nd.Fields, nil)
	copy(nd.Fields[pos+1:], nd.Fields[pos:])
	nd.Fields[pos] = f
	return num, f.Typ
}

func overlongVarint(rng *rand.Rand, v uint64) []byte {
	switch rng.Intn(4) {
	case 0: // 10 continuation bytes then a terminator: 11 bytes, overflows 64 bits
		return append(bytesRepeat(0xFF, 10), 0x01)
	case 1: // non-minimal encoding padded with 0x80
		b := protowire.AppendVarint(nil, v)
		room := 10 - len(b)
		if room <= 0 {
			return append(bytesRepeat(0xFF, 10), 0x01)
		}
		b[len(b)-1] |= 0x80
		pad := 1 + rng.Intn(room)
		for i := 0; i < pad-1; i++ {
			b = append(b, 0x80)
		}
		return append(b, 0x00)
	case 2: // 10th byte with bits above bit 63
		return append(bytesRepeat(0xFF, 9), 0x7F)
	default: // never terminated
		return bytesRepeat(0x80, 1+rng.Intn(20))
	}
}

func bytesRepeat(b byte, n int) []byte {
	out := make([]byte, n)
	for i := range out {
		out[i] = b
	}
	return out
}

// MaxMutatedBytes bounds the size growth of one mutation (size caps are exercised by dedicated cases, not by the mutator).
const MaxMutatedBytes = 192 * 1024

// MutateWire applies between 1 and 3 structure-aware mutations to a valid encoding and returns the result
// and the names of the mutations. donor is another valid encoding used for splicing.
func MutateWire(rng *rand.Rand, valid []byte, md protoreflect.MessageDescriptor, donor []byte) ([]byte, []string) {
	tree, ok := ParseTree(valid, md, 0, false)
	if !ok || len(tree.Fields) == 0 {
		return RandBytes(rng, rng.Intn(64)), []string{"random(unparsable-seed)"}
	}
	var names []string
	post := func(b []byte) []byte { return b }
	k := 1 + rng.Intn(3)
	for i := 0; i < k; i++ {
		fs, owners := tree.AllFields()
		if len(fs) == 0 {
			break
		}
		j := rng.Intn(len(fs))
		f, owner := fs[j], owners[j]
		switch rng.Intn(20) {
		case 0: // delete a field
			for x, g := range owner.Fields {
				if g == f {
					owner.Fields = append(owner.Fields[:x:x], owner.Fields[x+1:]...)
					break
				}
			}
			names = append(names, "delete-field")
		case 1: // duplicate a field (last-wins / merge semantics)
			cp := *f
			if rng.Intn(2) == 0 {
				owner.Fields = append(owner.Fields, &cp)
			} else {
				owner.Fields = append([]*WField{&cp}, owner.Fields...)
			}
			names = append(names, "duplicate-field")
		case 2: // length prefix off by a little
			if f.Typ == protowire.BytesType {
				f.LenDelta = int64(rng.Intn(5)) - 2
				if f.LenDelta == 0 {
					f.LenDelta = 1
				}
				names = append(names, "len-delta")
			}
		case 3: // huge declared length
			if f.Typ == protowire.BytesType {
				choices := []uint64{1 << 31, 1<<31 - 1, 1 << 32, 1<<63 - 1, 1 << 63, 1<<64 - 1, 33 << 20, 65 << 20, uint64(len(valid)) * 3}
				v := choices[rng.Intn(len(choices))]
				f.LenAbs = &v
				names = append(names, "huge-len")
			}
		case 4: // varint overflow / non-minimal varint in a value, a tag or a length
			switch {
			case f.Typ == protowire.VarintType:
				f.RawValue = overlongVarint(rng, f.Val)
				names = append(names, "varint-overflow-value")
			case rng.Intn(2) == 0:
				f.RawTag = overlongVarint(rng, protowire.EncodeTag(f.Num, f.Typ))
				names = append(names, "varint-overflow-tag")
			default:
				body := f.Bytes
				if f.Child != nil {
					body = f.Child.Encode()
				}
				f.RawValue = append(overlongVarint(rng, uint64(len(body))), body...)
				names = append(names, "varint-overflow-len")
			}
		case 5: // truncated body
			if f.Typ == protowire.BytesType {
				f.TruncBody = 1 + rng.Intn(4)
				names = append(names, "truncate-body")
			}
		case 6: // change the wire type of a known field
			f.Typ = protowire.Type(rng.Intn(6))
			f.Child = nil
			if f.Typ == protowire.StartGroupType || f.Typ == protowire.EndGroupType {
				f.RawValue = []byte{}
			}
			names = append(names, "wire-type-confusion")
		case 7: // invalid field numbers
			switch rng.Intn(3) {
			case 0:
				f.RawTag = protowire.AppendVarint(nil, uint64(f.Typ)) // field number 0
			case 1:
				f.RawTag = protowire.AppendVarint(nil, uint64(1<<29)<<3|uint64(f.Typ)) // above the maximum
			default:
				f.Num = owner.UnknownNumber(rng)
			}
			names = append(names, "bad-field-number")
		case 8: // replace a bytes payload with random bytes
			if f.Typ == protowire.BytesType {
				f.Child, f.Bytes = nil, RandBytes(rng, rng.Intn(2*len(f.Bytes)+8))
				names = append(names, "random-payload")
			}
		case 9: // splice a donor message into a bytes payload
			if f.Typ == protowire.BytesType {
				f.Child, f.Bytes = nil, append([]byte{}, donor...) // never alias the corpus
				names = append(names, "splice-donor")
			}
		case 10: // flip bits in a scalar
			f.Val ^= 1 << uint(rng.Intn(64))
			if f.Child == nil && len(f.Bytes) > 0 {
				f.Bytes[rng.Intn(len(f.Bytes))] ^= 1 << uint(rng.Intn(8))
			}
			names = append(names, "bit-flip")
		case 11: // extreme scalar values
			f.Val = []uint64{0, 1, 1<<63 - 1, 1 << 63, 1<<64 - 1, 1 << 32, 1<<32 - 1}[rng.Intn(7)]
			names = append(names, "extreme-scalar")
		case 12: // empty / resized bytes payloads (length checks in Check functions)
			if f.Typ == protowire.BytesType {
				f.Child = nil
				n := InterestingLens[rng.Intn(len(InterestingLens))]
				f.Bytes = RandBytes(rng, n)
				names = append(names, "resize-payload")
			}
		case 13: // nest a sub-message inside itself many times (recursion depth)
			if f.Typ == protowire.BytesType {
				body := f.Bytes
				if f.Child != nil {
					body = f.Child.Encode()
				}
				d := []int{4, 33, 40, 100, 1000, 10001}[rng.Intn(6)]
				// wrap the body d times in (tag, length) headers; built inside-out in one pass
				hdrs := make([][]byte, 0, d)
				total := len(body)
				for x := 0; x < d && total <= MaxMutatedBytes; x++ {
					h := protowire.AppendVarint(protowire.AppendTag(nil, f.Num, protowire.BytesType), uint64(total))
					hdrs = append(hdrs, h)
					total += len(h)
				}
				nested := make([]byte, 0, total)
				for x := len(hdrs) - 1; x >= 0; x-- {
					nested = append(nested, hdrs[x]...)
				}
				body = append(nested, body...)
				f.Child, f.Bytes = nil, body
				names = append(names, "self-nesting")
			}
		case 14: // deeply nested groups in an unknown field
			d := []int{1, 100, 9999, 10001, 20000}[rng.Intn(5)]
			num := owner.UnknownNumber(rng)
			var g []byte
			for x := 0; x < d; x++ {
				g = protowire.AppendTag(g, num, protowire.StartGroupType)
			}
			if rng.Intn(2) == 0 {
				for x := 0; x < d; x++ {
					g = protowire.AppendTag(g, num, protowire.EndGroupType)
				}
			}
			owner.Fields = append(owner.Fields, &WField{Num: num, Typ: protowire.StartGroupType, RawTag: []byte{}, RawValue: g})
			names = append(names, "nested-groups")
		case 15: // unknown field
			InjectUnknown(rng, owner)
			names = append(names, "unknown-field")
		case 16: // repeat a field many times (list growth); the encoded size stays below MaxMutatedBytes
			cnt := []int{10, 1000, 5000}[rng.Intn(3)]
			sz := len(f.Bytes) + 12
			if f.Child != nil {
				sz = len(f.Child.Encode()) + 12
			}
			if cnt*sz > MaxMutatedBytes {
				cnt = MaxMutatedBytes / sz
			}
			for x := 0; x < cnt; x++ {
				owner.Fields = append(owner.Fields, f)
			}
			names = append(names, "repeat-field")
		case 17: // drop a whole sub-message body but keep the tag (empty sub-message / nil inner pointers)
			if f.Typ == protowire.BytesType {
				f.Child, f.Bytes = nil, nil
				names = append(names, "empty-submessage")
			}
		case 18: // truncate the whole encoding
			post = func(b []byte) []byte {
				if len(b) == 0 {
					return b
				}
				return b[:rng.Intn(len(b))]
			}
			names = append(names, "truncate-message")
		default: // append trailing garbage
			g := RandBytes(rng, 1+rng.Intn(16))
			prev := post
			post = func(b []byte) []byte { return append(prev(b), g...) }
			names = append(names, "trailing-garbage")
		}
	}
	if len(names) == 0 {
		names = append(names, "identity")
	}
	out := post(tree.EncodeMax(4 * MaxMutatedBytes))
	if len(out) > 4*MaxMutatedBytes {
		out = out[:4*MaxMutatedBytes]
		names = append(names, "size-capped")
	}
	return out, names
}
