// Package c19util holds the generic protobuf machinery of the C19 check: random population of any
// message by reflection, enumeration / mutation of leaf fields (descending into google.protobuf.Any
// payloads), and a descriptor-guided wire-level tree used for structure-aware mutation of encoded
// messages. Nothing here re-implements canopy logic; it only produces inputs and names fields.
package c19util

import (
	"fmt"
	"math"
	"math/rand"
	"sort"
	"strings"

	"google.golang.org/protobuf/proto"
	"google.golang.org/protobuf/reflect/protoreflect"
	"google.golang.org/protobuf/reflect/protoregistry"
	"google.golang.org/protobuf/types/known/anypb"
)

const anyFullName = "google.protobuf.Any"

var marshalDet = proto.MarshalOptions{Deterministic: true}

// InterestingLens are byte-string lengths that matter to canopy (address, hash, BLS key, BLS signature, ...).
var InterestingLens = []int{0, 1, 2, 7, 8, 19, 20, 21, 31, 32, 33, 47, 48, 49, 64, 65, 95, 96, 97, 200, 201}

// RandBytes returns n bytes; content is biased towards bytes that matter for length-prefixed / varint
// encodings (0x00, 0xFF, small length bytes, the continuation bit).
func RandBytes(rng *rand.Rand, n int) []byte {
	b := make([]byte, n)
	mode := rng.Intn(6)
	for i := range b {
		switch mode {
		case 0:
			b[i] = 0xFF
		case 1:
			b[i] = 0x00
		case 2:
			b[i] = byte(rng.Intn(4)) // looks like length prefixes / tags
		case 3:
			b[i] = 0x80 | byte(rng.Intn(128))
		default:
			b[i] = byte(rng.Intn(256))
		}
	}
	return b
}

func randLen(rng *rand.Rand) int {
	if rng.Intn(3) == 0 {
		return rng.Intn(40)
	}
	return InterestingLens[rng.Intn(len(InterestingLens))]
}

func randASCII(rng *rand.Rand, n int) string {
	const al = "abcdefghijklmnopqrstuvwxyzABCDEFXYZ0123456789/_-. "
	b := make([]byte, n)
	for i := range b {
		b[i] = al[rng.Intn(len(al))]
	}
	return string(b)
}

func randUint(rng *rand.Rand) uint64 {
	switch rng.Intn(8) {
	case 0:
		return 1
	case 1:
		return uint64(rng.Intn(256))
	case 2:
		return math.MaxUint64
	case 3:
		return math.MaxUint64 - uint64(rng.Intn(3))
	case 4:
		return 1 << uint(rng.Intn(64))
	case 5:
		return uint64(rng.Intn(1 << 16))
	default:
		return rng.Uint64()
	}
}

// randScalar returns a random NON-DEFAULT value for a scalar field kind.
func randScalar(rng *rand.Rand, fd protoreflect.FieldDescriptor) protoreflect.Value {
	switch fd.Kind() {
	case protoreflect.BoolKind:
		return protoreflect.ValueOfBool(true)
	case protoreflect.EnumKind:
		vals := fd.Enum().Values()
		if rng.Intn(6) == 0 {
			return protoreflect.ValueOfEnum(protoreflect.EnumNumber(1 + rng.Intn(40))) // possibly undefined number
		}
		n := vals.Get(rng.Intn(vals.Len())).Number()
		if n == 0 {
			n = vals.Get(vals.Len() - 1).Number()
		}
		if n == 0 {
			n = 1
		}
		return protoreflect.ValueOfEnum(n)
	case protoreflect.Int32Kind, protoreflect.Sint32Kind, protoreflect.Sfixed32Kind:
		v := int32(randUint(rng))
		if v == 0 {
			v = -1
		}
		return protoreflect.ValueOfInt32(v)
	case protoreflect.Uint32Kind, protoreflect.Fixed32Kind:
		v := uint32(randUint(rng))
		if v == 0 {
			v = 1
		}
		return protoreflect.ValueOfUint32(v)
	case protoreflect.Int64Kind, protoreflect.Sint64Kind, protoreflect.Sfixed64Kind:
		v := int64(randUint(rng))
		if v == 0 {
			v = -1
		}
		return protoreflect.ValueOfInt64(v)
	case protoreflect.Uint64Kind, protoreflect.Fixed64Kind:
		v := randUint(rng)
		if v == 0 {
			v = 1
		}
		return protoreflect.ValueOfUint64(v)
	case protoreflect.FloatKind:
		return protoreflect.ValueOfFloat32(float32(rng.Intn(1000)) + 0.5)
	case protoreflect.DoubleKind:
		return protoreflect.ValueOfFloat64(float64(rng.Intn(1000)) + 0.5)
	case protoreflect.StringKind:
		n := randLen(rng)
		if n == 0 {
			n = 1
		}
		return protoreflect.ValueOfString(randASCII(rng, n))
	case protoreflect.BytesKind:
		n := randLen(rng)
		if n == 0 {
			n = 1
		}
		return protoreflect.ValueOfBytes(RandBytes(rng, n))
	}
	panic("randScalar: unexpected kind " + fd.Kind().String())
}

// AnyPool lists the message types Populate may put into google.protobuf.Any fields.
type AnyPool []protoreflect.MessageType

// Populate fills m by reflection: every field is set with probability pSet to a random non-default value,
// message fields recursively down to depth.
func Populate(rng *rand.Rand, m protoreflect.Message, depth int, pSet float64, pool AnyPool) {
	fds := m.Descriptor().Fields()
	if m.Descriptor().FullName() == anyFullName {
		if len(pool) == 0 {
			return
		}
		inner := pool[rng.Intn(len(pool))].New()
		Populate(rng, inner, depth-1, pSet, nil)
		a, err := anypb.New(inner.Interface())
		if err != nil {
			panic(err)
		}
		m.Set(fds.ByName("type_url"), protoreflect.ValueOfString(a.TypeUrl))
		m.Set(fds.ByName("value"), protoreflect.ValueOfBytes(a.Value))
		return
	}
	for i := 0; i < fds.Len(); i++ {
		fd := fds.Get(i)
		if rng.Float64() >= pSet {
			continue
		}
		switch {
		case fd.IsMap():
			continue // no consensus-critical type uses maps on the wire; left empty
		case fd.IsList():
			l := m.Mutable(fd).List()
			n := 1 + rng.Intn(3)
			for j := 0; j < n; j++ {
				if fd.Message() != nil {
					if depth <= 0 {
						break
					}
					e := l.NewElement()
					Populate(rng, e.Message(), depth-1, pSet, pool)
					l.Append(e)
				} else {
					l.Append(randScalar(rng, fd))
				}
			}
		case fd.Message() != nil:
			if depth <= 0 {
				continue
			}
			Populate(rng, m.Mutable(fd).Message(), depth-1, pSet, pool)
		default:
			m.Set(fd, randScalar(rng, fd))
		}
	}
}

// Leaf is one mutable position inside a message instance.
type Leaf struct {
	Path   string // dotted path from the root, list elements as name[i], Any payloads as name{full.Type}
	Parent protoreflect.Message
	FD     protoreflect.FieldDescriptor
	Index  int // -1 for a singular field; i for element i of a list; len(list) means "append an element"
	// commit re-packs every enclosing Any payload after a mutation (innermost first)
	commit []func()
}

// Commit re-encodes enclosing google.protobuf.Any payloads so that the root reflects the mutation.
func (l *Leaf) Commit() {
	for i := len(l.commit) - 1; i >= 0; i-- {
		l.commit[i]()
	}
}

// IsBytesLike reports whether the leaf is a singular/list-element string or bytes value.
func (l *Leaf) IsBytesLike() bool {
	k := l.FD.Kind()
	return (k == protoreflect.BytesKind || k == protoreflect.StringKind) && !(l.FD.IsList() && l.isAppend())
}

func (l *Leaf) isAppend() bool {
	return l.FD.IsList() && l.Index == l.Parent.Get(l.FD).List().Len()
}

// Get returns the current value at the leaf (zero Value for an append position).
func (l *Leaf) Get() protoreflect.Value {
	if l.FD.IsList() {
		lst := l.Parent.Get(l.FD).List()
		if l.Index >= lst.Len() {
			return protoreflect.Value{}
		}
		return lst.Get(l.Index)
	}
	return l.Parent.Get(l.FD)
}

// Set stores v at the leaf and re-packs enclosing Any payloads.
func (l *Leaf) Set(v protoreflect.Value) {
	if l.FD.IsList() {
		lst := l.Parent.Mutable(l.FD).List()
		if l.Index >= lst.Len() {
			lst.Append(v)
		} else {
			lst.Set(l.Index, v)
		}
	} else {
		l.Parent.Set(l.FD, v)
	}
	l.Commit()
}

// Leaves enumerates all scalar positions of the instance m (populated or not), descending into populated
// sub-messages, list elements and resolvable Any payloads. Unpopulated singular sub-messages contribute
// the leaves of a freshly created sub-message (so "a field inside an absent sub-message" is covered).
func Leaves(m protoreflect.Message, maxDepth int) []*Leaf {
	var out []*Leaf
	walk(m, "", maxDepth, nil, &out)
	return out
}

func join(prefix, name string) string {
	if prefix == "" {
		return name
	}
	return prefix + "." + name
}

func walk(m protoreflect.Message, prefix string, depth int, commit []func(), out *[]*Leaf) {
	fds := m.Descriptor().Fields()
	if m.Descriptor().FullName() == anyFullName {
		fdURL, fdVal := fds.ByName("type_url"), fds.ByName("value")
		*out = append(*out, &Leaf{Path: join(prefix, "type_url"), Parent: m, FD: fdURL, Index: -1, commit: commit})
		url := m.Get(fdURL).String()
		name := url
		if i := strings.LastIndexByte(url, '/'); i >= 0 {
			name = url[i+1:]
		}
		mt, err := protoregistry.GlobalTypes.FindMessageByName(protoreflect.FullName(name))
		if err != nil || depth <= 0 {
			*out = append(*out, &Leaf{Path: join(prefix, "value"), Parent: m, FD: fdVal, Index: -1, commit: commit})
			return
		}
		inner := mt.New()
		if err := (proto.UnmarshalOptions{}).Unmarshal(m.Get(fdVal).Bytes(), inner.Interface()); err != nil {
			*out = append(*out, &Leaf{Path: join(prefix, "value"), Parent: m, FD: fdVal, Index: -1, commit: commit})
			return
		}
		repack := func() {
			bz, err := marshalDet.Marshal(inner.Interface())
			if err != nil {
				panic(err)
			}
			m.Set(fdVal, protoreflect.ValueOfBytes(bz))
		}
		c2 := append(append([]func(){}, commit...), repack)
		walk(inner, prefix+"{"+name+"}", depth-1, c2, out)
		return
	}
	for i := 0; i < fds.Len(); i++ {
		fd := fds.Get(i)
		name := string(fd.Name())
		switch {
		case fd.IsMap():
			continue
		case fd.IsList():
			lst := m.Get(fd).List()
			n := lst.Len()
			if fd.Message() != nil {
				if depth <= 0 {
					continue
				}
				for j := 0; j < n; j++ {
					walk(lst.Get(j).Message(), fmt.Sprintf("%s[%d]", join(prefix, name), j), depth-1, commit, out)
				}
				// appending an element = a leaf whose mutation appends a populated element
				*out = append(*out, &Leaf{Path: join(prefix, name) + "[+]", Parent: m, FD: fd, Index: n, commit: commit})
			} else {
				for j := 0; j <= n; j++ {
					p := fmt.Sprintf("%s[%d]", join(prefix, name), j)
					if j == n {
						p = join(prefix, name) + "[+]"
					}
					*out = append(*out, &Leaf{Path: p, Parent: m, FD: fd, Index: j, commit: commit})
				}
			}
		case fd.Message() != nil:
			if depth <= 0 {
				continue
			}
			if m.Has(fd) {
				walk(m.Mutable(fd).Message(), join(prefix, name), depth-1, commit, out)
			} else if fd.Message().FullName() != anyFullName {
				// absent sub-message: its leaves live in a sub-message that is attached on first Set
				sub := m.NewField(fd).Message()
				attached := false
				attach := func() {
					if !attached {
						m.Set(fd, protoreflect.ValueOfMessage(sub))
						attached = true
					}
				}
				c2 := append(append([]func(){}, commit...), attach)
				var tmp []*Leaf
				walk(sub, join(prefix, name), 0, c2, &tmp) // scalars of the absent sub-message only
				*out = append(*out, tmp...)
			}
		default:
			*out = append(*out, &Leaf{Path: join(prefix, name), Parent: m, FD: fd, Index: -1, commit: commit})
		}
	}
}

// GenericPath strips list indices so that paths can be used as stable field names in signatures.
func GenericPath(p string) string {
	var sb strings.Builder
	skip := false
	for _, r := range p {
		switch {
		case r == '[':
			skip = true
		case r == ']':
			skip = false
			sb.WriteString("[]")
		case !skip:
			sb.WriteRune(r)
		}
	}
	return sb.String()
}

func valueEqual(fd protoreflect.FieldDescriptor, a, b protoreflect.Value) bool {
	if !a.IsValid() || !b.IsValid() {
		return a.IsValid() == b.IsValid()
	}
	switch fd.Kind() {
	case protoreflect.BytesKind:
		return string(a.Bytes()) == string(b.Bytes())
	case protoreflect.MessageKind, protoreflect.GroupKind:
		return proto.Equal(a.Message().Interface(), b.Message().Interface())
	default:
		return a.Interface() == b.Interface()
	}
}

// Mutate changes the leaf to a value that differs (in proto3 semantics) from the current one and returns a
// short description. ok=false when no different value could be produced.
func Mutate(rng *rand.Rand, l *Leaf, pool AnyPool) (desc string, ok bool) {
	old := l.Get()
	if l.FD.Message() != nil { // append a populated element to a repeated message field
		lst := l.Parent.Mutable(l.FD).List()
		e := lst.NewElement()
		Populate(rng, e.Message(), 2, 0.9, pool)
		if proto.Size(e.Message().Interface()) == 0 {
			// an empty element still changes the list length, which is a semantic difference
		}
		lst.Append(e)
		l.Commit()
		return "append-element", true
	}
	for try := 0; try < 8; try++ {
		var nv protoreflect.Value
		switch l.FD.Kind() {
		case protoreflect.BoolKind:
			cur := old.IsValid() && old.Bool()
			nv = protoreflect.ValueOfBool(!cur)
		case protoreflect.Uint64Kind, protoreflect.Fixed64Kind:
			cur := uint64(0)
			if old.IsValid() {
				cur = old.Uint()
			}
			switch rng.Intn(6) {
			case 0:
				nv = protoreflect.ValueOfUint64(cur + 1)
			case 1:
				nv = protoreflect.ValueOfUint64(cur ^ (1 << uint(rng.Intn(64))))
			case 2:
				nv = protoreflect.ValueOfUint64(0)
			case 3:
				nv = protoreflect.ValueOfUint64(cur << 7) // same low varint bytes pattern
			default:
				nv = protoreflect.ValueOfUint64(randUint(rng))
			}
		case protoreflect.StringKind:
			cur := ""
			if old.IsValid() {
				cur = old.String()
			}
			switch rng.Intn(5) {
			case 0:
				nv = protoreflect.ValueOfString(cur + randASCII(rng, 1))
			case 1:
				if len(cur) > 0 {
					nv = protoreflect.ValueOfString(cur[:len(cur)-1])
				} else {
					nv = protoreflect.ValueOfString("x")
				}
			case 2:
				nv = protoreflect.ValueOfString("")
			default:
				nv = protoreflect.ValueOfString(randASCII(rng, 1+rng.Intn(12)))
			}
		case protoreflect.BytesKind:
			var cur []byte
			if old.IsValid() {
				cur = old.Bytes()
			}
			switch rng.Intn(6) {
			case 0:
				nv = protoreflect.ValueOfBytes(append(append([]byte{}, cur...), byte(rng.Intn(256))))
			case 1:
				if len(cur) > 0 {
					nv = protoreflect.ValueOfBytes(append([]byte{}, cur[:len(cur)-1]...))
				} else {
					nv = protoreflect.ValueOfBytes([]byte{0})
				}
			case 2:
				if len(cur) > 0 {
					c := append([]byte{}, cur...)
					c[rng.Intn(len(c))] ^= 1 << uint(rng.Intn(8))
					nv = protoreflect.ValueOfBytes(c)
				} else {
					nv = protoreflect.ValueOfBytes([]byte{0xFF})
				}
			case 3:
				nv = protoreflect.ValueOfBytes(nil)
			default:
				nv = protoreflect.ValueOfBytes(RandBytes(rng, 1+randLen(rng)))
			}
		default:
			if rng.Intn(4) == 0 {
				nv = l.FD.Default()
				if l.FD.IsList() {
					nv = randScalar(rng, l.FD)
				}
			} else {
				nv = randScalar(rng, l.FD)
			}
		}
		if l.FD.IsList() && !old.IsValid() {
			// append position: any value changes the list
			l.Set(nv)
			return "append", true
		}
		cmpOld := old
		if !cmpOld.IsValid() {
			cmpOld = l.FD.Default()
		}
		if valueEqual(l.FD, cmpOld, nv) {
			continue
		}
		l.Set(nv)
		return "set", true
	}
	return "", false
}

// SortedKeys returns the sorted keys of a string-keyed map.
func SortedKeys[V any](m map[string]V) []string {
	ks := make([]string, 0, len(m))
	for k := range m {
		ks = append(ks, k)
	}
	sort.Strings(ks)
	return ks
}
