// Package txvar generates byte strings that carry the same signed content as a given transaction: the families the
// C06 quantifier names (field reordering, explicit default fields, non-minimal varints, split / duplicated embedded
// messages that merge, alternative key encodings, malleated signatures). It works on the protobuf wire format only.
package txvar

import (
	"bytes"
	"math/big"

	"github.com/canopy-network/canopy/lib"
	"github.com/decred/dcrd/dcrec/secp256k1/v4"
	"google.golang.org/protobuf/encoding/protowire"
)

// Variant is one re-encoding.
type Variant struct {
	Family string
	Name   string
	Bytes  []byte
}

type field struct {
	num protowire.Number
	typ protowire.Type
	raw []byte // tag + value as on the wire
	val []byte // for bytes fields: the payload
	v   uint64 // for varints
}

func parse(b []byte) []field {
	var out []field
	for len(b) > 0 {
		num, typ, n := protowire.ConsumeTag(b)
		if n < 0 {
			return nil
		}
		m := protowire.ConsumeFieldValue(num, typ, b[n:])
		if m < 0 {
			return nil
		}
		f := field{num: num, typ: typ, raw: b[:n+m]}
		switch typ {
		case protowire.BytesType:
			f.val, _ = protowire.ConsumeBytes(b[n:])
		case protowire.VarintType:
			f.v, _ = protowire.ConsumeVarint(b[n:])
		}
		out = append(out, f)
		b = b[n+m:]
	}
	return out
}

func join(fs []field) []byte {
	var out []byte
	for _, f := range fs {
		out = append(out, f.raw...)
	}
	return out
}

func bytesField(num protowire.Number, v []byte) []byte {
	return protowire.AppendBytes(protowire.AppendTag(nil, num, protowire.BytesType), v)
}

func varintField(num protowire.Number, v uint64) []byte {
	return protowire.AppendVarint(protowire.AppendTag(nil, num, protowire.VarintType), v)
}

// nonMinimalVarint encodes v with one redundant continuation group.
func nonMinimalVarint(v uint64) []byte {
	b := protowire.AppendVarint(nil, v)
	if len(b) >= 10 {
		return b
	}
	b[len(b)-1] |= 0x80
	return append(b, 0x00)
}

// Transaction field numbers (lib/tx.proto): 1 message_type, 2 msg(Any), 3 signature{1 public_key, 2 signature},
// 4 created_height, 5 time, 6 fee, 7 memo, 8 network_id, 9 chain_id, 10 nonce.

// Variants returns re-encodings of the canonical transaction bytes tx. Every variant decodes (with a lenient
// protobuf decoder) to the same field values as tx.
func Variants(tx []byte) []Variant {
	fs := parse(tx)
	if fs == nil {
		return nil
	}
	var out []Variant
	add := func(family, name string, b []byte) {
		if !bytes.Equal(b, tx) {
			out = append(out, Variant{family, name, b})
		}
	}
	has := map[protowire.Number]bool{}
	for _, f := range fs {
		has[f.num] = true
	}
	// 1. explicit default fields
	if !has[10] {
		add("explicit-default-field", "nonce=0", append(bytes.Clone(tx), varintField(10, 0)...))
	}
	if !has[7] {
		add("explicit-default-field", "memo=empty", append(bytes.Clone(tx), bytesField(7, nil)...))
	}
	add("explicit-default-field", "empty-signature-submessage", append(bytes.Clone(tx), bytesField(3, nil)...))
	add("explicit-default-field", "empty-msg-submessage", append(bytes.Clone(tx), bytesField(2, nil)...))
	if !has[10] && !has[7] {
		add("explicit-default-field", "nonce=0,memo=empty", append(append(bytes.Clone(tx), varintField(10, 0)...), bytesField(7, nil)...))
	}
	// 2. field order
	rev := make([]field, len(fs))
	for i, f := range fs {
		rev[len(fs)-1-i] = f
	}
	add("field-reordering", "reversed", join(rev))
	if len(fs) > 2 {
		rot := append(append([]field{}, fs[1:]...), fs[0])
		add("field-reordering", "rotated", join(rot))
	}
	// 3. non-minimal varints
	for _, target := range []protowire.Number{4, 5, 6, 8, 9} {
		var b []byte
		ok := false
		for _, f := range fs {
			if f.num == target && f.typ == protowire.VarintType {
				b = append(b, protowire.AppendTag(nil, f.num, f.typ)...)
				b = append(b, nonMinimalVarint(f.v)...)
				ok = true
			} else {
				b = append(b, f.raw...)
			}
		}
		if ok {
			add("non-minimal-varint", "field", b)
			break
		}
	}
	// non-minimal length prefix of a bytes field
	{
		var b []byte
		done := false
		for _, f := range fs {
			if !done && f.typ == protowire.BytesType && f.num == 1 {
				b = append(b, protowire.AppendTag(nil, f.num, f.typ)...)
				b = append(b, nonMinimalVarint(uint64(len(f.val)))...)
				b = append(b, f.val...)
				done = true
			} else {
				b = append(b, f.raw...)
			}
		}
		if done {
			add("non-minimal-varint", "length-prefix", b)
		}
	}
	// 4. duplicated scalar (last one wins, same value) and split embedded messages (occurrences merge)
	for _, f := range fs {
		if f.num == 6 && f.typ == protowire.VarintType {
			add("duplicated-field", "fee-twice", append(bytes.Clone(tx), f.raw...))
			// a different value first, the signed value last
			add("duplicated-field", "fee-shadowed", append(varintField(6, f.v+1), tx...))
		}
	}
	for _, f := range fs {
		if f.num == 3 && f.typ == protowire.BytesType {
			inner := parse(f.val)
			if len(inner) == 2 {
				var b []byte
				for _, g := range fs {
					if g.num == 3 {
						b = append(b, bytesField(3, inner[0].raw)...)
						b = append(b, bytesField(3, inner[1].raw)...)
					} else {
						b = append(b, g.raw...)
					}
				}
				add("split-embedded-message", "signature-in-two-parts", b)
			}
		}
		if f.num == 2 && f.typ == protowire.BytesType {
			inner := parse(f.val)
			if len(inner) == 2 {
				var b []byte
				for _, g := range fs {
					if g.num == 2 {
						b = append(b, bytesField(2, inner[0].raw)...)
						b = append(b, bytesField(2, inner[1].raw)...)
					} else {
						b = append(b, g.raw...)
					}
				}
				add("split-embedded-message", "any-in-two-parts", b)
			}
		}
	}
	// 4b. unknown fields inside the signature sub-message (the sign bytes are built without it, so this is the same signed content)
	for _, f := range fs {
		if f.num == 3 && f.typ == protowire.BytesType {
			for _, extra := range [][]byte{varintField(15, 1), varintField(15, 2), bytesField(14, []byte("x"))} {
				var b []byte
				for _, g := range fs {
					if g.num == 3 {
						b = append(b, bytesField(3, append(bytes.Clone(f.val), extra...))...)
					} else {
						b = append(b, g.raw...)
					}
				}
				add("unknown-field-in-unsigned-submessage", "signature", b)
			}
		}
	}
	// 5. alternative public-key encodings and malleated signatures (neither is covered by the sign bytes)
	t := new(lib.Transaction)
	if lib.Unmarshal(tx, t) == nil && t.Signature != nil {
		pk, sig := t.Signature.PublicKey, t.Signature.Signature
		reenc := func(family, name string, npk, nsig []byte) {
			c := &lib.Transaction{MessageType: t.MessageType, Msg: t.Msg, Signature: &lib.Signature{PublicKey: npk, Signature: nsig}, CreatedHeight: t.CreatedHeight,
				Time: t.Time, Fee: t.Fee, Memo: t.Memo, NetworkId: t.NetworkId, ChainId: t.ChainId, Nonce: t.Nonce}
			if b, err := lib.Marshal(c); err == nil {
				add(family, name, b)
			}
		}
		switch len(pk) {
		case 64:
			reenc("alternative-key-encoding", "eth-65-byte-0x04-prefix", append([]byte{4}, pk...), sig)
		case 65:
			reenc("alternative-key-encoding", "eth-64-byte-no-prefix", pk[1:], sig)
		}
		if (len(pk) == 33 || len(pk) == 64 || len(pk) == 65) && len(sig) >= 64 {
			// ECDSA (r, s) -> (r, n - s)
			s := new(big.Int).SetBytes(sig[32:64])
			ns := new(big.Int).Sub(secp256k1.S256().N, s)
			m := bytes.Clone(sig)
			nb := ns.Bytes()
			copy(m[32:64], make([]byte, 32))
			copy(m[64-len(nb):64], nb)
			if len(m) == 65 {
				m[64] ^= 1
			}
			reenc("malleated-signature", "ecdsa-high-s", pk, m)
		}
		if len(pk) == 32 && len(sig) == 64 {
			// ed25519: S + L (non-canonical scalar)
			l, _ := new(big.Int).SetString("7237005577332262213973186563042994240857116359379907606001950938285454250989", 10)
			sLE := bytes.Clone(sig[32:])
			for i, j := 0, len(sLE)-1; i < j; i, j = i+1, j-1 {
				sLE[i], sLE[j] = sLE[j], sLE[i]
			}
			ns := new(big.Int).Add(new(big.Int).SetBytes(sLE), l)
			nb := ns.Bytes()
			if len(nb) <= 32 {
				be := make([]byte, 32)
				copy(be[32-len(nb):], nb)
				for i, j := 0, 31; i < j; i, j = i+1, j-1 {
					be[i], be[j] = be[j], be[i]
				}
				reenc("malleated-signature", "ed25519-s-plus-l", pk, append(bytes.Clone(sig[:32]), be...))
			}
		}
	}
	return out
}

// Controls are byte strings that must be rejected outright (they do not carry the same content).
func Controls(tx []byte) []Variant {
	var out []Variant
	out = append(out, Variant{"control", "unknown-field-99", append(bytes.Clone(tx), varintField(99, 1)...)})
	fs := parse(tx)
	for _, f := range fs {
		if f.num == 6 && f.typ == protowire.VarintType {
			// the signed fee first, another one last: content differs, signature must fail
			out = append(out, Variant{"control", "fee-overridden-by-later-occurrence", append(bytes.Clone(tx), varintField(6, f.v+1)...)})
		}
	}
	return out
}
