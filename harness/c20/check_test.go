package c20

// C20 — escrow, order-book and AMM accounting is exact.
//
// Engine: two REAL canopy chains in one process (c20util.Env): a root chain (id 1) and a nested chain (id 2) whose
// root-chain manager answers from the root node, so sell-order locks / closes / resets and DEX batches, receipts,
// rotations and the liveness fallback are produced by canopy's own controller and state machine (HandleSwaps,
// HandleDex, HandleCertificateResults, HandleDexBatch ...). The nested proposer's certificate-result transactions are
// carried to the root mempool by the driver (sometimes late, sometimes withheld). A third committee (id 3) has no
// chain: the harness holds its keys and writes its certificate results itself - duplicate and conflicting order
// instructions inside one certificate, hostile DEX batches (receipts, orders, withdrawals, deposits of any size).
//
// Oracle, after EVERY committed block of either chain (c20util.Identities + c20util.CheckBlock), from raw prefix scans:
//   - per chain id: escrow pool == sum of open sell orders; holding pool == orders + deposits of next+locked batch;
//     sum of LP points == total; total supply == accounts + pools + stakes
//   - every account's balance change equals: the included transactions' fees/sends/DEX escrows + order-book differences
//     (new order: -amount, edit: -/+ delta, vanished order: +amount to exactly one of seller / buyer) + the payouts of
//     canopy's own DEX event trace; nobody else's balance moves
//   - the DEX event trace is replayed over the scanned pools: swap dy <= y and (x+dx)(y-dy) >= x*y in big.Int, withdrawal
//     <= floor(reserve*points/total), points burned <= held, minted points <= geometric-mean reference, receipts recorded
//     == amounts paid, a locked batch is only consumed by receipts made for exactly it and completely; the replayed pool
//     amounts and holder points must equal the scanned ones
//   - across the two chains: an order is executed at most once by the counter chain, settled at most once by its origin
//     chain, and settled with exactly the receipt the counter chain recorded

import (
	"encoding/json"
	"fmt"
	"math"
	"math/rand"
	"os"
	"runtime"
	"runtime/debug"
	"sort"
	"strings"
	"testing"

	"github.com/canopy-network/canopy/fsm"
	"github.com/canopy-network/canopy/lib"
	"github.com/canopy-network/canopy/lib/crypto"
	"verif/c20util"
	"verif/core"
	"verif/node"
)

const (
	rootID, nestedID, ghostID = c20util.RootID, c20util.NestedID, c20util.GhostID
	sendFee                   = 10000
)

type sim struct {
	t       *testing.T
	run     *core.Run
	name    string
	kind    string
	scale   int
	rng     *rand.Rand
	e       *c20util.Env
	keyOf   map[string]crypto.PrivateKeyI
	exempt  map[string]bool
	rootSt  *c20util.State
	nestSt  *c20util.State
	queue   [][]byte // certificate-result transactions of the nested chain not yet handed to the root
	nestQCs map[uint64]*lib.QuorumCertificate
	rootQCs map[uint64]*lib.QuorumCertificate
	history []string
	ops     map[string][]string // order id -> observed operations
	deadIDs [][]byte            // ids of orders that no longer exist
	fresh   int
	failed  bool
	// cross-chain DEX ledger
	executed map[string][]uint64 // origin-chain order id -> receipts the counter chain recorded (more than one only if it executed the order again)
	settled  map[string]bool
	fellBack map[string]bool
	maxAmt   uint64
	ghostRH  []byte // receipt hash the ghost committee answers with (hash of the root's locked batch for the ghost)
	// certificates that fail late: the poisoned certificate of this block, its clean twin for the next block
	poisonTx   []byte
	twin       *lib.CertificateResult
	twinTx     []byte
	lateFailed bool
	imported   map[string]string // id of an order that came with the genesis state -> how its committee field was set
}

func (s *sim) note(format string, a ...any) {
	s.history = append(s.history, fmt.Sprintf(format, a...))
}

func (s *sim) violation(kind string, chain string, h uint64, detail string, extra map[string]any) {
	w := map[string]any{"case": s.name, "workload": s.kind, "scale": s.scale, "chain": chain, "height": h, "problem": detail, "history_tail": tail(s.history, 70)}
	for k, v := range extra {
		w[k] = v
	}
	if known := s.run.Violation(kind, "^"+s.name+"$", w); !known {
		s.failed = true // a listed finding does not end the case: the rest of the run is still checked
	}
}

func tail(x []string, n int) []string {
	if len(x) > n {
		return x[len(x)-n:]
	}
	return x
}

func (s *sim) freshAddr() []byte {
	s.fresh++
	return crypto.Hash([]byte(fmt.Sprintf("%s-fresh-%d", s.name, s.fresh)))[:20]
}

func (s *sim) user() crypto.PrivateKeyI { return s.e.Users[s.rng.Intn(len(s.e.Users))] }

func addr(k crypto.PrivateKeyI) []byte { return k.PublicKey().Address().Bytes() }

// amount picks an amount for somebody holding bal: 1, small, a share of the balance, everything, too much, near 2^64.
func (s *sim) amount(bal uint64, reserve uint64) uint64 {
	r := s.rng
	switch r.Intn(10) {
	case 0:
		return 1
	case 1:
		return uint64(2 + r.Intn(9))
	case 2:
		if bal > 2*sendFee {
			return bal - sendFee - uint64(r.Intn(3)) // everything the fee leaves (or one or two less)
		}
	case 3:
		return bal + uint64(r.Intn(2)) // more than can be paid together with the fee
	case 4:
		return math.MaxUint64 - uint64(r.Intn(3))
	case 5:
		if bal > 8 {
			return bal/2 + uint64(r.Intn(1000))
		}
	}
	lim := bal / 8
	if s.maxAmt != 0 && lim > s.maxAmt {
		lim = s.maxAmt
	}
	if lim < 2 {
		lim = 2
	}
	return 1 + uint64(r.Int63n(int64(lim)))
}

func (s *sim) bal(st *c20util.State, k crypto.PrivateKeyI) uint64 {
	return st.Accounts[string(addr(k))]
}

// ---------------------------------------------------------------------------------------------------------------------
// transaction generators

func (s *sim) genBookRoot() [][]byte {
	var out [][]byte
	e, r, h := s.e, s.rng, s.e.RootNode().Height()
	n := 2 + r.Intn(5)
	type oref struct {
		c uint64
		o *lib.SellOrder
	}
	var open, locked []oref
	for c, m := range s.rootSt.Orders {
		ids := make([]string, 0, len(m))
		for id := range m {
			ids = append(ids, id)
		}
		sort.Strings(ids)
		for _, id := range ids {
			if o := m[id]; len(o.BuyerReceiveAddress) == 0 {
				open = append(open, oref{c, o})
			} else {
				locked = append(locked, oref{c, o})
			}
		}
	}
	sort.SliceStable(open, func(i, j int) bool { return open[i].c < open[j].c })
	sort.SliceStable(locked, func(i, j int) bool { return locked[i].c < locked[j].c })
	for i := 0; i < n; i++ {
		switch k := r.Intn(100); {
		case k < 34 || len(open)+len(locked) == 0: // create
			u := s.user()
			c := []uint64{rootID, nestedID, ghostID}[r.Intn(3)]
			amt := s.amount(s.bal(s.rootSt, u), 0)
			req := uint64(1 + r.Intn(50_000))
			data := []byte(nil)
			if r.Intn(4) == 0 {
				data = make([]byte, 1+r.Intn(100))
				r.Read(data)
			}
			out = append(out, e.Sign(u, &fsm.MessageCreateOrder{ChainId: c, Data: data, AmountForSale: amt, RequestedAmount: req, SellerReceiveAddress: addr(u), SellersSendAddress: addr(u)}, rootID, sendFee, h, ""))
			s.note("root h%d create-order chain=%d seller=%x amount=%d", h, c, addr(u)[:4], amt)
			s.run.Count("generated_create_order", 1)
		case k < 52: // edit
			pool := open
			if r.Intn(6) == 0 && len(locked) > 0 {
				pool = locked // must be refused
			}
			if len(pool) == 0 {
				continue
			}
			x := pool[r.Intn(len(pool))]
			signer := s.keyOf[string(x.o.SellersSendAddress)]
			if signer == nil || r.Intn(12) == 0 {
				signer = s.user() // somebody else: must be refused
			}
			var amt uint64
			switch r.Intn(6) {
			case 0:
				amt = x.o.AmountForSale // same amount, other fields
			case 1:
				amt = 1
			case 2:
				amt = x.o.AmountForSale + 1 + uint64(r.Intn(1000))
			case 3:
				if x.o.AmountForSale > 1 {
					amt = 1 + uint64(r.Int63n(int64(x.o.AmountForSale)))
				} else {
					amt = 2
				}
			case 4:
				amt = s.amount(s.bal(s.rootSt, signer), 0)
			default:
				amt = x.o.AmountForSale + s.bal(s.rootSt, signer) // more than the seller can add
			}
			out = append(out, e.Sign(signer, &fsm.MessageEditOrder{OrderId: x.o.Id, ChainId: x.c, AmountForSale: amt, RequestedAmount: x.o.RequestedAmount + uint64(r.Intn(2)), SellerReceiveAddress: x.o.SellerReceiveAddress}, rootID, sendFee, h, ""))
			s.note("root h%d edit-order chain=%d id=%x amount %d->%d", h, x.c, x.o.Id[:4], x.o.AmountForSale, amt)
			s.run.Count("generated_edit_order", 1)
		case k < 66: // delete (sometimes twice in one block, sometimes a locked one, sometimes not the owner)
			pool := open
			if r.Intn(5) == 0 && len(locked) > 0 {
				pool = locked
			}
			if len(pool) == 0 {
				continue
			}
			x := pool[r.Intn(len(pool))]
			signer := s.keyOf[string(x.o.SellersSendAddress)]
			if signer == nil || r.Intn(12) == 0 {
				signer = s.user()
			}
			reps := 1
			if r.Intn(5) == 0 {
				reps = 2
			}
			for j := 0; j < reps; j++ {
				out = append(out, e.Sign(signer, &fsm.MessageDeleteOrder{OrderId: x.o.Id, ChainId: x.c}, rootID, sendFee, h, ""))
			}
			s.note("root h%d delete-order x%d chain=%d id=%x amount=%d locked=%v", h, reps, x.c, x.o.Id[:4], x.o.AmountForSale, len(x.o.BuyerReceiveAddress) != 0)
			s.run.Count("generated_delete_order", int64(reps))
		case k < 82: // buyer side of own-chain orders: lock through the memo of a send
			var mine []oref
			for _, x := range open {
				if x.c == rootID {
					mine = append(mine, x)
				}
			}
			if r.Intn(6) == 0 {
				for _, x := range locked {
					if x.c == rootID {
						mine = append(mine, x) // already locked: must be ignored
					}
				}
			}
			if len(mine) == 0 {
				continue
			}
			x := mine[r.Intn(len(mine))]
			out = append(out, s.lockTx(x.o, rootID, h)...)
		default: // close an own-chain order the way a buyer does
			var mine []oref
			for _, x := range locked {
				if x.c == rootID {
					mine = append(mine, x)
				}
			}
			if len(mine) == 0 {
				continue
			}
			x := mine[r.Intn(len(mine))]
			if tx := s.closeTx(x.o, rootID, h, s.rootSt); tx != nil {
				out = append(out, tx)
			}
		}
	}
	return out
}

// lockTx is the buyer's reservation: a send whose memo is a lock order (sometimes twice by competing buyers, sometimes underpaid).
func (s *sim) lockTx(o *lib.SellOrder, chain, h uint64) (out [][]byte) {
	r := s.rng
	n := 1
	if r.Intn(5) == 0 {
		n = 2 // two buyers in one block: only one may win
	}
	for j := 0; j < n; j++ {
		b := s.user()
		recv := addr(b)
		if r.Intn(2) == 0 {
			recv = s.freshAddr()
		}
		memo, _ := lib.MarshalJSON(lib.LockOrder{OrderId: o.Id, ChainId: chain, BuyerReceiveAddress: recv, BuyerSendAddress: addr(b)})
		fee := uint64(sendFee * 2)
		if r.Intn(10) == 0 {
			fee = sendFee // below the lock fee: the committee must ignore it
		}
		out = append(out, s.e.Sign(b, &fsm.MessageSend{FromAddress: addr(b), ToAddress: addr(b), Amount: 1}, chain, fee, h, string(memo)))
		s.note("chain%d h%d lock-tx order=%x buyer=%x recv=%x fee=%d", chain, h, o.Id[:4], addr(b)[:4], recv[:4], fee)
		s.run.Count("generated_lock_tx", 1)
	}
	return
}

// closeTx is the buyer's payment: a send of the requested amount to the seller with a close-order memo.
func (s *sim) closeTx(o *lib.SellOrder, chain, h uint64, st *c20util.State) []byte {
	b := s.keyOf[string(o.BuyerSendAddress)]
	if b == nil || len(o.SellerReceiveAddress) != 20 {
		return nil
	}
	amt := o.RequestedAmount
	if s.rng.Intn(8) == 0 {
		amt++ // wrong amount: no close
	}
	if s.bal(st, b) < amt+2*sendFee {
		return nil
	}
	memo, _ := lib.MarshalJSON(lib.CloseOrder{OrderId: o.Id, ChainId: chain, CloseOrder: true})
	s.note("chain%d h%d close-tx order=%x buyer=%x pays=%d (requested %d)", chain, h, o.Id[:4], addr(b)[:4], amt, o.RequestedAmount)
	s.run.Count("generated_close_tx", 1)
	return s.e.Sign(b, &fsm.MessageSend{FromAddress: addr(b), ToAddress: o.SellerReceiveAddress, Amount: amt}, chain, sendFee*2, h, string(memo))
}

// genBookNested: the buyers of the orders the root chain holds for committee 2 act on the nested chain.
func (s *sim) genBookNested() [][]byte {
	var out [][]byte
	h := s.e.NestNode().Height()
	m := s.rootSt.Orders[nestedID]
	ids := make([]string, 0, len(m))
	for id := range m {
		ids = append(ids, id)
	}
	sort.Strings(ids)
	for _, id := range ids {
		o := m[id]
		switch {
		case len(o.BuyerReceiveAddress) == 0 && s.rng.Intn(3) == 0:
			out = append(out, s.lockTx(o, nestedID, h)...)
		case len(o.BuyerReceiveAddress) != 0 && s.rng.Intn(3) == 0:
			if tx := s.closeTx(o, nestedID, h, s.nestSt); tx != nil {
				out = append(out, tx)
			}
		}
	}
	return out
}

// ghostBookCert writes the order instructions of committee 3 by hand.
func (s *sim) ghostBookCert() []byte {
	if s.twin != nil {
		return s.ghostSend(nil) // the clean twin of the poisoned certificate of the previous block
	}
	r := s.rng
	m := s.rootSt.Orders[ghostID]
	ids := make([]string, 0, len(m))
	for id := range m {
		ids = append(ids, id)
	}
	sort.Strings(ids)
	var open, locked [][]byte
	for _, id := range ids {
		if len(m[id].BuyerReceiveAddress) == 0 {
			open = append(open, []byte(id))
		} else {
			locked = append(locked, []byte(id))
		}
	}
	pickSome := func(from [][]byte, p int) (out [][]byte) {
		for _, id := range from {
			if r.Intn(100) < p {
				out = append(out, id)
			}
		}
		return
	}
	ord := &lib.Orders{}
	var desc []string
	lock := func(id []byte) {
		recv := s.freshAddr()
		if r.Intn(3) == 0 {
			recv = addr(s.user())
		}
		ord.LockOrders = append(ord.LockOrders, &lib.LockOrder{OrderId: id, ChainId: ghostID, BuyerReceiveAddress: recv, BuyerSendAddress: s.freshAddr(), BuyerChainDeadline: 1 + uint64(r.Intn(1000))})
	}
	for _, id := range pickSome(open, 40) {
		lock(id)
	}
	ord.ResetOrders = pickSome(locked, 20)
	ord.CloseOrders = pickSome(locked, 35)
	conflicts, dups := 0, 0
	other := func() []byte { // an id that is not an open order of this committee
		switch {
		case len(s.deadIDs) > 0 && r.Intn(2) == 0:
			return s.deadIDs[r.Intn(len(s.deadIDs))]
		case len(s.rootSt.Orders[rootID]) > 0:
			least := ""
			for id := range s.rootSt.Orders[rootID] {
				if least == "" || id < least {
					least = id
				}
			}
			return []byte(least)
		}
		return s.freshAddr()
	}
	for i := 0; i < 3; i++ {
		switch r.Intn(12) {
		case 0: // lock and close the same open order in one certificate
			if len(open) > 0 {
				id := open[r.Intn(len(open))]
				if !has(lockIDs(ord), id) {
					lock(id)
				}
				if !has(ord.CloseOrders, id) {
					ord.CloseOrders = append(ord.CloseOrders, id)
				}
				conflicts++
				desc = append(desc, "lock+close")
			}
		case 1: // close and reset the same locked order
			if len(locked) > 0 {
				id := locked[r.Intn(len(locked))]
				if !has(ord.CloseOrders, id) {
					ord.CloseOrders = append(ord.CloseOrders, id)
				}
				if !has(ord.ResetOrders, id) {
					ord.ResetOrders = append(ord.ResetOrders, id)
				}
				conflicts++
				desc = append(desc, "close+reset")
			}
		case 2: // close an order nobody locked
			if len(open) > 0 {
				id := open[r.Intn(len(open))]
				if !has(ord.CloseOrders, id) && !has(lockIDs(ord), id) {
					ord.CloseOrders = append(ord.CloseOrders, id)
					conflicts++
					desc = append(desc, "close-unlocked")
				}
			}
		case 3: // lock an order that is already locked (other buyer), and reset it in the same certificate
			if len(locked) > 0 {
				id := locked[r.Intn(len(locked))]
				if !has(lockIDs(ord), id) {
					lock(id)
				}
				if r.Intn(2) == 0 && !has(ord.ResetOrders, id) {
					ord.ResetOrders = append(ord.ResetOrders, id)
				}
				conflicts++
				desc = append(desc, "relock")
			}
		case 4: // instructions for orders that do not exist (closed or deleted earlier, or another chain's)
			id := other()
			switch r.Intn(3) {
			case 0:
				if !has(lockIDs(ord), id) {
					lock(id)
				}
			case 1:
				if !has(ord.ResetOrders, id) {
					ord.ResetOrders = append(ord.ResetOrders, id)
				}
			default:
				if !has(ord.CloseOrders, id) {
					ord.CloseOrders = append(ord.CloseOrders, id)
				}
			}
			conflicts++
			desc = append(desc, "unknown-id")
		case 5: // the same instruction twice in one list
			switch {
			case len(ord.CloseOrders) > 0 && r.Intn(2) == 0:
				ord.CloseOrders = append(ord.CloseOrders, ord.CloseOrders[r.Intn(len(ord.CloseOrders))])
				dups++
				desc = append(desc, "close-twice")
			case len(ord.LockOrders) > 0:
				l := ord.LockOrders[r.Intn(len(ord.LockOrders))]
				ord.LockOrders = append(ord.LockOrders, &lib.LockOrder{OrderId: l.OrderId, ChainId: ghostID, BuyerReceiveAddress: s.freshAddr(), BuyerSendAddress: s.freshAddr(), BuyerChainDeadline: 7})
				dups++
				desc = append(desc, "lock-twice")
			case len(ord.ResetOrders) > 0:
				ord.ResetOrders = append(ord.ResetOrders, ord.ResetOrders[0])
				dups++
				desc = append(desc, "reset-twice")
			}
		}
	}
	if len(ord.LockOrders)+len(ord.ResetOrders)+len(ord.CloseOrders) == 0 {
		return nil
	}
	tx := s.ghostSend(&lib.CertificateResult{Orders: ord})
	s.run.Count("harness_certificates_with_order_instructions", 1)
	s.run.Count("conflicting_instructions_in_one_certificate", int64(conflicts))
	s.run.Count("duplicate_instructions_in_one_certificate", int64(dups))
	s.note("root h%d ghost-certificate locks=%d resets=%d closes=%d %v", s.e.RootNode().Height(), len(ord.LockOrders), len(ord.ResetOrders), len(ord.CloseOrders), desc)
	return tx
}

func lockIDs(o *lib.Orders) (out [][]byte) {
	for _, l := range o.LockOrders {
		out = append(out, l.OrderId)
	}
	return
}

func has(list [][]byte, id []byte) bool {
	for _, x := range list {
		if string(x) == string(id) {
			return true
		}
	}
	return false
}

// genDex produces DEX transactions of one chain towards the given counter chains.
func (s *sim) genDex(self uint64, st *c20util.State, counters []uint64, h uint64) [][]byte {
	var out [][]byte
	r := s.rng
	n := 1 + r.Intn(6)
	for i := 0; i < n; i++ {
		c := counters[r.Intn(len(counters))]
		u := s.user()
		reserve := st.PoolAmount(c + fsm.LiquidityPoolAddend)
		switch k := r.Intn(100); {
		case k < 50:
			amt := s.amount(s.bal(st, u), reserve)
			var req uint64
			switch r.Intn(5) {
			case 0:
				req = math.MaxUint64 // can never be met: refunded
			case 1:
				req = amt // about the pool price when the pools are equal
			case 2:
				req = 1 + amt/3
			default:
				req = 1
			}
			out = append(out, s.e.Sign(u, &fsm.MessageDexLimitOrder{ChainId: c, AmountForSale: amt, RequestedAmount: req, Address: addr(u)}, self, 0, h, ""))
			s.note("chain%d h%d dex-order to=%d who=%x sell=%d want=%d", self, h, c, addr(u)[:4], amt, req)
			s.run.Count("generated_dex_limit_order", 1)
		case k < 75:
			amt := s.amount(s.bal(st, u), reserve)
			out = append(out, s.e.Sign(u, &fsm.MessageDexLiquidityDeposit{ChainId: c, Amount: amt, Address: addr(u)}, self, 0, h, ""))
			s.note("chain%d h%d dex-deposit to=%d who=%x amount=%d", self, h, c, addr(u)[:4], amt)
			s.run.Count("generated_dex_deposit", 1)
		default:
			// prefer somebody who holds points; sometimes twice in one batch, sometimes a non-holder (refused)
			if p := st.Pools[c+fsm.LiquidityPoolAddend]; p != nil && len(p.Points) > 0 && r.Intn(5) != 0 {
				if k := s.keyOf[string(p.Points[r.Intn(len(p.Points))].Address)]; k != nil {
					u = k
				}
			}
			pct := []uint64{1, 10, 50, 60, 99, 100}[r.Intn(6)]
			reps := 1
			if r.Intn(4) == 0 {
				reps = 2
			}
			for j := 0; j < reps; j++ {
				out = append(out, s.e.Sign(u, &fsm.MessageDexLiquidityWithdraw{ChainId: c, Percent: pct, Address: addr(u)}, self, 0, h, ""))
			}
			s.note("chain%d h%d dex-withdraw x%d to=%d who=%x percent=%d", self, h, reps, c, addr(u)[:4], pct)
			s.run.Count("generated_dex_withdraw", int64(reps))
		}
	}
	return out
}

// ghostDexCert answers for committee 3 with a hand-written batch: receipts for the root's locked batch (any values),
// plus orders / withdrawals / deposits of any size.
func (s *sim) ghostDexCert() []byte {
	if s.twin != nil {
		return s.ghostSend(nil) // the clean twin of the poisoned certificate of the previous block
	}
	r := s.rng
	st := s.rootSt
	liq := st.PoolAmount(ghostID + fsm.LiquidityPoolAddend)
	L := st.Locked[ghostID]
	b := &lib.DexBatch{Committee: rootID, LockedHeight: s.e.GhostHeight + 1}
	// the ghost's own reserve: from 1 to 2^63
	switch r.Intn(5) {
	case 0:
		b.PoolSize = 1 + uint64(r.Intn(5))
	case 1:
		b.PoolSize = 1 << 63
	case 2:
		b.PoolSize = liq
	default:
		b.PoolSize = 1 + uint64(r.Int63n(int64(liq/2+2)))*uint64(1+r.Intn(4))
	}
	var desc []string
	hostile := r.Intn(4) == 0 // values that cannot be honoured: the whole certificate must then be refused without a trace
	if hostile {
		desc = append(desc, "hostile-values")
	}
	if L != nil && !L.IsEmpty() {
		// receipts for the root's locked batch
		b.ReceiptHash = c20util.BatchHash(L)
		switch r.Intn(14) {
		case 0:
			b.ReceiptHash = crypto.Hash([]byte("some other batch")) // receipts for another batch: must not be applied
			desc = append(desc, "wrong-receipt-hash")
		case 1:
			if s.ghostRH != nil {
				b.ReceiptHash = s.ghostRH // receipts for the previous locked batch
				desc = append(desc, "stale-receipt-hash")
			}
		}
		for range L.Orders {
			var v uint64
			switch k := r.Intn(6); {
			case k == 0:
				v = 0
			case k == 1:
				v = 1
			case k == 2 && hostile:
				v = b.PoolSize // not payable: the whole batch must be refused
			case k == 3 && hostile:
				v = math.MaxUint64
			default:
				v = 1 + uint64(r.Int63n(int64(b.PoolSize/(4*uint64(len(L.Orders)))+1)))
			}
			b.Receipts = append(b.Receipts, v)
		}
		switch r.Intn(14) {
		case 0:
			b.Receipts = append(b.Receipts, 5) // one receipt too many
			desc = append(desc, "extra-receipt")
		case 1:
			if len(b.Receipts) > 0 {
				b.Receipts = b.Receipts[1:]
				desc = append(desc, "missing-receipt")
			}
		}
		s.ghostRH = c20util.BatchHash(L)
	} else if r.Intn(3) == 0 {
		b.ReceiptHash = crypto.Hash([]byte("nothing was locked"))
		b.Receipts = []uint64{7}
		desc = append(desc, "receipts-without-locked-batch")
	}
	// the ghost's own operations
	for i, n := 0, r.Intn(5); i < n; i++ {
		var amt uint64
		switch k := r.Intn(7); {
		case k == 0:
			amt = 1
		case k == 1 && hostile:
			amt = math.MaxUint64 - uint64(r.Intn(2))
		case k == 2 && hostile:
			amt = 1 << 63
		case k == 3:
			amt = b.PoolSize / 2
		default:
			amt = 1 + uint64(r.Int63n(int64(b.PoolSize/8+2)))
		}
		req := uint64(1)
		if r.Intn(4) == 0 {
			req = 1 + uint64(r.Int63n(int64(liq/2+2)))
		}
		to := addr(s.user())
		if r.Intn(4) == 0 {
			to = s.freshAddr()
		}
		b.Orders = append(b.Orders, &lib.DexLimitOrder{AmountForSale: amt, RequestedAmount: req, Address: to, OrderId: s.freshAddr()})
	}
	if p := st.Pools[ghostID+fsm.LiquidityPoolAddend]; p != nil {
		for i, n := 0, r.Intn(3); i < n && len(p.Points) > 0; i++ {
			h := p.Points[r.Intn(len(p.Points))].Address
			if r.Intn(6) == 0 {
				h = s.freshAddr() // holds nothing
			}
			b.Withdrawals = append(b.Withdrawals, &lib.DexLiquidityWithdraw{Address: h, Percent: []uint64{1, 50, 100, 100}[r.Intn(4)], OrderId: s.freshAddr()})
			if r.Intn(4) == 0 { // the same holder twice in one batch
				b.Withdrawals = append(b.Withdrawals, &lib.DexLiquidityWithdraw{Address: h, Percent: 100, OrderId: s.freshAddr()})
				desc = append(desc, "holder-withdraws-twice")
			}
		}
	}
	for i, n := 0, r.Intn(3); i < n; i++ {
		var amt uint64
		switch k := r.Intn(6); {
		case k == 0:
			amt = 0
		case k == 1:
			amt = 1
		case k == 2 && hostile:
			amt = math.MaxUint64
		default:
			amt = 1 + uint64(r.Int63n(int64(b.PoolSize/8+2)))
		}
		who := addr(s.user())
		b.Deposits = append(b.Deposits, &lib.DexLiquidityDeposit{Address: who, Amount: amt, OrderId: s.freshAddr()})
	}
	if r.Intn(8) == 0 {
		b = &lib.DexBatch{Committee: rootID, PoolSize: b.PoolSize} // an empty batch: only lets the root rotate
		desc = append(desc, "empty-batch")
	}
	tx := s.ghostSend(&lib.CertificateResult{DexBatch: b})
	s.run.Count("harness_certificates_with_dex_batch", 1)
	s.note("root h%d ghost-dex-batch pool=%d receipts=%v orders=%d withdrawals=%d deposits=%d %v", s.e.RootNode().Height(), b.PoolSize, b.Receipts, len(b.Orders), len(b.Withdrawals), len(b.Deposits), desc)
	return tx
}

// ghostSend signs a certificate of committee 3. Every fourth one is poisoned: besides its instructions it names a double
// signer that HandleByzantine refuses (an undecodable key, or the same height twice for one validator). The state machine
// reaches that point only AFTER it executed the dex batch and the order instructions (events emitted, escrow moved), so
// the transaction fails late and must leave nothing behind. The same certificate without the poison (the clean twin) is
// sent in the next block: what it does is what the poisoned one had done before it failed.
func (s *sim) ghostSend(res *lib.CertificateResult) []byte {
	poisoned, twin := false, false
	switch {
	case s.twin != nil:
		res, s.twin, twin = s.twin, nil, true
	case s.e.RootNode().Height() > 3 && s.rng.Intn(4) == 0:
		bz, _ := lib.Marshal(res)
		clean := new(lib.CertificateResult)
		_ = lib.Unmarshal(bz, clean)
		s.twin, poisoned = clean, true
		ds := &lib.DoubleSigner{Id: []byte("not-a-key"), Heights: []uint64{1}}
		if s.rng.Intn(3) == 0 {
			h := s.e.RootNode().Height() - 1
			ds = &lib.DoubleSigner{Id: s.e.Vals[1].PublicKey().Bytes(), Heights: []uint64{h, h}}
		}
		res.SlashRecipients = &lib.SlashRecipients{DoubleSigners: []*lib.DoubleSigner{ds}}
	}
	tx, err := s.e.GhostCert(res, s.e.RootNode().Height()-1, nil)
	if err != nil {
		s.t.Fatalf("%s: ghost certificate: %v", s.name, err)
	}
	if poisoned {
		s.poisonTx = tx
		s.run.Count("certificates_poisoned_to_fail_late", 1)
		d := res.SlashRecipients.DoubleSigners[0]
		s.note("root h%d this ghost certificate is poisoned: double signer %x heights %v", s.e.RootNode().Height(), d.Id[:4], d.Heights)
	}
	if twin {
		s.twinTx = tx
		s.note("root h%d this ghost certificate is the clean twin of the poisoned one", s.e.RootNode().Height())
	}
	return tx
}

// afterRoot looks at what became of the poisoned certificate / the clean twin of the block just committed.
func (s *sim) afterRoot(in *c20util.BlockInput) {
	includes := func(tx []byte) bool {
		h := crypto.HashString(tx)
		for _, tr := range in.Result.Transactions {
			if tr.TxHash == h {
				return true
			}
		}
		return false
	}
	if tx := s.poisonTx; tx != nil {
		s.poisonTx, s.lateFailed = nil, false
		switch msg, failed := c20util.FailureOf(s.e.RootNode(), tx); {
		case includes(tx):
			s.run.Count("poisoned_certificates_included", 1)
			s.note("root h%d the poisoned certificate was INCLUDED", in.Height)
		case failed && (strings.Contains(msg, "publicKeyFromBytes") || strings.Contains(msg, "double signer is invalid")):
			// refused by the double-signer handling: dex batch, order instructions and checkpoint had been executed before
			s.lateFailed = true
			s.run.Count("certificates_failing_late", 1)
			s.note("root h%d the poisoned certificate failed late: %s", in.Height, strings.ReplaceAll(msg, "\n", " "))
		default:
			s.run.Count("poisoned_certificates_failing_early", 1)
			s.note("root h%d the poisoned certificate failed before the double-signer handling: %s", in.Height, strings.ReplaceAll(msg, "\n", " "))
		}
		return
	}
	if tx := s.twinTx; tx != nil {
		s.twinTx = nil
		late := s.lateFailed
		s.lateFailed = false
		if !late || !includes(tx) {
			return
		}
		s.run.Count("late_failures_whose_clean_twin_succeeded", 1)
		events := 0
		for _, ev := range in.Result.Events {
			if ev.ChainId != ghostID {
				continue
			}
			switch ev.Msg.(type) {
			case *lib.Event_DexSwap, *lib.Event_DexLiquidityDeposit, *lib.Event_DexLiquidityWithdrawal, *lib.Event_OrderBookSwap, *lib.Event_OrderBookLock, *lib.Event_OrderBookReset:
				events++
			}
		}
		if events > 0 {
			s.run.Count("late_failures_that_had_emitted_events", 1)
			s.run.Count("events_a_late_failure_had_emitted", int64(events))
		}
		moved := false
		for _, id := range []uint64{ghostID + fsm.EscrowPoolAddend, ghostID + fsm.HoldingPoolAddend, ghostID + fsm.LiquidityPoolAddend} {
			moved = moved || in.Prev.PoolAmount(id) != in.Cur.PoolAmount(id)
		}
		if moved {
			s.run.Count("late_failures_that_had_moved_escrow_or_pools", 1)
		}
	}
}

// ---------------------------------------------------------------------------------------------------------------------
// stepping and checking

func certOf(tx *lib.Transaction) *lib.QuorumCertificate {
	m, err := lib.FromAny(tx.Msg)
	if err != nil {
		return nil
	}
	if c, ok := m.(*fsm.MessageCertificateResults); ok {
		return c.Qc
	}
	return nil
}

func hints(h map[uint64]map[string][][]byte, c uint64, o *lib.Orders) {
	if o == nil {
		return
	}
	for _, l := range o.LockOrders {
		if l == nil {
			continue
		}
		if h[c] == nil {
			h[c] = map[string][][]byte{}
		}
		h[c][string(l.OrderId)] = append(h[c][string(l.OrderId)], l.BuyerReceiveAddress)
	}
}

// errClass condenses a canopy error ("Module: m / Code: c / Message: text") into module/code/text-with-dashes.
func errClass(err error) string {
	var mod, code, msg string
	for _, l := range strings.Split(err.Error(), "\n") {
		l = strings.TrimSpace(l)
		switch {
		case strings.HasPrefix(l, "Module:"):
			mod = strings.TrimSpace(strings.TrimPrefix(l, "Module:"))
		case strings.HasPrefix(l, "Code:"):
			code = strings.TrimSpace(strings.TrimPrefix(l, "Code:"))
		case strings.HasPrefix(l, "Message:"):
			msg = strings.TrimSpace(strings.TrimPrefix(l, "Message:"))
		}
	}
	if mod == "" && code == "" {
		msg = strings.TrimSpace(err.Error())
	}
	if len(msg) > 60 {
		msg = msg[:60]
	}
	return mod + "/" + code + "/" + strings.ReplaceAll(msg, " ", "-")
}

func (s *sim) stepRoot(txs [][]byte) bool {
	h := s.e.RootNode().Height()
	rec, err := s.e.StepRoot(txs)
	if err != nil {
		s.violation("chain-cannot-advance chain=root error="+errClass(err), "root", h, err.Error(), nil)
		return false
	}
	s.rootQCs[h] = rec.QC
	cur, e := c20util.Scan(s.e.RootNode().C.FSM.Store())
	if e != nil {
		s.t.Fatalf("%s: scan root: %v", s.name, e)
	}
	in := &c20util.BlockInput{Self: rootID, Height: h, Prev: s.rootSt, Cur: cur, Result: rec.Result, Remote: map[uint64]*lib.DexBatch{}, LockHints: map[uint64]map[string][][]byte{}, Exempt: s.exempt}
	if q := s.rootQCs[h-1]; q != nil && q.Results != nil {
		hints(in.LockHints, rootID, q.Results.Orders)
	}
	included := 0
	for _, tr := range rec.Result.Transactions {
		if qc := certOf(tr.Transaction); qc != nil && qc.Results != nil {
			included++
			c := qc.Header.ChainId
			if qc.Results.DexBatch != nil {
				in.Remote[c] = qc.Results.DexBatch
			}
			hints(in.LockHints, c, qc.Results.Orders)
			s.run.Count("certificate_result_txs_included", 1)
		}
	}
	s.note("root h%d committed txs=%d/%d", h, len(rec.Result.Transactions), len(txs))
	s.run.Count("transactions_included", int64(len(rec.Result.Transactions)))
	s.run.Count("transactions_refused", int64(len(txs)-len(rec.Result.Transactions)))
	s.afterRoot(in)
	ok := s.judge("root", in)
	s.rootSt = cur
	return ok
}

func (s *sim) stepNested(txs [][]byte) bool {
	nn := s.e.NestNode()
	h := nn.Height()
	u := s.e.Users[int(h)%len(s.e.Users)]
	// every nested block carries at least one fresh transaction, so the proposer rebuilds its proposal on the latest root info
	txs = append(txs, s.e.Sign(u, &fsm.MessageSend{FromAddress: addr(u), ToAddress: addr(u), Amount: 1}, nestedID, sendFee, h, ""))
	rec, sub, err := s.e.StepNested(txs)
	if err != nil {
		s.violation("chain-cannot-advance chain=nested error="+errClass(err), "nested", h, err.Error(), nil)
		return false
	}
	s.queue = append(s.queue, sub...)
	s.nestQCs[h] = rec.QC
	cur, e := c20util.Scan(nn.C.FSM.Store())
	if e != nil {
		s.t.Fatalf("%s: scan nested: %v", s.name, e)
	}
	in := &c20util.BlockInput{Self: nestedID, Height: h, Prev: s.nestSt, Cur: cur, Result: rec.Result, Remote: map[uint64]*lib.DexBatch{}, LockHints: map[uint64]map[string][][]byte{}, Exempt: s.exempt}
	if q := s.nestQCs[h-1]; q != nil && q.Results != nil && q.Results.RootDexBatch != nil {
		if q.Results.RootDexBatch.LivenessFallback {
			in.Remote[rootID] = q.Results.RootDexBatch
		} else if rec.QC.Results != nil && rec.QC.Results.RootDexBatch != nil {
			// the batch canopy executed in this block is the root's locked batch at this block's root height (what the
			// controller cached); the certificate of this block carries the same batch, its fallback flag is for the next block
			bz, _ := lib.Marshal(rec.QC.Results.RootDexBatch)
			b := new(lib.DexBatch)
			_ = lib.Unmarshal(bz, b)
			b.LivenessFallback, b.PoolPoints, b.TotalPoolPoints = false, nil, 0
			in.Remote[rootID] = b
		}
		hints(in.LockHints, nestedID, q.Results.Orders)
	}
	s.note("nested h%d committed txs=%d/%d root_height=%d certs_submitted=%d", h, len(rec.Result.Transactions), len(txs), rec.QC.Header.RootHeight, len(sub))
	s.run.Count("transactions_included", int64(len(rec.Result.Transactions)))
	s.run.Count("transactions_refused", int64(len(txs)-len(rec.Result.Transactions)))
	ok := s.judge("nested", in)
	s.nestSt = cur
	return ok
}

// judge runs the oracles on one committed block.
func (s *sim) judge(chain string, in *c20util.BlockInput) bool {
	probs, stats := c20util.Identities(in.Cur)
	rep := c20util.CheckBlock(in)
	for k, v := range stats {
		s.run.Count(k, int64(v))
	}
	for k, v := range rep.Stats {
		s.run.Count(k, int64(v))
	}
	s.run.Count("blocks_checked", 1)
	s.run.Eval(1)
	probs = append(probs, rep.Problems...)
	// what the proposer built (failing transactions executed and dropped) against what validation of the block gives
	if pv := s.e.ProposerView; pv != nil {
		probs = append(probs, c20util.CompareProposerView(pv, in.Result)...)
		s.run.Count("proposer_results_compared", 1)
	}
	bp, nEv := c20util.BookEvents(in)
	probs = append(probs, bp...)
	s.run.Count("order_book_events_checked", int64(nEv))
	// sell-order life cycles
	for _, op := range rep.Ops {
		id := fmt.Sprintf("%d/%x", op.Chain, op.ID)
		s.ops[id] = append(s.ops[id], op.Op)
		switch op.Op {
		case "C":
			s.run.Count("orders_created", 1)
		case "E+", "E-", "E=":
			s.run.Count("orders_edited", 1)
		case "L":
			s.run.Count("orders_locked", 1)
		case "R":
			s.run.Count("orders_reset", 1)
		case "D":
			s.run.Count("orders_deleted", 1)
		case "X":
			s.run.Count("orders_closed", 1)
		}
		if how, ok := s.imported[op.ID]; ok {
			s.run.Count("operations_on_imported_orders", 1)
			if op.Op == "X" {
				s.run.Count("imported_orders_closed_committee_"+how, 1)
			}
		}
		if op.Op == "D" || op.Op == "X" || op.Op == "?" {
			s.deadIDs = append(s.deadIDs, []byte(op.ID))
			if len(s.ops[id]) >= 2 {
				class := map[uint64]string{rootID: "own", nestedID: "nested", ghostID: "harness"}[op.Chain]
				if how, ok := s.imported[op.ID]; ok {
					class += "-imported-committee-" + how
				}
				s.run.Distinct("order:" + class + ":" + strings.Join(s.ops[id], ""))
				if os.Getenv("C20_DEBUG") != "" {
					fmt.Println("DEBUG order:" + class + ":" + strings.Join(s.ops[id], ""))
				}
			}
		}
	}
	// cross-chain DEX ledger
	self := in.Self
	for _, x := range rep.Executed {
		if x.Chain == ghostID || len(x.ID) == 0 {
			continue
		}
		key := fmt.Sprintf("%d>%d/%x", x.Chain, self, x.ID)
		if prior, dup := s.executed[key]; dup {
			cause := "other"
			if rep.Stats["liveness_fallbacks"] > 0 {
				cause = "liveness-fallback-replays-counter-batch"
			}
			probs = append(probs, c20util.Problem{Kind: "dex-order-executed-twice cause=" + cause, Detail: fmt.Sprintf("order %s (sold %d, escrowed once on chain %d) was executed again by chain %d: paid %v before and %d now to %x", key, x.Sold, x.Chain, self, prior, x.Receipt, x.Addr)})
			for _, p := range prior {
				if p != 0 && x.Receipt != 0 {
					s.run.Count("dex_orders_paid_twice", 1)
					break
				}
			}
		}
		s.executed[key] = append(s.executed[key], x.Receipt)
		if s.fellBack[key] && x.Receipt != 0 {
			s.run.Count("orders_refunded_by_fallback_and_paid_by_counter_chain", 1)
		}
	}
	for _, x := range rep.Settled {
		if x.Chain == ghostID {
			s.run.Count("dex_orders_settled", 1)
			continue
		}
		key := fmt.Sprintf("%d>%d/%x", self, x.Chain, x.ID)
		if s.settled[key] {
			probs = append(probs, c20util.Problem{Kind: "dex-order-settled-twice", Detail: fmt.Sprintf("order %s left the holding pool twice", key)})
		}
		s.settled[key] = true
		s.run.Count("dex_orders_settled", 1)
		if x.Fallbck {
			s.fellBack[key] = true
			s.run.Count("dex_orders_refunded_by_liveness_fallback", 1)
			for _, r := range s.executed[key] {
				if r != 0 {
					s.run.Count("orders_refunded_by_fallback_and_paid_by_counter_chain", 1)
					break
				}
			}
			continue
		}
		// the receipt used must be one the counter chain recorded when it executed the order (it is more than one only
		// after a repeated execution, which is reported on its own)
		match := false
		for _, r := range s.executed[key] {
			match = match || r == x.Bought
		}
		if !match {
			probs = append(probs, c20util.Problem{Kind: "dex-settlement-differs-from-counter-chain-execution", Detail: fmt.Sprintf("order %s settled with receipt %d, the counter chain recorded %v", key, x.Bought, s.executed[key])})
		}
	}
	for _, sh := range rep.Shapes {
		s.run.Count("dex_batches_processed", 1)
		s.run.Distinct("dex:" + coarse(sh))
		if os.Getenv("C20_DEBUG") != "" {
			fmt.Println("DEBUG dex:" + coarse(sh))
		}
		s.note("%s h%d dex %s", chain, in.Height, sh)
	}
	for c, b := range in.Cur.Locked {
		if p := in.Prev.Locked[c]; b != nil && !b.IsEmpty() && b.LockedHeight == in.Height && (p == nil || p.LockedHeight != in.Height) {
			s.run.Count("batch_rotations", 1)
		}
	}
	if len(probs) == 0 {
		return true
	}
	seen := map[string]bool{}
	all := make([]string, 0, len(probs))
	for _, p := range probs {
		all = append(all, p.String())
	}
	for _, p := range probs {
		if seen[p.Kind] {
			continue
		}
		seen[p.Kind] = true
		s.violation(p.Kind, chain, in.Height, p.Detail, map[string]any{"all_problems": all, "block_events": eventsOf(in.Result), "dex_records": dexRecords(in)})
	}
	return false
}

// coarse reduces the counts of a batch shape to 0 / 1 / many.
func coarse(sh string) string {
	var b strings.Builder
	num := false
	for i := 0; i < len(sh); i++ {
		ch := sh[i]
		if ch >= '0' && ch <= '9' {
			if !num {
				j := i
				for j < len(sh) && sh[j] >= '0' && sh[j] <= '9' {
					j++
				}
				switch v := sh[i:j]; {
				case v == "0" || v == "1" || strings.HasSuffix(sh[:i], "self=") || strings.HasSuffix(sh[:i], "counter="):
					b.WriteString(v)
				default:
					b.WriteString("n")
				}
				num = true
			}
			continue
		}
		num = false
		b.WriteByte(ch)
	}
	return b.String()
}

// dexRecords renders the batches the oracle looked at.
func dexRecords(in *c20util.BlockInput) map[string]any {
	out := map[string]any{}
	for c, b := range in.Remote {
		out[fmt.Sprintf("remote_batch_of_chain_%d", c)] = b
	}
	for c, b := range in.Prev.Locked {
		out[fmt.Sprintf("locked_before_%d", c)] = b
	}
	for c, b := range in.Cur.Locked {
		out[fmt.Sprintf("locked_after_%d", c)] = b
	}
	for c, b := range in.Prev.Next {
		out[fmt.Sprintf("next_before_%d", c)] = b
	}
	for c, b := range in.Cur.Next {
		out[fmt.Sprintf("next_after_%d", c)] = b
	}
	for id, p := range in.Prev.Pools {
		if id > fsm.HoldingPoolAddend {
			out[fmt.Sprintf("pool_before_%d", id)] = p
		}
	}
	for id, p := range in.Cur.Pools {
		if id > fsm.HoldingPoolAddend {
			out[fmt.Sprintf("pool_after_%d", id)] = p
		}
	}
	return out
}

func eventsOf(r *lib.BlockResult) []string {
	var out []string
	for _, ev := range r.Events {
		if ev.EventType == string(lib.EventTypeReward) {
			continue
		}
		bz, _ := json.Marshal(ev)
		out = append(out, string(bz))
	}
	if len(out) > 60 {
		out = out[:60]
	}
	return out
}

// ---------------------------------------------------------------------------------------------------------------------

func newSim(t *testing.T, run *core.Run, name, kind string, scale int, rng *rand.Rand) *sim {
	return &sim{t: t, run: run, name: name, kind: kind, scale: scale, rng: rng, keyOf: map[string]crypto.PrivateKeyI{}, exempt: map[string]bool{},
		nestQCs: map[uint64]*lib.QuorumCertificate{}, rootQCs: map[uint64]*lib.QuorumCertificate{}, ops: map[string][]string{},
		executed: map[string][]uint64{}, settled: map[string]bool{}, fellBack: map[string]bool{}, imported: map[string]string{}}
}

// genesisBooks makes the sell orders the root chain is born with (a state import): a few per committee, sold by the
// users. The committee field of an order is set to the chain of its book, left out (0), or names another chain - canopy's
// genesis validation does not look at it and files the order under the chain id of the book.
func (s *sim) genesisBooks(users []crypto.PrivateKeyI) *lib.OrderBooks {
	r := s.rng
	books := &lib.OrderBooks{}
	for _, c := range []uint64{rootID, nestedID, ghostID} {
		b := &lib.OrderBook{ChainId: c}
		for i, n := 0, 2+r.Intn(4); i < n; i++ {
			u := users[r.Intn(len(users))]
			id := crypto.Hash([]byte(fmt.Sprintf("%s-genesis-order-%d-%d", s.name, c, i)))[:20]
			o := &lib.SellOrder{Id: id, AmountForSale: uint64(1000*(i+1)) + uint64(r.Intn(900)) + c, RequestedAmount: uint64(1 + r.Intn(50_000)),
				SellerReceiveAddress: addr(u), SellersSendAddress: addr(u)}
			how := ""
			switch r.Intn(3) {
			case 0:
				o.Committee, how = c, "set"
			case 1:
				o.Committee, how = 0, "omitted"
			default:
				o.Committee, how = []uint64{rootID, nestedID, ghostID, 7}[(int(c)+r.Intn(3))%4], "other-chain"
				if o.Committee == c {
					o.Committee = 7
				}
			}
			s.imported[string(id)] = how
			b.Orders = append(b.Orders, o)
			s.run.Count("genesis_orders_imported_committee_"+how, 1)
		}
		books.OrderBooks = append(books.OrderBooks, b)
	}
	return books
}

// open builds the two chains and takes the first scans.
func (s *sim) open(o c20util.Opts) error {
	e, err := c20util.New(o)
	if err != nil {
		return err
	}
	s.e = e
	for _, k := range e.Users {
		s.keyOf[string(addr(k))] = k
	}
	for _, k := range e.Vals {
		s.exempt[string(addr(k))] = true
	}
	if s.rootSt, err = c20util.Scan(e.RootNode().C.FSM.Store()); err != nil {
		return err
	}
	s.nestSt, err = c20util.Scan(e.NestNode().C.FSM.Store())
	return err
}

// runFallbackScenario is a fixed scenario: one order of the root chain is executed by the nested chain; from then on the
// nested chain's certificates never reach the root, so the nested chain runs its liveness fallback (repeatedly). The
// same oracles judge every block.
func runFallbackScenario(t *testing.T, run *core.Run, name string) {
	s := newSim(t, run, name, "scenario", 1, run.Rand(name))
	if err := s.open(c20util.Opts{Vals: 3, Users: 2, WithNested: true,
		RootPools: map[uint64]uint64{nestedID + fsm.LiquidityPoolAddend: 1_000_000},
		NestPools: map[uint64]uint64{rootID + fsm.LiquidityPoolAddend: 2_000_000}}); err != nil {
		t.Fatalf("%s: %v", name, err)
	}
	defer s.e.Close()
	a := s.e.Users[0]
	deliver := true
	for tick := 0; tick < core.Pick(30, 45) && !s.failed; tick++ {
		var txs [][]byte
		if deliver && len(s.queue) > 0 {
			txs, s.queue = append(txs, s.queue[0]), s.queue[1:]
		}
		if tick == 0 {
			txs = append(txs, s.e.Sign(a, &fsm.MessageDexLimitOrder{ChainId: nestedID, AmountForSale: 100_000, RequestedAmount: 1, Address: addr(a)}, rootID, 0, s.e.RootNode().Height(), ""))
			s.note("root h%d dex-order to=%d who=%x sell=100000 want=1", s.e.RootNode().Height(), nestedID, addr(a)[:4])
		}
		if !s.stepRoot(txs) || !s.stepNested(nil) {
			return
		}
		if l := s.nestSt.Locked[rootID]; deliver && l != nil && len(l.Receipts) > 0 {
			deliver = false
			s.queue = nil
			s.note("driver: the nested chain executed the root's batch (receipts %v); from now on its certificates do not reach the root", l.Receipts)
		}
	}
}

func runCase(t *testing.T, run *core.Run, name string, idx int) {
	rng := run.Rand(name)
	kind := []string{"book", "dex"}[idx%2]
	scale := (idx / 2) % 3
	s := newSim(t, run, name, kind, scale, rng)
	// reserves from 1 to 2^62, balances up to 2^61 (everything together stays below 2^64)
	var rootPool2, rootPool3, nestPool1 uint64
	funds := func(i int) uint64 { return 5_000_000_000 }
	switch scale {
	case 0:
		rootPool2, rootPool3, nestPool1 = uint64(1+rng.Intn(40)), uint64(1+rng.Intn(40)), uint64(1+rng.Intn(40))
		s.maxAmt = 60
	case 1:
		rootPool2, rootPool3, nestPool1 = uint64(1_000_000+rng.Intn(1_000_000_000)), uint64(1_000+rng.Intn(1_000_000_000)), uint64(1_000_000+rng.Intn(1_000_000_000))
	default:
		rootPool2, rootPool3, nestPool1 = 1<<uint(55+rng.Intn(7)), 1<<uint(55+rng.Intn(7)), 1<<uint(55+rng.Intn(8))
		funds = func(i int) uint64 {
			if i < 3 {
				return 1 << uint(59+i)
			}
			return 5_000_000_000
		}
	}
	var sellers []crypto.PrivateKeyI
	for i := 0; i < 6; i++ {
		sellers = append(sellers, node.EdKey(i)) // the keys c20util.New gives the users
	}
	if err := s.open(c20util.Opts{Vals: 3, Users: 6, WithNested: true, UserFunds: funds, RootOrderBooks: s.genesisBooks(sellers),
		RootPools: map[uint64]uint64{nestedID + fsm.LiquidityPoolAddend: rootPool2, ghostID + fsm.LiquidityPoolAddend: rootPool3},
		NestPools: map[uint64]uint64{rootID + fsm.LiquidityPoolAddend: nestPool1}}); err != nil {
		t.Fatalf("%s: %v", name, err)
	}
	defer s.e.Close()
	e := s.e
	for c, m := range s.rootSt.Orders {
		for id, o := range m {
			if how, ok := s.imported[id]; ok {
				s.run.Count("imported_orders_found_in_state", 1)
				if (how == "set") != (o.Committee == c) || (how == "omitted") != (o.Committee == 0) {
					t.Fatalf("%s: imported order %x in book %d: committee field %d does not match what the genesis said (%s)", name, id, c, o.Committee, how)
				}
			}
		}
	}
	s.note("%s workload=%s scale=%d root_pool(2)=%d root_pool(3)=%d nested_pool(1)=%d", name, kind, scale, rootPool2, rootPool3, nestPool1)
	ticks := core.Pick(24, 110)
	withhold := 0 // > 0: the nested chain's certificates do not reach the root (the liveness fallback must take over)
	for tick := 0; tick < ticks && !s.failed; tick++ {
		if kind == "dex" && withhold == 0 && tick > 5 && rng.Intn(10) == 0 {
			withhold = 9 + rng.Intn(4)
			s.note("driver: certificates of the nested chain are withheld for %d ticks", withhold)
		}
		nRoot, nNest := 1, 1
		switch rng.Intn(8) {
		case 0:
			nRoot = 2
		case 1:
			nNest = 2
		case 2:
			nNest = 3
		}
		for i := 0; i < nRoot && !s.failed; i++ {
			var txs [][]byte
			rh := e.RootNode().Height()
			if withhold == 0 && len(s.queue) > 0 {
				// one certificate of the nested committee per root block; usually the oldest, sometimes stale ones are skipped
				if rng.Intn(5) == 0 {
					s.queue = s.queue[len(s.queue)-1:]
				}
				txs = append(txs, s.queue[0])
				s.queue = s.queue[1:]
			}
			if kind == "book" {
				txs = append(txs, s.genBookRoot()...)
				if rh > 2 && (rng.Intn(2) == 0 || s.twin != nil) {
					if tx := s.ghostBookCert(); tx != nil {
						txs = append(txs, tx)
					}
				}
				if rng.Intn(4) == 0 {
					txs = append(txs, s.genDex(rootID, s.rootSt, []uint64{nestedID, ghostID}, rh)[:1]...)
				}
			} else {
				txs = append(txs, s.genDex(rootID, s.rootSt, []uint64{nestedID, nestedID, ghostID}, rh)...)
				if rh > 2 && (rng.Intn(2) == 0 || s.twin != nil) {
					txs = append(txs, s.ghostDexCert())
				}
				if rng.Intn(5) == 0 {
					if b := s.genBookRoot(); len(b) > 0 {
						txs = append(txs, b[0])
					}
				}
			}
			s.stepRoot(txs)
		}
		for i := 0; i < nNest && !s.failed; i++ {
			var txs [][]byte
			if kind == "book" {
				txs = s.genBookNested()
				if rng.Intn(4) == 0 {
					txs = append(txs, s.genDex(nestedID, s.nestSt, []uint64{rootID}, e.NestNode().Height())[:1]...)
				}
			} else {
				txs = s.genDex(nestedID, s.nestSt, []uint64{rootID}, e.NestNode().Height())
			}
			s.stepNested(txs)
		}
		if withhold > 0 {
			withhold--
			if withhold == 0 {
				s.queue = nil // what was withheld is lost
			}
		}
	}
	if !s.failed && idx < 4 {
		run.Sample(map[string]any{"case": name, "workload": kind, "scale": scale, "history_head": head(s.history, 30)})
	}
}

func head(x []string, n int) []string {
	if len(x) > n {
		return x[:n]
	}
	return x
}

func TestCheck(t *testing.T) {
	run := core.Start(t, "C20", "exploration",
		"distinct = (a) operation sequences (C create, E+/E-/E= edit, L lock, R reset, then D deleted-to-seller or X closed-to-buyer) of completed sell-order life cycles with at least two operations, per kind of committee (own chain / real nested chain / harness-signed), and (b) shapes of counter-chain DEX batches actually processed (orders / withdrawals / deposits of the locked and the remote batch as 0,1,many; settled; swaps succeeded; fallback); blocks in which nothing of this happens add nothing")
	run.MinDistinct = core.Pick(60, 150)
	// canopy's own knobs (package variables): a locked batch is re-sent every 2nd block and the nested chain falls back after 12
	lib.LivenessFallbackBlocks, lib.TriggerModuloBlocks = 12, 2
	n := core.Pick(16, 128)
	if os.Getenv("VERIF_SHARD") != "" {
		// one case at a time per child process, 16 children side by side: canopy allocates large zeroed verifier tables for
		// every block it applies, so the collector runs early (memory is reused instead of faulted in) and the scheduler gets few threads
		debug.SetGCPercent(50)
		runtime.GOMAXPROCS(4)
	}
	run.Sharded(n+1, func(i int) {
		if i == n {
			if name := "scenario-fallback-after-execution"; run.Want(name) {
				runFallbackScenario(t, run, name)
			}
			return
		}
		name := fmt.Sprintf("case-%03d", i)
		if !run.Want(name) {
			return
		}
		runCase(t, run, name, i)
	})
	run.Assume("committee rewards only move the accounts / stakes of validators: validator accounts are exempt from the exact balance attribution (all user, buyer and fresh accounts are attributed exactly)")
	run.Assume("a block holds only transactions that succeeded (canopy drops failing transactions from proposals); their fees and the amounts of sends / DEX escrows are taken from the transaction contents")
	run.Assume("lib.LivenessFallbackBlocks=12 and lib.TriggerModuloBlocks=2 (production: 60 / 5) so that fallbacks and re-sent batches occur inside short runs")
	run.Assume("engine verif/node with one node per chain; the proposer validates its own proposal before the commit as the BFT does; block header times are wall clock (canopy takes time.Now()), so the hash-keyed pseudo-random execution order inside a DEX batch can differ between two runs of the same case")
	run.Finish()
}
