package c10

// Concurrent phase of C10. The store is used concurrently only the way a running node uses it:
//   - one goroutine (the controller) writes a block, optionally through a nested transaction, and calls Commit();
//     Commit() itself spawns the MaybeCompact() goroutine (LSSCompactionInterval is small here);
//   - RPC-style readers call NewReadOnly(height) on the LIVE store object without any lock (cmd/rpc readOnlyState ->
//     fsm.TimeMachine -> store.NewReadOnly), read, and Discard();
//   - a copy taken by the controller goroutine before Commit (controller.CommitCertificateParallel) or after it
//     (Mempool.FSM = FSM.Copy()) is read and discarded by another goroutine while the next Commit runs;
//   - CompactAll / Compact / db.Flush run from maintenance goroutines (finishSyncing, MaybeBackup).
// Store.Copy(), Store.Version(), Reset(), Rollback() are NOT called concurrently with Commit(), and a copy is discarded
// either by its consumer while the Commit it accompanies runs (errgroup in CommitCertificateParallel) or by the
// controller between commits: that is what the node does.

import (
	"bufio"
	"bytes"
	"encoding/json"
	"fmt"
	"math/rand"
	"os"
	"os/exec"
	"path/filepath"
	"regexp"
	"runtime"
	"sort"
	"strconv"
	"strings"
	"sync"
	"sync/atomic"
	"testing"
	"time"

	"github.com/anishathalye/porcupine"
	"github.com/canopy-network/canopy/lib"
	"github.com/canopy-network/canopy/store"
	"verif/core"
)

// collector is what a child process observed; the parent merges it into the core.Run.
type concViol struct {
	Sig     string `json:"sig"`
	Case    string `json:"case"`
	Witness any    `json:"witness"`
}

type collector struct {
	Violations []concViol       `json:"violations"`
	Counters   map[string]int64 `json:"counters"`
	Distincts  []string         `json:"distinct"`
	Inconcl    []string         `json:"inconclusive"`
	Evals      int              `json:"evals"`
	Samples    []any            `json:"samples"`
	mu         sync.Mutex
}

func newCollector() *collector { return &collector{Counters: map[string]int64{}} }

func (r *collector) Count(n string, d int64) { r.mu.Lock(); r.Counters[n] += d; r.mu.Unlock() }
func (r *collector) Eval(n int)              { r.mu.Lock(); r.Evals += n; r.mu.Unlock() }
func (r *collector) Distinct(k string) {
	r.mu.Lock()
	r.Distincts = append(r.Distincts, k)
	r.mu.Unlock()
}
func (r *collector) Sample(v any) {
	r.mu.Lock()
	if len(r.Samples) < 2 {
		r.Samples = append(r.Samples, v)
	}
	r.mu.Unlock()
}
func (r *collector) Inconclusive(f string, a ...any) {
	r.mu.Lock()
	r.Inconcl = append(r.Inconcl, fmt.Sprintf(f, a...))
	r.mu.Unlock()
}
func (r *collector) Violation(sig, name string, w any) bool {
	r.mu.Lock()
	if len(r.Violations) < 50 {
		r.Violations = append(r.Violations, concViol{sig, name, w})
	}
	r.mu.Unlock()
	return false
}

func (r *collector) mergeInto(run *core.Run) {
	for k, v := range r.Counters {
		run.Count(k, v)
	}
	for _, d := range r.Distincts {
		run.Distinct(d)
	}
	for _, s := range r.Inconcl {
		run.Inconclusive("%s", s)
	}
	for _, s := range r.Samples {
		run.Sample(s)
	}
	run.Eval(r.Evals)
	for _, v := range r.Violations {
		run.Violation(v.Sig, v.Case, v.Witness)
	}
}

var concKeys = func() [][]byte {
	var out [][]byte
	for _, s := range []string{"a", "b", "c", "d", "e"} {
		out = append(out, lib.JoinLenPrefix([]byte{7}, []byte(s)))
	}
	return append(out, lib.JoinLenPrefix([]byte{7}, []byte("kd"))) // the last key is deleted at odd versions
}()

func concValue(k []byte, v uint64) []byte { return []byte(fmt.Sprintf("k=%x v=%d", k, v)) }

// wantVec is the model: the value of every key at version v ("" = absent).
func wantVec(v uint64) []string {
	out := make([]string, len(concKeys))
	for i, k := range concKeys {
		if i == len(concKeys)-1 && v%2 == 1 {
			continue
		}
		out[i] = string(concValue(k, v))
	}
	return out
}

// vecVersion returns the single version a vector belongs to, or 0 if it is torn / foreign.
func vecVersion(vec []string, maxV uint64) uint64 {
	for v := uint64(1); v <= maxV; v++ {
		w := wantVec(v)
		same := true
		for i := range w {
			if w[i] != vec[i] {
				same = false
				break
			}
		}
		if same {
			return v
		}
	}
	return 0
}

// readVec reads every key from a view, by point reads or by a forward or reverse scan.
func readVec(r lib.RStoreI, mode int) ([]string, error) {
	out := make([]string, len(concKeys))
	if mode == 0 {
		for i, k := range concKeys {
			v, err := r.Get(bytes.Clone(k))
			if err != nil {
				return nil, err
			}
			out[i] = string(v)
		}
		return out, nil
	}
	var it lib.IteratorI
	var err lib.ErrorI
	if mode == 1 {
		it, err = r.Iterator(lib.JoinLenPrefix([]byte{7}))
	} else {
		it, err = r.RevIterator(lib.JoinLenPrefix([]byte{7}))
	}
	if err != nil {
		return nil, err
	}
	defer it.Close()
	n := 0
	for ; it.Valid(); it.Next() {
		n++
		if n > 4*len(concKeys) {
			return nil, fmt.Errorf("scan returned more than %d entries", 4*len(concKeys))
		}
		found := false
		for i, k := range concKeys {
			if bytes.Equal(k, it.Key()) {
				if out[i] != "" {
					return nil, fmt.Errorf("scan returned key %x twice", k)
				}
				out[i], found = string(it.Value()), true
			}
		}
		if !found {
			return nil, fmt.Errorf("scan returned foreign key %x", it.Key())
		}
	}
	return out, nil
}

type concOp struct {
	Client   int      `json:"client"`
	Kind     string   `json:"kind"` // commit | read
	Call     int64    `json:"call"`
	Ret      int64    `json:"ret"`
	V        uint64   `json:"v"`             // commit: the version produced; read: the version requested
	CurAt    uint64   `json:"cur,omitempty"` // read: the published version when the read started
	Got      uint64   `json:"got,omitempty"` // read: the version the returned vector belongs to (0 = torn)
	Vec      []string `json:"vec,omitempty"`
	Mode     int      `json:"mode"`
	ErrorStr string   `json:"err,omitempty"`
}

type pcIn struct {
	commit bool
	v      uint64
}

var pcModel = porcupine.Model{
	Init: func() interface{} { return uint64(0) },
	Step: func(state, input, output interface{}) (bool, interface{}) {
		s, in := state.(uint64), input.(pcIn)
		if in.commit {
			return s+1 == in.v, in.v
		}
		return output.(uint64) == s, s
	},
	Equal: func(a, b interface{}) bool { return a.(uint64) == b.(uint64) },
}

type copyJob struct {
	st      lib.StoreI
	expect  uint64
	when    string
	discard bool          // the consumer discards the copy (controller/block.go:474); otherwise the controller does, later
	done    chan struct{} // closed when the consumer is finished with the copy
}

// concHistory runs one short concurrent history against a fresh store and checks it.
func concHistory(res *collector, name string, rng *rand.Rand) {
	cfg := lib.DefaultConfig()
	cfg.StoreConfig.LSSCompactionInterval = uint64(1 + rng.Intn(3))
	cfg.StoreConfig.BackupInterval = 0
	lg := newClog()
	sI, err := store.NewStoreInMemory(lg, cfg)
	if err != nil {
		panic(fmt.Sprintf("NewStoreInMemory: %v", err))
	}
	st := sI.(*store.Store)
	N := uint64(10 + rng.Intn(8))
	const readers = 3
	perReader := 30 + rng.Intn(25)
	var (
		clock, reads atomic.Int64
		pub          atomic.Uint64
		writerDone   atomic.Bool
		readersLeft  atomic.Int32
		mu           sync.Mutex
		ops          []concOp
		wg           sync.WaitGroup
		explicit     atomic.Int64
	)
	readersLeft.Store(readers)
	record := func(o concOp) { mu.Lock(); ops = append(ops, o); mu.Unlock() }
	fail := func(sig string, w map[string]any) { res.Violation(sig, "^"+name+"$", w) }
	copies := make(chan copyJob, 64)
	// pre-draw the writer's choices so that the case is a pure function of the seed
	type blockPlan struct{ nested, junk, preCopy, postCopy, flush bool }
	plan := make([]blockPlan, N+1)
	for i := range plan {
		plan[i] = blockPlan{rng.Intn(3) == 0, rng.Intn(4) == 0, rng.Intn(3) == 0, rng.Intn(4) == 0, rng.Intn(5) == 0}
	}
	readerSeeds := make([]int64, readers)
	for i := range readerSeeds {
		readerSeeds[i] = rng.Int63()
	}
	compSeed, copySeed := rng.Int63(), rng.Int63()

	// ---- the controller ----
	wg.Add(1)
	go func() {
		defer wg.Done()
		defer writerDone.Store(true)
		defer close(copies)
		var postJob *copyJob
		defer func() {
			if postJob != nil {
				<-postJob.done
				postJob.st.Discard()
			}
		}()
		for v := uint64(1); v <= N; v++ {
			p := plan[v]
			if p.junk { // speculative work that is thrown away
				tx := st.NewTxn()
				for _, k := range concKeys {
					_ = tx.Set(bytes.Clone(k), []byte("junk"))
				}
				tx.Discard()
			}
			target := lib.StoreI(st)
			if p.nested {
				target = st.NewTxn()
			}
			for i, k := range concKeys {
				var e lib.ErrorI
				if i == len(concKeys)-1 && v%2 == 1 {
					e = target.Delete(bytes.Clone(k))
				} else {
					e = target.Set(bytes.Clone(k), concValue(k, v))
				}
				if e != nil {
					fail("error op=set phase=concurrent", map[string]any{"err": e.Error()})
					return
				}
			}
			if p.nested {
				if e := target.Flush(); e != nil {
					fail("error op=flush phase=concurrent", map[string]any{"err": e.Error()})
					return
				}
			}
			// the copy the mempool kept since the last commit is no longer in use (the controller holds the mempool
			// lock during a commit) and is discarded by the controller itself
			if postJob != nil {
				<-postJob.done
				postJob.st.Discard()
				postJob = nil
			}
			var preJob *copyJob
			if p.preCopy {
				// CommitCertificateParallel: copy (with the block's uncommitted writes), then Commit and the mempool
				// work on the copy run side by side in an errgroup; the mempool side discards the copy
				if c, e := st.Copy(); e == nil {
					c.IncreaseVersion()
					preJob = &copyJob{c, v, "before-commit", true, make(chan struct{})}
					copies <- *preJob
				} else {
					fail("error op=copy phase=concurrent", map[string]any{"err": e.Error()})
					return
				}
			}
			// let reads pile up so that some of them overlap this commit
			for need := int64(v-1) * 6; reads.Load() < need && readersLeft.Load() > 0; {
				runtime.Gosched()
			}
			// the height is published (as the controller swaps in the next FSM) inside the recorded [call, return] interval
			call := clock.Add(1)
			_, e := st.Commit()
			if e != nil {
				fail("error op=commit phase=concurrent", map[string]any{"v": v, "err": e.Error()})
				return
			}
			pub.Store(v)
			ret := clock.Add(1)
			record(concOp{Client: 0, Kind: "commit", Call: call, Ret: ret, V: v})
			if preJob != nil {
				<-preJob.done // errgroup.Wait()
			}
			if p.postCopy {
				// Mempool.FSM = FSM.Copy(): used by the mempool goroutine until the next commit
				if c, e := st.Copy(); e == nil {
					postJob = &copyJob{c, v, "after-commit", false, make(chan struct{})}
					copies <- *postJob
				} else {
					fail("error op=copy phase=concurrent", map[string]any{"err": e.Error()})
					return
				}
			}
		}
	}()

	// ---- RPC-style readers ----
	for c := 0; c < readers; c++ {
		wg.Add(1)
		go func(c int) {
			defer wg.Done()
			defer readersLeft.Add(-1)
			r := rand.New(rand.NewSource(readerSeeds[c]))
			for n := 0; n < perReader; {
				call := clock.Add(1) // taken BEFORE the published height is looked at
				cur := pub.Load()
				if cur == 0 {
					if writerDone.Load() {
						return
					}
					runtime.Gosched()
					continue
				}
				v := cur
				if r.Intn(2) == 0 {
					v = 1 + uint64(r.Int63n(int64(cur)))
				}
				mode := r.Intn(3)
				o := concOp{Client: c + 1, Kind: "read", V: v, CurAt: cur, Mode: mode, Call: call}
				ro, e := st.NewReadOnly(v)
				if e != nil {
					o.ErrorStr = e.Error()
				} else {
					vec, err := readVec(ro, mode)
					if err != nil {
						o.ErrorStr = err.Error()
					}
					o.Vec = vec
					ro.Discard()
				}
				o.Ret = clock.Add(1)
				record(o)
				reads.Add(1)
				n++
			}
		}(c)
	}

	// ---- the goroutine that uses the controller's copies (mempool) ----
	wg.Add(1)
	go func() {
		defer wg.Done()
		r := rand.New(rand.NewSource(copySeed))
		for j := range copies {
			mode := r.Intn(3)
			vec, err := readVec(j.st, mode)
			res.Count("copy_reads_compared", 1)
			if err != nil {
				fail("copy-read-mismatch kind=scan-error when="+j.when, map[string]any{"err": err.Error(), "expect_version": j.expect})
			} else if w := wantVec(j.expect); strings.Join(w, "|") != strings.Join(vec, "|") {
				fail("copy-read-mismatch when="+j.when, map[string]any{"expect_version": j.expect, "got": vec, "want": w, "mode": mode})
			}
			if j.discard {
				j.st.Discard()
			}
			close(j.done)
		}
	}()

	// ---- maintenance ----
	wg.Add(1)
	go func() {
		defer wg.Done()
		r := rand.New(rand.NewSource(compSeed))
		for i := 0; i < 40 && !writerDone.Load(); i++ {
			switch r.Intn(4) {
			case 0:
				if e := st.DB().Flush(); e != nil {
					fail("error op=db-flush phase=concurrent", map[string]any{"err": e.Error()})
				}
				res.Count("db_flushes", 1)
			case 1:
				explicit.Add(4)
				if e := st.CompactAll(pub.Load()); e != nil {
					fail("error op=compact-all phase=concurrent", map[string]any{"err": e.Error()})
				}
				res.Count("compactions", 4)
			default:
				explicit.Add(1)
				if e := st.Compact(pub.Load(), [][]byte{lssP, hssP}[r.Intn(2)]); e != nil {
					fail("error op=compact phase=concurrent", map[string]any{"err": e.Error()})
				}
				res.Count("compactions", 1)
			}
			for k := 0; k < 50; k++ {
				runtime.Gosched()
			}
		}
	}()
	wg.Wait()

	// all asynchronous compaction goroutines must have ended before the database is closed
	expect := int(explicit.Load())
	for v := uint64(1); v <= pub.Load(); v++ {
		expect += asyncCompactions(cfg.StoreConfig.LSSCompactionInterval, v)
	}
	if !lg.waitTerminal(expect) {
		res.Inconclusive("%s: watchdog while waiting for compactions", name)
		return
	}
	res.Count("async_compactions", int64(expect)-explicit.Load())
	lg.mu.Lock()
	failedCompactions := append([]string(nil), lg.failed...)
	lg.mu.Unlock()
	if len(failedCompactions) > 0 {
		fail("error op=async-compaction phase=concurrent", map[string]any{"errors": failedCompactions})
	}
	final := pub.Load()

	// ---- oracle over the recorded history ----
	sort.Slice(ops, func(i, j int) bool { return ops[i].Call < ops[j].Call })
	var commits []concOp
	for _, o := range ops {
		if o.Kind == "commit" {
			commits = append(commits, o)
		}
	}
	var pc []porcupine.Operation
	overlapping := 0
	for i := range ops {
		o := &ops[i]
		if o.Kind == "commit" {
			pc = append(pc, porcupine.Operation{ClientId: 0, Input: pcIn{commit: true, v: o.V}, Call: o.Call, Output: uint64(0), Return: o.Ret})
			continue
		}
		res.Count("concurrent_snapshot_reads", 1)
		for _, c := range commits {
			if c.Call < o.Ret && o.Call < c.Ret {
				overlapping++
				break
			}
		}
		w := map[string]any{"read": *o, "commits": commits}
		if o.ErrorStr != "" {
			fail("snapshot-read-error", w)
			continue
		}
		o.Got = vecVersion(o.Vec, N)
		if o.Got == 0 {
			fail("torn-snapshot requested="+map[bool]string{true: "latest", false: "historical"}[o.V == o.CurAt], w)
			continue
		}
		if o.V < o.CurAt {
			// an explicit historical version: exact, regardless of timing
			res.Count("explicit_version_reads_compared", 1)
			if o.Got != o.V {
				fail("hist-read-mismatch", w)
			}
			continue
		}
		// requested the version that was current when the call started: judged by linearizability
		if o.Got > o.V {
			res.Count("latest_reads_returning_newer_version_than_requested", 1)
		}
		pc = append(pc, porcupine.Operation{ClientId: o.Client, Input: pcIn{}, Call: o.Call, Output: o.Got, Return: o.Ret})
	}
	res.Count("reads_overlapping_a_commit", int64(overlapping))
	switch porcupine.CheckOperationsTimeout(pcModel, pc, 60*time.Second) {
	case porcupine.Illegal:
		// diagnosis only (it is a violation either way): is the history explained by views that were requested for the
		// current height v but served height v+1 while Commit(v+1) was in flight?
		var pc2 []porcupine.Operation
		var ahead []concOp
		for _, p := range pc {
			if in := p.Input.(pcIn); !in.commit {
				var o *concOp
				for i := range ops {
					if ops[i].Kind == "read" && ops[i].Call == p.Call {
						o = &ops[i]
					}
				}
				// Commit(v+1) had not returned when the view was requested and Commit(got) had started before it was returned
				nextPending, gotStarted := false, false
				for _, c := range commits {
					if c.V == o.V+1 && o.Call < c.Ret {
						nextPending = true
					}
					if c.V == o.Got && c.Call < o.Ret {
						gotStarted = true
					}
				}
				if o.Got > o.V && nextPending && gotStarted {
					ahead = append(ahead, *o)
					continue
				}
			}
			pc2 = append(pc2, p)
		}
		cause := "other"
		if len(ahead) > 0 && porcupine.CheckOperationsTimeout(pcModel, pc2, 60*time.Second) == porcupine.Ok {
			cause = "view-of-current-height-served-next-height"
		}
		fail("non-linearizable snapshot-reads cause="+cause, map[string]any{"views_served_next_height": ahead, "commits": commits, "history": ops})
	case porcupine.Unknown:
		res.Inconclusive("%s: porcupine timeout", name)
	}
	res.Count("porcupine_histories", 1)
	res.Count("porcupine_ops", int64(len(pc)))

	// ---- history after the dust has settled ----
	for v := uint64(1); v <= final; v++ {
		ro, e := st.NewReadOnly(v)
		if e != nil {
			fail("error op=new-read-only phase=concurrent", map[string]any{"err": e.Error()})
			break
		}
		for mode := 0; mode < 3; mode++ {
			vec, err := readVec(ro, mode)
			res.Count("historical_requeries", 1)
			if err != nil || strings.Join(vec, "|") != strings.Join(wantVec(v), "|") {
				fail("history-mismatch after=concurrent-phase", map[string]any{"v": v, "mode": mode, "got": vec, "want": wantVec(v), "err": fmt.Sprint(err)})
				break
			}
		}
		ro.Discard()
	}
	if e := st.Close(); e != nil {
		fail("error op=close phase=concurrent", map[string]any{"err": e.Error()})
	}
	res.Eval(1)
	if overlapping > 0 && final == N {
		res.Distinct("conc/" + name)
	}
	if rng.Intn(20) == 0 {
		res.Sample(map[string]any{"case": name, "versions": N, "ops": len(ops), "reads_overlapping_a_commit": overlapping, "ops_head": ops[:min(len(ops), 6)]})
	}
}

// TestChild is the body of every worker process. One store is alive at a time in a worker, as in a node
// (pebble's batch pool is process-wide, so several stores in one process can interfere in ways a node cannot).
// C10_CHILD_PLAN = "kind:count,..." ; the worker takes the indices i with i % shards == shard of every kind.
func TestChild(t *testing.T) {
	out := os.Getenv("C10_CHILD_OUT")
	if out == "" {
		t.Skip("helper for TestCheck")
	}
	shard, _ := strconv.Atoi(os.Getenv("C10_CHILD_SHARD"))
	shards, _ := strconv.Atoi(os.Getenv("C10_CHILD_SHARDS"))
	want := func(string) bool { return true }
	if c := os.Getenv("VERIF_CASE"); c != "" {
		want = regexp.MustCompile(c).MatchString
	}
	pf, err := os.OpenFile(out+".progress", os.O_CREATE|os.O_WRONLY|os.O_APPEND, 0o644)
	if err != nil {
		t.Fatal(err)
	}
	defer pf.Close()
	col := newCollector()
	for _, item := range strings.Split(os.Getenv("C10_CHILD_PLAN"), ",") {
		kind, cnt, ok := strings.Cut(item, ":")
		n, _ := strconv.Atoi(cnt)
		if !ok {
			continue
		}
		for i := shard; i < n; i += shards {
			name := fmt.Sprintf("%s/%d", kind, i)
			if !want(name) {
				continue
			}
			fmt.Fprintln(pf, name) // recorded BEFORE the case runs: a crash is attributed to it
			rng := core.NewRand(core.Seed(), "C10/"+name)
			switch kind {
			case "seq":
				seqCase(t, col, name, rng)
			case "nested-probe":
				nestedProbe(t, col, name, rng)
				prefixKeyInTxnLayer(t, col, name, rng)
			case "conc", "race":
				concHistory(col, name, rng)
			}
		}
	}
	bz, err := json.Marshal(col)
	if err != nil {
		t.Fatalf("marshal result: %v", err)
	}
	if err := os.WriteFile(out, bz, 0o644); err != nil {
		t.Fatal(err)
	}
}

var raceFrameRe = regexp.MustCompile(`^  (\S.*)\(\)$`)

// parseRaceLogs extracts, per "WARNING: DATA RACE" block, the top canopy frame of the two conflicting accesses.
func parseRaceLogs(paths []string) (blocks int, pairs map[string]string) {
	pairs = map[string]string{}
	for _, p := range paths {
		f, err := os.Open(p)
		if err != nil {
			continue
		}
		sc := bufio.NewScanner(f)
		sc.Buffer(make([]byte, 1<<20), 1<<24)
		var cur []string
		in := false
		flush := func() {
			if !in {
				return
			}
			blocks++
			var tops []string
			section, has := []string{}, false
			endSection := func() {
				if has && len(tops) < 2 {
					top := ""
					inner := ""
					for _, l := range section {
						if m := raceFrameRe.FindStringSubmatch(l); m != nil {
							if inner == "" {
								inner = m[1]
							}
							if strings.Contains(m[1], "github.com/canopy-network/canopy/") {
								top = strings.TrimPrefix(m[1], "github.com/canopy-network/canopy/")
								break
							}
						}
					}
					// label = outermost-relevant canopy frame, plus the innermost frame when the access itself is in a dependency
					if top == "" {
						top = "(no canopy frame)"
					}
					if inner != "" && !strings.Contains(inner, "github.com/canopy-network/canopy/") {
						short := inner[strings.LastIndex(inner, "/")+1:]
						if strings.Contains(inner, "cockroachdb/pebble/") {
							short = "pebble" + short[strings.Index(short, "."):]
						}
						top += ">" + short
					}
					tops = append(tops, top)
				}
				section, has = section[:0], false
			}
			for _, l := range cur {
				if strings.HasPrefix(l, "Write at ") || strings.HasPrefix(l, "Read at ") || strings.HasPrefix(l, "Previous write at ") ||
					strings.HasPrefix(l, "Previous read at ") || strings.HasPrefix(l, "Atomic") || strings.HasPrefix(l, "Previous atomic") {
					endSection()
					has = true
					continue
				}
				if strings.TrimSpace(l) == "" {
					endSection()
					continue
				}
				if has {
					section = append(section, l)
				}
			}
			endSection()
			// order the pair by the innermost frame, then by the canopy frame, so that one mechanism has one spelling
			sort.Slice(tops, func(i, j int) bool {
				a, b := tops[i], tops[j]
				ai, bi := a[strings.Index(a, ">")+1:], b[strings.Index(b, ">")+1:]
				if ai != bi {
					return ai < bi
				}
				return a < b
			})
			key := strings.Join(tops, " ")
			if _, ok := pairs[key]; !ok {
				pairs[key] = strings.Join(cur[:min(len(cur), 60)], "\n")
			}
			cur, in = nil, false
		}
		for sc.Scan() {
			l := sc.Text()
			if strings.HasPrefix(l, "WARNING: DATA RACE") {
				flush()
				in = true
				continue
			}
			if strings.HasPrefix(l, "==================") {
				flush()
				continue
			}
			if in {
				cur = append(cur, l)
			}
		}
		flush()
		f.Close()
	}
	return
}

type childProc struct {
	cmd    *exec.Cmd
	out    string
	stderr bytes.Buffer
	race   bool
	err    error
}

func planWanted(run *core.Run, plan map[string]int) bool {
	for kind, n := range plan {
		for i := 0; i < n; i++ {
			if run.Want(fmt.Sprintf("%s/%d", kind, i)) {
				return true
			}
		}
	}
	return false
}

func planString(plan map[string]int) string {
	var parts []string
	for _, k := range []string{"seq", "nested-probe", "conc", "race"} {
		if n, ok := plan[k]; ok {
			parts = append(parts, fmt.Sprintf("%s:%d", k, n))
		}
	}
	return strings.Join(parts, ",")
}

// orchestrate shards the case lists over worker processes (plain build) and race-detector worker processes.
func orchestrate(t *testing.T, run *core.Run) {
	dir, err := os.MkdirTemp("", "c10-")
	if err != nil {
		t.Fatalf("mkdtemp: %v", err)
	}
	defer os.RemoveAll(dir)
	plain := map[string]int{"seq": core.Pick(400, 40000), "nested-probe": core.Pick(40, 400), "conc": core.Pick(50, 3000)}
	raced := map[string]int{"race": core.Pick(24, 600)}
	var procs []*childProc
	start := func(bin string, plan map[string]int, shards int, race bool) {
		if !planWanted(run, plan) {
			return
		}
		for sh := 0; sh < shards; sh++ {
			p := &childProc{race: race, out: filepath.Join(dir, fmt.Sprintf("res-%v-%d.json", race, sh))}
			p.cmd = exec.Command(bin, "-test.run", "^TestChild$", "-test.count=1", "-test.timeout", "8h")
			p.cmd.Env = append(os.Environ(), "C10_CHILD_OUT="+p.out, "C10_CHILD_PLAN="+planString(plan),
				"C10_CHILD_SHARD="+strconv.Itoa(sh), "C10_CHILD_SHARDS="+strconv.Itoa(shards))
			if race {
				p.cmd.Env = append(p.cmd.Env, "GORACE=halt_on_error=0 log_path="+filepath.Join(dir, fmt.Sprintf("racelog-%d", sh)))
			}
			p.cmd.Stdout, p.cmd.Stderr = &p.stderr, &p.stderr
			if err := p.cmd.Start(); err != nil {
				t.Fatalf("start worker: %v", err)
			}
			procs = append(procs, p)
		}
	}
	start(os.Args[0], plain, core.Workers(), false)
	raceRan := false
	if planWanted(run, raced) {
		if bin := os.Getenv("VERIF_RACE_BIN"); bin != "" {
			start(bin, raced, max(2, core.Workers()/4), true)
			raceRan = true
		} else {
			run.Inconclusive("VERIF_RACE_BIN is not set: the race-detector workers were not run")
		}
	}
	for _, p := range procs {
		p.err = p.cmd.Wait()
	}
	raceViolations := 0
	for _, p := range procs {
		bz, rerr := os.ReadFile(p.out)
		if rerr != nil {
			progress, _ := os.ReadFile(p.out + ".progress")
			tail := p.stderr.String()
			if len(tail) > 8000 {
				tail = tail[:3000] + "\n...\n" + tail[len(tail)-5000:]
			}
			lines := strings.Split(strings.TrimSpace(string(progress)), "\n")
			last := lines[len(lines)-1]
			if strings.Contains(tail, "github.com/canopy-network/canopy/") && (strings.Contains(tail, "panic:") || strings.Contains(tail, "fatal error:")) {
				kind := "panic"
				if m := regexp.MustCompile(`(?m)^(panic|fatal error): (.{0,60})`).FindStringSubmatch(tail); m != nil {
					kind = regexp.MustCompile(`0x[0-9a-f]+|[0-9]+`).ReplaceAllString(m[2], "N")
				}
				run.Violation("crash in-canopy: "+strings.TrimSpace(kind), "^"+last+"$", map[string]any{"case": last, "race_build": p.race, "output": tail})
				continue
			}
			t.Fatalf("worker produced no result (%v), last case %q:\n%s", p.err, last, tail)
		}
		var c collector
		if err := json.Unmarshal(bz, &c); err != nil {
			t.Fatalf("worker result: %v", err)
		}
		if p.race {
			c.Counters["race_worker_histories"] = c.Counters["porcupine_histories"]
			raceViolations += len(c.Violations)
		}
		c.mergeInto(run)
		if p.err != nil && !p.race {
			t.Fatalf("worker failed (%v):\n%s", p.err, p.stderr.String())
		}
	}
	if !raceRan {
		return
	}
	logs, _ := filepath.Glob(filepath.Join(dir, "racelog-*"))
	blocks, pairs := parseRaceLogs(logs)
	run.Count("race_report_blocks", int64(blocks))
	run.Count("race_report_distinct_pairs", int64(len(pairs)))
	keys := make([]string, 0, len(pairs))
	for k := range pairs {
		keys = append(keys, k)
	}
	sort.Strings(keys)
	for _, k := range keys {
		run.Violation("data-race "+k, "^race/", map[string]any{"report": pairs[k]})
	}
	// `go test -race` exits non-zero when races were reported; any other failure of a race worker is a harness failure
	for _, p := range procs {
		if p.race && p.err != nil && blocks == 0 && raceViolations == 0 {
			t.Fatalf("race worker failed (%v):\n%s", p.err, p.stderr.String())
		}
	}
}
