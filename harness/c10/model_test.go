package c10

// Reference oracle for C10: a plain versioned map plus overlay maps. It shares nothing with the store
// under test except the key/value bytes themselves.

import (
	"bytes"
	"sort"
)

// ent is one written value: a live value (possibly empty) or a tombstone.
type ent struct {
	val  []byte
	dead bool
}

// verEnt is one committed entry of a key.
type verEnt struct {
	v uint64
	ent
}

// kv is one element of a scan result.
type kv struct {
	K []byte
	V []byte
}

// VersionedMap: key -> list of (version, value|tombstone), ascending by version.
type VersionedMap struct {
	hist map[string][]verEnt
}

func newVersionedMap() *VersionedMap { return &VersionedMap{hist: map[string][]verEnt{}} }

// at returns the entry of key k as of version v (newest entry with version <= v).
func (m *VersionedMap) at(k string, v uint64) (ent, bool) {
	h := m.hist[k]
	for i := len(h) - 1; i >= 0; i-- {
		if h[i].v <= v {
			return h[i].ent, true
		}
	}
	return ent{}, false
}

// commit records the overlay as version v.
func (m *VersionedMap) commit(v uint64, ov map[string]ent) {
	for k, e := range ov {
		m.hist[k] = append(m.hist[k], verEnt{v: v, ent: e})
	}
}

// truncate drops every entry with version > v (rollback).
func (m *VersionedMap) truncate(v uint64) {
	for k, h := range m.hist {
		n := len(h)
		for n > 0 && h[n-1].v > v {
			n--
		}
		if n == 0 {
			delete(m.hist, k)
		} else {
			m.hist[k] = h[:n]
		}
	}
}

// writtenAt returns the keys that have an entry at exactly version v.
func (m *VersionedMap) writtenAt(v uint64) []string {
	var out []string
	for k, h := range m.hist {
		for _, e := range h {
			if e.v == v {
				out = append(out, k)
				break
			}
		}
	}
	sort.Strings(out)
	return out
}

// layered is "committed state as of baseV, overlaid by a stack of overlay maps (bottom first)".
type layered struct {
	m     *VersionedMap
	baseV uint64
	ovs   []map[string]ent
}

func (l layered) get(k string) ([]byte, bool) {
	for i := len(l.ovs) - 1; i >= 0; i-- {
		if e, ok := l.ovs[i][k]; ok {
			if e.dead {
				return nil, false
			}
			return e.val, true
		}
	}
	e, ok := l.m.at(k, l.baseV)
	if !ok || e.dead {
		return nil, false
	}
	return e.val, true
}

// scan returns all live pairs whose key has the given prefix, ascending (or descending) by key bytes.
func (l layered) scan(prefix []byte, reverse bool) []kv {
	seen := map[string]bool{}
	var keys []string
	add := func(k string) {
		if !seen[k] && bytes.HasPrefix([]byte(k), prefix) {
			seen[k] = true
			keys = append(keys, k)
		}
	}
	for k := range l.m.hist {
		add(k)
	}
	for _, ov := range l.ovs {
		for k := range ov {
			add(k)
		}
	}
	sort.Strings(keys)
	var out []kv
	for _, k := range keys {
		if v, ok := l.get(k); ok {
			out = append(out, kv{K: []byte(k), V: v})
		}
	}
	if reverse {
		for i, j := 0, len(out)-1; i < j; i, j = i+1, j-1 {
			out[i], out[j] = out[j], out[i]
		}
	}
	return out
}

func sameKVs(a, b []kv) bool {
	if len(a) != len(b) {
		return false
	}
	for i := range a {
		if !bytes.Equal(a[i].K, b[i].K) || !bytes.Equal(a[i].V, b[i].V) {
			return false
		}
	}
	return true
}
