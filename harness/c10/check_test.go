package c10

// C10 — store read semantics and immutability of committed history.
//
// Sequential phase: generated operation sequences drive the REAL store.Store (set / delete / get / iterate /
// reverse-iterate / nested NewTxn with Flush or Discard / Copy / Commit / Reset / NewReadOnly(v) / Compact /
// db.Flush / Rollback / re-open on the same pebble DB) and, next to it, a plain versioned map with overlay
// maps (model_test.go). Every read result is compared at once; every committed version is re-scanned
// (forward + reverse, through NewReadOnly and through all four VersionedStore iterator strategies) after later
// commits, compactions, flushes to sstables, rollbacks and re-opens.
//
// Concurrent phase (conc_test.go): one committing writer, RPC-style NewReadOnly readers, copy readers, a
// compactor; porcupine over call/return events plus exact checks for explicit-version reads; the same workload
// is re-run under the race detector in a child process.

import (
	"bytes"
	"crypto/sha256"
	"encoding/binary"
	"fmt"
	"math"
	"math/rand"
	"sort"
	"strings"
	"sync"
	"testing"
	"time"

	"github.com/canopy-network/canopy/lib"
	"github.com/canopy-network/canopy/store"
	"verif/core"
)

var (
	lssP = lib.JoinLenPrefix([]byte("s/")) // latest state
	hssP = lib.JoinLenPrefix([]byte("h/")) // historical state
	idxP = lib.JoinLenPrefix([]byte("i/")) // indexer
	sccP = lib.JoinLenPrefix([]byte("c/")) // state commitment
)

// ---------- logger that lets the harness wait for the asynchronous compaction goroutines ----------

type clog struct {
	mu       sync.Mutex
	cond     *sync.Cond
	terminal int // compaction attempts that reached "finished" / "skipped" / "failed"
	failed   []string
	fatal    []string
}

func newClog() *clog { l := &clog{}; l.cond = sync.NewCond(&l.mu); return l }

func (l *clog) note(f string, a ...any) {
	switch {
	case strings.HasPrefix(f, "key compaction finished"), strings.HasPrefix(f, "key compaction skipped"):
		l.mu.Lock()
		l.terminal++
		l.cond.Broadcast()
		l.mu.Unlock()
	case strings.Contains(f, "key compaction failed"):
		l.mu.Lock()
		l.terminal++
		l.failed = append(l.failed, fmt.Sprintf(f, a...))
		l.cond.Broadcast()
		l.mu.Unlock()
	}
}
func (l *clog) Debug(string)              {}
func (l *clog) Info(string)               {}
func (l *clog) Warn(string)               {}
func (l *clog) Error(m string)            { l.note("%s", m) }
func (l *clog) Print(string)              {}
func (l *clog) Debugf(f string, a ...any) { l.note(f, a...) }
func (l *clog) Infof(f string, a ...any)  {}
func (l *clog) Warnf(f string, a ...any)  {}
func (l *clog) Errorf(f string, a ...any) { l.note(f, a...) }
func (l *clog) Printf(f string, a ...any) {}
func (l *clog) Fatal(m string) {
	l.mu.Lock()
	l.fatal = append(l.fatal, m)
	l.mu.Unlock()
	panic("store called log.Fatal: " + m)
}
func (l *clog) Fatalf(f string, a ...any) { l.Fatal(fmt.Sprintf(f, a...)) }

// waitTerminal blocks until n compaction attempts have ended; false = watchdog fired.
func (l *clog) waitTerminal(n int) bool {
	done := make(chan struct{})
	timer := time.AfterFunc(120*time.Second, func() {
		l.mu.Lock()
		select {
		case <-done:
		default:
			close(done)
		}
		l.cond.Broadcast()
		l.mu.Unlock()
	})
	defer timer.Stop()
	l.mu.Lock()
	defer l.mu.Unlock()
	for l.terminal < n {
		select {
		case <-done:
			return false
		default:
		}
		l.cond.Wait()
	}
	return true
}

// asyncCompactions is the number of Compact() attempts the goroutine spawned by MaybeCompact() makes for a commit
// that produced version v.
func asyncCompactions(interval, v uint64) int {
	if interval == 0 || v%interval != 0 {
		return 0
	}
	if (v/interval)%4 == 0 {
		return 2
	}
	return 1
}

// ---------- key universe ----------

func be8(x uint64) []byte { b := make([]byte, 8); binary.BigEndian.PutUint64(b, x); return b }

var segPool = [][]byte{
	{0x00}, {0xFF}, {0x00, 0x00}, {0xFF, 0xFF}, {0x00, 0xFF}, {0xFF, 0x00}, {0x01}, {0x02}, {0xFE},
	[]byte("a"), []byte("b"), []byte("ab"), []byte("a/"),
	be8(0), be8(1), be8(2), be8(255), be8(256), be8(math.MaxUint64), be8(math.MaxUint64 - 1), be8(math.MaxUint64 - 2),
	{0xFF, 0xFF, 0xFF, 0xFF, 0xFF, 0xFF, 0xFE}, // encodes to 8 bytes: looks like an inverted version suffix
	{}, // zero-length segment
}

type universe struct {
	keys     [][]byte // leaves of a random segment tree (no key's segment tuple is a prefix of another's)
	prefixes [][]byte // nil, every inner node, some leaves, some absent prefixes
}

func pickSegs(rng *rand.Rand, n int) [][]byte {
	perm := rng.Perm(len(segPool))
	out := make([][]byte, 0, n)
	for _, i := range perm[:n] {
		out = append(out, segPool[i])
	}
	return out
}

func buildUniverse(rng *rand.Rand, maxKeys int) *universe {
	u := &universe{prefixes: [][]byte{nil}}
	addKey := func(segs ...[]byte) {
		if len(u.keys) < maxKeys {
			u.keys = append(u.keys, lib.JoinLenPrefix(segs...))
		}
	}
	for len(u.keys) < 2 {
		u.keys, u.prefixes = nil, [][]byte{nil}
		tops := pickSegs(rng, 2+rng.Intn(4))
		for ti, a := range tops {
			if rng.Intn(4) == 0 && ti > 0 {
				addKey(a)
				continue
			}
			u.prefixes = append(u.prefixes, lib.JoinLenPrefix(a))
			for _, b := range pickSegs(rng, 2+rng.Intn(5)) {
				if rng.Intn(5) < 3 {
					addKey(a, b)
					continue
				}
				u.prefixes = append(u.prefixes, lib.JoinLenPrefix(a, b))
				for _, c := range pickSegs(rng, 2+rng.Intn(4)) {
					addKey(a, b, c)
				}
			}
		}
	}
	sort.Slice(u.keys, func(i, j int) bool { return bytes.Compare(u.keys[i], u.keys[j]) < 0 })
	// a few leaves as prefixes (a full key is a legal prefix) and a few absent ones
	for i := 0; i < 3; i++ {
		u.prefixes = append(u.prefixes, u.keys[rng.Intn(len(u.keys))])
	}
	u.prefixes = append(u.prefixes, lib.JoinLenPrefix([]byte("zz")), lib.JoinLenPrefix([]byte{0x00}, []byte("nope")))
	return u
}

func (u *universe) key(rng *rand.Rand) []byte { return bytes.Clone(u.keys[rng.Intn(len(u.keys))]) }
func (u *universe) prefix(rng *rand.Rand) []byte {
	return bytes.Clone(u.prefixes[rng.Intn(len(u.prefixes))])
}

// ---------- sessions: a base store (live or a copy) with its stack of nested transactions ----------

type overlay struct{ state, index map[string]ent }

func newOverlay() *overlay { return &overlay{state: map[string]ent{}, index: map[string]ent{}} }
func (o *overlay) clone() *overlay {
	c := newOverlay()
	for k, v := range o.state {
		c.state[k] = v
	}
	for k, v := range o.index {
		c.index[k] = v
	}
	return c
}

type session struct {
	label  string
	stores []lib.StoreI
	ovs    []*overlay
	baseV  uint64
}

func (s *session) top() lib.StoreI { return s.stores[len(s.stores)-1] }
func (s *session) depth() int      { return len(s.stores) - 1 }
func (s *session) indexDirty() bool {
	for _, o := range s.ovs {
		if len(o.index) > 0 {
			return true
		}
	}
	return false
}

type env struct {
	t     *testing.T
	run   *collector
	name  string
	rng   *rand.Rand
	cfg   lib.Config
	log   *clog
	st    *store.Store
	state *VersionedMap
	index *VersionedMap
	cur   uint64
	live  *session
	cp    *session
	uni   *universe
	ops   []string
	seq   int
	bad   bool

	unwinding      bool
	expectTerminal int
	lastEvent      string
	// non-triviality evidence of this case
	commits, histAfterMaint, tombUnderLive, manyVersions int
}

func (e *env) logf(f string, a ...any) { e.ops = append(e.ops, fmt.Sprintf(f, a...)) }

func (e *env) viol(sig string, detail map[string]any) {
	ops := e.ops
	if len(ops) > 600 {
		ops = ops[len(ops)-600:]
	}
	detail["ops"] = ops
	detail["version"] = e.cur
	detail["journal"] = e.cfg.StoreConfig.StateChangeJournalEnabled
	detail["lss_compaction_interval"] = e.cfg.StoreConfig.LSSCompactionInterval
	e.run.Violation(sig, "^"+e.name+"$", detail)
	e.bad = true
}

func (e *env) stateView(s *session) layered {
	l := layered{m: e.state, baseV: s.baseV}
	for _, o := range s.ovs {
		l.ovs = append(l.ovs, o.state)
	}
	return l
}
func (e *env) indexView(s *session) layered {
	l := layered{m: e.index, baseV: s.baseV}
	for _, o := range s.ovs {
		l.ovs = append(l.ovs, o.index)
	}
	return l
}
func (e *env) stateAt(v uint64) layered { return layered{m: e.state, baseV: v} }
func (e *env) indexAt(v uint64) layered { return layered{m: e.index, baseV: v} }

func (e *env) newValue() []byte {
	e.seq++
	switch r := e.rng.Intn(20); {
	case r == 0:
		return []byte{} // empty value (the FSM stores committee membership as key-only entries)
	case r == 1:
		return nil
	case r < 5:
		return append([]byte(fmt.Sprintf("w%d:", e.seq)), bytes.Repeat([]byte{byte(e.seq)}, 200+e.rng.Intn(900))...)
	default:
		return []byte(fmt.Sprintf("w%d", e.seq))
	}
}

// ---------- comparison helpers ----------

func hexKVs(x []kv) []string {
	out := make([]string, 0, len(x))
	for _, p := range x {
		out = append(out, core.Hex(p.K)+"="+core.Hex(p.V))
	}
	return out
}

func drain(it lib.IteratorI, strip, limit int) (out []kv, overflow bool) {
	defer it.Close()
	for ; it.Valid(); it.Next() {
		k := it.Key()
		if len(k) < strip {
			out = append(out, kv{K: bytes.Clone(k), V: []byte("<<key shorter than its store prefix>>")})
			continue
		}
		out = append(out, kv{K: bytes.Clone(k[strip:]), V: bytes.Clone(it.Value())})
		if len(out) > limit {
			return out, true
		}
	}
	return out, false
}

// scanKind names how got differs from want.
func scanKind(got, want []kv, reverse bool) string {
	seen := map[string]bool{}
	for _, p := range got {
		if seen[string(p.K)] {
			return "duplicate"
		}
		seen[string(p.K)] = true
	}
	for i := 1; i < len(got); i++ {
		c := bytes.Compare(got[i-1].K, got[i].K)
		if (!reverse && c >= 0) || (reverse && c <= 0) {
			return "order"
		}
	}
	w := map[string][]byte{}
	for _, p := range want {
		w[string(p.K)] = p.V
	}
	for _, p := range want {
		if !seen[string(p.K)] {
			return "missing"
		}
	}
	for _, p := range got {
		wv, ok := w[string(p.K)]
		if !ok {
			return "extra"
		}
		if !bytes.Equal(wv, p.V) {
			return "value"
		}
	}
	return "other"
}

func (e *env) limit() int { return 4*len(e.uni.keys) + 64 }

// cmpScan compares one scan; base is "scan-mismatch" for immediate reads and "history-mismatch after=<event>" for re-queries.
func (e *env) cmpScan(base, view, strat string, reverse bool, prefix []byte, got []kv, overflow bool, want []kv) bool {
	e.run.Count("scans_compared", 1)
	dir := "fwd"
	if reverse {
		dir = "rev"
	}
	if overflow {
		e.viol(fmt.Sprintf("%s view=%s dir=%s strat=%s kind=unbounded", base, view, dir, strat),
			map[string]any{"prefix": core.Hex(prefix), "got_head": hexKVs(got[:min(len(got), 20)])})
		return false
	}
	if !sameKVs(got, want) {
		e.viol(fmt.Sprintf("%s view=%s dir=%s strat=%s kind=%s", base, view, dir, strat, scanKind(got, want, reverse)),
			map[string]any{"prefix": core.Hex(prefix), "got": hexKVs(got), "want": hexKVs(want)})
		return false
	}
	return true
}

func (e *env) cmpGet(base, view string, r lib.RStoreI, k []byte, want layered) bool {
	got, err := r.Get(bytes.Clone(k))
	if err != nil {
		e.viol("error op=get view="+view, map[string]any{"key": core.Hex(k), "err": err.Error()})
		return false
	}
	e.run.Count("reads_compared", 1)
	wv, _ := want.get(string(k)) // Get returns nil for absent and deleted keys; an empty value also has length 0
	if !bytes.Equal(got, wv) {
		kind := "value"
		if len(wv) == 0 {
			kind = "resurrected-or-leaked"
		} else if len(got) == 0 {
			kind = "lost"
		}
		e.viol(fmt.Sprintf("%s view=%s kind=%s", strings.Replace(base, "scan-", "get-", 1), view, kind),
			map[string]any{"key": core.Hex(k), "got": core.Hex(got), "want": core.Hex(wv)})
		return false
	}
	return true
}

func (e *env) scanStore(base, view string, r lib.RStoreI, prefix []byte, reverse bool, want layered) bool {
	var it lib.IteratorI
	var err lib.ErrorI
	if reverse {
		it, err = r.RevIterator(bytes.Clone(prefix))
	} else {
		it, err = r.Iterator(bytes.Clone(prefix))
	}
	if err != nil {
		e.viol("error op=iterator view="+view, map[string]any{"prefix": core.Hex(prefix), "err": err.Error()})
		return false
	}
	got, of := drain(it, 0, e.limit())
	return e.cmpScan(base, view, "api", reverse, prefix, got, of, want.scan(prefix, reverse))
}

// ---------- checkpoint (indexer) helpers: the indexer is driven through its real API ----------

var cpChains = []uint64{1, 2, 3}
var cpHeights = []uint64{1, 2, 3, 4, 255, 256, 1 << 32}

func cpKey(chain, height uint64) []byte { return lib.JoinLenPrefix([]byte{9}, be8(chain), be8(height)) }
func cpChainPrefix(chain uint64) []byte { return lib.JoinLenPrefix([]byte{9}, be8(chain)) }

func (e *env) cmpCheckpointGet(base, view string, r lib.RIndexerI, want layered) bool {
	chain, h := cpChains[e.rng.Intn(len(cpChains))], cpHeights[e.rng.Intn(len(cpHeights))]
	got, err := r.GetCheckpoint(chain, h)
	if err != nil {
		e.viol("error op=get-checkpoint view="+view, map[string]any{"err": err.Error()})
		return false
	}
	e.run.Count("reads_compared", 1)
	e.run.Count("indexer_reads_compared", 1)
	wv, _ := want.get(string(cpKey(chain, h)))
	if !bytes.Equal(got, wv) {
		e.viol(fmt.Sprintf("%s view=%s space=indexer", strings.Replace(base, "scan-", "get-", 1), view),
			map[string]any{"chain": chain, "height": h, "got": core.Hex(got), "want": core.Hex(wv)})
		return false
	}
	return true
}

// cmpCheckpointScans compares the linear forward (GetAllCheckpoints) and linear reverse (GetMostRecentCheckpoint)
// indexer iterations of a view whose indexer has no uncommitted entries.
func (e *env) cmpCheckpointScans(base, view string, r lib.RIndexerI, want layered) bool {
	chain := cpChains[e.rng.Intn(len(cpChains))]
	all, err := r.GetAllCheckpoints(chain)
	if err != nil {
		e.viol("error op=get-all-checkpoints view="+view, map[string]any{"err": err.Error()})
		return false
	}
	var got []kv
	for _, c := range all {
		got = append(got, kv{K: cpKey(chain, c.Height), V: c.BlockHash})
	}
	w := want.scan(cpChainPrefix(chain), false)
	e.run.Count("indexer_scans_compared", 1)
	e.run.Count("strategy_linear_fwd", 1)
	if !e.cmpScan(base, view+"/indexer", "linear", false, cpChainPrefix(chain), got, false, w) {
		return false
	}
	mr, err := r.GetMostRecentCheckpoint(chain)
	if err != nil {
		e.viol("error op=get-most-recent-checkpoint view="+view, map[string]any{"err": err.Error()})
		return false
	}
	e.run.Count("indexer_scans_compared", 1)
	e.run.Count("strategy_linear_rev", 1)
	var wantH uint64
	var wantHash []byte
	if len(w) > 0 {
		segs := lib.DecodeLengthPrefixed(w[len(w)-1].K)
		wantH, wantHash = binary.BigEndian.Uint64(segs[2]), w[len(w)-1].V
	}
	if mr == nil || mr.Height != wantH || !bytes.Equal(mr.BlockHash, wantHash) {
		e.viol(fmt.Sprintf("%s view=%s/indexer dir=rev strat=linear kind=first-element", base, view),
			map[string]any{"chain": chain, "got": fmt.Sprintf("%+v", mr), "want_height": wantH, "want_hash": core.Hex(wantHash)})
		return false
	}
	return true
}

// ---------- read-only views ----------

// checkView opens NewReadOnly(v) on `from` and compares reads; full = every key and the unrestricted scans.
func (e *env) checkView(base string, from lib.StoreI, v uint64, full bool) bool {
	roI, err := from.NewReadOnly(v)
	if err != nil {
		e.viol("error op=new-read-only", map[string]any{"v": v, "err": err.Error()})
		return false
	}
	defer roI.Discard()
	view := "ro-hist"
	if v == e.cur {
		view = "ro-latest"
		e.run.Count("views_latest", 1)
	} else {
		e.run.Count("views_historical", 1)
	}
	want, wantIdx := e.stateAt(v), e.indexAt(v)
	if full {
		for _, k := range e.uni.keys {
			if !e.cmpGet(base, view, roI, k, want) {
				return false
			}
		}
		for _, rev := range []bool{false, true} {
			e.strategyCount(true, rev)
			if !e.scanStore(base, view, roI, nil, rev, want) {
				return false
			}
		}
		return e.cmpCheckpointScans(base, view, roI, wantIdx)
	}
	for i, n := 0, 1+e.rng.Intn(5); i < n; i++ {
		if !e.cmpGet(base, view, roI, e.uni.key(e.rng), want) {
			return false
		}
	}
	for i, n := 0, 1+e.rng.Intn(2); i < n; i++ {
		rev := e.rng.Intn(2) == 0
		e.strategyCount(true, rev)
		if !e.scanStore(base, view, roI, e.uni.prefix(e.rng), rev, want) {
			return false
		}
	}
	if !e.cmpCheckpointGet(base, view, roI, wantIdx) || !e.cmpCheckpointScans(base, view, roI, wantIdx) {
		return false
	}
	if e.cfg.StoreConfig.StateChangeJournalEnabled {
		w := 1 + uint64(e.rng.Int63n(int64(v)))
		p := e.uni.prefix(e.rng)
		keys, avail, err := roI.StateChangeKeys(w, bytes.Clone(p))
		if err != nil {
			e.viol("error op=state-change-keys", map[string]any{"err": err.Error()})
			return false
		}
		var wantKeys []string
		for _, k := range e.state.writtenAt(w) {
			if bytes.HasPrefix([]byte(k), p) {
				wantKeys = append(wantKeys, core.Hex([]byte(k)))
			}
		}
		var gotKeys []string
		for _, k := range keys {
			gotKeys = append(gotKeys, core.Hex(k))
		}
		e.run.Count("journal_reads_compared", 1)
		if !avail || strings.Join(gotKeys, ",") != strings.Join(wantKeys, ",") {
			e.viol(fmt.Sprintf("%s view=%s space=journal", strings.Replace(base, "scan-", "journal-", 1), view),
				map[string]any{"view_version": v, "journal_version": w, "prefix": core.Hex(p), "available": avail, "got": gotKeys, "want": wantKeys})
			return false
		}
	}
	return true
}

func (e *env) strategyCount(seek, reverse bool) {
	n := "strategy_"
	if seek {
		n += "seek_"
	} else {
		n += "linear_"
	}
	if reverse {
		n += "rev"
	} else {
		n += "fwd"
	}
	e.run.Count(n, 1)
}

// directScans reads the committed data of version v straight through store.VersionedStore iterators (all four
// strategies) and through an indexer-style Txn (linear strategy), over a fresh snapshot.
func (e *env) directScans(base string, v uint64, prefix []byte) bool {
	vs := store.NewVersionedStore(e.st.DB().NewSnapshot(), nil, v)
	defer vs.Close()
	want := e.stateAt(v)
	for _, seek := range []bool{true, false} {
		for _, rev := range []bool{false, true} {
			it, err := vs.NewIterator(lib.Append(hssP, prefix), rev, seek)
			if err != nil {
				e.viol("error op=versioned-iterator", map[string]any{"err": err.Error()})
				return false
			}
			got, of := drain(it, len(hssP), e.limit())
			e.strategyCount(seek, rev)
			strat := "linear"
			if seek {
				strat = "seek"
			}
			if !e.cmpScan(base, "versioned-store", strat, rev, prefix, got, of, want.scan(prefix, rev)) {
				return false
			}
		}
	}
	// the Indexer's configuration of Txn: no sort, linear iterators, prefix applied by the Txn
	tx := store.NewTxn(vs, nil, hssP, false, false, false, v)
	for _, rev := range []bool{false, true} {
		var it lib.IteratorI
		var err lib.ErrorI
		if rev {
			it, err = tx.RevIterator(bytes.Clone(prefix))
		} else {
			it, err = tx.Iterator(bytes.Clone(prefix))
		}
		if err != nil {
			e.viol("error op=txn-iterator", map[string]any{"err": err.Error()})
			return false
		}
		got, of := drain(it, 0, e.limit())
		e.strategyCount(false, rev)
		if !e.cmpScan(base, "indexer-style-txn", "linear", rev, prefix, got, of, want.scan(prefix, rev)) {
			return false
		}
	}
	if k := e.uni.key(e.rng); true {
		got, err := tx.Get(k)
		if err != nil {
			e.viol("error op=txn-get", map[string]any{"err": err.Error()})
			return false
		}
		e.run.Count("reads_compared", 1)
		if wv, _ := want.get(string(k)); !bytes.Equal(got, wv) {
			e.viol(strings.Replace(base, "scan-", "get-", 1)+" view=indexer-style-txn", map[string]any{"key": core.Hex(k), "v": v, "got": core.Hex(got), "want": core.Hex(wv)})
			return false
		}
	}
	// the indexer's own key space at version v (seek and linear, both directions)
	wantIdx := e.indexAt(v)
	ip := lib.JoinLenPrefix([]byte{9})
	for _, seek := range []bool{true, false} {
		rev := e.rng.Intn(2) == 0
		it, err := vs.NewIterator(lib.Append(idxP, ip), rev, seek)
		if err != nil {
			e.viol("error op=versioned-iterator", map[string]any{"err": err.Error()})
			return false
		}
		got, of := drain(it, len(idxP), 1000)
		e.strategyCount(seek, rev)
		strat := "linear"
		if seek {
			strat = "seek"
		}
		if !e.cmpScan(base, "versioned-store/indexer", strat, rev, ip, got, of, wantIdx.scan(ip, rev)) {
			return false
		}
	}
	return true
}

// latestDirect reads the latest-state partition (version MaxUint64) through the four strategies.
func (e *env) latestDirect(base string) bool {
	vs := store.NewVersionedStore(e.st.DB().NewSnapshot(), nil, math.MaxUint64)
	defer vs.Close()
	want := e.stateAt(e.cur)
	for _, seek := range []bool{true, false} {
		for _, rev := range []bool{false, true} {
			it, err := vs.NewIterator(bytes.Clone(lssP), rev, seek)
			if err != nil {
				e.viol("error op=versioned-iterator", map[string]any{"err": err.Error()})
				return false
			}
			got, of := drain(it, len(lssP), e.limit())
			e.strategyCount(seek, rev)
			strat := "linear"
			if seek {
				strat = "seek"
			}
			if !e.cmpScan(base, "latest-partition", strat, rev, nil, got, of, want.scan(nil, rev)) {
				return false
			}
		}
	}
	return true
}

// audit re-queries every committed version (immutability of history) and the live views.
func (e *env) audit(after string) bool {
	if e.cur == 0 {
		return true
	}
	base := "history-mismatch after=" + after
	for v := uint64(1); v <= e.cur; v++ {
		if !e.checkView(base, e.st, v, true) || !e.directScans(base, v, nil) {
			return false
		}
		e.run.Count("historical_requeries", 1)
		if after != "commit" && v < e.cur {
			e.histAfterMaint++
		}
	}
	if !e.latestDirect(base) {
		return false
	}
	// the live session (with its uncommitted overlays) and an outstanding copy must be unaffected too
	for _, s := range []*session{e.live, e.cp} {
		if s == nil {
			continue
		}
		for _, rev := range []bool{false, true} {
			if !e.scanStore(base, s.label, s.top(), nil, rev, e.stateView(s)) {
				return false
			}
		}
	}
	return true
}

// ---------- operations ----------

func (e *env) opSet(s *session) {
	k, v := e.uni.key(e.rng), e.newValue()
	e.logf("%s[%d].set %s = %s", s.label, s.depth(), core.Hex(k), core.Hex(v))
	if err := s.top().Set(bytes.Clone(k), bytes.Clone(v)); err != nil {
		e.viol("error op=set", map[string]any{"err": err.Error()})
		return
	}
	s.ovs[len(s.ovs)-1].state[string(k)] = ent{val: v}
}

func (e *env) opDelete(s *session) {
	k := e.uni.key(e.rng)
	e.logf("%s[%d].delete %s", s.label, s.depth(), core.Hex(k))
	if err := s.top().Delete(bytes.Clone(k)); err != nil {
		e.viol("error op=delete", map[string]any{"err": err.Error()})
		return
	}
	s.ovs[len(s.ovs)-1].state[string(k)] = ent{dead: true}
}

func (e *env) opGet(s *session) {
	k := e.uni.key(e.rng)
	e.logf("%s[%d].get %s", s.label, s.depth(), core.Hex(k))
	e.cmpGet("scan-mismatch", s.label, s.top(), k, e.stateView(s))
}

func (e *env) opIter(s *session, rev bool) {
	p := e.uni.prefix(e.rng)
	e.logf("%s[%d].iterate prefix=%s reverse=%v", s.label, s.depth(), core.Hex(p), rev)
	if s.label == "live" {
		e.strategyCount(true, rev) // the live state Txn uses the seek strategy; a copy uses the linear one
	} else {
		e.strategyCount(false, rev)
	}
	if e.rng.Intn(4) != 0 {
		e.scanStore("scan-mismatch", s.label, s.top(), p, rev, e.stateView(s))
		return
	}
	// writes while the iterator is open (gov.go updates validators from inside an iteration callback): the iterator
	// is a view of the state at its creation
	want := e.stateView(s).scan(p, rev)
	var it lib.IteratorI
	var err lib.ErrorI
	if rev {
		it, err = s.top().RevIterator(bytes.Clone(p))
	} else {
		it, err = s.top().Iterator(bytes.Clone(p))
	}
	if err != nil {
		e.viol("error op=iterator view="+s.label, map[string]any{"err": err.Error()})
		return
	}
	var got []kv
	for ; it.Valid() && len(got) <= e.limit() && !e.bad; it.Next() {
		got = append(got, kv{K: bytes.Clone(it.Key()), V: bytes.Clone(it.Value())})
		if e.rng.Intn(2) == 0 {
			if e.rng.Intn(3) == 0 {
				e.opDelete(s)
			} else {
				e.opSet(s)
			}
		}
	}
	it.Close()
	if e.bad {
		return
	}
	e.run.Count("scans_with_interleaved_writes", 1)
	e.cmpScan("scan-mismatch", s.label+"+writes-during-iteration", "api", rev, p, got, len(got) > e.limit(), want)
}

func (e *env) opNest(s *session) {
	if s.depth() >= 3 {
		return
	}
	e.logf("%s[%d].new-txn", s.label, s.depth())
	s.stores = append(s.stores, s.top().NewTxn())
	s.ovs = append(s.ovs, newOverlay())
	e.run.Count("nested_txns", 1)
}

func (e *env) opFlush(s *session) {
	if s.depth() == 0 {
		return
	}
	e.logf("%s[%d].flush", s.label, s.depth())
	if err := s.top().Flush(); err != nil {
		e.viol("error op=flush", map[string]any{"err": err.Error()})
		return
	}
	n := len(s.ovs)
	for k, v := range s.ovs[n-1].state {
		s.ovs[n-2].state[k] = v
	}
	for k, v := range s.ovs[n-1].index {
		s.ovs[n-2].index[k] = v
	}
	if e.rng.Intn(3) == 0 && !e.unwinding {
		// keep using the flushed transaction: it is an empty overlay again
		e.logf("%s[%d].(keeps using the flushed txn)", s.label, s.depth())
		s.ovs[n-1] = newOverlay()
		e.run.Count("txn_reused_after_flush_or_discard", 1)
	} else {
		s.stores, s.ovs = s.stores[:n-1], s.ovs[:n-1]
	}
	e.run.Count("nested_flushes", 1)
}

func (e *env) opDiscardTxn(s *session) {
	if s.depth() == 0 {
		return
	}
	n := len(s.ovs)
	e.run.Count("nested_discards", 1)
	if e.rng.Intn(3) == 0 {
		e.logf("%s[%d].abandon", s.label, s.depth()) // the FSM drops a failed transaction's wrapper without calling Discard
	} else {
		e.logf("%s[%d].discard", s.label, s.depth())
		s.top().Discard()
		if e.rng.Intn(3) == 0 && !e.unwinding {
			e.logf("%s[%d].(keeps using the discarded txn)", s.label, s.depth())
			s.ovs[n-1] = newOverlay()
			e.run.Count("txn_reused_after_flush_or_discard", 1)
			return
		}
	}
	s.stores, s.ovs = s.stores[:n-1], s.ovs[:n-1]
}

func (e *env) unwind(s *session) {
	e.unwinding = true
	defer func() { e.unwinding = false }()
	for s.depth() > 0 && !e.bad {
		if e.rng.Intn(3) == 0 {
			e.opDiscardTxn(s)
		} else {
			e.opFlush(s)
		}
	}
}

func (e *env) opCheckpoint(s *session) {
	chain, h := cpChains[e.rng.Intn(len(cpChains))], cpHeights[e.rng.Intn(len(cpHeights))]
	switch r := e.rng.Intn(10); {
	case r < 6:
		e.seq++
		hash := []byte(fmt.Sprintf("cp%d", e.seq))
		e.logf("%s[%d].index-checkpoint chain=%d height=%d hash=%s", s.label, s.depth(), chain, h, hash)
		if err := s.top().IndexCheckpoint(chain, &lib.Checkpoint{Height: h, BlockHash: bytes.Clone(hash)}); err != nil {
			e.viol("error op=index-checkpoint", map[string]any{"err": err.Error()})
			return
		}
		s.ovs[len(s.ovs)-1].index[string(cpKey(chain, h))] = ent{val: hash}
	case r < 9:
		e.logf("%s[%d].get-checkpoint", s.label, s.depth())
		e.cmpCheckpointGet("scan-mismatch", s.label, s.top(), e.indexView(s))
	default:
		// iteration over the indexer does not merge uncommitted indexer writes (its Txn is unsorted by design),
		// so chain-wide deletion is only exercised when there are none
		if s.indexDirty() {
			return
		}
		e.logf("%s[%d].delete-checkpoints chain=%d", s.label, s.depth(), chain)
		if err := s.top().DeleteCheckpointsForChain(chain); err != nil {
			e.viol("error op=delete-checkpoints", map[string]any{"err": err.Error()})
			return
		}
		for _, p := range e.indexView(s).scan(cpChainPrefix(chain), false) {
			s.ovs[len(s.ovs)-1].index[string(p.K)] = ent{dead: true}
		}
	}
}

func (e *env) opCommit() {
	e.unwind(e.live)
	if e.bad {
		return
	}
	e.logf("commit -> version %d (%d state ops, %d index ops)", e.cur+1, len(e.live.ovs[0].state), len(e.live.ovs[0].index))
	if _, err := e.st.Commit(); err != nil {
		e.viol("error op=commit", map[string]any{"err": err.Error()})
		return
	}
	e.cur++
	e.expectTerminal += asyncCompactions(e.cfg.StoreConfig.LSSCompactionInterval, e.cur)
	e.state.commit(e.cur, e.live.ovs[0].state)
	e.index.commit(e.cur, e.live.ovs[0].index)
	e.live.ovs[0] = newOverlay()
	e.live.baseV = e.cur
	e.commits++
	e.run.Count("commits", 1)
	if got := e.st.Version(); got != e.cur {
		e.viol("version-mismatch after=commit", map[string]any{"got": got, "want": e.cur})
		return
	}
	e.lastEvent = "commit"
}

func (e *env) opReset() {
	e.unwind(e.live)
	if e.bad {
		return
	}
	e.logf("reset (drops %d uncommitted state ops)", len(e.live.ovs[0].state))
	e.st.Reset()
	e.live.ovs[0] = newOverlay()
	e.run.Count("resets", 1)
}

func (e *env) pickVersion() uint64 {
	switch r := e.rng.Intn(10); {
	case r < 3:
		return e.cur
	case r < 5 && e.cur > 1:
		return e.cur - 1
	case r < 6:
		return 1
	default:
		return 1 + uint64(e.rng.Int63n(int64(e.cur)))
	}
}

func (e *env) opReadOnly() {
	if e.cur == 0 {
		return
	}
	v := e.pickVersion()
	from := lib.StoreI(e.st)
	if e.rng.Intn(3) == 0 {
		from = e.live.top() // TimeMachine is also called while the FSM's store is a nested transaction
	}
	e.logf("read-only v=%d (current %d)", v, e.cur)
	if !e.checkView("scan-mismatch", from, v, false) {
		return
	}
	if e.rng.Intn(2) == 0 {
		p := e.uni.prefix(e.rng)
		e.logf("direct-scans v=%d prefix=%s", v, core.Hex(p))
		e.directScans("scan-mismatch", v, p)
	}
}

func (e *env) opCopy() {
	if e.live.depth() != 0 || e.cp != nil {
		return
	}
	c, err := e.st.Copy()
	if err != nil {
		e.viol("error op=copy", map[string]any{"err": err.Error()})
		return
	}
	e.logf("copy (carries %d uncommitted state ops)", len(e.live.ovs[0].state))
	if e.rng.Intn(2) == 0 {
		c.IncreaseVersion() // as the controller does for the mempool's copy
	}
	e.cp = &session{label: "copy", stores: []lib.StoreI{c}, ovs: []*overlay{e.live.ovs[0].clone()}, baseV: e.cur}
	e.run.Count("copies", 1)
	for _, rev := range []bool{false, true} {
		e.strategyCount(false, rev)
		if !e.scanStore("scan-mismatch", "copy", c, nil, rev, e.stateView(e.cp)) {
			return
		}
	}
}

func (e *env) dropCopy() {
	if e.cp == nil {
		return
	}
	e.logf("copy.discard")
	e.cp.stores[0].Discard()
	e.cp = nil
}

func (e *env) opOnCopy() {
	s := e.cp
	if s == nil {
		return
	}
	switch r := e.rng.Intn(20); {
	case r < 5:
		e.opSet(s)
	case r < 7:
		e.opDelete(s)
	case r < 11:
		e.opGet(s)
	case r < 13:
		e.opIter(s, false)
	case r < 15:
		e.opIter(s, true)
	case r < 16:
		e.opNest(s)
	case r < 17:
		e.opFlush(s)
	case r < 18:
		e.opDiscardTxn(s)
	case r < 19:
		e.opCheckpoint(s)
	default:
		e.dropCopy()
	}
}

func (e *env) waitCompactions() bool {
	if !e.log.waitTerminal(e.expectTerminal) {
		e.run.Inconclusive("%s: watchdog while waiting for asynchronous compactions", e.name)
		e.bad = true
		return false
	}
	e.log.mu.Lock()
	failed := append([]string(nil), e.log.failed...)
	e.log.mu.Unlock()
	if len(failed) > 0 {
		e.viol("error op=async-compaction", map[string]any{"errors": failed})
		return false
	}
	return true
}

func (e *env) opMaintain() {
	switch r := e.rng.Intn(10); {
	case r < 3:
		e.logf("db.flush (memtable -> sstable)")
		if err := e.st.DB().Flush(); err != nil {
			e.viol("error op=db-flush", map[string]any{"err": err.Error()})
			return
		}
		e.run.Count("db_flushes", 1)
		e.lastEvent = "db-flush"
	case r < 7:
		p := [][]byte{lssP, hssP, idxP, sccP}[e.rng.Intn(4)]
		e.logf("compact prefix=%q", p)
		e.expectTerminal++
		if err := e.st.Compact(e.cur, p); err != nil {
			e.viol("error op=compact", map[string]any{"err": err.Error()})
			return
		}
		e.run.Count("compactions", 1)
		e.lastEvent = "compact"
	default:
		e.logf("db.flush + compact-all")
		if err := e.st.DB().Flush(); err != nil {
			e.viol("error op=db-flush", map[string]any{"err": err.Error()})
			return
		}
		e.expectTerminal += 4
		if err := e.st.CompactAll(e.cur); err != nil {
			e.viol("error op=compact-all", map[string]any{"err": err.Error()})
			return
		}
		e.run.Count("db_flushes", 1)
		e.run.Count("compactions", 4)
		e.lastEvent = "compact"
	}
	e.audit(e.lastEvent)
}

func (e *env) opRollback() {
	if e.cur < 2 {
		return
	}
	e.unwind(e.live)
	if e.bad {
		return
	}
	e.dropCopy()
	// Rollback is an offline operation: nothing outstanding, no background work
	e.st.Reset()
	e.live.ovs[0] = newOverlay()
	if !e.waitCompactions() {
		return
	}
	var target uint64
	switch r := e.rng.Intn(10); {
	case r < 4:
		target = e.cur - 1
	case r < 5:
		target = e.cur
	case r < 6:
		target = 1
	default:
		target = 1 + uint64(e.rng.Int63n(int64(e.cur)))
	}
	e.logf("rollback %d -> %d", e.cur, target)
	if err := e.st.Rollback(target); err != nil {
		e.viol("error op=rollback", map[string]any{"target": target, "err": err.Error()})
		return
	}
	e.state.truncate(target)
	e.index.truncate(target)
	e.cur, e.live.baseV = target, target
	e.run.Count("rollbacks", 1)
	if got := e.st.Version(); got != e.cur {
		e.viol("version-mismatch after=rollback", map[string]any{"got": got, "want": e.cur})
		return
	}
	e.lastEvent = "rollback"
	if e.rng.Intn(2) == 0 {
		e.reopen()
	}
	if !e.bad {
		e.audit("rollback")
	}
}

// reopen builds a fresh Store on the same database, as a restarted node does.
func (e *env) reopen() {
	e.unwind(e.live)
	if e.bad {
		return
	}
	e.dropCopy()
	if !e.waitCompactions() {
		return
	}
	e.logf("re-open store on the same database")
	e.st.Discard()
	st, err := store.NewStoreWithDB(e.cfg, e.st.DB(), nil, e.log)
	if err != nil {
		e.viol("error op=reopen", map[string]any{"err": err.Error()})
		return
	}
	e.st = st
	e.live = &session{label: "live", stores: []lib.StoreI{st}, ovs: []*overlay{newOverlay()}, baseV: e.cur}
	e.run.Count("reopens", 1)
	if got := st.Version(); got != e.cur {
		e.viol("version-mismatch after=reopen", map[string]any{"got": got, "want": e.cur})
	}
}

// layoutStats measures the version layouts the iterator strategies are sensitive to.
func (e *env) layoutStats() {
	for _, h := range e.state.hist {
		if len(h) >= 4 {
			e.manyVersions++
		}
		for i := 1; i < len(h); i++ {
			if h[i].dead && !h[i-1].dead {
				e.tombUnderLive++ // a tombstone that is the newest entry <= v for some v, with an older live value beneath
				break
			}
		}
	}
}

func seqCase(t *testing.T, run *collector, name string, rng *rand.Rand) {
	cfg := lib.DefaultConfig()
	cfg.StoreConfig.LSSCompactionInterval = []uint64{0, 0, 2, 3}[rng.Intn(4)]
	cfg.StoreConfig.StateChangeJournalEnabled = rng.Intn(2) == 0
	cfg.StoreConfig.BackupInterval = 0
	lg := newClog()
	sI, err := store.NewStoreInMemory(lg, cfg)
	if err != nil {
		t.Fatalf("NewStoreInMemory: %v", err)
	}
	st := sI.(*store.Store)
	e := &env{t: t, run: run, name: name, rng: rng, cfg: cfg, log: lg, st: st,
		state: newVersionedMap(), index: newVersionedMap(), lastEvent: "commit"}
	e.live = &session{label: "live", stores: []lib.StoreI{st}, ovs: []*overlay{newOverlay()}}
	// profiles: wide universe with few versions per key ... narrow universe with heavy per-key version churn
	maxKeys := []int{4, 6, 10, 20, 40}[rng.Intn(5)]
	e.uni = buildUniverse(rng, maxKeys)
	commitW := []int{4, 8, 16}[rng.Intn(3)]
	nOps := core.Pick(150, 220)
	e.logf("universe: %d keys; journal=%v lss-compaction-interval=%d", len(e.uni.keys), cfg.StoreConfig.StateChangeJournalEnabled, cfg.StoreConfig.LSSCompactionInterval)
	defer func() {
		e.dropCopy()
		e.log.waitTerminal(e.expectTerminal)
		_ = e.st.Close()
	}()
	for i := 0; i < nOps && !e.bad; i++ {
		s := e.live
		r := e.rng.Intn(100 + commitW)
		switch {
		case r < 30:
			e.opSet(s)
		case r < 42:
			e.opDelete(s)
		case r < 54:
			e.opGet(s)
		case r < 60:
			e.opIter(s, false)
		case r < 66:
			e.opIter(s, true)
		case r < 70:
			e.opNest(s)
		case r < 73:
			e.opFlush(s)
		case r < 75:
			e.opDiscardTxn(s)
		case r < 80:
			e.opCheckpoint(s)
		case r < 85:
			e.opReadOnly()
		case r < 87:
			e.opCopy()
		case r < 93:
			e.opOnCopy()
		case r < 96:
			e.opMaintain()
		case r < 97:
			e.opRollback()
		case r < 98:
			e.reopen()
			if !e.bad {
				e.lastEvent = "reopen"
				e.audit("reopen")
			}
		case r < 99:
			e.opReset()
		case r < 100:
			e.audit(e.lastEvent)
		default:
			e.opCommit()
			if !e.bad && e.rng.Intn(3) == 0 {
				e.audit("commit")
			}
		}
	}
	if !e.bad {
		// final: everything flushed to sstables and compacted, then the whole history once more
		e.unwind(e.live)
	}
	if !e.bad {
		e.opCommit()
	}
	if !e.bad && e.waitCompactions() {
		if err := e.st.DB().Flush(); err != nil {
			t.Fatalf("flush: %v", err)
		}
		e.expectTerminal += 4
		if err := e.st.CompactAll(e.cur); err != nil {
			e.viol("error op=compact-all", map[string]any{"err": err.Error()})
		}
		e.run.Count("compactions", 4)
		e.run.Count("db_flushes", 1)
		if !e.bad {
			e.audit("compact")
		}
	}
	if e.bad {
		return
	}
	run.Eval(1)
	e.layoutStats()
	if e.commits >= 3 && e.histAfterMaint > 0 && e.tombUnderLive > 0 && e.manyVersions > 0 {
		h := sha256.Sum256([]byte(strings.Join(e.ops, "\n")))
		run.Distinct(fmt.Sprintf("seq/%x", h[:12]))
	}
	if rng.Intn(100) == 0 {
		run.Sample(map[string]any{"case": name, "keys": len(e.uni.keys), "final_version": e.cur, "ops": len(e.ops),
			"keys_with_4+_versions": e.manyVersions, "keys_with_tombstone_over_live": e.tombUnderLive, "ops_head": e.ops[:min(len(e.ops), 15)]})
	}
}

// ---------- probe (evidence only): keys whose segment tuple is a prefix of another key's ----------

// nestedKeysAreInContract: canopy's state keys never nest (fsm/key.go gives every record type a fixed arity under
// its own first segment), so orderings observed for nested keys are reported as counters, not as violations.
const nestedKeysAreInContract = false

func nestedProbe(t *testing.T, run *collector, name string, rng *rand.Rand) {
	sI, err := store.NewStoreInMemory(newClog(), func() lib.Config {
		c := lib.DefaultConfig()
		c.StoreConfig.LSSCompactionInterval = 0
		return c
	}())
	if err != nil {
		t.Fatalf("NewStoreInMemory: %v", err)
	}
	st := sI.(*store.Store)
	defer st.Close()
	a, b, c := segPool[rng.Intn(len(segPool)-1)], segPool[rng.Intn(len(segPool)-1)], segPool[rng.Intn(len(segPool)-1)]
	keys := [][]byte{lib.JoinLenPrefix(a), lib.JoinLenPrefix(a, b), lib.JoinLenPrefix(a, b, c), lib.JoinLenPrefix(a, c, b)}
	m := newVersionedMap()
	for v := uint64(1); v <= 3; v++ {
		ov := map[string]ent{}
		for i, k := range keys {
			if rng.Intn(3) > 0 {
				val := []byte(fmt.Sprintf("n%d.%d", v, i))
				_ = st.Set(bytes.Clone(k), val)
				ov[string(k)] = ent{val: val}
			}
		}
		if _, err := st.Commit(); err != nil {
			t.Fatalf("commit: %v", err)
		}
		m.commit(v, ov)
	}
	check := func(view string, r lib.RStoreI, v uint64) {
		for _, rev := range []bool{false, true} {
			var it lib.IteratorI
			if rev {
				it, _ = r.RevIterator(lib.JoinLenPrefix(a))
			} else {
				it, _ = r.Iterator(lib.JoinLenPrefix(a))
			}
			got, _ := drain(it, 0, 100)
			want := layered{m: m, baseV: v}.scan(lib.JoinLenPrefix(a), rev)
			run.Count("nested_key_probe_scans", 1)
			if !sameKVs(got, want) {
				run.Count("nested_key_probe_mismatches", 1)
				if nestedKeysAreInContract {
					run.Violation(fmt.Sprintf("nested-key-scan view=%s kind=%s", view, scanKind(got, want, rev)), "^"+name+"$",
						map[string]any{"keys": hexKVs(want), "got": hexKVs(got)})
				}
			}
		}
	}
	check("live", st, 3)
	ro, err := st.NewReadOnly(2)
	if err != nil {
		t.Fatalf("NewReadOnly: %v", err)
	}
	check("ro-hist", ro, 2)
	ro.Discard()
}

// prefixKeyInTxnLayer: the committed keys are prefix-free (as everywhere else in this check), but the UNCOMMITTED layer
// (a nested transaction, then the store's own pending layer after Flush) writes the iteration prefix itself as a key next
// to other keys under it. Forward and reverse iteration over that prefix must show own writes, hide own deletes and be
// complete. (Unlike nested keys in committed data, this shape is handled correctly by the unchanged code: it is judged.)
func prefixKeyInTxnLayer(t *testing.T, run *collector, name string, rng *rand.Rand) {
	sI, err := store.NewStoreInMemory(newClog(), func() lib.Config {
		c := lib.DefaultConfig()
		c.StoreConfig.LSSCompactionInterval = 0
		return c
	}())
	if err != nil {
		t.Fatalf("NewStoreInMemory: %v", err)
	}
	st := sI.(*store.Store)
	defer st.Close()
	a := segPool[rng.Intn(len(segPool)-1)]
	if len(a) == 0 {
		a = []byte("p")
	}
	pre := lib.JoinLenPrefix(a)
	var kids [][]byte
	for i := 0; i < 3+rng.Intn(4); i++ {
		kids = append(kids, lib.JoinLenPrefix(a, []byte{byte(1 + i*7)}))
	}
	m := newVersionedMap()
	ov := map[string]ent{}
	for i, k := range kids[:len(kids)-1] {
		val := []byte(fmt.Sprintf("c%d", i))
		_ = st.Set(bytes.Clone(k), val)
		ov[string(k)] = ent{val: val}
	}
	if _, err := st.Commit(); err != nil {
		t.Fatalf("commit: %v", err)
	}
	m.commit(1, ov)
	// the uncommitted layer
	pending := map[string]ent{}
	tx := st.NewTxn()
	set := func(k, v []byte) { _ = tx.Set(bytes.Clone(k), v); pending[string(k)] = ent{val: v} }
	del := func(k []byte) { _ = tx.Delete(bytes.Clone(k)); pending[string(k)] = ent{dead: true} }
	switch rng.Intn(3) {
	case 0:
		set(pre, []byte("root"))
	case 1:
		del(pre)
	default:
		set(pre, []byte("root"))
		del(pre)
		set(pre, []byte("root2"))
	}
	set(kids[len(kids)-1], []byte("new"))
	set(kids[0], []byte("overwritten"))
	if len(kids) > 2 {
		del(kids[1])
	}
	want := func(rev bool) []kv {
		cur := map[string][]byte{}
		for k, e := range ov {
			cur[k] = e.val
		}
		for k, e := range pending {
			if e.dead {
				delete(cur, k)
			} else {
				cur[k] = e.val
			}
		}
		var out []kv
		for k, v := range cur {
			if bytes.HasPrefix([]byte(k), pre) {
				out = append(out, kv{K: []byte(k), V: v})
			}
		}
		sort.Slice(out, func(i, j int) bool {
			if rev {
				return bytes.Compare(out[i].K, out[j].K) > 0
			}
			return bytes.Compare(out[i].K, out[j].K) < 0
		})
		return out
	}
	check := func(view string, r lib.RStoreI) {
		for _, rev := range []bool{false, true} {
			var it lib.IteratorI
			if rev {
				it, _ = r.RevIterator(bytes.Clone(pre))
			} else {
				it, _ = r.Iterator(bytes.Clone(pre))
			}
			got, _ := drain(it, 0, 100)
			w := want(rev)
			run.Count("prefix_key_in_txn_layer_scans", 1)
			if !sameKVs(got, w) {
				run.Violation(fmt.Sprintf("txn-layer-scan view=%s rev=%v kind=%s", view, rev, scanKind(got, w, rev)), "^"+name+"$",
					map[string]any{"prefix": core.Hex(pre), "want": hexKVs(w), "got": hexKVs(got)})
				return
			}
		}
	}
	check("nested-txn", tx)
	if err := tx.Flush(); err != nil {
		t.Fatalf("flush: %v", err)
	}
	check("store-pending-layer", st)
	tx2 := st.NewTxn()
	check("second-nested-txn", tx2)
	tx2.Discard()
}

func TestCheck(t *testing.T) {
	run := core.Start(t, "C10", "exploration",
		"seeded operation sequences (set/delete/get/iterate/reverse-iterate/nested txn flush|discard|abandon/copy/commit/reset/"+
			"read-only-at-version/compact/db-flush/rollback/re-open + checkpoint indexer calls) over <=40 length-prefixed keys from a random segment "+
			"tree (segments with 0x00/0xFF bytes, 8-byte big-endian numbers, empty segment); every read is compared with a versioned-map oracle and every "+
			"committed version is re-scanned after later commits, compaction, sstable flush, rollback and re-open. distinct_nontrivial = distinct operation logs of "+
			"sequences with >=3 commits, a key with >=4 versions, a tombstone written over a live value, and historical re-queries after compaction/rollback; "+
			"plus distinct concurrent histories that contained reads overlapping a commit")
	defer run.Finish()
	run.MinDistinct = core.Pick(100, 2000)
	run.Assume("pebble's own snapshot/iterator/compaction correctness is only observed through the store, not checked separately")
	run.Assume("state keys are prefix-free as segment tuples (true for every key built in fsm/key.go); nested keys are probed for evidence only")
	run.Assume("the reference model shares only lib.JoinLenPrefix (key encoding) with the code under test")

	orchestrate(t, run)
}
