package c19

// C19 — unambiguous signed digests and store keys; untrusted bytes never crash a node.
//
// Group A (injectivity, in-process): generated pairs of semantically different objects are pushed through
// the REAL digest / key functions (Transaction.GetSignBytes/GetHash for all registered message types,
// bft.Message.SignBytes per class and phase, QuorumCertificate.SignBytes, the evidence de-duplication key and its
// equivocation test, every key constructor of fsm/key.go, lib.JoinLenPrefix, and - behaviourally, through the real
// VersionedStore / Txn / Store / Indexer - the unexported indexer keys, the prefixEnd ranges, the version suffix and
// the state-change journal). Outputs of different inputs must differ and a read through a prefix must return exactly
// the records built from that prefix's components. Pairs differ in exactly one field, by a byte string split
// differently over two fields, or by two exchanged values; which fields the signer deliberately leaves out is
// stated in run.Assume (read from the code).
// Group B (robust decoding, child processes): see decode_test.go - mutated / random / re-signed hostile inputs for
// every network-facing decoder and the handlers behind it, unknown-field injection at every nesting depth of the
// types lib.Unmarshal treats as critical, and the stated size caps (at the cap: accepted, above: rejected).
//
// Environment knobs (none affects a verdict): C19_SIGLOG=<file> appends every violation signature (triage),
// C19_DEBUG=1 adds timing counters and a heap profile per child, C19_SELFTEST=crash:<case>|hang:<case> simulates a
// fatal crash / a hang in a child to exercise the parent's attribution, C19_HANG_SEC / C19_HANG_CONFIRM_SEC set the
// watchdogs (30 s per input inside a shard, 180 s when the input is re-run alone).

import (
	"bytes"
	"fmt"
	"math/rand"
	"os"
	"regexp"
	"sort"
	"strings"
	"sync"
	"sync/atomic"
	"testing"
	"time"

	"github.com/canopy-network/canopy/bft"
	"github.com/canopy-network/canopy/lib"
	"google.golang.org/protobuf/proto"
	"google.golang.org/protobuf/reflect/protoreflect"
	"verif/c19util"
	"verif/core"
)

// ---------------------------------------------------------------------------------------------
// A1. sign bytes / identity hashes
// ---------------------------------------------------------------------------------------------

type digestFn struct {
	name string
	f    func(m proto.Message) []byte
}

type kindCfg struct {
	kind     string
	digests  []digestFn
	class    func(m proto.Message) string
	excluded func(class, digest, gpath string) bool
	gen      func(rng *rand.Rand, i int) proto.Message
}

func hasSeg(path, seg string) bool { // path == seg or path starts with seg followed by '.', '[' or '{'
	if !strings.HasPrefix(path, seg) {
		return false
	}
	if len(path) == len(seg) {
		return true
	}
	switch path[len(seg)] {
	case '.', '[', '{':
		return true
	}
	return false
}

func anySeg(path string, segs ...string) bool {
	for _, s := range segs {
		if hasSeg(path, s) {
			return true
		}
	}
	return false
}

// --- which fields the signer does NOT commit to, by design (read from the code, stated in run.Assume) ---

func txExcluded(_, digest, p string) bool {
	return digest == "GetSignBytes" && hasSeg(p, "signature") // lib/tx.go:149 GetSignBytes omits the signature only; GetHash covers everything
}

func qcExcluded(class, _, p string) bool {
	if anySeg(p, "results", "block", "signature") { // lib/certificate.go:238-246 (bodies are bound by results_hash / block_hash)
		return true
	}
	// lib/certificate.go:229-236: an ELECTION_VOTE certificate is minified to {header, proposer_key}; every consumer of
	// block_hash / results_hash requires phase PROPOSE_VOTE or PRECOMMIT_VOTE (certificate.go:219, controller/block.go:628)
	return class == "ELECTION_VOTE" && anySeg(p, "block_hash", "results_hash")
}

func voteExcluded(class, _, p string) bool {
	if hasSeg(p, "signature") {
		return true
	}
	switch {
	case strings.HasPrefix(class, "proposer/"):
		// bft/msg.go:216-235: proposer sign bytes = header, vrf, high_qc, evidence, qc{header, hashes, proposer_key, signature}
		if anySeg(p, "qc.block", "qc.results", "vdf") { // bodies bound by hashes; vdf is not read from proposer messages
			return true
		}
		if hasSeg(p, "timestamp") { // read only in COMMIT (bft/bft.go:543,547)
			return class != "proposer/COMMIT"
		}
		if hasSeg(p, "rcBuildHeight") { // read in PROPOSE (bft/bft.go:383,393) and PRECOMMIT (bft/bft.go:469)
			return class != "proposer/PROPOSE" && class != "proposer/PRECOMMIT"
		}
		return false
	case strings.HasPrefix(class, "replica/"):
		// bft/msg.go:236-247: a vote signs QC{header, block_hash, results_hash, proposer_key}.SignBytes();
		// high_qc / evidence / vdf attachments are self-authenticating (aggregate signatures, VDF proof) and checked separately
		if anySeg(p, "qc.block", "qc.results", "qc.signature", "high_qc", "last_double_sign_evidence", "vdf", "vrf", "timestamp") {
			return true
		}
		if hasSeg(p, "rcBuildHeight") { // read from ELECTION_VOTE votes that carry a high_qc (bft/vote.go:141)
			return class != "replica/ELECTION_VOTE"
		}
		if class == "replica/ELECTION_VOTE" && anySeg(p, "qc.block_hash", "qc.results_hash") {
			return true
		}
		return false
	case class == "pacemaker":
		// bft/msg.go:248-249: only qc.header is signed, and only qc.header is read (bft/bft.go:573-605)
		return !hasSeg(p, "qc.header")
	}
	return false
}

func evidenceExcluded(_, _, p string) bool {
	// bft/evidence.go:141-142: block / results bodies are stripped before the evidence is keyed
	return anySeg(p, "vote_a.block", "vote_a.results", "vote_b.block", "vote_b.results")
}

func voteClass(m proto.Message) string {
	x := m.(*bft.Message)
	switch {
	case x.IsProposerMessage():
		return "proposer/" + x.Header.Phase.String()
	case x.IsReplicaMessage():
		return "replica/" + x.Qc.Header.Phase.String()
	case x.IsPacemakerMessage():
		return "pacemaker"
	}
	return "none"
}

func randView(rng *rand.Rand, phase lib.Phase) *lib.View {
	return &lib.View{NetworkId: 1 + uint64(rng.Intn(3)), ChainId: 1 + uint64(rng.Intn(3)), Height: 1 + uint64(rng.Intn(1000)),
		RootHeight: 1 + uint64(rng.Intn(1000)), Round: uint64(rng.Intn(5)), Phase: phase}
}

var voteClasses = []struct {
	proposer bool
	phase    lib.Phase
}{
	{true, lib.Phase_ELECTION}, {true, lib.Phase_PROPOSE}, {true, lib.Phase_PRECOMMIT}, {true, lib.Phase_COMMIT},
	{false, lib.Phase_ELECTION_VOTE}, {false, lib.Phase_PROPOSE_VOTE}, {false, lib.Phase_PRECOMMIT_VOTE}, {false, lib.Phase_ROUND_INTERRUPT},
}

var qcPhases = []lib.Phase{lib.Phase_ELECTION_VOTE, lib.Phase_PROPOSE_VOTE, lib.Phase_PRECOMMIT_VOTE, lib.Phase_PROPOSE, lib.Phase_COMMIT, lib.Phase_ROUND_INTERRUPT, lib.Phase_UNKNOWN}

var partialMu sync.Mutex

func digestKinds(e *env) []*kindCfg {
	pool := e.anyPool()
	genQC := func(rng *rand.Rand, phase lib.Phase) *lib.QuorumCertificate {
		qc := new(lib.QuorumCertificate)
		c19util.Populate(rng, qc.ProtoReflect(), 4, 0.9, pool)
		qc.Header = randView(rng, phase)
		return qc
	}
	return []*kindCfg{
		{
			kind: "tx",
			digests: []digestFn{
				{"GetSignBytes", func(m proto.Message) []byte { return mustE(m.(*lib.Transaction).GetSignBytes()) }},
				{"GetHash", func(m proto.Message) []byte { return mustE(m.(*lib.Transaction).GetHash()) }},
			},
			class:    func(m proto.Message) string { return m.(*lib.Transaction).MessageType },
			excluded: txExcluded,
			gen: func(rng *rand.Rand, i int) proto.Message {
				name := e.msgNames[i%len(e.msgNames)]
				payload := lib.RegisteredMessages[name].New()
				c19util.Populate(rng, payload.ProtoReflect(), 5, 0.9, pool)
				tx := new(lib.Transaction)
				c19util.Populate(rng, tx.ProtoReflect(), 1, 0.95, nil)
				tx.MessageType, tx.Msg = name, mustE(lib.NewAny(payload))
				return tx
			},
		},
		{
			kind:     "vote",
			digests:  []digestFn{{"SignBytes", func(m proto.Message) []byte { return m.(*bft.Message).SignBytes() }}},
			class:    voteClass,
			excluded: voteExcluded,
			gen: func(rng *rand.Rand, i int) proto.Message {
				c := voteClasses[i%len(voteClasses)]
				m := new(bft.Message)
				c19util.Populate(rng, m.ProtoReflect(), 5, 0.9, pool)
				if m.Qc == nil {
					m.Qc = new(lib.QuorumCertificate)
				}
				if c.proposer {
					m.Header = randView(rng, c.phase)
					m.Qc.Header = randView(rng, c.phase-1)
				} else {
					m.Header = nil
					m.Qc.Header = randView(rng, c.phase)
				}
				return m
			},
		},
		{
			kind:     "qc",
			digests:  []digestFn{{"SignBytes", func(m proto.Message) []byte { return m.(*lib.QuorumCertificate).SignBytes() }}},
			class:    func(m proto.Message) string { return m.(*lib.QuorumCertificate).GetHeader().GetPhase().String() },
			excluded: qcExcluded,
			gen:      func(rng *rand.Rand, i int) proto.Message { return genQC(rng, qcPhases[i%len(qcPhases)]) },
		},
		{
			// the identity the REAL bft.AddPartialQC gives a partial certificate kept as candidate evidence: the key under which
			// it lands in BFT.PartialQCs (two certificates that accuse different signers must not overwrite each other)
			kind: "partial-qc",
			digests: []digestFn{{"PartialQCsKey", func(m proto.Message) []byte {
				partialMu.Lock()
				defer partialMu.Unlock()
				if e.bft == nil {
					e.buildBFT()
				}
				e.bft.PartialQCs = bft.PartialQCs{}
				if err := e.bft.AddPartialQC(&bft.Message{Qc: proto.Clone(m).(*lib.QuorumCertificate)}); err != nil {
					return mustE(lib.Marshal(m)) // not stored: no identity assigned (never collides)
				}
				for k := range e.bft.PartialQCs {
					return []byte(k)
				}
				return mustE(lib.Marshal(m))
			}}},
			class:    func(m proto.Message) string { return m.(*lib.QuorumCertificate).GetHeader().GetPhase().String() },
			excluded: func(string, string, string) bool { return false },
			gen:      func(rng *rand.Rand, i int) proto.Message { return genQC(rng, qcPhases[i%len(qcPhases)]) },
		},
		{
			kind: "evidence",
			digests: []digestFn{{"DedupKey", func(m proto.Message) []byte {
				// the identity canopy gives a piece of evidence (bft/evidence.go:141-160): bodies stripped, then marshalled
				ev := proto.Clone(m).(*bft.DoubleSignEvidence)
				if ev.VoteA != nil {
					ev.VoteA.Block, ev.VoteA.Results = nil, nil
				}
				if ev.VoteB != nil {
					ev.VoteB.Block, ev.VoteB.Results = nil, nil
				}
				return mustE(lib.Marshal(ev))
			}}},
			class: func(m proto.Message) string {
				return m.(*bft.DoubleSignEvidence).GetVoteA().GetHeader().GetPhase().String()
			},
			excluded: evidenceExcluded,
			gen: func(rng *rand.Rand, i int) proto.Message {
				ph := []lib.Phase{lib.Phase_PROPOSE_VOTE, lib.Phase_PRECOMMIT_VOTE}[i%2]
				a, b := genQC(rng, ph), genQC(rng, ph)
				b.Header = proto.Clone(a.Header).(*lib.View)
				return &bft.DoubleSignEvidence{VoteA: a, VoteB: b}
			},
		},
	}
}

// comparePair applies the oracle to one generated pair.
func (c *kindCfg) comparePair(run *core.Run, name, op string, a, b proto.Message, changed []string, obs map[string]int64) {
	if proto.Equal(a, b) {
		run.Count("inj_pairs_skipped_equal", 1)
		return
	}
	class := c.class(a)
	for _, d := range c.digests {
		field := ""
		for _, p := range changed {
			if !c.excluded(class, d.name, p) {
				field = p
				break
			}
		}
		da, db := d.f(a), d.f(b)
		if field == "" {
			run.Count("inj_pairs_excluded_fields", 1)
			if bytes.Equal(da, db) {
				obs[fmt.Sprintf("%s/%s/%s", c.kind, class, topSegs(changed[0], 2))]++
			}
			continue
		}
		run.Count("inj_digest_pairs_compared", 1)
		run.Count("inj_pairs_"+c.kind, 1)
		run.Distinct(fmt.Sprintf("inj/%s/%s/%s/%s/%s", c.kind, class, d.name, field, op))
		if strings.HasSuffix(name, "/0") && op != "one-field" && digestSamples.Add(1) <= 2 {
			run.Sample(map[string]any{"monitor": "digest-injectivity", "case": name, "kind": c.kind, "class": class, "fn": d.name, "op": op, "changed": changed,
				"digest_a": core.Hex(da), "digest_b": core.Hex(db)})
		}
		if bytes.Equal(da, db) {
			viol(run, fmt.Sprintf("digest-collision kind=%s field=%s class=%s fn=%s op=%s", c.kind, field, class, d.name, op), name,
				map[string]any{"a_hex": fmt.Sprintf("%x", mb(a)), "b_hex": fmt.Sprintf("%x", mb(b)), "changed": changed, "digest_hex": core.Hex(da),
					"a": fmt.Sprint(a), "b": fmt.Sprint(b)})
		}
	}
}

const leafDepth = 7

func asciiOrBytes(rng *rand.Rand, n int, ascii bool) []byte {
	if ascii {
		b := make([]byte, n)
		for i := range b {
			b[i] = "abcdefghij0123456789"[rng.Intn(20)]
		}
		return b
	}
	return c19util.RandBytes(rng, n)
}

func setBytesLike(l *c19util.Leaf, v []byte) {
	if l.FD.Kind() == protoreflect.StringKind {
		l.Set(protoreflect.ValueOfString(string(v)))
	} else {
		l.Set(protoreflect.ValueOfBytes(append([]byte{}, v...)))
	}
}

// digestCase generates one base object of a kind and every pair derived from it.
func digestCase(run *core.Run, e *env, c *kindCfg, name string, i int, obs map[string]int64) {
	rng := run.Rand(name)
	base := c.gen(rng, i)
	pool := e.anyPool()
	nLeaves := len(c19util.Leaves(proto.Clone(base).ProtoReflect(), leafDepth))
	// (1) one-field pairs: every leaf of the instance in turn (leaves that no digest is supposed to cover are sampled 1 in 6:
	// they only feed the "unsigned by design" observation)
	probe0 := c19util.Leaves(proto.Clone(base).ProtoReflect(), leafDepth)
	class0 := c.class(base)
	for li := 0; li < nLeaves; li++ {
		if li < len(probe0) {
			gp, all := c19util.GenericPath(probe0[li].Path), true
			for _, d := range c.digests {
				if !c.excluded(class0, d.name, gp) {
					all = false
				}
			}
			if all && rng.Intn(6) != 0 {
				continue
			}
		}
		b := proto.Clone(base)
		leaves := c19util.Leaves(b.ProtoReflect(), leafDepth)
		if li >= len(leaves) {
			break
		}
		l := leaves[li]
		if _, ok := c19util.Mutate(rng, l, pool); !ok {
			run.Count("inj_mutation_not_possible", 1)
			continue
		}
		c.comparePair(run, name, "one-field", base, b, []string{c19util.GenericPath(l.Path)}, obs)
	}
	// (2) boundary-shift pairs: the same byte string split differently over two string/bytes fields
	// (3) swap pairs: the values of two fields of the same type exchanged
	idx := func(ls []*c19util.Leaf, pred func(*c19util.Leaf) bool) []int {
		var out []int
		for k, l := range ls {
			if pred(l) {
				out = append(out, k)
			}
		}
		return out
	}
	probe := c19util.Leaves(proto.Clone(base).ProtoReflect(), leafDepth)
	bl := idx(probe, func(l *c19util.Leaf) bool { return l.IsBytesLike() })
	nShift := 24
	for s := 0; s < nShift && len(bl) >= 2; s++ {
		x := rng.Intn(len(bl) - 1)
		y := x + 1 // adjacent in field order (the classic concatenation ambiguity) ...
		if s%3 == 2 {
			y = rng.Intn(len(bl)) // ... or any two
			if y == x {
				continue
			}
		}
		a, b := proto.Clone(base), proto.Clone(base)
		la, lb := c19util.Leaves(a.ProtoReflect(), leafDepth), c19util.Leaves(b.ProtoReflect(), leafDepth)
		ascii := la[bl[x]].FD.Kind() == protoreflect.StringKind || la[bl[y]].FD.Kind() == protoreflect.StringKind
		total := asciiOrBytes(rng, 1+rng.Intn(24), ascii)
		k1 := rng.Intn(len(total) + 1)
		k2 := rng.Intn(len(total) + 1)
		if k1 == k2 {
			k2 = (k1 + 1) % (len(total) + 1)
		}
		if rng.Intn(4) == 0 { // make the first part look like a length prefix of the second
			total[0] = byte(len(total) - 1)
		}
		// note: setting the second leaf first keeps list indices stable
		setBytesLike(la[bl[y]], total[k1:])
		setBytesLike(la[bl[x]], total[:k1])
		setBytesLike(lb[bl[y]], total[k2:])
		setBytesLike(lb[bl[x]], total[:k2])
		c.comparePair(run, name, "boundary-shift", a, b,
			[]string{c19util.GenericPath(probe[bl[x]].Path), c19util.GenericPath(probe[bl[y]].Path)}, obs)
	}
	for s := 0; s < 24 && len(probe) >= 2; s++ {
		x, y := rng.Intn(len(probe)), rng.Intn(len(probe))
		lx, ly := probe[x], probe[y]
		if x == y || lx.FD.Kind() != ly.FD.Kind() || lx.FD.Message() != nil || !lx.Get().IsValid() || !ly.Get().IsValid() {
			continue
		}
		if lx.FD.Kind() == protoreflect.EnumKind && lx.FD.Enum() != ly.FD.Enum() {
			continue
		}
		if lx.FD.Kind() == protoreflect.BytesKind && bytes.Equal(lx.Get().Bytes(), ly.Get().Bytes()) {
			continue
		}
		if lx.FD.Kind() != protoreflect.BytesKind && lx.Get().Interface() == ly.Get().Interface() {
			continue // equal values: the exchange changes nothing (it would at most materialise an empty sub-message)
		}
		b := proto.Clone(base)
		lb := c19util.Leaves(b.ProtoReflect(), leafDepth)
		vx, vy := lb[x].Get(), lb[y].Get()
		if lx.FD.Kind() == protoreflect.BytesKind {
			vx, vy = protoreflect.ValueOfBytes(append([]byte{}, vx.Bytes()...)), protoreflect.ValueOfBytes(append([]byte{}, vy.Bytes()...))
		}
		lb[x].Set(vy)
		lb[y].Set(vx)
		c.comparePair(run, name, "swap", base, b, []string{c19util.GenericPath(lx.Path), c19util.GenericPath(ly.Path)}, obs)
	}
	// (4) evidence: the equivocation test of the code itself (bft/evidence.go:92,225) - two votes for the same view
	// whose payloads differ must have different sign bytes
	if ev, ok := base.(*bft.DoubleSignEvidence); ok {
		for _, f := range []string{"block_hash", "results_hash", "proposer_key"} {
			a := proto.Clone(ev.VoteA).(*lib.QuorumCertificate)
			b := proto.Clone(a).(*lib.QuorumCertificate)
			for _, l := range c19util.Leaves(b.ProtoReflect(), 1) {
				if l.Path == f {
					c19util.Mutate(rng, l, nil)
				}
			}
			cand := &bft.DoubleSignEvidence{VoteA: a, VoteB: b}
			if proto.Equal(a, b) || cand.CheckBasic() != nil {
				continue
			}
			run.Count("inj_digest_pairs_compared", 1)
			run.Count("inj_pairs_evidence", 1)
			run.Distinct("inj/evidence/equivocation/" + f)
			if bytes.Equal(a.SignBytes(), b.SignBytes()) {
				viol(run, "digest-collision kind=evidence field=vote_b."+f+" fn=VoteSignBytes op=equivocation", name,
					map[string]any{"vote_a": fmt.Sprint(a), "vote_b": fmt.Sprint(b)})
			}
		}
	}
	run.Eval(1)
}

func injDigests(run *core.Run, e *env) {
	kinds := digestKinds(e)
	per := map[string]int{"tx": core.Pick(64, 2400), "vote": core.Pick(48, 1600), "qc": core.Pick(28, 1400), "evidence": core.Pick(10, 400), "partial-qc": core.Pick(20, 600)}
	type job struct {
		c    *kindCfg
		i    int
		name string
	}
	var jobs []job
	for _, c := range kinds {
		for i := 0; i < per[c.kind]; i++ {
			jobs = append(jobs, job{c, i, fmt.Sprintf("inj/%s/%d", c.kind, i)})
		}
	}
	obsAll := make([]map[string]int64, len(jobs))
	core.Parallel(len(jobs), func(j int) {
		if !run.Want(jobs[j].name) {
			return
		}
		obsAll[j] = map[string]int64{}
		digestCase(run, e, jobs[j].c, jobs[j].name, jobs[j].i, obsAll[j])
	})
	merged := map[string]int64{}
	for _, o := range obsAll {
		for k, v := range o {
			merged[k] += v
		}
	}
	// observation (not a violation): fields that are unsigned by design and whose change left the digest unchanged
	keys := c19util.SortedKeys(merged)
	if len(keys) > 60 {
		keys = keys[:60]
	}
	run.Extra("unsigned_by_design_fields_observed", keys)
	run.Count("inj_unsigned_by_design_field_kinds", int64(len(merged)))
	types := map[string]bool{}
	for i := 0; i < per["tx"]; i++ {
		types[e.msgNames[i%len(e.msgNames)]] = true
	}
	run.Count("inj_tx_message_types", int64(len(types)))
}

// ---------------------------------------------------------------------------------------------

func TestCheck(t *testing.T) {
	run := core.Start(t, "C19", "exploration",
		"distinct_nontrivial = distinct (kind, message class, digest function, changed field, pair operation) combinations for which two "+
			"semantically different objects were actually pushed through the real digest function, plus distinct (key constructor, component-shape) "+
			"classes whose keys were compared / read back through the real store, plus distinct (decode target, mutation operator) combinations "+
			"executed in child processes")
	defer run.Finish()
	run.MinDistinct = 400
	run.Assume("SHA-256 (crypto.Hash) is collision free: GetHash is judged on its pre-image, i.e. two different marshalled transactions are taken to hash differently")
	run.Assume("fields deliberately outside the sign bytes (not differences): tx: signature.*; QC: results, block, signature, and for phase ELECTION_VOTE " +
		"also block_hash/results_hash (certificate is minified; every consumer of the hashes requires a later phase); proposer message: signature, " +
		"qc.block, qc.results (bound by hashes), vdf; timestamp except in COMMIT and rcBuildHeight except in PROPOSE/PRECOMMIT (the only places they are read); " +
		"replica vote: signature, qc.block/results/signature, vrf, vdf, timestamp, high_qc and evidence attachments (self-authenticating), rcBuildHeight except in " +
		"ELECTION_VOTE; pacemaker message: everything but qc.header; evidence identity: vote block/results bodies")
	run.Assume("key components longer than 255 bytes are outside the property (JoinLenPrefix stores the length in one byte); nil components are skipped by " +
		"JoinLenPrefix by design (optional trailing parameters) so generated tuples use non-nil components only")
	run.Assume("the prefix range of the pure key monitor is [prefix, prefix||0xFF*257) as store/txn.go prefixEnd defines; the behavioural key monitor uses the real iterators instead")
	run.Assume("not judged, only counted (" + obsFF255 + "): a component of 255 bytes of 0xFF directly after an iteration prefix puts key||version-suffix at or beyond " +
		"prefixEnd(prefix) (store/txn.go:607-609 appends 257 x 0xFF) so prefix iteration skips the key while Get still finds it; no constructor of fsm/key.go or " +
		"store/indexer.go receives such a component from input that passed canopy's own validation (stored keys carry 20-byte addresses, 32-byte hashes, 20-byte order ids, 8-byte integers)")
	run.Assume("not judged, only counted (" + obsNested + "): when a stored key is a whole-segment extension of another stored key, seek-reverse iteration " +
		"(store/versioned_store.go:497-501) and the Txn merge iterator lose / duplicate entries; the only such pair in canopy's schema is the state-change journal " +
		"(marker and marker||stateKey, store/indexer.go:83-94), which is judged through Indexer.StateChangeKeys; synthetic nested universes are observation only")
	e := newEnv(false)
	stages := map[string]float64{}
	stage := func(name string, f func()) {
		t0 := time.Now()
		f()
		stages[name] = float64(int(time.Since(t0).Seconds()*10)) / 10
	}
	// the decode children run concurrently with the in-process monitors (they are separate processes)
	var wg sync.WaitGroup
	wg.Add(1)
	go func() { defer wg.Done(); stage("decode-children", func() { decodeChildren(run) }) }()
	stage("digests", func() { injDigests(run, e) })
	stage("keys-pure", func() { injKeys(run) })
	stage("keys-store", func() { storeKeys(run) })
	stage("keys-indexer", func() { indexerKeys(run) })
	stage("unknown-fields", func() { unknownFields(run) })
	wg.Wait()
	run.Extra("stage_seconds", stages) // informational only; no verdict depends on it
	if os.Getenv("VERIF_CASE") == "" {
		// every monitor must have looked at something, otherwise silence proves nothing
		for _, k := range []string{"inj_digest_pairs_compared", "inj_pairs_tx", "inj_pairs_vote", "inj_pairs_qc", "inj_pairs_evidence", "inj_pairs_partial-qc", "keys_built", "prefix_range_checks",
			"store_gets_compared", "store_iterations_compared", "indexer_queries_compared", "unknown_injections", "unknown_rejected", "oversize_cases",
			"dec_inputs_executed", "dec_decoded_ok", "dec_decode_rejected", "dec_checktx_accepted", "dec_bft_messages_accepted", "dec_qc_passed_check"} {
			if run.Counter(k) == 0 {
				run.Inconclusive("monitor counter %s is zero", k)
			}
		}
	}
}

// topSegs keeps the first n dotted segments of a path.
func topSegs(p string, n int) string {
	parts := strings.Split(p, ".")
	if len(parts) > n {
		parts = parts[:n]
	}
	return strings.Join(parts, ".")
}

func sortedInts(m map[int]bool) []int {
	var out []int
	for k := range m {
		out = append(out, k)
	}
	sort.Ints(out)
	return out
}

var digestSamples atomic.Int32

var sigLogMu sync.Mutex

// viol forwards to run.Violation; with C19_SIGLOG=<file> every signature is also appended to that file (triage aid).
func viol(run *core.Run, sig, caseName string, witness any) bool {
	if p := os.Getenv("C19_SIGLOG"); p != "" {
		sigLogMu.Lock()
		if f, err := os.OpenFile(p, os.O_CREATE|os.O_WRONLY|os.O_APPEND, 0o644); err == nil {
			fmt.Fprintf(f, "%s\t%s\n", sig, caseName)
			f.Close()
		}
		sigLogMu.Unlock()
	}
	if !strings.HasPrefix(caseName, "^") {
		caseName = "^" + regexp.QuoteMeta(caseName) + "$" // the driver uses the case name as a regular expression on replay
	}
	return run.Violation(sig, caseName, witness)
}
