package c19

// Environment shared by the C19 monitors: deterministic keys, a validator set, a real state machine
// built from a genesis file through fsm.New, a real bft.BFT with a passive controller, and the corpus of
// valid encoded messages that the structure-aware mutators start from.

import (
	"encoding/json"
	"fmt"
	"os"
	"path/filepath"
	"sort"
	"strings"
	"sync"
	"sync/atomic"

	"github.com/canopy-network/canopy/bft"
	"github.com/canopy-network/canopy/fsm"
	"github.com/canopy-network/canopy/lib"
	"github.com/canopy-network/canopy/lib/crypto"
	"github.com/canopy-network/canopy/p2p"
	"github.com/canopy-network/canopy/store"
	"google.golang.org/protobuf/proto"
	"google.golang.org/protobuf/reflect/protoreflect"
	"verif/c19util"
)

var blsHex = []string{
	"00453a101301cd7019b78ffa1186842dd93923e563b8ae22e2ab33ae889b23ee",
	"1b6b244fbdf614acb5f0d00a2b56ffcbe2aa23dabd66365dffcd3f06491ae50a",
	"2ee868f74134032eacba191ca529115c64aa849ac121b75ca79b37420a623036",
	"3e3ab94c10159d63a12cb26aca4b0e76070a987d49dd10fc5f526031e05801da",
}

const (
	envNetworkID = 1
	envChainID   = 1
)

// countingLogger counts the messages canopy logs at its own recover points.
type countingLogger struct {
	recovered atomic.Int64
	last      atomic.Value
}

func (l *countingLogger) note(s string) {
	if strings.Contains(s, "panic recovered") || strings.Contains(s, "goroutine ") {
		l.recovered.Add(1)
		if len(s) > 1500 {
			s = s[:1500]
		}
		l.last.Store(s)
	}
}
func (l *countingLogger) Debug(string)              {}
func (l *countingLogger) Info(string)               {}
func (l *countingLogger) Warn(string)               {}
func (l *countingLogger) Error(m string)            { l.note(m) }
func (l *countingLogger) Fatal(m string)            { panic("logger.Fatal: " + m) }
func (l *countingLogger) Print(string)              {}
func (l *countingLogger) Debugf(string, ...any)     {}
func (l *countingLogger) Infof(string, ...any)      {}
func (l *countingLogger) Warnf(string, ...any)      {}
func (l *countingLogger) Errorf(f string, a ...any) { l.note(fmt.Sprintf(f, a...)) }
func (l *countingLogger) Fatalf(f string, a ...any) { panic("logger.Fatalf: " + fmt.Sprintf(f, a...)) }
func (l *countingLogger) Printf(string, ...any)     {}

var _ lib.LoggerI = (*countingLogger)(nil)

// passiveController satisfies bft.Controller without doing anything; HandleMessage only needs locking,
// committee loading and a few parameters from it.
type passiveController struct {
	sync.Mutex
	vs      lib.ValidatorSet
	syncing atomic.Bool
}

func (c *passiveController) ChainHeight() uint64     { return 1 }
func (c *passiveController) RootChainHeight() uint64 { return 1 }
func (c *passiveController) ProduceProposal(*bft.ByzantineEvidence, *crypto.VDF) (uint64, []byte, *lib.CertificateResult, lib.ErrorI) {
	return 0, nil, nil, lib.ErrNilBlock()
}
func (c *passiveController) ValidateProposal(uint64, *lib.QuorumCertificate, *bft.ByzantineEvidence) (*lib.BlockResult, lib.ErrorI) {
	return nil, lib.ErrNilBlock()
}
func (c *passiveController) LoadCertificate(uint64) (*lib.QuorumCertificate, lib.ErrorI) {
	return nil, lib.ErrNilBlock()
}
func (c *passiveController) CommitCertificate(*lib.QuorumCertificate, *lib.Block, *lib.BlockResult, uint64) lib.ErrorI {
	return nil
}
func (c *passiveController) GossipBlock(*lib.QuorumCertificate, []byte, uint64) {}
func (c *passiveController) GossipConsensus(*bft.Message, []byte)               {}
func (c *passiveController) SelfSendBlock(*lib.QuorumCertificate, uint64)       {}
func (c *passiveController) SendToReplicas(lib.ValidatorSet, lib.Signable)      {}
func (c *passiveController) SendToProposer(lib.Signable)                        {}
func (c *passiveController) LoadRootChainId(uint64) uint64                      { return envChainID }
func (c *passiveController) LoadIsOwnRoot() bool                                { return true }
func (c *passiveController) Syncing() *atomic.Bool                              { return &c.syncing }
func (c *passiveController) ResetFSM()                                          {}
func (c *passiveController) SendCertificateResultsTx(*lib.QuorumCertificate)    {}
func (c *passiveController) LoadCommittee(uint64, uint64) (lib.ValidatorSet, lib.ErrorI) {
	return c.vs, nil
}
func (c *passiveController) LoadCommitteeData() (*lib.CommitteeData, lib.ErrorI) {
	return &lib.CommitteeData{}, nil
}
func (c *passiveController) LoadLastProposers(uint64) (*lib.Proposers, lib.ErrorI) {
	return &lib.Proposers{}, nil
}
func (c *passiveController) LoadMinimumEvidenceHeight(uint64, uint64) (*uint64, lib.ErrorI) {
	h := uint64(0)
	return &h, nil
}
func (c *passiveController) IsValidDoubleSigner(uint64, uint64, []byte) bool { return true }
func (c *passiveController) LoadMaxBlockSize() int                           { return lib.GlobalMaxBlockSize }

var _ bft.Controller = (*passiveController)(nil)

type env struct {
	keys  []crypto.PrivateKeyI
	addrs [][]byte
	vs    lib.ValidatorSet
	view  *lib.View
	log   *countingLogger
	sm    *fsm.StateMachine
	bft   *bft.BFT
	dir   string
	// corpus: target name -> valid encodings
	corpus map[string][][]byte
	// message types registered by the state machine, sorted by name
	msgNames []string
}

func must[T any](v T, err error) T {
	if err != nil {
		panic(err)
	}
	return v
}

func mustE[T any](v T, err lib.ErrorI) T {
	if err != nil {
		panic(err)
	}
	return v
}

func newEnv(withFSM bool) *env {
	e := &env{log: &countingLogger{}, corpus: map[string][][]byte{}}
	for _, h := range blsHex {
		k := must(crypto.StringToBLS12381PrivateKey(h))
		e.keys = append(e.keys, k)
		e.addrs = append(e.addrs, k.PublicKey().Address().Bytes())
	}
	cv := &lib.ConsensusValidators{}
	for i, k := range e.keys {
		cv.ValidatorSet = append(cv.ValidatorSet, &lib.ConsensusValidator{
			PublicKey: k.PublicKey().Bytes(), VotingPower: 1000000 + uint64(i), NetAddress: fmt.Sprintf("tcp://n%d", i)})
	}
	e.vs = mustE(lib.NewValidatorSet(cv))
	e.view = &lib.View{NetworkId: envNetworkID, ChainId: envChainID, Height: 1, RootHeight: 1}
	for name := range lib.RegisteredMessages {
		e.msgNames = append(e.msgNames, name)
	}
	sort.Strings(e.msgNames)
	if withFSM {
		e.buildFSM()
		e.buildBFT()
	}
	return e
}

func (e *env) close() {
	if e.dir != "" {
		_ = os.RemoveAll(e.dir)
	}
}

func (e *env) config() lib.Config {
	cfg := lib.DefaultConfig()
	cfg.DataDirPath = e.dir
	cfg.NetworkID = envNetworkID
	cfg.ChainId = envChainID
	cfg.RunVDF = false
	cfg.StoreConfig.LSSCompactionInterval = 0
	return cfg
}

// buildFSM constructs a real state machine the way a node does: fsm.New over an empty store reads genesis.json.
func (e *env) buildFSM() {
	e.dir = must(os.MkdirTemp(os.Getenv("C19_DIR"), "c19-env-"))
	gs := &fsm.GenesisState{Time: 1, Params: fsm.DefaultParams()}
	for i, k := range e.keys {
		gs.Accounts = append(gs.Accounts, &fsm.Account{Address: e.addrs[i], Amount: 1_000_000_000_000})
		gs.Validators = append(gs.Validators, &fsm.Validator{
			Address: e.addrs[i], PublicKey: k.PublicKey().Bytes(), NetAddress: fmt.Sprintf("tcp://n%d", i),
			StakedAmount: 1_000_000_000, Committees: []uint64{envChainID}, Output: e.addrs[i],
		})
	}
	bz := must(json.Marshal(gs))
	if err := os.WriteFile(filepath.Join(e.dir, lib.GenesisFilePath), bz, 0o644); err != nil {
		panic(err)
	}
	cfg := e.config()
	st := mustE(store.NewStoreInMemory(e.log, cfg))
	e.sm = mustE(fsm.New(cfg, st, nil, nil, e.log))
}

func (e *env) buildBFT() {
	cfg := e.config()
	con := &passiveController{vs: e.vs}
	b := mustE(bft.New(cfg, e.keys[0], 1, 1, con, false, nil, e.log))
	b.ValidatorSet = e.vs
	b.CommitteeData = &lib.CommitteeData{}
	e.bft = b
}

// aggregate signs sb with the first n validators and returns the aggregate signature.
func (e *env) aggregate(sb []byte, n int) *lib.AggregateSignature {
	mk := e.vs.MultiKey.Copy()
	for i := 0; i < n; i++ {
		if err := mk.AddSigner(e.keys[i].Sign(sb), i); err != nil {
			panic(err)
		}
	}
	return &lib.AggregateSignature{Signature: must(mk.AggregateSignatures()), Bitmap: mk.Bitmap()}
}

func mb(m proto.Message) []byte { return mustE(lib.Marshal(m)) }

// buildCorpus creates valid, correctly signed instances of every network-facing message type.
func (e *env) buildCorpus() {
	add := func(target string, m proto.Message) { e.corpus[target] = append(e.corpus[target], mb(m)) }
	k0, a0, a1 := e.keys[0], e.addrs[0], e.addrs[1]
	h32 := func(s string) []byte { return crypto.Hash([]byte(s)) }
	// --- transactions (every exported constructor) ---
	var txs []lib.TransactionI
	tx := func(t lib.TransactionI, err lib.ErrorI) {
		if err != nil {
			panic(err)
		}
		txs = append(txs, t)
	}
	fee, h := uint64(100000), uint64(1)
	tx(fsm.NewSendTransaction(k0, crypto.NewAddress(a1), 10, envNetworkID, envChainID, fee, h, "memo"))
	tx(fsm.NewSendTransactionWithVesting(k0, crypto.NewAddress(a1), 10, 2, 3, 9, envNetworkID, envChainID, fee, h, ""))
	tx(fsm.NewStakeTx(k0, k0.PublicKey().Bytes(), crypto.NewAddress(a0), "tcp://x", []uint64{1, 2}, 1000, envNetworkID, envChainID, fee, h, false, true, ""))
	tx(fsm.NewEditStakeTx(k0, crypto.NewAddress(a0), crypto.NewAddress(a0), "tcp://y", []uint64{1}, 2_000_000_000, envNetworkID, envChainID, fee, h, false, ""))
	tx(fsm.NewUnstakeTx(k0, crypto.NewAddress(a0), envNetworkID, envChainID, fee, h, ""))
	tx(fsm.NewPauseTx(k0, crypto.NewAddress(a0), envNetworkID, envChainID, fee, h, ""))
	tx(fsm.NewUnpauseTx(k0, crypto.NewAddress(a0), envNetworkID, envChainID, fee, h, ""))
	tx(fsm.NewChangeParamTxUint64(k0, fsm.ParamSpaceFee, "sendFee", 7, 1, 100, envNetworkID, envChainID, fee, h, ""))
	tx(fsm.NewChangeParamTxString(k0, fsm.ParamSpaceCons, "protocolVersion", "1/2", 1, 100, envNetworkID, envChainID, fee, h, ""))
	tx(fsm.NewDAOTransferTx(k0, 5, 1, 100, envNetworkID, envChainID, fee, h, false, ""))
	tx(fsm.NewSubsidyTx(k0, 5, 1, []byte("op"), envNetworkID, envChainID, fee, h, ""))
	tx(fsm.NewCreateOrderTx(k0, 10, 20, 2, []byte("d"), a1, envNetworkID, envChainID, fee, h, ""))
	tx(fsm.NewEditOrderTx(k0, lib.BytesToString(h32("o")[:20]), 10, 20, 2, nil, a1, envNetworkID, envChainID, fee, h, ""))
	tx(fsm.NewDeleteOrderTx(k0, lib.BytesToString(h32("o")[:20]), 2, envNetworkID, envChainID, fee, h, ""))
	tx(fsm.NewDexLimitOrder(k0, 10, 5, 2, envNetworkID, envChainID, fee, h, ""))
	tx(fsm.NewDexLiquidityDeposit(k0, 10, 2, envNetworkID, envChainID, fee, h, ""))
	tx(fsm.NewDexLiquidityWithdraw(k0, 50, 2, envNetworkID, envChainID, fee, h, ""))
	var txBytes [][]byte
	for _, t := range txs {
		add("Transaction", t)
		txBytes = append(txBytes, mb(t))
	}
	// --- block + certificates ---
	results := &lib.CertificateResult{
		RewardRecipients: &lib.RewardRecipients{PaymentPercents: []*lib.PaymentPercents{{Address: a0, Percent: 100, ChainId: envChainID}}},
		SlashRecipients:  &lib.SlashRecipients{DoubleSigners: []*lib.DoubleSigner{{Id: e.keys[1].PublicKey().Bytes(), Heights: []uint64{1}}}},
		Orders:           &lib.Orders{LockOrders: []*lib.LockOrder{{OrderId: h32("o")[:20], ChainId: 2, BuyerReceiveAddress: a1, BuyerSendAddress: a0, BuyerChainDeadline: 99}}, ResetOrders: [][]byte{h32("r")[:20]}, CloseOrders: [][]byte{h32("c")[:20]}},
		Checkpoint:       &lib.Checkpoint{Height: 1, BlockHash: h32("cp")},
	}
	e.corpus["CertificateResult"] = append(e.corpus["CertificateResult"], mb(results))
	mkQC := func(phase lib.Phase, round uint64, blk *lib.Block, withBodies bool, signers int) *lib.QuorumCertificate {
		qc := &lib.QuorumCertificate{Header: &lib.View{NetworkId: envNetworkID, ChainId: envChainID, Height: 1, RootHeight: 1, Round: round, Phase: phase}}
		if phase == lib.Phase_ELECTION_VOTE {
			qc.ProposerKey = e.keys[0].PublicKey().Bytes()
		} else {
			bb := mb(blk)
			qc.BlockHash = mustE(new(lib.Block).BytesToBlockHash(bb))
			qc.ResultsHash = results.Hash()
			if withBodies {
				qc.Block, qc.Results = bb, results
			}
		}
		qc.Signature = e.aggregate(qc.SignBytes(), signers)
		return qc
	}
	hdr := &lib.BlockHeader{Height: 1, NetworkId: envNetworkID, Time: 1700000000000000, NumTxs: uint64(len(txBytes)), TotalTxs: uint64(len(txBytes)),
		LastBlockHash: h32("lb"), StateRoot: h32("sr"), TransactionRoot: h32("tr"), ValidatorRoot: h32("vr"), NextValidatorRoot: h32("nvr"),
		ProposerAddress: a0, Vdf: &crypto.VDF{Proof: []byte("p"), Output: []byte("o"), Iterations: 3}}
	blk := &lib.Block{BlockHeader: hdr, Transactions: txBytes}
	_ = mustE(blk.Hash())
	lastQC := mkQC(lib.Phase_PRECOMMIT_VOTE, 0, blk, false, 3)
	hdr2 := proto.Clone(hdr).(*lib.BlockHeader)
	hdr2.Height, hdr2.LastQuorumCertificate, hdr2.Hash = 2, lastQC, nil
	blk2 := &lib.Block{BlockHeader: hdr2, Transactions: txBytes[:3]}
	_ = mustE(blk2.Hash())
	add("Block", blk)
	add("Block", blk2)
	add("Block", &lib.Block{BlockHeader: &lib.BlockHeader{Height: 1}})
	qcEV := mkQC(lib.Phase_ELECTION_VOTE, 0, nil, false, 3)
	qcPV := mkQC(lib.Phase_PROPOSE_VOTE, 0, blk, true, 3)
	qcPCV := mkQC(lib.Phase_PRECOMMIT_VOTE, 0, blk, true, 3)
	qcPartial := mkQC(lib.Phase_PRECOMMIT_VOTE, 0, blk2, false, 1)
	for _, q := range []*lib.QuorumCertificate{qcEV, qcPV, qcPCV, qcPartial, lastQC} {
		add("QuorumCertificate", q)
	}
	add("BlockMessage", &lib.BlockMessage{ChainId: envChainID, MaxHeight: 1, TotalVdfIterations: 3, BlockAndCertificate: qcPCV, Time: 1700000000000000})
	add("BlockMessage", &lib.BlockMessage{ChainId: envChainID, MaxHeight: 9})
	add("TxMessage", &lib.TxMessage{ChainId: envChainID, Txs: txBytes})
	add("TxMessage", &lib.TxMessage{ChainId: envChainID, Txs: txBytes[:1]})
	add("BlockRequestMessage", &lib.BlockRequestMessage{ChainId: envChainID, Height: 1, HeightOnly: true})
	// --- evidence ---
	dse := &bft.DoubleSignEvidence{VoteA: mkQC(lib.Phase_PRECOMMIT_VOTE, 0, blk, false, 3), VoteB: mkQC(lib.Phase_PRECOMMIT_VOTE, 0, blk2, false, 2)}
	add("DoubleSignEvidence", dse)
	// --- consensus messages ---
	sign := func(m *bft.Message, k crypto.PrivateKeyI) *bft.Message {
		if err := m.Sign(k); err != nil {
			panic(err)
		}
		return m
	}
	view := func(p lib.Phase) *lib.View {
		return &lib.View{NetworkId: envNetworkID, ChainId: envChainID, Height: 1, RootHeight: 1, Round: 0, Phase: p}
	}
	vrf := &lib.Signature{PublicKey: k0.PublicKey().Bytes(), Signature: k0.Sign([]byte("vrf-seed"))}
	add("bft.Message", sign(&bft.Message{Header: view(lib.Phase_ELECTION), Vrf: vrf}, k0))
	qcForPropose := proto.Clone(qcEV).(*lib.QuorumCertificate)
	bb := mb(blk)
	qcForPropose.Block, qcForPropose.Results = bb, results
	qcForPropose.BlockHash, qcForPropose.ResultsHash = mustE(new(lib.Block).BytesToBlockHash(bb)), results.Hash()
	add("bft.Message", sign(&bft.Message{Header: view(lib.Phase_PROPOSE), Qc: qcForPropose, HighQc: qcPV, LastDoubleSignEvidence: []*bft.DoubleSignEvidence{dse}, RcBuildHeight: 1}, k0))
	add("bft.Message", sign(&bft.Message{Header: view(lib.Phase_PRECOMMIT), Qc: qcPV, RcBuildHeight: 1}, k0))
	add("bft.Message", sign(&bft.Message{Header: view(lib.Phase_COMMIT), Qc: qcPCV, Timestamp: 1700000000000000}, k0))
	add("bft.Message", sign(&bft.Message{Qc: &lib.QuorumCertificate{Header: view(lib.Phase_ELECTION_VOTE), ProposerKey: k0.PublicKey().Bytes()},
		HighQc: qcPV, LastDoubleSignEvidence: []*bft.DoubleSignEvidence{dse}, Vdf: &crypto.VDF{Proof: []byte("p"), Output: []byte("o"), Iterations: 3}, RcBuildHeight: 1}, e.keys[1]))
	add("bft.Message", sign(&bft.Message{Qc: &lib.QuorumCertificate{Header: view(lib.Phase_PROPOSE_VOTE), BlockHash: qcPV.BlockHash, ResultsHash: qcPV.ResultsHash, ProposerKey: k0.PublicKey().Bytes()}}, e.keys[2]))
	add("bft.Message", sign(&bft.Message{Qc: &lib.QuorumCertificate{Header: view(lib.Phase_PRECOMMIT_VOTE), BlockHash: qcPV.BlockHash, ResultsHash: qcPV.ResultsHash, ProposerKey: k0.PublicKey().Bytes()}}, e.keys[3]))
	add("bft.Message", sign(&bft.Message{Qc: &lib.QuorumCertificate{Header: view(lib.Phase_ROUND_INTERRUPT)}}, e.keys[1]))
	// --- p2p ---
	pkt := &p2p.Packet{StreamId: lib.Topic_CONSENSUS, Eof: true, Bytes: e.corpus["bft.Message"][0]}
	add("Packet", pkt)
	add("Packet", &p2p.Packet{StreamId: lib.Topic_TX, Eof: false, Bytes: []byte{1, 2, 3}})
	add("Envelope", &p2p.Envelope{Payload: mustE(lib.NewAny(pkt))})
	pa := &lib.PeerAddress{PublicKey: k0.PublicKey().Bytes(), NetAddress: "tcp://n0", PeerMeta: &lib.PeerMeta{NetworkId: envNetworkID, ChainId: envChainID, Signature: k0.Sign([]byte("meta"))}}
	add("PeerInfo", &lib.PeerInfo{Address: pa, IsOutbound: true, IsMustConnect: true, IsTrusted: true, Reputation: 3})
	add("PeerBookResponseMessage", &p2p.PeerBookResponseMessage{Book: []*p2p.BookPeer{{Address: pa, ConsecutiveFailedDial: 1}}})
	add("Envelope", &p2p.Envelope{Payload: mustE(lib.NewAny(&p2p.PeerBookResponseMessage{Book: []*p2p.BookPeer{{Address: pa}}}))})
	add("Node", &lib.Node{Value: h32("v"), LeftChildKey: []byte{1, 0}, RightChildKey: []byte{1, 1}})
}

// targets lists the decode targets: name, constructor, and whether lib.Unmarshal treats the type as critical.
type target struct {
	name     string
	newMsg   func() proto.Message
	critical bool
}

func decodeTargets() []target {
	return []target{
		{"Block", func() proto.Message { return new(lib.Block) }, true},
		{"Transaction", func() proto.Message { return new(lib.Transaction) }, true},
		{"QuorumCertificate", func() proto.Message { return new(lib.QuorumCertificate) }, true},
		{"BlockMessage", func() proto.Message { return new(lib.BlockMessage) }, false},
		{"TxMessage", func() proto.Message { return new(lib.TxMessage) }, false},
		{"bft.Message", func() proto.Message { return new(bft.Message) }, false},
		{"DoubleSignEvidence", func() proto.Message { return new(bft.DoubleSignEvidence) }, false},
		{"Envelope", func() proto.Message { return new(p2p.Envelope) }, false},
		{"Packet", func() proto.Message { return new(p2p.Packet) }, false},
		{"PeerInfo", func() proto.Message { return new(lib.PeerInfo) }, false},
		{"PeerBookResponseMessage", func() proto.Message { return new(p2p.PeerBookResponseMessage) }, false},
		{"BlockRequestMessage", func() proto.Message { return new(lib.BlockRequestMessage) }, false},
		{"CertificateResult", func() proto.Message { return new(lib.CertificateResult) }, false},
		{"Node", func() proto.Message { return new(lib.Node) }, false},
	}
}

// anyPool returns the message types that may be placed in Any fields by the random populator.
func (e *env) anyPool() c19util.AnyPool {
	var p c19util.AnyPool
	for _, n := range e.msgNames {
		p = append(p, lib.RegisteredMessages[n].ProtoReflect().Type())
	}
	return p
}

func mdOf(m proto.Message) protoreflect.MessageDescriptor { return m.ProtoReflect().Descriptor() }
