package c19

// A2. composite store keys: injectivity of every constructor, prefix ranges, and the version suffix.

import (
	"bytes"
	"encoding/binary"
	"encoding/hex"
	"fmt"
	"math"
	"math/rand"
	"sort"
	"strings"
	"sync"

	"github.com/canopy-network/canopy/fsm"
	"github.com/canopy-network/canopy/lib"
	"github.com/canopy-network/canopy/lib/crypto"
	"github.com/canopy-network/canopy/store"
	"verif/core"
)

// ---------- hostile component generator ----------

var compLens = []int{0, 0, 1, 1, 2, 7, 8, 9, 19, 20, 20, 21, 31, 32, 33, 63, 64, 127, 128, 200, 253, 254, 255, 255}

// hostileComp returns a non-nil component of length 0..maxLen.
func hostileComp(rng *rand.Rand, maxLen int, pool [][]byte) []byte {
	n := compLens[rng.Intn(len(compLens))]
	if rng.Intn(4) == 0 {
		n = rng.Intn(256)
	}
	if n > maxLen {
		n = maxLen
	}
	b := make([]byte, n)
	switch rng.Intn(9) {
	case 0: // 0xFF run
		for i := range b {
			b[i] = 0xFF
		}
	case 1: // 0xFF run with a non-0xFF tail (sorts just below the all-0xFF string)
		for i := range b {
			b[i] = 0xFF
		}
		for i := n - 1 - rng.Intn(n/2+1); i >= 0 && i < n; i++ {
			b[i] = byte(rng.Intn(256))
		}
	case 2: // zeros
	case 3: // looks like a sequence of length-prefixed segments itself
		for i := 0; i < n; {
			l := rng.Intn(4)
			b[i] = byte(l)
			i += 1 + l
		}
	case 4: // first byte is the length of the rest (embedded length byte)
		if n > 0 {
			b[0] = byte(n - 1)
			for i := 1; i < n; i++ {
				b[i] = byte(rng.Intn(256))
			}
		}
	case 5: // extension / truncation of an earlier component (prefix relations)
		if len(pool) > 0 {
			src := pool[rng.Intn(len(pool))]
			b = append([]byte{}, src...)
			if rng.Intn(2) == 0 && len(b) < maxLen {
				b = append(b, byte(rng.Intn(256)))
			} else if len(b) > 0 {
				b = b[:len(b)-1]
			}
			if len(b) > maxLen {
				b = b[:maxLen]
			}
		}
	case 6: // version-suffix look-alike: ends with 8 bytes that read like an inverted small version
		rng.Read(b)
		if n >= 8 {
			binary.BigEndian.PutUint64(b[n-8:], ^uint64(rng.Intn(4)))
		}
	default:
		rng.Read(b)
	}
	return b
}

var hostileU64 = []uint64{0, 1, 2, 255, 256, 65535, 1 << 32, 1<<56 - 1, 1 << 56, math.MaxUint64 - 1, math.MaxUint64, 0x0101010101010101, 0x0801010101010101}

func hostileUint(rng *rand.Rand) uint64 {
	if rng.Intn(3) == 0 {
		return rng.Uint64()
	}
	return hostileU64[rng.Intn(len(hostileU64))]
}

func be(u uint64) []byte { b := make([]byte, 8); binary.BigEndian.PutUint64(b, u); return b }

// ---------- constructor table ----------

type comp struct {
	isU bool
	u   uint64
	b   []byte
}

func (c comp) String() string {
	if c.isU {
		return fmt.Sprintf("u%d", c.u)
	}
	return "b" + hex.EncodeToString(c.b)
}

type pfxRel struct {
	name  string
	n     int // number of leading components the prefix is built from
	build func(c []comp) []byte
}

type keyCtor struct {
	name     string
	shape    string // 'U' = uint64 component, 'B' = byte-string component
	build    func(c []comp) []byte
	prefixes []pfxRel
	raw      bool // lib.JoinLenPrefix itself (kept out of the cross-constructor map)
}

func addr(c comp) crypto.AddressI { return crypto.NewAddress(c.b) }

func keyCtors() []keyCtor {
	c0 := func(f func() []byte) func([]comp) []byte { return func([]comp) []byte { return f() } }
	cs := []keyCtor{
		{name: "KeyForAccount", shape: "B", build: func(c []comp) []byte { return fsm.KeyForAccount(addr(c[0])) },
			prefixes: []pfxRel{{"AccountPrefix", 0, c0(fsm.AccountPrefix)}}},
		{name: "KeyForValidator", shape: "B", build: func(c []comp) []byte { return fsm.KeyForValidator(addr(c[0])) },
			prefixes: []pfxRel{{"ValidatorPrefix", 0, c0(fsm.ValidatorPrefix)}}},
		{name: "KeyForNonSigner", shape: "B", build: func(c []comp) []byte { return fsm.KeyForNonSigner(c[0].b) },
			prefixes: []pfxRel{{"NonSignerPrefix", 0, c0(fsm.NonSignerPrefix)}}},
		{name: "KeyForPool", shape: "U", build: func(c []comp) []byte { return fsm.KeyForPool(c[0].u) },
			prefixes: []pfxRel{{"PoolPrefix", 0, c0(fsm.PoolPrefix)}}},
		{name: "KeyForUnstaking", shape: "UB", build: func(c []comp) []byte { return fsm.KeyForUnstaking(c[0].u, addr(c[1])) },
			prefixes: []pfxRel{{"UnstakingPrefix", 1, func(c []comp) []byte { return fsm.UnstakingPrefix(c[0].u) }}}},
		{name: "KeyForPaused", shape: "UB", build: func(c []comp) []byte { return fsm.KeyForPaused(c[0].u, addr(c[1])) },
			prefixes: []pfxRel{{"PausedPrefix", 1, func(c []comp) []byte { return fsm.PausedPrefix(c[0].u) }}}},
		{name: "KeyForCommittee", shape: "UUB", build: func(c []comp) []byte { return fsm.KeyForCommittee(c[0].u, addr(c[2]), c[1].u) },
			prefixes: []pfxRel{{"CommitteePrefix", 1, func(c []comp) []byte { return fsm.CommitteePrefix(c[0].u) }}}},
		{name: "KeyForDelegate", shape: "UUB", build: func(c []comp) []byte { return fsm.KeyForDelegate(c[0].u, addr(c[2]), c[1].u) },
			prefixes: []pfxRel{{"DelegatePrefix", 1, func(c []comp) []byte { return fsm.DelegatePrefix(c[0].u) }}}},
		{name: "KeyForRetiredCommittee", shape: "U", build: func(c []comp) []byte { return fsm.KeyForRetiredCommittee(c[0].u) },
			prefixes: []pfxRel{{"RetiredCommitteesPrefix", 0, c0(fsm.RetiredCommitteesPrefix)}}},
		{name: "KeyForOrder", shape: "UB", build: func(c []comp) []byte { return fsm.KeyForOrder(c[0].u, c[1].b) },
			prefixes: []pfxRel{{"OrderBookPrefix", 1, func(c []comp) []byte { return fsm.OrderBookPrefix(c[0].u) }}}},
		{name: "KeyForLockedBatch", shape: "U", build: func(c []comp) []byte { return fsm.KeyForLockedBatch(c[0].u) }},
		{name: "KeyForNextBatch", shape: "U", build: func(c []comp) []byte { return fsm.KeyForNextBatch(c[0].u) }},
		{name: "KeyForParams", shape: "P", build: func(c []comp) []byte { return fsm.KeyForParams(string(c[0].b)) }},
		{name: "SupplyPrefix", shape: "", build: c0(fsm.SupplyPrefix)},
		{name: "LastProposersPrefix", shape: "", build: c0(fsm.LastProposersPrefix)},
		{name: "CommitteesDataPrefix", shape: "", build: c0(fsm.CommitteesDataPrefix)},
	}
	for n := 1; n <= 4; n++ {
		n := n
		join := func(c []comp) []byte {
			parts := make([][]byte, len(c))
			for i := range c {
				parts[i] = c[i].b
			}
			return lib.JoinLenPrefix(parts...)
		}
		k := keyCtor{name: fmt.Sprintf("JoinLenPrefix/%d", n), shape: strings.Repeat("B", n), build: join, raw: true}
		for m := 1; m < n; m++ {
			m := m
			k.prefixes = append(k.prefixes, pfxRel{fmt.Sprintf("JoinLenPrefix/%d", m), m, func(c []comp) []byte { return join(c[:m]) }})
		}
		cs = append(cs, k)
	}
	return cs
}

var paramSpaces = []string{fsm.ParamSpaceCons, fsm.ParamSpaceVal, fsm.ParamSpaceFee, fsm.ParamSpaceGov}

func genTuple(rng *rand.Rand, shape string, maxLen int, pool [][]byte) []comp {
	t := make([]comp, len(shape))
	for i, s := range shape {
		switch s {
		case 'U':
			t[i] = comp{isU: true, u: hostileUint(rng)}
		case 'P':
			t[i] = comp{b: []byte(paramSpaces[rng.Intn(len(paramSpaces))])}
		default:
			t[i] = comp{b: hostileComp(rng, maxLen, pool)}
		}
	}
	return t
}

// perturb derives a near-miss tuple from t: bytes moved across a component boundary, a component extended by what
// the encoding of the next one starts with, components swapped.
func perturb(rng *rand.Rand, shape string, t []comp, maxLen int) []comp {
	o := make([]comp, len(t))
	for i := range t {
		o[i] = comp{isU: t[i].isU, u: t[i].u, b: append([]byte{}, t[i].b...)}
	}
	var bi []int
	for i, s := range shape {
		if s == 'B' {
			bi = append(bi, i)
		}
	}
	switch op := rng.Intn(5); {
	case op == 0 && len(bi) >= 2: // move a byte across the boundary of two adjacent byte components
		x := rng.Intn(len(bi) - 1)
		a, b := bi[x], bi[x+1]
		if len(o[a].b) > 0 && len(o[b].b) < maxLen {
			o[b].b = append([]byte{o[a].b[len(o[a].b)-1]}, o[b].b...)
			o[a].b = o[a].b[:len(o[a].b)-1]
		} else if len(o[b].b) > 0 && len(o[a].b) < maxLen {
			o[a].b = append(o[a].b, o[b].b[0])
			o[b].b = o[b].b[1:]
		}
	case op == 1 && len(bi) >= 2: // absorb the following component including its would-be length byte
		x := rng.Intn(len(bi) - 1)
		a, b := bi[x], bi[x+1]
		ext := append(append(append([]byte{}, o[a].b...), byte(len(o[b].b))), o[b].b...)
		if len(ext) <= maxLen {
			o[a].b, o[b].b = ext, []byte{}
		}
	case op == 2 && len(bi) >= 2: // swap
		x, y := bi[rng.Intn(len(bi))], bi[rng.Intn(len(bi))]
		o[x].b, o[y].b = o[y].b, o[x].b
	case op == 3 && len(bi) >= 1: // extend / truncate by one byte
		x := bi[rng.Intn(len(bi))]
		if rng.Intn(2) == 0 && len(o[x].b) < maxLen {
			o[x].b = append(o[x].b, []byte{0x00, 0xFF, byte(len(o[x].b))}[rng.Intn(3)])
		} else if len(o[x].b) > 0 {
			o[x].b = o[x].b[:len(o[x].b)-1]
		}
	default: // neighbouring integer / one flipped byte
		x := rng.Intn(len(o))
		if o[x].isU {
			o[x].u += uint64(1) << uint(8*rng.Intn(8))
		} else if len(o[x].b) > 0 && shape[x] == 'B' {
			o[x].b[rng.Intn(len(o[x].b))] ^= 1 << uint(rng.Intn(8))
		}
	}
	return o
}

func tupleID(t []comp) string {
	s := make([]string, len(t))
	for i := range t {
		s[i] = t[i].String()
	}
	return strings.Join(s, ",")
}

func leadEqual(a, b []comp, n int) bool {
	for i := 0; i < n; i++ {
		if a[i].isU != b[i].isU || a[i].u != b[i].u || !bytes.Equal(a[i].b, b[i].b) {
			return false
		}
	}
	return true
}

var ff257 = bytes.Repeat([]byte{0xFF}, 257)

// observation counters for the two latent store behaviours that canopy's own key schema cannot reach (see run.Assume)
const (
	obsFF255  = "obs_ff255_component_escapes_prefix_range"
	obsNested = "obs_nested_extension_key_iteration_anomalies"
)

func inRange(prefix, versionedKey []byte) bool {
	return bytes.Compare(versionedKey, prefix) >= 0 && bytes.Compare(versionedKey, append(append([]byte{}, prefix...), ff257...)) < 0
}

// ffRun256 reports whether b starts with 256 bytes of 0xFF (a 255-byte all-0xFF segment including its length byte).
func ffRun256(b []byte) bool {
	return len(b) >= 256 && bytes.Equal(b[:256], ff257[:256])
}

// hasFFRun256 reports whether b contains 256 consecutive 0xFF bytes.
func hasFFRun256(b []byte) bool { return bytes.Contains(b, ff257[:256]) }

func isFF255(b []byte) bool {
	if len(b) != 255 {
		return false
	}
	for _, x := range b {
		if x != 0xFF {
			return false
		}
	}
	return true
}

var suffixVersions = []uint64{1, 2, 3, 300, 1 << 32, 1<<56 - 1, 1 << 56, 1 << 63, math.MaxUint64 - 1, math.MaxUint64}

// injKeys: pure monitor over the real constructors.
func injKeys(run *core.Run) {
	ctors := keyCtors()
	nPer := core.Pick(2500, 120000)
	type rec struct{ ctor, id string }
	shards := 8
	core.Parallel(len(ctors)*shards, func(j int) {
		c, shard := ctors[j/shards], j%shards
		name := fmt.Sprintf("keys/%s/%d", c.name, shard)
		if !run.Want(name) {
			return
		}
		rng := run.Rand(name)
		seen := map[string]string{} // key bytes -> tuple id
		var tuples [][]comp
		var pool [][]byte
		n := nPer / shards
		if c.shape == "" {
			n = 1
		}
		if c.shape == "P" {
			n = 8
		}
		for i := 0; i < n; i++ {
			var t []comp
			if len(tuples) > 0 && rng.Intn(2) == 0 {
				t = perturb(rng, c.shape, tuples[rng.Intn(len(tuples))], 255)
			} else {
				t = genTuple(rng, c.shape, 255, pool)
			}
			for _, x := range t {
				if !x.isU && len(pool) < 64 {
					pool = append(pool, x.b)
				}
			}
			id := tupleID(t)
			key := c.build(t)
			run.Count("keys_built", 1)
			if prev, ok := seen[string(key)]; ok {
				if prev != id {
					viol(run, "key-collision constructor="+c.name, name, map[string]any{"key": hex.EncodeToString(key), "tuple_a": prev, "tuple_b": id})
				}
				continue
			}
			seen[string(key)] = id
			if len(tuples) < 4000 {
				tuples = append(tuples, t)
			}
			// shape class of the tuple for the coverage measure: component length classes
			cls := ""
			for _, x := range t {
				switch {
				case x.isU:
					cls += "u"
				case len(x.b) == 0:
					cls += "0"
				case len(x.b) == 255:
					cls += "M"
				case len(x.b) < 32:
					cls += "s"
				default:
					cls += "l"
				}
			}
			run.Distinct("keys/" + c.name + "/" + cls)
			if i == 3 && shard == 0 && (c.name == "KeyForCommittee" || c.name == "JoinLenPrefix/3") {
				run.Sample(map[string]any{"monitor": "key-injectivity", "constructor": c.name, "tuple": id, "key": core.Hex(key)})
			}
			// the key must decode back to its own components (no other tuple can then encode to it)
			for _, p := range c.prefixes {
				own := p.build(t)
				for _, v := range suffixVersions {
					vk := append(append([]byte{}, key...), be(^v)...)
					run.Count("prefix_range_checks", 1)
					if !inRange(own, vk) {
						first := t[p.n]
						if !first.isU && isFF255(first.b) {
							run.Count(obsFF255, 1) // see run.Assume: needs a 255-byte all-0xFF component, which no validated input provides
							break
						}
						viol(run, fmt.Sprintf("prefix-range-escape constructor=%s prefix=%s layer=pure", c.name, p.name), name,
							map[string]any{"key": hex.EncodeToString(key), "prefix": hex.EncodeToString(own), "version": v, "tuple": id})
						break
					}
				}
				// a prefix built from different leading components must not contain the key
				if p.n > 0 && len(tuples) > 1 {
					o := tuples[rng.Intn(len(tuples))]
					if !leadEqual(o, t, p.n) {
						foreign := p.build(o)
						for _, v := range suffixVersions {
							vk := append(append([]byte{}, key...), be(^v)...)
							run.Count("prefix_range_checks", 1)
							if inRange(foreign, vk) {
								viol(run, fmt.Sprintf("prefix-range-overlap constructor=%s prefix=%s layer=pure", c.name, p.name), name,
									map[string]any{"key": hex.EncodeToString(key), "foreign_prefix": hex.EncodeToString(foreign), "version": v, "tuple": id, "prefix_tuple": tupleID(o[:p.n])})
								break
							}
						}
					}
				}
			}
		}
		run.Eval(1)
	})
	// cross-constructor: keys of different fsm constructors never coincide, and no stored key of one class lies in the
	// iteration range of another class's prefix
	name := "keys/cross"
	if run.Want(name) {
		rng := run.Rand(name)
		seen := map[string]rec{}
		type pk struct {
			name string
			p    []byte
		}
		var prefixes []pk
		var keys []struct {
			rec
			k []byte
			t []comp
		}
		for _, c := range ctors {
			if c.raw {
				continue
			}
			n := core.Pick(400, 6000)
			if c.shape == "" {
				n = 1
			}
			for i := 0; i < n; i++ {
				t := genTuple(rng, c.shape, 255, nil)
				k := c.build(t)
				r := rec{c.name, tupleID(t)}
				if prev, ok := seen[string(k)]; ok && prev != r {
					viol(run, "key-collision constructor="+prev.ctor+"/"+c.name, name, map[string]any{"key": hex.EncodeToString(k), "a": prev, "b": r})
				}
				seen[string(k)] = r
				keys = append(keys, struct {
					rec
					k []byte
					t []comp
				}{r, k, t})
				for _, p := range c.prefixes {
					if i < 40 {
						prefixes = append(prefixes, pk{c.name, p.build(t)})
					}
				}
			}
		}
		for _, k := range keys {
			for _, p := range prefixes {
				if p.name == k.ctor {
					continue
				}
				run.Count("prefix_range_checks", 1)
				if inRange(p.p, append(append([]byte{}, k.k...), be(^uint64(1))...)) {
					viol(run, fmt.Sprintf("prefix-range-overlap constructor=%s prefix-of=%s layer=pure", k.ctor, p.name), name,
						map[string]any{"key": hex.EncodeToString(k.k), "foreign_prefix": hex.EncodeToString(p.p)})
				}
			}
		}
		run.Count("keys_built", int64(len(keys)))
		run.Eval(1)
	}
}

// ---------- behavioural monitors: the real VersionedStore / Txn / Store / Indexer ----------

// storeLifecycle serialises the operations that acquire or release pebble batches. canopy's Store.Discard() closes the same
// pooled pebble batch up to three times (Txn reader, Txn writer, Store.writer; store/store.go:590-601): with several Stores in one
// process a batch released by the first Close can be handed to another goroutine and then be released again by the stale second
// Close ("pebble: batch already committing"). That is unrelated to this property, so the harness keeps those windows exclusive.
var storeLifecycle sync.Mutex

func closeStore(st *store.Store) {
	storeLifecycle.Lock()
	defer storeLifecycle.Unlock()
	_ = st.Close()
}

func commitStore(st *store.Store) lib.ErrorI {
	storeLifecycle.Lock()
	defer storeLifecycle.Unlock()
	_, err := st.Commit()
	return err
}

func newMemStore() *store.Store {
	storeLifecycle.Lock()
	defer storeLifecycle.Unlock()
	cfg := lib.DefaultConfig()
	cfg.StoreConfig.LSSCompactionInterval = 0
	cfg.StoreConfig.IndexByAccount = true
	cfg.StoreConfig.StateChangeJournalEnabled = true
	return mustE(store.NewStoreInMemory(&countingLogger{}, cfg)).(*store.Store) // a Fatal from pebble becomes a visible panic instead of a silent os.Exit(1)
}

type ventry struct {
	ver uint64
	val []byte
	del bool
}

type vmodel map[string][]ventry

func (m vmodel) get(k string, r uint64) ([]byte, bool) {
	var best *ventry
	for i := range m[k] {
		e := &m[k][i]
		if e.ver <= r && (best == nil || e.ver >= best.ver) {
			best = e
		}
	}
	if best == nil || best.del {
		return nil, false
	}
	return best.val, true
}

// segPrefixOf reports whether p is a whole-segment prefix of k (both are length-prefixed encodings).
func segPrefixOf(p, k []byte) bool {
	if !bytes.HasPrefix(k, p) {
		return false
	}
	// walk k's segments and see whether a boundary falls at len(p)
	for i := 0; i <= len(k); {
		if i == len(p) {
			return true
		}
		if i >= len(k) {
			break
		}
		i += 1 + int(k[i])
	}
	return false
}

func (m vmodel) live(prefix []byte, r uint64) map[string][]byte {
	out := map[string][]byte{}
	for k := range m {
		if v, ok := m.get(k, r); ok && segPrefixOf(prefix, []byte(k)) {
			out[k] = v
		}
	}
	return out
}

// hasNested reports whether some key is a proper whole-segment prefix of another key of the set.
func hasNested(keys [][]byte) bool {
	for i, a := range keys {
		for j, b := range keys {
			if i != j && len(a) < len(b) && segPrefixOf(a, b) {
				return true
			}
		}
	}
	return false
}

func has255(keys [][]byte) bool {
	for _, k := range keys {
		for i := 0; i < len(k); {
			if k[i] == 255 {
				return true
			}
			i += 1 + int(k[i])
		}
	}
	return false
}

func drain(it lib.IteratorI) (ks [][]byte, vs [][]byte) {
	defer it.Close()
	for n := 0; it.Valid() && n < 100000; it.Next() {
		ks, vs = append(ks, it.Key()), append(vs, it.Value())
		n++
	}
	return
}

// compareIter checks the keys/values an iterator returned against the model's live set for the prefix.
func compareIter(run *core.Run, name, layer, mode string, attrs string, prefix []byte, want map[string][]byte, ks, vs [][]byte, reverse bool, extra map[string]any) bool {
	got := map[string][]byte{}
	dup := false
	for i, k := range ks {
		if _, ok := got[string(k)]; ok {
			dup = true
		}
		got[string(k)] = vs[i]
	}
	wit := func(kind string, k string) map[string]any {
		w := map[string]any{"layer": layer, "mode": mode, "prefix": hex.EncodeToString(prefix), "key": hex.EncodeToString([]byte(k)), "kind": kind}
		var gk, wk []string
		for _, x := range ks {
			gk = append(gk, hex.EncodeToString(x))
		}
		for x := range want {
			wk = append(wk, hex.EncodeToString([]byte(x)))
		}
		sort.Strings(wk)
		w["returned"], w["expected"] = gk, wk
		for a, b := range extra {
			w[a] = b
		}
		return w
	}
	ok := true
	nested := strings.Contains(attrs, "nested=true")
	report := func(kind, sig, k string, ff bool) {
		ok = false
		switch {
		case nested && (layer == "vstore" || layer == "txn"):
			run.Count(obsNested, 1) // synthetic universe in which a stored key extends another stored key: outside canopy's schema
		case kind == "missing" && ff:
			run.Count(obsFF255, 1)
		default:
			viol(run, fmt.Sprintf("%s layer=%s", sig, layer), name, wit(kind, k))
		}
	}
	for k, v := range want {
		g, found := got[k]
		if !found {
			report("missing", "prefix-range-escape op=iter-missing", k, ffRun256([]byte(k)[len(prefix):]))
		} else if !bytes.Equal(g, v) {
			report("wrong-value", "version-suffix-ambiguity op=iter-wrong-value", k, false)
		}
	}
	for k := range got {
		if _, expected := want[k]; !expected {
			report("extra", "prefix-range-overlap op=iter-extra", k, false)
		}
	}
	if dup {
		report("duplicate", "version-suffix-ambiguity op=iter-duplicate", "", false)
	}
	// ordering is outside the property; inversions between a key and its own extension are only counted
	for i := 1; i < len(ks); i++ {
		c := bytes.Compare(ks[i-1], ks[i])
		if (!reverse && c > 0) || (reverse && c < 0) {
			run.Count("obs_iter_order_inversions", 1)
			break
		}
	}
	run.Count("store_iterations_compared", 1)
	return ok
}

// nestedUniverse builds user keys with whole-segment prefix relations between them.
func nestedUniverse(rng *rand.Rand, n, maxLen int, flat bool) (keys [][]byte, prefixes [][]byte) {
	seenK, seenP := map[string]bool{}, map[string]bool{}
	var tuples [][][]byte
	var pool [][]byte
	root := []byte{byte(1 + rng.Intn(3))}
	tries := 0
	for len(keys) < n {
		var t [][]byte
		if len(tuples) > 0 && rng.Intn(3) != 0 {
			src := tuples[rng.Intn(len(tuples))]
			t = append(t, src...)
			switch rng.Intn(3) {
			case 0: // extend by one segment
				t = append(t, hostileComp(rng, maxLen, pool))
			case 1: // sibling: replace the last segment
				t[len(t)-1] = hostileComp(rng, maxLen, pool)
			default: // sibling that differs by one trailing byte
				l := append([]byte{}, t[len(t)-1]...)
				if len(l) > 0 && rng.Intn(2) == 0 {
					l[len(l)-1] ^= byte(1 + rng.Intn(255))
				} else if len(l) < maxLen {
					l = append(l, []byte{0, 0xFF}[rng.Intn(2)])
				}
				t[len(t)-1] = l
			}
		} else {
			t = [][]byte{root, hostileComp(rng, maxLen, pool)}
		}
		if len(t) > 5 {
			continue
		}
		k := lib.JoinLenPrefix(t...)
		if len(pool) < 32 {
			pool = append(pool, t[len(t)-1])
		}
		if seenK[string(k)] {
			continue
		}
		if flat { // the shape of canopy's real schema: no stored key is a whole-segment extension of another stored key
			clash := false
			for _, o := range keys {
				if segPrefixOf(o, k) || segPrefixOf(k, o) {
					clash = true
					break
				}
			}
			if clash {
				tries++
				if tries > 400 {
					break
				}
				continue
			}
		}
		seenK[string(k)] = true
		keys = append(keys, k)
		tuples = append(tuples, t)
		for m := 1; m <= len(t); m++ {
			p := lib.JoinLenPrefix(t[:m]...)
			if !seenP[string(p)] {
				seenP[string(p)] = true
				prefixes = append(prefixes, p)
			}
		}
	}
	return
}

// vstoreCase drives the real VersionedStore (and a Txn on top of it) with nested hostile keys over several versions.
func vstoreCase(run *core.Run, name string) {
	rng := run.Rand(name)
	maxLen := 255
	if rng.Intn(2) == 0 {
		maxLen = 254 // half of the cases stay below the 255-byte segment so that other defects are not masked by its known behaviour
	}
	flat := rng.Intn(5) != 0
	keys, prefixes := nestedUniverse(rng, 5+rng.Intn(10), maxLen, flat)
	attrs := fmt.Sprintf("nested=%v", hasNested(keys))
	st := newMemStore()
	defer closeStore(st)
	db := st.DB()
	model := vmodel{}
	V := uint64(2 + rng.Intn(4))
	var hist []string
	valN := 0
	for v := uint64(1); v <= V; v++ {
		storeLifecycle.Lock()
		batch := db.NewBatch()
		storeLifecycle.Unlock()
		vs := store.NewVersionedStore(db.NewSnapshot(), batch, v)
		useTxn := rng.Intn(2) == 0
		var txn *store.Txn
		if useTxn {
			txn = store.NewTxn(vs, vs, nil, false, true, true, v)
		}
		nOps := 1 + rng.Intn(len(keys))
		touched := map[string]bool{}
		for o := 0; o < nOps; o++ {
			k := keys[rng.Intn(len(keys))]
			if touched[string(k)] {
				continue
			}
			touched[string(k)] = true
			del := rng.Intn(4) == 0
			valN++
			val := []byte(fmt.Sprintf("v%d.%d", v, valN))
			var err lib.ErrorI
			switch {
			case useTxn && del:
				err = txn.Delete(k)
			case useTxn:
				err = txn.Set(k, val)
			case del:
				err = vs.DeleteAt(k, v)
			default:
				err = vs.SetAt(k, val, v)
			}
			if err != nil {
				panic(err)
			}
			model[string(k)] = append(model[string(k)], ventry{v, val, del})
			hist = append(hist, fmt.Sprintf("v%d %s %x del=%v txn=%v", v, "op", k, del, useTxn))
		}
		if useTxn {
			// reads through the Txn before it is flushed: in-memory operations merged with the parent iterator
			for _, p := range prefixes {
				for _, rev := range []bool{false, true} {
					var it lib.IteratorI
					var err lib.ErrorI
					if rev {
						it, err = txn.RevIterator(p)
					} else {
						it, err = txn.Iterator(p)
					}
					if err != nil {
						panic(err)
					}
					ks, vals := drain(it)
					compareIter(run, name, "txn", fmt.Sprintf("rev=%v", rev), attrs, p, model.live(p, v), ks, vals, rev, map[string]any{"history": hist, "reader_version": v})
				}
			}
			for _, k := range keys {
				got, err := txn.Get(k)
				if err != nil {
					panic(err)
				}
				want, _ := model.get(string(k), v)
				run.Count("store_gets_compared", 1)
				if !bytes.Equal(got, want) {
					viol(run, "version-suffix-ambiguity op=get layer=txn", name,
						map[string]any{"key": hex.EncodeToString(k), "got": string(got), "want": string(want), "history": hist, "reader_version": v})
				}
			}
			if err := txn.Commit(); err != nil {
				panic(err)
			}
		}
		if err := vs.Commit(); err != nil {
			panic(err)
		}
	}
	for r := uint64(0); r <= V+1; r++ {
		rd := store.NewVersionedStore(db.NewSnapshot(), nil, r)
		for _, k := range keys {
			got, err := rd.Get(k)
			if err != nil {
				panic(err)
			}
			want, _ := model.get(string(k), r)
			run.Count("store_gets_compared", 1)
			if !bytes.Equal(got, want) {
				viol(run, "version-suffix-ambiguity op=get layer=vstore", name,
					map[string]any{"key": hex.EncodeToString(k), "got": string(got), "want": string(want), "history": hist, "reader_version": r})
			}
		}
		for _, p := range prefixes {
			for _, mode := range [][2]bool{{false, true}, {true, true}, {false, false}, {true, false}} {
				it, err := rd.NewIterator(p, mode[0], mode[1])
				if err != nil {
					panic(err)
				}
				ks, vals := drain(it)
				compareIter(run, name, "vstore", fmt.Sprintf("rev=%v seek=%v", mode[0], mode[1]), attrs, p, model.live(p, r), ks, vals, mode[0],
					map[string]any{"history": hist, "reader_version": r})
			}
		}
		_ = rd.Close()
	}
	run.Eval(1)
	run.Distinct(fmt.Sprintf("vstore/%d/%d/%s/%x", len(keys), V, attrs, keys[len(keys)-1]))
	run.Count(fmt.Sprintf("vstore_cases_nested_%v_seg255_%v", hasNested(keys), has255(keys)), 1)
}

// stateCase writes keys built by the real fsm constructors (hostile components) through the real Store, commits several
// versions and reads every class back through its prefix constructor, at the latest version and through NewReadOnly().
func stateCase(run *core.Run, name string) {
	rng := run.Rand(name)
	maxLen := 255
	if rng.Intn(2) == 0 {
		maxLen = 254
	}
	ctors := keyCtors()
	var usable []keyCtor
	for _, c := range ctors {
		if !c.raw && len(c.prefixes) > 0 {
			usable = append(usable, c)
		}
	}
	st := newMemStore()
	defer closeStore(st)
	model := vmodel{}
	type pref struct {
		name string
		p    []byte
	}
	var prefs []pref
	seenP := map[string]bool{}
	var keys [][]byte
	var pool [][]byte
	V := uint64(2 + rng.Intn(3))
	valN := 0
	var hist []string
	touched := map[uint64]map[string]bool{}
	for v := uint64(1); v <= V; v++ {
		nOps := 4 + rng.Intn(16)
		for o := 0; o < nOps; o++ {
			var k []byte
			if len(keys) > 0 && rng.Intn(3) == 0 {
				k = keys[rng.Intn(len(keys))]
			} else {
				c := usable[rng.Intn(len(usable))]
				t := genTuple(rng, c.shape, maxLen, pool)
				if c.shape[0] == 'U' && rng.Intn(2) == 0 {
					t[0].u = uint64(rng.Intn(3)) // concentrate on few heights / chain ids so that prefixes hold several keys
				}
				for _, x := range t {
					if !x.isU && len(pool) < 32 {
						pool = append(pool, x.b)
					}
				}
				k = c.build(t)
				keys = append(keys, k)
				for _, p := range c.prefixes {
					pb := p.build(t)
					if !seenP[string(pb)] {
						seenP[string(pb)] = true
						prefs = append(prefs, pref{p.name, pb})
					}
				}
			}
			del := rng.Intn(5) == 0
			valN++
			val := []byte(fmt.Sprintf("s%d.%d", v, valN))
			var err lib.ErrorI
			if del {
				err = st.Delete(k)
			} else {
				err = st.Set(k, val)
			}
			if err != nil {
				panic(err)
			}
			// last write of a version wins
			es := model[string(k)]
			if len(es) > 0 && es[len(es)-1].ver == v {
				es[len(es)-1] = ventry{v, val, del}
			} else {
				es = append(es, ventry{v, val, del})
			}
			model[string(k)] = es
			hist = append(hist, fmt.Sprintf("v%d %x del=%v", v, k, del))
			if touched[v] == nil {
				touched[v] = map[string]bool{}
			}
			touched[v][string(k)] = true
		}
		if err := commitStore(st); err != nil {
			panic(err)
		}
	}
	attrs := fmt.Sprintf("nested=%v", hasNested(keys))
	check := func(layer string, rd lib.RWStoreI, r uint64) {
		for _, k := range keys {
			got, err := rd.Get(k)
			if err != nil {
				panic(err)
			}
			want, _ := model.get(string(k), r)
			run.Count("store_gets_compared", 1)
			if !bytes.Equal(got, want) {
				viol(run, "version-suffix-ambiguity op=get layer="+layer, name,
					map[string]any{"key": hex.EncodeToString(k), "got": string(got), "want": string(want), "history": hist, "reader_version": r})
			}
		}
		for _, p := range prefs {
			for _, rev := range []bool{false, true} {
				var it lib.IteratorI
				var err lib.ErrorI
				if rev {
					it, err = rd.RevIterator(p.p)
				} else {
					it, err = rd.Iterator(p.p)
				}
				if err != nil {
					panic(err)
				}
				ks, vals := drain(it)
				compareIter(run, name, layer, fmt.Sprintf("%s rev=%v", p.name, rev), attrs, p.p, model.live(p.p, r), ks, vals, rev,
					map[string]any{"history": hist, "reader_version": r})
			}
		}
	}
	// the state-change journal is the one place where canopy stores a key (the per-version marker, store/indexer.go:85) together
	// with whole-segment extensions of it (marker||stateKey, store/indexer.go:89): Indexer.StateChangeKeys must return exactly
	// the keys touched by that version, for the empty prefix and for every class prefix
	for v := uint64(1); v <= V; v++ {
		ps := append([]pref{{"all", nil}}, prefs...)
		for _, p := range ps {
			got, available, err := st.StateChangeKeys(v, p.p)
			if err != nil {
				panic(err)
			}
			run.Count("state_change_queries_compared", 1)
			gotSet := map[string]bool{}
			for _, k := range got {
				gotSet[string(k)] = true
			}
			if !available {
				viol(run, "key-collision constructor=stateChangeVersionPrefix op=marker-missing layer=indexer", name, map[string]any{"version": v, "history": hist})
				continue
			}
			for k := range touched[v] {
				if (p.p == nil || segPrefixOf(p.p, []byte(k))) && !gotSet[k] {
					if p.p != nil && ffRun256([]byte(k)[len(p.p):]) {
						run.Count(obsFF255, 1)
						continue
					}
					viol(run, "prefix-range-escape op=state-change-missing constructor=stateChangeKey layer=indexer prefix="+p.name, name,
						map[string]any{"version": v, "key": hex.EncodeToString([]byte(k)), "prefix": hex.EncodeToString(p.p), "history": hist})
				}
			}
			for k := range gotSet {
				if !touched[v][k] || (p.p != nil && !segPrefixOf(p.p, []byte(k))) {
					viol(run, "prefix-range-overlap op=state-change-extra constructor=stateChangeKey layer=indexer prefix="+p.name, name,
						map[string]any{"version": v, "key": hex.EncodeToString([]byte(k)), "prefix": hex.EncodeToString(p.p), "history": hist})
				}
			}
		}
	}
	check("state-latest", st, V)
	for r := uint64(1); r <= V; r++ {
		ro, err := st.NewReadOnly(r)
		if err != nil {
			panic(err)
		}
		check("state-historic", ro, r)
		ro.Discard()
	}
	run.Eval(1)
	run.Distinct(fmt.Sprintf("state/%d/%d/%s/%x", len(keys), V, attrs, keys[len(keys)-1]))
}

func storeKeys(run *core.Run) {
	nV, nS := core.Pick(300, 12000), core.Pick(120, 5000)
	core.Parallel(nV, func(i int) {
		name := fmt.Sprintf("vstore/%d", i)
		if run.Want(name) {
			vstoreCase(run, name)
		}
	})
	core.Parallel(nS, func(i int) {
		name := fmt.Sprintf("state/%d", i)
		if run.Want(name) {
			stateCase(run, name)
		}
	})
}

// indexerCase: records with hostile components go through the real Indexer (unexported key constructors) and are read
// back through every query; a query for component X must return exactly the records indexed under X.
func indexerCase(run *core.Run, name string) {
	rng := run.Rand(name)
	st := newMemStore()
	defer closeStore(st)
	var pool [][]byte
	newAddr := func() []byte {
		a := hostileComp(rng, 255, pool)
		if len(pool) < 24 {
			pool = append(pool, a)
		}
		return a
	}
	var addrs [][]byte
	for i := 0; i < 3+rng.Intn(6); i++ {
		addrs = append(addrs, newAddr())
	}
	type txr struct {
		hash      []byte
		sender    []byte
		recipient []byte
		height    uint64
		index     uint64
	}
	var txs []txr
	seenHash, seenHI := map[string]bool{}, map[[2]uint64]bool{}
	heights := []uint64{1, 2, 256, 1 << 32, math.MaxUint64}
	nTx := 4 + rng.Intn(20)
	for i := 0; i < nTx; i++ {
		h := hostileComp(rng, 255, pool)
		if rng.Intn(2) == 0 {
			h = crypto.Hash(h)
		}
		hi := [2]uint64{heights[rng.Intn(len(heights))], uint64(rng.Intn(4))}
		if rng.Intn(4) == 0 {
			hi[1] = hostileUint(rng)
		}
		if seenHash[string(h)] || seenHI[hi] {
			continue
		}
		seenHash[string(h)], seenHI[hi] = true, true
		t := txr{hash: h, sender: addrs[rng.Intn(len(addrs))], height: hi[0], index: hi[1]}
		if rng.Intn(4) != 0 {
			t.recipient = addrs[rng.Intn(len(addrs))]
		}
		txs = append(txs, t)
		err := st.IndexTx(&lib.TxResult{Sender: t.sender, Recipient: t.recipient, MessageType: "send", Height: t.height, Index: t.index,
			Transaction: &lib.Transaction{MessageType: "send", Memo: fmt.Sprint(i)}, TxHash: lib.BytesToString(t.hash)})
		if err != nil {
			panic(err)
		}
		run.Count("indexer_records_written", 1)
	}
	type dsr struct {
		addr   []byte
		height uint64
	}
	var dss []dsr
	for i := 0; i < 2+rng.Intn(8); i++ {
		d := dsr{addrs[rng.Intn(len(addrs))], heights[rng.Intn(len(heights))]}
		dss = append(dss, d)
		if err := st.IndexDoubleSigner(d.addr, d.height); err != nil {
			panic(err)
		}
		run.Count("indexer_records_written", 1)
	}
	// blocks by hash (the by-height path goes through a process-global cache and is left to the chain-level checks)
	type blk struct {
		hash   []byte
		height uint64
	}
	var blks []blk
	seenBH := map[string]bool{}
	for i := 0; i < 2+rng.Intn(5); i++ {
		h := hostileComp(rng, 255, pool)
		if seenBH[string(h)] {
			continue
		}
		seenBH[string(h)] = true
		b := blk{h, 1_000_000_000 + uint64(rng.Intn(1<<30))} // heights no other check uses: the block cache is keyed by height
		blks = append(blks, b)
		if err := st.IndexBlock(&lib.BlockResult{BlockHeader: &lib.BlockHeader{Height: b.height, Hash: b.hash, NetworkId: 1}}); err != nil {
			panic(err)
		}
		run.Count("indexer_records_written", 1)
	}
	// events by address / chain id / height
	type evr struct {
		ref    string
		addr   []byte
		chain  uint64
		height uint64
		index  int
	}
	var evs []evr
	seenEv := map[[2]uint64]bool{}
	for i := 0; i < 3+rng.Intn(10); i++ {
		e := evr{ref: fmt.Sprintf("ev-%d", i), chain: uint64(rng.Intn(3)), height: heights[rng.Intn(len(heights))], index: rng.Intn(5)}
		if rng.Intn(4) != 0 {
			e.addr = addrs[rng.Intn(len(addrs))]
		}
		if rng.Intn(3) == 0 {
			e.chain = hostileUint(rng)
		}
		if seenEv[[2]uint64{e.height, uint64(e.index)}] {
			continue
		}
		seenEv[[2]uint64{e.height, uint64(e.index)}] = true
		evs = append(evs, e)
		if err := st.IndexEvent(&lib.Event{EventType: "custom", Height: e.height, Reference: e.ref, ChainId: e.chain, Address: e.addr}, e.index); err != nil {
			panic(err)
		}
		run.Count("indexer_records_written", 1)
	}
	type cpr struct {
		chain, height uint64
		hash          []byte
	}
	cps := map[[2]uint64][]byte{}
	for i := 0; i < 2+rng.Intn(6); i++ {
		c := [2]uint64{hostileUint(rng), hostileUint(rng)}
		hsh := crypto.Hash([]byte(fmt.Sprint(i, c)))
		cps[c] = hsh
		if err := st.IndexCheckpoint(c[0], &lib.Checkpoint{Height: c[1], BlockHash: hsh}); err != nil {
			panic(err)
		}
		run.Count("indexer_records_written", 1)
	}
	verify := func(stage string) {
		bad := func(kind, what string, w map[string]any) {
			w["stage"] = stage
			viol(run, fmt.Sprintf("%s constructor=%s layer=indexer", kind, what), name, w)
		}
		for _, t := range txs {
			got, err := st.GetTxByHash(t.hash)
			run.Count("indexer_queries_compared", 1)
			if err != nil || got == nil || got.TxHash != lib.BytesToString(t.hash) {
				bad("key-collision", "txHashKey", map[string]any{"hash": hex.EncodeToString(t.hash), "got": fmt.Sprint(got), "err": fmt.Sprint(err)})
			}
		}
		pageHashes := func(p *lib.Page, err lib.ErrorI) []string {
			if err != nil {
				panic(err)
			}
			var out []string
			for _, r := range *p.Results.(*lib.TxResults) {
				out = append(out, r.TxHash)
			}
			sort.Strings(out)
			return out
		}
		wantBy := func(f func(txr) bool) []string {
			var out []string
			for _, t := range txs {
				if f(t) {
					out = append(out, lib.BytesToString(t.hash))
				}
			}
			sort.Strings(out)
			return out
		}
		if stage == "uncommitted" {
			// the indexer's Txn keeps pending writes unsorted (store/store.go:187, sort=false): range queries see committed data only
			for c, hsh := range cps {
				got, err := st.GetCheckpoint(c[0], c[1])
				run.Count("indexer_queries_compared", 1)
				if err != nil || !bytes.Equal(got, hsh) {
					bad("key-collision", "checkpointKey", map[string]any{"chain": c[0], "height": c[1], "got": hex.EncodeToString(got), "want": hex.EncodeToString(hsh)})
				}
			}
			return
		}
		pp := lib.PageParams{PerPage: 5000}
		for _, b := range blks {
			got, err := st.GetBlockByHash(b.hash)
			run.Count("indexer_queries_compared", 1)
			if err != nil || got == nil || got.BlockHeader == nil || got.BlockHeader.Height != b.height || !bytes.Equal(got.BlockHeader.Hash, b.hash) {
				bad("key-collision", "blockHashKey", map[string]any{"hash": hex.EncodeToString(b.hash), "want_height": b.height, "got": fmt.Sprint(got), "err": fmt.Sprint(err)})
			}
		}
		evRefs := func(p *lib.Page, err lib.ErrorI) []string {
			if err != nil {
				panic(err)
			}
			var out []string
			for _, e := range *p.Results.(*lib.Events) {
				out = append(out, e.Reference)
			}
			sort.Strings(out)
			return out
		}
		wantEv := func(f func(evr) bool) []string {
			var out []string
			for _, e := range evs {
				if f(e) {
					out = append(out, e.ref)
				}
			}
			sort.Strings(out)
			return out
		}
		for _, a := range addrs {
			a := a
			got, want := evRefs(st.GetEventsByAddress(crypto.NewAddress(a), false, pp)), wantEv(func(e evr) bool { return e.addr != nil && bytes.Equal(e.addr, a) })
			run.Count("indexer_queries_compared", 1)
			if strings.Join(got, ",") != strings.Join(want, ",") {
				bad(rangeKind(got, want), "eventAddressKey", map[string]any{"address": hex.EncodeToString(a), "got": got, "want": want})
			}
		}
		chains := map[uint64]bool{}
		for _, e := range evs {
			if e.chain != 0 {
				chains[e.chain] = true
			}
		}
		for c := range chains {
			c := c
			got, want := evRefs(st.GetEventsByChainId(c, false, pp)), wantEv(func(e evr) bool { return e.chain == c })
			run.Count("indexer_queries_compared", 1)
			if strings.Join(got, ",") != strings.Join(want, ",") {
				bad(rangeKind(got, want), "eventChainIdKey", map[string]any{"chain": c, "got": got, "want": want})
			}
		}
		for _, h := range heights {
			h := h
			res, err := st.GetEventsNonPaginated(h, false)
			if err != nil {
				panic(err)
			}
			var got []string
			for _, e := range res {
				got = append(got, e.Reference)
			}
			sort.Strings(got)
			want := wantEv(func(e evr) bool { return e.height == h })
			run.Count("indexer_queries_compared", 1)
			if strings.Join(got, ",") != strings.Join(want, ",") {
				bad(rangeKind(got, want), "eventHeightKey", map[string]any{"height": h, "got": got, "want": want})
			}
		}
		for _, a := range addrs {
			a := a
			for _, rev := range []bool{false, true} {
				got := pageHashes(st.GetTxsBySender(crypto.NewAddress(a), rev, pp))
				want := wantBy(func(t txr) bool { return bytes.Equal(t.sender, a) })
				run.Count("indexer_queries_compared", 1)
				if strings.Join(got, ",") != strings.Join(want, ",") {
					bad(rangeKind(got, want), "txSenderKey", map[string]any{"address": hex.EncodeToString(a), "got": got, "want": want})
				}
				got = pageHashes(st.GetTxsByRecipient(crypto.NewAddress(a), rev, pp))
				want = wantBy(func(t txr) bool { return t.recipient != nil && bytes.Equal(t.recipient, a) })
				run.Count("indexer_queries_compared", 1)
				if strings.Join(got, ",") != strings.Join(want, ",") {
					bad(rangeKind(got, want), "txRecipientKey", map[string]any{"address": hex.EncodeToString(a), "got": got, "want": want})
				}
			}
		}
		for _, h := range heights {
			h := h
			got := pageHashes(st.GetTxsByHeight(h, false, pp))
			want := wantBy(func(t txr) bool { return t.height == h })
			run.Count("indexer_queries_compared", 1)
			if strings.Join(got, ",") != strings.Join(want, ",") {
				bad(rangeKind(got, want), "txHeightKey", map[string]any{"height": h, "got": got, "want": want})
			}
		}
		// double signers: exactly the indexed (address, height) pairs
		wantDS := map[string]map[uint64]bool{}
		for _, d := range dss {
			if wantDS[string(d.addr)] == nil {
				wantDS[string(d.addr)] = map[uint64]bool{}
			}
			wantDS[string(d.addr)][d.height] = true
		}
		for _, a := range addrs {
			for _, h := range heights {
				valid, err := st.IsValidDoubleSigner(a, h)
				if err != nil {
					panic(err)
				}
				run.Count("indexer_queries_compared", 1)
				if valid == wantDS[string(a)][h] { // "valid" means: not yet recorded
					bad("key-collision", "doubleSignerHeightKey", map[string]any{"address": hex.EncodeToString(a), "height": h, "is_valid": valid, "indexed": wantDS[string(a)][h]})
				}
			}
		}
		gotDS, err := st.GetDoubleSigners()
		if err != nil {
			panic(err)
		}
		gotSet := map[string]map[uint64]bool{}
		for _, d := range gotDS {
			gotSet[string(d.Id)] = map[uint64]bool{}
			for _, h := range d.Heights {
				gotSet[string(d.Id)][h] = true
			}
		}
		run.Count("indexer_queries_compared", 1)
		if fmt.Sprint(dsString(gotSet)) != fmt.Sprint(dsString(wantDS)) {
			bad(rangeKind(dsString(gotSet), dsString(wantDS)), "doubleSignerPrefix", map[string]any{"got": dsString(gotSet), "want": dsString(wantDS)})
		}
		for c, hsh := range cps {
			got, err := st.GetCheckpoint(c[0], c[1])
			run.Count("indexer_queries_compared", 1)
			if err != nil || !bytes.Equal(got, hsh) {
				bad("key-collision", "checkpointKey", map[string]any{"chain": c[0], "height": c[1], "got": hex.EncodeToString(got), "want": hex.EncodeToString(hsh)})
			}
		}
	}
	verify("uncommitted")
	if err := commitStore(st); err != nil {
		panic(err)
	}
	verify("committed")
	run.Eval(1)
	run.Distinct(fmt.Sprintf("indexer/%d/%d/%x", len(txs), len(dss), addrs[0]))
}

func dsString(m map[string]map[uint64]bool) []string {
	var out []string
	for a, hs := range m {
		for h := range hs {
			out = append(out, fmt.Sprintf("%x@%d", a, h))
		}
	}
	sort.Strings(out)
	return out
}

// rangeKind names the symptom: records missing from a prefix query are an escape, foreign records an overlap.
func rangeKind(got, want []string) string {
	w := map[string]bool{}
	for _, x := range want {
		w[x] = true
	}
	for _, x := range got {
		if !w[x] {
			return "prefix-range-overlap"
		}
	}
	return "prefix-range-escape"
}

func indexerKeys(run *core.Run) {
	n := core.Pick(150, 6000)
	core.Parallel(n, func(i int) {
		name := fmt.Sprintf("indexer/%d", i)
		if run.Want(name) {
			indexerCase(run, name)
		}
	})
}
