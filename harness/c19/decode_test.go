package c19

// Group B — robust decoding. Hostile encodings (structure-aware mutations of valid, correctly signed messages,
// random instances, random bytes, and re-signed hostile objects) are fed to the real decoders and to the handlers
// that follow them. The work runs in child processes (re-exec of this test binary with TestChild): every input is
// written to a log BEFORE it is used, a panic that escapes canopy is caught per call and reported, a fatal error /
// crash of the child is attributed to the last logged input, and a call that exceeds a generous watchdog is
// re-run alone before it is reported as a hang.

import (
	"bufio"
	"bytes"
	"context"
	"encoding/hex"
	"encoding/json"
	"fmt"
	"math/rand"
	"os"
	"os/exec"
	"path/filepath"
	"regexp"
	"runtime"
	"runtime/debug"
	"runtime/pprof"
	"sort"
	"strconv"
	"strings"
	"sync"
	"sync/atomic"
	"testing"
	"time"

	"github.com/canopy-network/canopy/bft"
	"github.com/canopy-network/canopy/fsm"
	"github.com/canopy-network/canopy/lib"
	"github.com/canopy-network/canopy/lib/codec"
	"github.com/canopy-network/canopy/lib/crypto"
	"github.com/canopy-network/canopy/p2p"
	"google.golang.org/protobuf/encoding/protowire"
	"google.golang.org/protobuf/proto"
	"google.golang.org/protobuf/reflect/protoreflect"
	"google.golang.org/protobuf/types/known/anypb"
	"verif/c19util"
	"verif/core"
)

func init() {
	// bytes fields that carry encoded messages which a later step decodes on its own
	c19util.EmbeddedBytes["types.QuorumCertificate.block"] = mdOf(new(lib.Block))
	c19util.EmbeddedBytes["types.Block.transactions"] = mdOf(new(lib.Transaction))
	c19util.EmbeddedBytes["types.TxMessage.txs"] = mdOf(new(lib.Transaction))
}

// ---------------------------------------------------------------------------------------------
// input plan: a pure function of (seed, tier)
// ---------------------------------------------------------------------------------------------

type planEntry struct {
	target string
	n      int
}

// decodePlan distributes the tier's input budget over the targets.
func decodePlan() []planEntry {
	total := core.Pick(20000, 2000000)
	w := []struct {
		t string
		w int
	}{
		{"Transaction", 14}, {"QuorumCertificate", 12}, {"Block", 10}, {"BlockMessage", 10}, {"bft.Message", 14}, {"TxMessage", 5},
		{"DoubleSignEvidence", 5}, {"Envelope", 4}, {"Packet", 2}, {"PeerInfo", 1}, {"PeerBookResponseMessage", 2}, {"BlockRequestMessage", 1},
		{"CertificateResult", 3}, {"Node", 1}, {"fsm-message", 5}, {"raw-field", 3}, {"state-key", 1},
		{"signed-tx", 4}, {"signed-msg", 3},
	}
	sum := 0
	for _, x := range w {
		sum += x.w
	}
	var out []planEntry
	for _, x := range w {
		out = append(out, planEntry{x.t, total * x.w / sum})
	}
	return out
}

// ---------------------------------------------------------------------------------------------
// child side
// ---------------------------------------------------------------------------------------------

type childRec struct {
	T      string           `json:"t"` // panic | hang | accept | count | done
	Case   string           `json:"case,omitempty"`
	Target string           `json:"target,omitempty"`
	Fn     string           `json:"fn,omitempty"`
	At     string           `json:"at,omitempty"`
	Msg    string           `json:"msg,omitempty"`
	Stack  string           `json:"stack,omitempty"`
	Input  string           `json:"input_hex,omitempty"`
	Ops    []string         `json:"ops,omitempty"`
	Counts map[string]int64 `json:"counts,omitempty"`
	Combos []string         `json:"combos,omitempty"`
}

type child struct {
	e         *env
	out       *bufio.Writer
	outF      *os.File
	logF      *os.File
	logN      int
	counts    map[string]int64
	combos    map[string]bool
	mu        sync.Mutex
	curCase   atomic.Value // string
	curStart  atomic.Int64
	curData   []byte
	curOps    []string
	targets   map[string]target
	pending   [][]byte // signed txs waiting for a batched ApplyBlock
	pendingC  []string
	seenTx    map[string]bool // transactions already queued once (a block with a duplicate is refused as a whole)
	sysTotals map[string]int
	hangSec   int
}

func (c *child) emit(r childRec) {
	c.mu.Lock()
	defer c.mu.Unlock()
	bz, _ := json.Marshal(r)
	c.out.Write(bz)
	c.out.WriteByte('\n')
	c.out.Flush()
}

// logInput appends the input to the shard's input log and flushes it to the OS before the input is used.
func (c *child) logInput(name string, data []byte) {
	if c.logN >= 5000 { // keep the log bounded: only the tail matters for attributing a crash
		_ = c.logF.Truncate(0)
		_, _ = c.logF.Seek(0, 0)
		c.logN = 0
	}
	fmt.Fprintf(c.logF, "%s %s\n", name, hex.EncodeToString(data))
	c.logN++
}

// topCanopyFrame extracts the innermost canopy function of a panic stack.
func topCanopyFrame(stack string) string {
	for _, line := range strings.Split(stack, "\n") {
		if strings.HasPrefix(line, "\t") {
			continue
		}
		if i := strings.Index(line, "github.com/canopy-network/canopy/"); i >= 0 {
			f := line[i+len("github.com/canopy-network/canopy/"):]
			if j := strings.LastIndex(f, "("); j > 0 {
				f = f[:j]
			}
			return f
		}
	}
	return "?"
}

// guard runs one call of canopy code; a panic that escapes it is recorded (ok=false).
func (c *child) guard(tgt, fn string, f func()) (ok bool) {
	ok = true
	defer func() {
		if r := recover(); r != nil {
			ok = false
			st := string(debug.Stack())
			c.counts["escaped_panics"]++
			c.emit(childRec{T: "panic", Case: c.curCase.Load().(string), Target: tgt, Fn: fn, At: topCanopyFrame(st), Msg: fmt.Sprint(r),
				Stack: trimStack(st), Input: hex.EncodeToString(c.curData), Ops: c.curOps})
		}
	}()
	c.counts["handler_calls"]++
	f()
	return
}

func trimStack(s string) string {
	lines := strings.Split(s, "\n")
	if len(lines) > 40 {
		lines = lines[:40]
	}
	return strings.Join(lines, "\n")
}

// pick returns a valid encoding for the target: a corpus member or a freshly populated random instance.
func (c *child) pick(rng *rand.Rand, name string) []byte {
	seeds := c.e.corpus[name]
	if t, ok := c.targets[name]; ok && (len(seeds) == 0 || rng.Intn(4) == 0) {
		m := t.newMsg()
		c19util.Populate(rng, m.ProtoReflect(), 5, 0.5+rng.Float64()*0.5, c.e.anyPool())
		if bz, err := lib.Marshal(m); err == nil {
			return bz
		}
	}
	return append([]byte{}, seeds[rng.Intn(len(seeds))]...) // a copy: mutators and canopy code must never touch the corpus
}

var sysLenTargets = []string{"QuorumCertificate", "BlockMessage", "Block", "Transaction", "bft.Message", "TxMessage", "DoubleSignEvidence"}

var sysLenAbs = []uint64{1 << 31, 1<<31 - 1, 1 << 32, 1<<63 - 1, 1 << 63, 1<<64 - 1, 33 << 20, 65 << 20}

const sysLenVariants = 12

// sysLenTotal is the number of (seed, length-delimited field, variant) triples of a target's corpus.
func (c *child) sysLenTotal(target string) int {
	if v, ok := c.sysTotals[target]; ok {
		return v
	}
	v := c.sysLenTotalUncached(target)
	c.sysTotals[target] = v
	return v
}

func (c *child) sysLenTotalUncached(target string) int {
	n := 0
	for _, seed := range c.e.corpus[target] {
		if tree, ok := c19util.ParseTree(seed, mdOf(c.targets[target].newMsg()), 0, false); ok {
			fs, _ := tree.AllFields()
			for _, f := range fs {
				if f.Typ == protowire.BytesType {
					n++
				}
			}
		}
	}
	return n * sysLenVariants
}

// genSysLen corrupts the length prefix of the k-th length-delimited field (typed sub-messages and embedded encoded
// messages alike) of a corpus seed in the v-th way: a systematic sweep instead of a random choice.
func (c *child) genSysLen(target string, idx int) ([]byte, []string) {
	v := idx % sysLenVariants
	k := idx / sysLenVariants
	for _, seed := range c.e.corpus[target] {
		tree, ok := c19util.ParseTree(seed, mdOf(c.targets[target].newMsg()), 0, false)
		if !ok {
			continue
		}
		fs, _ := tree.AllFields()
		for _, f := range fs {
			if f.Typ != protowire.BytesType {
				continue
			}
			if k > 0 {
				k--
				continue
			}
			switch {
			case v < len(sysLenAbs):
				x := sysLenAbs[v]
				f.LenAbs = &x
			case v == 8:
				f.LenDelta = -1
			case v == 9:
				f.LenDelta = 1
			case v == 10:
				f.LenDelta = int64(len(seed))
			default:
				f.TruncBody = 1
			}
			return tree.Encode(), []string{fmt.Sprintf("sys-len-variant-%d", v)}
		}
	}
	return nil, []string{"sys-len-out-of-range"}
}

// regressionInputs are fixed witnesses of repaired defects; they run in every tier.
func (c *child) regressionInputs() (targets []string, inputs [][]byte, notes []string) {
	// codec.GetRawProtoField: declared length >= 2^63 in the block bytes of a certificate (repaired in canopy f14e602)
	for _, l := range []uint64{1<<64 - 1, 1 << 63, 1<<63 - 1} {
		blk := protowire.AppendVarint(protowire.AppendTag(nil, 1, protowire.BytesType), l)
		qc := protowire.AppendBytes(protowire.AppendTag(nil, 1, protowire.BytesType), nil)            // header: {}
		qc = protowire.AppendBytes(protowire.AppendTag(qc, 3, protowire.BytesType), make([]byte, 32)) // results_hash
		qc = protowire.AppendBytes(protowire.AppendTag(qc, 4, protowire.BytesType), blk)              // block
		qc = protowire.AppendBytes(protowire.AppendTag(qc, 5, protowire.BytesType), make([]byte, 32)) // block_hash
		bm := protowire.AppendBytes(protowire.AppendTag(nil, 4, protowire.BytesType), qc)             // BlockMessage.BlockAndCertificate
		targets, inputs, notes = append(targets, "BlockMessage"), append(inputs, bm), append(notes, fmt.Sprintf("raw-field-length-%d-in-certificate-block", l))
		targets, inputs, notes = append(targets, "QuorumCertificate"), append(inputs, qc), append(notes, fmt.Sprintf("raw-field-length-%d-in-certificate-block", l))
		m := &bft.Message{Header: &lib.View{NetworkId: envNetworkID, ChainId: envChainID, Height: 1, RootHeight: 1, Phase: lib.Phase_PROPOSE},
			Qc: &lib.QuorumCertificate{Header: &lib.View{}, ResultsHash: make([]byte, 32), BlockHash: make([]byte, 32), Block: blk}}
		if err := m.Sign(c.e.keys[0]); err != nil {
			panic(err)
		}
		targets, inputs, notes = append(targets, "signed-msg"), append(inputs, mb(m)), append(notes, fmt.Sprintf("raw-field-length-%d-in-proposal", l))
	}
	return
}

// genInput produces the hostile input for (target, rng).
func (c *child) genInput(rng *rand.Rand, name string) ([]byte, []string) {
	switch name {
	case "fsm-message":
		// a transaction whose Any payload carries hostile bytes for a registered message type, correctly signed: the payload is
		// decoded and checked inside CheckTx (fsm/transaction.go CheckMessage), i.e. under ApplyBlock's recover point
		n := c.e.msgNames[rng.Intn(len(c.e.msgNames))]
		m := lib.RegisteredMessages[n].New()
		c19util.Populate(rng, m.ProtoReflect(), 5, 0.5+rng.Float64()*0.5, c.e.anyPool())
		bz, ops := mb(m), []string{"random-instance"}
		if rng.Intn(4) != 0 {
			bz, ops = c19util.MutateWire(rng, bz, mdOf(m), c.e.corpus["QuorumCertificate"][rng.Intn(len(c.e.corpus["QuorumCertificate"]))])
		}
		tx := &lib.Transaction{MessageType: n, Msg: &anypb.Any{TypeUrl: "type.googleapis.com/" + string(mdOf(m).FullName()), Value: bz},
			CreatedHeight: 1, Time: 1 + uint64(rng.Intn(1<<30)), Fee: 1_000_000, NetworkId: envNetworkID, ChainId: envChainID}
		if err := tx.Sign(c.e.keys[rng.Intn(len(c.e.keys))]); err != nil {
			panic(err)
		}
		return mb(tx), ops
	case "raw-field":
		out, ops := c19util.MutateWire(rng, c.pick(rng, "Block"), mdOf(new(lib.Block)), c.pick(rng, "Transaction"))
		return out, ops
	case "state-key":
		if rng.Intn(2) == 0 {
			return c19util.RandBytes(rng, rng.Intn(40)), []string{"random"}
		}
		k := fsm.KeyForCommittee(rng.Uint64(), crypto.NewAddress(c19util.RandBytes(rng, rng.Intn(30))), rng.Uint64())
		switch rng.Intn(3) {
		case 0:
			k = k[:rng.Intn(len(k)+1)]
		case 1:
			k[rng.Intn(len(k))] = byte(rng.Intn(256))
		}
		return k, []string{"mutated-key"}
	case "signed-tx":
		return c.genSignedTx(rng)
	case "signed-msg":
		return c.genSignedMsg(rng)
	}
	t := c.targets[name]
	md := mdOf(t.newMsg())
	switch r := rng.Intn(100); {
	case r < 72:
		donorT := []string{"Transaction", "QuorumCertificate", "Block", "bft.Message"}[rng.Intn(4)]
		return c19util.MutateWire(rng, c.pick(rng, name), md, c.pick(rng, donorT))
	case r < 82:
		n := rng.Intn(300)
		if rng.Intn(10) == 0 {
			n = rng.Intn(70000)
		}
		return c19util.RandBytes(rng, n), []string{"random-bytes"}
	case r < 92:
		m := t.newMsg()
		c19util.Populate(rng, m.ProtoReflect(), 6, rng.Float64(), c.e.anyPool())
		return mb(m), []string{"random-instance"}
	default: // a valid message of a DIFFERENT type (type confusion between topics)
		other := []string{"Transaction", "QuorumCertificate", "Block", "bft.Message", "BlockMessage", "TxMessage", "Envelope"}[rng.Intn(7)]
		return c.pick(rng, other), []string{"other-type:" + other}
	}
}

var addrLike = regexp.MustCompile(`(?i)address|signer|from$|^to$|output`)

// genSignedTx builds a hostile payload at the object level and signs it properly, so that CheckTx proceeds past the
// signature check and the message handlers run on hostile field values.
func (c *child) genSignedTx(rng *rand.Rand) ([]byte, []string) {
	e := c.e
	name := e.msgNames[rng.Intn(len(e.msgNames))]
	payload := lib.RegisteredMessages[name].New()
	c19util.Populate(rng, payload.ProtoReflect(), 5, 0.4+rng.Float64()*0.6, e.anyPool())
	ki := rng.Intn(len(e.keys))
	// steer address-like fields to known accounts so that authorization passes and the handler body is reached
	for _, l := range c19util.Leaves(payload.ProtoReflect(), 3) {
		if l.FD.Kind() != protoreflect.BytesKind || l.FD.IsList() {
			continue
		}
		n := string(l.FD.Name())
		switch {
		case strings.Contains(n, "public_key") && rng.Intn(10) < 8:
			l.Set(protoreflect.ValueOfBytes(e.keys[ki].PublicKey().Bytes()))
		case addrLike.MatchString(n) && rng.Intn(10) < 8:
			l.Set(protoreflect.ValueOfBytes(e.addrs[ki]))
		}
	}
	for _, l := range c19util.Leaves(payload.ProtoReflect(), 3) { // keep amounts mostly affordable
		if l.FD.Kind() == protoreflect.Uint64Kind && !l.FD.IsList() && rng.Intn(3) != 0 {
			l.Set(protoreflect.ValueOfUint64(uint64(rng.Intn(1000))))
		}
	}
	tx := &lib.Transaction{MessageType: name, Msg: mustE(lib.NewAny(payload)), CreatedHeight: 1, Time: 1 + uint64(rng.Intn(1<<30)),
		Fee: 1_000_000, NetworkId: envNetworkID, ChainId: envChainID}
	if rng.Intn(5) == 0 {
		tx.Memo = string(c19util.RandBytes(rng, rng.Intn(8)))
		if !validUTF8(tx.Memo) {
			tx.Memo = "m"
		}
	}
	if err := tx.Sign(e.keys[ki]); err != nil {
		panic(err)
	}
	return mb(tx), []string{"signed-hostile:" + name}
}

func validUTF8(s string) bool {
	for _, r := range s {
		if r == 0xFFFD {
			return false
		}
	}
	return true
}

// genSignedMsg builds a hostile consensus message at the object level and signs it with a validator key.
func (c *child) genSignedMsg(rng *rand.Rand) ([]byte, []string) {
	e := c.e
	if rng.Intn(3) == 0 {
		// an otherwise VALID corpus message with exactly one structural knock-out, re-signed by a committee member: it gets
		// past the signature and certificate checks and reaches the handlers that touch the nested objects
		m := new(bft.Message)
		if err := lib.Unmarshal(e.corpus["bft.Message"][rng.Intn(len(e.corpus["bft.Message"]))], m); err != nil {
			panic(err)
		}
		if m.HighQc == nil && m.Qc != nil && m.Header != nil && rng.Intn(2) == 0 {
			// proposer messages of later phases may carry a justification too
			for _, bz := range e.corpus["bft.Message"] {
				o := new(bft.Message)
				if lib.Unmarshal(bz, o) == nil && o.HighQc != nil {
					m.HighQc = o.HighQc
					break
				}
			}
		}
		qcs := map[string]*lib.QuorumCertificate{"qc": m.Qc, "high_qc": m.HighQc}
		names := []string{"qc", "high_qc"}
		which := names[rng.Intn(2)]
		q := qcs[which]
		op := "none"
		if q != nil {
			switch rng.Intn(9) {
			case 0:
				q.Header, op = nil, "header=nil"
			case 1:
				q.Header, op = &lib.View{}, "header=zero"
			case 2:
				q.Signature, op = nil, "signature=nil"
			case 3:
				q.Signature, op = &lib.AggregateSignature{}, "signature=empty"
			case 4:
				q.BlockHash, op = nil, "block_hash=nil"
			case 5:
				q.Block, q.Results, op = nil, nil, "block,results=nil"
			case 6:
				q.ResultsHash, op = nil, "results_hash=nil"
			case 7:
				q.ProposerKey, op = nil, "proposer_key=nil"
			case 8:
				if q.Header != nil {
					q.Header.RootHeight += uint64(1 + rng.Intn(3))
					op = "root_height+k"
				}
			}
		}
		if rng.Intn(6) == 0 && len(m.LastDoubleSignEvidence) > 0 {
			m.LastDoubleSignEvidence[0].VoteB, op = nil, op+",evidence.vote_b=nil"
		}
		if err := m.Sign(e.keys[0]); err != nil {
			panic(err)
		}
		return mb(m), []string{"signed-valid-msg-one-knockout:" + which + "." + op}
	}
	var m *bft.Message
	if rng.Intn(2) == 0 {
		m = new(bft.Message)
		if err := lib.Unmarshal(e.corpus["bft.Message"][rng.Intn(len(e.corpus["bft.Message"]))], m); err != nil {
			panic(err)
		}
	} else {
		m = new(bft.Message)
		c19util.Populate(rng, m.ProtoReflect(), 5, 0.3+rng.Float64()*0.7, e.anyPool())
	}
	cls := voteClasses[rng.Intn(len(voteClasses))]
	view := func(p lib.Phase) *lib.View {
		v := &lib.View{NetworkId: envNetworkID, ChainId: envChainID, Height: 1, RootHeight: 1, Round: 0, Phase: p}
		if rng.Intn(6) == 0 {
			v.RootHeight = uint64(rng.Intn(3))
		}
		if rng.Intn(8) == 0 {
			v.Height = uint64(rng.Intn(3))
		}
		return v
	}
	if cls.proposer {
		m.Header = view(cls.phase)
		if m.Qc != nil && rng.Intn(4) != 0 {
			m.Qc.Header = view(cls.phase - 1)
		}
	} else {
		m.Header = nil
		if m.Qc == nil {
			m.Qc = new(lib.QuorumCertificate)
		}
		m.Qc.Header = view(cls.phase)
	}
	// hostile shapes: knock out or corrupt sub-objects after the fact
	leaves := c19util.Leaves(m.ProtoReflect(), 4)
	for k := 0; k < 1+rng.Intn(3) && len(leaves) > 0; k++ {
		l := leaves[rng.Intn(len(leaves))]
		if strings.HasPrefix(l.Path, "header") || strings.HasPrefix(l.Path, "qc.header") || strings.HasPrefix(l.Path, "signature") {
			continue
		}
		c19util.Mutate(rng, l, e.anyPool())
	}
	switch rng.Intn(8) {
	case 0:
		m.Qc = nil
	case 1:
		if m.Qc != nil {
			m.Qc.Signature = nil
		}
	case 2:
		if m.Qc != nil {
			m.Qc.Results = nil
		}
	case 3:
		m.Vrf = nil
	case 4:
		if m.HighQc != nil {
			m.HighQc.Header = nil
		}
	}
	if err := m.Sign(e.keys[rng.Intn(len(e.keys))]); err != nil {
		panic(err)
	}
	return mb(m), []string{"signed-hostile-msg"}
}

// exec feeds one input to the decoder of the target and to the handlers that follow it.
func (c *child) exec(name string, data []byte) {
	e := c.e
	view := e.view
	maxBlock := lib.GlobalMaxBlockSize
	// every handler sequence below mirrors the order in which canopy itself calls these functions: a later call is made
	// only when the earlier validation step accepted the object (HandlePeerBlock, CheckProposerMessage, CheckHighQC,
	// CheckProposalBasic, ProcessDSE, CheckTx)
	checkQC := func(tgt string, qc *lib.QuorumCertificate) {
		var basic lib.ErrorI
		if !c.guard(tgt, "QuorumCertificate.CheckBasic", func() { basic = qc.CheckBasic() }) {
			return
		}
		if basic != nil {
			c.counts["qc_rejected_by_checkbasic"]++
			return
		}
		c.counts["qc_passed_checkbasic"]++
		c.guard(tgt, "QuorumCertificate.SignBytes", func() { _ = qc.SignBytes() })
		var chk lib.ErrorI
		c.guard(tgt, "QuorumCertificate.Check", func() { _, chk = qc.Check(e.vs, maxBlock, view, false) })
		c.guard(tgt, "QuorumCertificate.Check(enforceHeights)", func() { _, _ = qc.Check(e.vs, maxBlock, view, true) })
		c.guard(tgt, "QuorumCertificate.CheckHighQC", func() { _ = qc.CheckHighQC(maxBlock, view, 0, e.vs) })
		// controller/block.go:626 calls CheckProposalBasic after CheckBasic (while syncing) or after Check
		c.guard(tgt, "QuorumCertificate.CheckProposalBasic", func() { _, _ = qc.CheckProposalBasic(1, envNetworkID, envChainID) })
		c.guard(tgt, "QuorumCertificate.EqualPayloads", func() { _ = qc.EqualPayloads(&lib.QuorumCertificate{Header: &lib.View{}}) })
		if chk == nil {
			c.counts["qc_passed_check"]++
			c.guard(tgt, "QuorumCertificate.GetNonSigners", func() { _, _, _ = qc.GetNonSigners(e.vs.ValidatorSet) })
		}
	}
	applyOne := func(tgt string, raw []byte) (recovered bool) {
		before := e.log.recovered.Load()
		c.guard(tgt, "fsm.ApplyBlock", func() {
			blk := &lib.Block{BlockHeader: &lib.BlockHeader{Time: uint64(1700000000000000), ProposerAddress: e.addrs[0]}, Transactions: [][]byte{raw}}
			_, _, _ = e.sm.ApplyBlock(context.Background(), blk, true)
		})
		e.sm.Reset()
		return e.log.recovered.Load() > before
	}
	checkTx := func(tgt string, raw []byte) {
		// (a) the stateless steps the p2p / mempool path performs on its own
		tx := new(lib.Transaction)
		var err lib.ErrorI
		c.guard(tgt, "lib.Unmarshal(Transaction)", func() { err = lib.Unmarshal(raw, tx) })
		if err == nil {
			c.counts["decoded_ok"]++
			c.guard(tgt, "Transaction.GetHash", func() { _, _ = tx.GetHash() })
		} else {
			c.counts["decode_rejected"]++
		}
		// (b) CheckTx is only ever entered through ApplyBlock, whose recover point (fsm/state.go:142) belongs to the property's
		// mechanism: a panic inside CheckTx is therefore re-run through the real ApplyBlock to see whether canopy contains it
		var res *fsm.CheckTxResult
		panicked := false
		func() {
			defer func() {
				if r := recover(); r != nil {
					panicked = true
				}
			}()
			c.counts["handler_calls"]++
			var er lib.ErrorI
			res, er = e.sm.CheckTx(raw, crypto.HashString(raw), nil)
			if er == nil {
				c.counts["checktx_accepted"]++
			}
		}()
		if panicked {
			e.sm.Reset()
			if applyOne(tgt, raw) {
				c.counts["canopy_recovered_panics"]++
				last, _ := e.log.last.Load().(string)
				c.emit(childRec{T: "recovered", Case: c.curCase.Load().(string), Target: tgt, Fn: "fsm.CheckTx via fsm.ApplyBlock", Msg: last, Input: hex.EncodeToString(raw)})
			}
			return
		}
		if res != nil && !c.seenTx[string(raw)] {
			c.seenTx[string(raw)] = true
			c.pending = append(c.pending, raw)
			c.pendingC = append(c.pendingC, c.curCase.Load().(string))
			if len(c.pending) >= 25 {
				c.flushApply()
			}
		}
	}
	switch name {
	case "fsm-message":
		checkTx(name, data)
		return
	case "raw-field":
		c.guard(name, "codec.GetRawProtoField", func() { _, _ = codec.GetRawProtoField(data, 1) })
		c.guard(name, "codec.NullifyProtoField", func() { _, _ = codec.NullifyProtoField(data, 2) })
		c.guard(name, "Block.BytesToBlockHash", func() { _, _ = new(lib.Block).BytesToBlockHash(data) })
		return
	case "state-key":
		c.guard(name, "fsm.AddressFromKey", func() { _, _ = fsm.AddressFromKey(data) })
		c.guard(name, "fsm.IdFromKey", func() { _, _ = fsm.IdFromKey(data) })
		return
	case "signed-tx":
		checkTx(name, data)
		return
	case "signed-msg":
		m := new(bft.Message)
		if err := lib.Unmarshal(data, m); err == nil {
			e.buildBFT()
			c.guard(name, "bft.HandleMessage", func() {
				if e.bft.HandleMessage(m) == nil {
					c.counts["bft_messages_accepted"]++
				}
			})
		}
		return
	}
	t := c.targets[name]
	msg := t.newMsg()
	var err lib.ErrorI
	c.guard(name, "lib.Unmarshal", func() { err = lib.Unmarshal(data, msg) })
	if err != nil {
		c.counts["decode_rejected"]++
		if name == "Transaction" {
			checkTx(name, data) // the mempool hands the raw bytes to ApplyBlock -> CheckTx, which decodes them again
		}
		return
	}
	c.counts["decoded_ok"]++
	switch x := msg.(type) {
	case *lib.Block:
		var chk lib.ErrorI
		c.guard(name, "Block.Check", func() { chk = x.Check(envNetworkID, envChainID) })
		c.guard(name, "Block.BytesToBlockHash", func() { _, _ = new(lib.Block).BytesToBlockHash(data) })
		if chk == nil { // lib/certificate.go:160-175: the hash is computed only for blocks that passed Check
			c.counts["blocks_passed_check"]++
			c.guard(name, "Block.Hash", func() { _, _ = x.Hash() })
			if x.BlockHeader.LastQuorumCertificate != nil {
				checkQC(name, x.BlockHeader.LastQuorumCertificate)
			}
		}
		for i, raw := range x.Transactions {
			if i >= 8 {
				break
			}
			checkTx(name, raw)
		}
	case *lib.Transaction:
		checkTx(name, data)
	case *lib.QuorumCertificate:
		checkQC(name, x)
	case *lib.BlockMessage:
		// the stateless prefix of controller.HandlePeerBlock (controller/block.go:566-635)
		qc := x.BlockAndCertificate
		checkQC(name, qc)
	case *lib.TxMessage:
		for i, raw := range x.Txs {
			if i >= 8 {
				break
			}
			checkTx(name, raw)
		}
	case *bft.Message:
		e.buildBFT() // fresh instance: the verdict for an input must not depend on what the shard fed before it
		c.guard(name, "Message.SignBytes", func() { _ = x.SignBytes() })
		c.guard(name, "bft.HandleMessage", func() {
			if e.bft.HandleMessage(x) == nil {
				c.counts["bft_messages_accepted"]++
			}
		})
	case *bft.DoubleSignEvidence:
		e.buildBFT()
		c.guard(name, "bft.ProcessDSE", func() { _, _ = e.bft.ProcessDSE(x) })
		c.guard(name, "bft.AddDSE", func() { d := bft.NewDSE(); _ = e.bft.AddDSE(&d, x) })
	case *p2p.Envelope:
		c.guard(name, "lib.FromAny(Envelope.Payload)", func() {
			if x.Payload != nil {
				_, _ = lib.FromAny(x.Payload)
			}
		})
	case *lib.CertificateResult:
		var chk lib.ErrorI
		c.guard(name, "CertificateResult.CheckBasic", func() { chk = x.CheckBasic() })
		if chk == nil {
			c.guard(name, "CertificateResult.Hash", func() { _ = x.Hash() })
			c.guard(name, "CertificateResult.Equals", func() { _ = x.Equals(x) })
		}
	}
}

// flushApply pushes the accepted transactions through the real ApplyBlock (the way the mempool and block application
// do); panics inside are recovered by canopy itself (fsm/state.go:142) and only counted.
func (c *child) flushApply() {
	if len(c.pending) == 0 {
		return
	}
	e := c.e
	txs, cases := c.pending, c.pendingC
	c.pending, c.pendingC = nil, nil
	apply := func(batch [][]byte) (recovered int64, err lib.ErrorI) {
		before := e.log.recovered.Load()
		c.guard("signed-tx", "fsm.ApplyBlock", func() {
			blk := &lib.Block{BlockHeader: &lib.BlockHeader{Time: uint64(1700000000000000), ProposerAddress: e.addrs[0]}, Transactions: batch}
			_, _, err = e.sm.ApplyBlock(context.Background(), blk, true)
		})
		e.sm.Reset()
		return e.log.recovered.Load() - before, err
	}
	rec, err := apply(txs)
	c.counts["applyblock_batches"]++
	c.counts["applyblock_txs"] += int64(len(txs))
	if err != nil {
		c.counts["applyblock_errors"]++
		if debugTiming {
			c.counts["dbg_applyerr_"+strings.ReplaceAll(err.Error(), "\n", " ")]++
		}
	}
	if rec > 0 { // find the transaction(s) that made canopy's own recover point fire
		for i, tx := range txs {
			if r, _ := apply([][]byte{tx}); r > 0 {
				c.counts["canopy_recovered_panics"]++
				last, _ := e.log.last.Load().(string)
				c.emit(childRec{T: "recovered", Case: cases[i], Target: "signed-tx", Fn: "fsm.ApplyBlock", Msg: last, Input: hex.EncodeToString(tx)})
			}
		}
	}
}

var debugTiming = os.Getenv("C19_DEBUG") != ""

func childMain(t *testing.T) {
	dir := os.Getenv("C19_DIR")
	shard, _ := strconv.Atoi(os.Getenv("C19_SHARD"))
	nShards, _ := strconv.Atoi(os.Getenv("C19_NSHARDS"))
	resumeAfter := os.Getenv("C19_RESUME_AFTER")
	mode := os.Getenv("C19_CHILD")
	c := &child{counts: map[string]int64{}, combos: map[string]bool{}, targets: map[string]target{}, hangSec: 30, seenTx: map[string]bool{}, sysTotals: map[string]int{}}
	if v, err := strconv.Atoi(os.Getenv("C19_HANG_SEC")); err == nil && v > 0 {
		c.hangSec = v
	}
	for _, tg := range decodeTargets() {
		c.targets[tg.name] = tg
	}
	c.outF = must(os.OpenFile(filepath.Join(dir, fmt.Sprintf("results-%d.jsonl", shard)), os.O_CREATE|os.O_WRONLY|os.O_APPEND, 0o644))
	c.out = bufio.NewWriter(c.outF)
	c.logF = must(os.OpenFile(filepath.Join(dir, fmt.Sprintf("inputs-%d.log", shard)), os.O_CREATE|os.O_WRONLY|os.O_TRUNC, 0o644))
	c.curCase.Store("")
	if mode == "oversize" {
		c.oversize()
		c.emit(childRec{T: "count", Counts: c.counts})
		c.emit(childRec{T: "done"})
		return
	}
	debug.SetMemoryLimit(3 << 30) // keeps the collector ahead of bursts of large inputs; no effect on what is executed
	c.e = newEnv(true)
	defer c.e.close()
	c.e.buildCorpus()
	var caseRe *regexp.Regexp
	if s := os.Getenv("VERIF_CASE"); s != "" {
		caseRe = regexp.MustCompile(s)
	}
	// watchdog: a generous per-input limit; firing ends the child, the parent re-runs the input alone
	ppid := os.Getppid()
	go func() {
		for {
			time.Sleep(500 * time.Millisecond)
			if os.Getppid() != ppid {
				os.Exit(5) // the parent is gone: do not linger as an orphan
			}
			st := c.curStart.Load()
			if st != 0 && time.Since(time.Unix(0, st)) > time.Duration(c.hangSec)*time.Second {
				name, _ := c.curCase.Load().(string)
				bz, _ := json.Marshal(childRec{T: "hang", Case: name, Msg: fmt.Sprintf("no return after %ds", c.hangSec)})
				f, _ := os.OpenFile(filepath.Join(dir, fmt.Sprintf("hang-%d.json", shard)), os.O_CREATE|os.O_WRONLY|os.O_TRUNC, 0o644)
				f.Write(bz)
				f.Close()
				os.Exit(4)
			}
		}
	}()
	skipping := resumeAfter != ""
	plan := decodePlan()
	for _, t := range sysLenTargets {
		total := c.sysLenTotal(t)
		n := total
		if lim := core.Pick(1000, 1<<30); n > lim {
			n = lim
		}
		plan = append(plan, planEntry{"sys-len:" + t, n})
		if shard == 0 {
			c.counts["sys_len_space_"+t] = int64(total)
		}
	}
	rTargets, rInputs, rNotes := c.regressionInputs()
	plan = append(plan, planEntry{"regress", len(rInputs)})
	for _, pe := range plan {
		for i := shard; i < pe.n; i += nShards {
			name := fmt.Sprintf("dec/%s/%d", pe.target, i)
			if skipping {
				if name == resumeAfter {
					skipping = false
				}
				continue
			}
			if caseRe != nil && !caseRe.MatchString(name) {
				continue
			}
			rng := core.NewRand(core.Seed(), "C19/"+name)
			var data []byte
			var ops []string
			execTarget := pe.target
			if pe.target == "regress" {
				execTarget, data, ops = rTargets[i], rInputs[i], []string{"regression:" + rNotes[i]}
			} else if strings.HasPrefix(pe.target, "sys-len:") {
				execTarget = pe.target[len("sys-len:"):]
				total := c.sysLenTotal(execTarget)
				// a fixed stride spreads the tier's sample over seeds, fields and variants (the thorough tier takes all)
				data, ops = c.genSysLen(execTarget, int((uint64(i)*7919+uint64(core.Seed()))%uint64(total)))
				if pe.n == total {
					data, ops = c.genSysLen(execTarget, i)
				}
			} else {
				data, ops = c.genInput(rng, pe.target)
			}
			c.curData, c.curOps = data, ops
			c.curCase.Store(name)
			c.logInput(name, data)
			if st := os.Getenv("C19_SELFTEST"); st != "" { // harness self-test: simulate a fatal crash / a hang at one case
				if st == "crash:"+name {
					go func() { panic("C19 self-test: simulated fatal error") }()
					time.Sleep(2 * time.Second)
				}
				if st == "hang:"+name {
					c.curStart.Store(time.Now().UnixNano())
					select {}
				}
			}
			if c.counts["inputs_"+pe.target] == 0 && shard == 0 {
				c.emit(childRec{T: "sample", Case: name, Target: pe.target, Ops: ops, Input: headHex(hex.EncodeToString(data), 160), At: strconv.Itoa(len(data))})
			}
			t0 := time.Now()
			c.curStart.Store(t0.UnixNano())
			c.exec(execTarget, data)
			c.curStart.Store(0)
			if debugTiming {
				el := time.Since(t0)
				c.counts["dbg_ms_"+pe.target] += el.Microseconds()
				if el > 300*time.Millisecond {
					c.emit(childRec{T: "slow", Case: name, Msg: el.String(), Ops: ops, At: strconv.Itoa(len(data))})
				}
			}
			c.counts["inputs_executed"]++
			c.counts["inputs_"+pe.target]++
			for _, o := range ops {
				if k := strings.IndexByte(o, ':'); k > 0 {
					o = o[:k]
				}
				c.combos[pe.target+"/"+o] = true
			}
		}
		c.curCase.Store("flush/" + pe.target)
		c.flushApply()
	}
	c.counts["canopy_recover_log_lines"] = c.e.log.recovered.Load()
	if debugTiming {
		if f, err := os.Create(filepath.Join(dir, fmt.Sprintf("heap-%d.pprof", shard))); err == nil {
			runtime.GC()
			_ = pprof.WriteHeapProfile(f)
			f.Close()
		}
	}
	combos := make([]string, 0, len(c.combos))
	for k := range c.combos {
		combos = append(combos, k)
	}
	sort.Strings(combos)
	c.emit(childRec{T: "count", Counts: c.counts, Combos: combos})
	c.emit(childRec{T: "done"})
}

// TestChild is the entry point of the child processes.
func TestChild(t *testing.T) {
	if os.Getenv("C19_CHILD") == "" {
		t.Skip("helper for TestCheck")
	}
	childMain(t)
}

// ---------------------------------------------------------------------------------------------
// size caps (child, because of the allocations)
// ---------------------------------------------------------------------------------------------

const (
	capList  = 100000           // lib/util.go protoMaxListLen
	capField = 32 * 1024 * 1024 // lib/util.go protoMaxFieldBytes
	capMsg   = 64 * 1024 * 1024 // lib/util.go protoMaxMessageBytes
)

func (c *child) oversize() {
	type oc struct {
		name   string
		build  func() []byte
		target func() proto.Message
		reject bool
	}
	rep := func(num protowire.Number, n int, body []byte) []byte {
		one := protowire.AppendBytes(protowire.AppendTag(nil, num, protowire.BytesType), body)
		return bytes.Repeat(one, n)
	}
	bigField := func(num protowire.Number, n int) []byte {
		b := protowire.AppendTag(nil, num, protowire.BytesType)
		b = protowire.AppendVarint(b, uint64(n))
		return append(b, make([]byte, n)...)
	}
	// a results message with n payment percents nested two levels deep
	nestedList := func(n int) []byte {
		pp := rep(1, n, []byte{0x10, 0x01})                                                // PaymentPercents{percent:1}
		rr := protowire.AppendBytes(protowire.AppendTag(nil, 1, protowire.BytesType), pp)  // CertificateResult.reward_recipients
		return protowire.AppendBytes(protowire.AppendTag(nil, 2, protowire.BytesType), rr) // QuorumCertificate.results
	}
	padTo := func(num protowire.Number, n int) []byte { // one bytes field whose whole encoding is exactly n bytes long
		tag := protowire.AppendTag(nil, num, protowire.BytesType)
		body := n - len(tag) - protowire.SizeVarint(uint64(n))
		for len(tag)+protowire.SizeVarint(uint64(body))+body < n {
			body++
		}
		for len(tag)+protowire.SizeVarint(uint64(body))+body > n {
			body--
		}
		b := protowire.AppendVarint(tag, uint64(body))
		return append(b, make([]byte, body)...)
	}
	cases := []oc{
		{"list-at-cap type=Block field=transactions", func() []byte { return rep(2, capList, nil) }, func() proto.Message { return new(lib.Block) }, false},
		{"list-over-cap type=Block field=transactions", func() []byte { return rep(2, capList+1, nil) }, func() proto.Message { return new(lib.Block) }, true},
		{"list-at-cap type=QuorumCertificate field=results.reward_recipients.payment_percents", func() []byte { return nestedList(capList) }, func() proto.Message { return new(lib.QuorumCertificate) }, false},
		{"list-over-cap type=QuorumCertificate field=results.reward_recipients.payment_percents", func() []byte { return nestedList(capList + 1) }, func() proto.Message { return new(lib.QuorumCertificate) }, true},
		{"field-at-cap type=Transaction field=memo", func() []byte { return bigField(7, capField) }, func() proto.Message { return new(lib.Transaction) }, false},
		{"field-over-cap type=Transaction field=memo", func() []byte { return bigField(7, capField+1) }, func() proto.Message { return new(lib.Transaction) }, true},
		{"field-over-cap type=QuorumCertificate field=block", func() []byte { return bigField(4, capField+1) }, func() proto.Message { return new(lib.QuorumCertificate) }, true},
		{"field-over-cap type=Block field=transactions[0]", func() []byte { return bigField(2, capField+1) }, func() proto.Message { return new(lib.Block) }, true},
		{"message-at-cap type=TxMessage", func() []byte { return padTo(2, capMsg) }, func() proto.Message { return new(lib.TxMessage) }, false},
		{"message-over-cap type=TxMessage", func() []byte { return padTo(2, capMsg+1) }, func() proto.Message { return new(lib.TxMessage) }, true},
		{"message-at-cap type=Packet", func() []byte { return padTo(3, capMsg) }, func() proto.Message { return new(p2p.Packet) }, false},
		{"message-over-cap type=Packet", func() []byte { return padTo(3, capMsg+1) }, func() proto.Message { return new(p2p.Packet) }, true},
	}
	for _, k := range cases {
		name := "oversize/" + k.name
		c.curCase.Store(name)
		data := k.build()
		fmt.Fprintf(c.logF, "%s len=%d\n", name, len(data))
		var err lib.ErrorI
		c.curData = nil
		c.guard("oversize", "lib.Unmarshal", func() { err = lib.Unmarshal(data, k.target()) })
		c.counts["oversize_cases"]++
		verdict := "rejected"
		if err == nil {
			verdict = "accepted"
		}
		c.emit(childRec{T: "oversize", Case: name, Target: k.name, Msg: verdict, Fn: strconv.FormatBool(k.reject), At: strconv.Itoa(len(data))})
		debug.FreeOSMemory()
	}
}

// ---------------------------------------------------------------------------------------------
// parent side
// ---------------------------------------------------------------------------------------------

type childResult struct {
	recs   []childRec
	done   bool
	stderr string
	exit   int
}

func spawnChild(dir string, mode string, shard, nShards int, resumeAfter string, hangSec int) childResult {
	_ = os.Remove(filepath.Join(dir, fmt.Sprintf("results-%d.jsonl", shard)))
	_ = os.Remove(filepath.Join(dir, fmt.Sprintf("hang-%d.json", shard)))
	cmd := exec.Command(os.Args[0], "-test.run", "^TestChild$", "-test.count=1", "-test.timeout", "12h")
	cmd.Env = append(os.Environ(), "C19_CHILD="+mode, "C19_DIR="+dir, fmt.Sprintf("C19_SHARD=%d", shard), fmt.Sprintf("C19_NSHARDS=%d", nShards),
		"C19_RESUME_AFTER="+resumeAfter, fmt.Sprintf("C19_HANG_SEC=%d", hangSec), "GOTRACEBACK=all")
	var eb bytes.Buffer
	cmd.Stderr = &eb
	cmd.Stdout = &eb
	err := cmd.Run()
	res := childResult{}
	if err != nil {
		res.exit = 1
		if ee, ok := err.(*exec.ExitError); ok {
			res.exit = ee.ExitCode()
		}
	}
	s := eb.String()
	if len(s) > 6000 {
		// keep the head (panic / fatal error line and the first goroutine) and the tail
		s = s[:4000] + "\n...\n" + s[len(s)-1500:]
	}
	res.stderr = s
	if f, err := os.Open(filepath.Join(dir, fmt.Sprintf("results-%d.jsonl", shard))); err == nil {
		sc := bufio.NewScanner(f)
		sc.Buffer(make([]byte, 1<<20), 1<<28)
		for sc.Scan() {
			var r childRec
			if json.Unmarshal(sc.Bytes(), &r) == nil {
				res.recs = append(res.recs, r)
				if r.T == "done" {
					res.done = true
				}
			}
		}
		f.Close()
	}
	return res
}

func lastLogged(dir string, shard int) (name, inputHex string) {
	bz, err := os.ReadFile(filepath.Join(dir, fmt.Sprintf("inputs-%d.log", shard)))
	if err != nil {
		return "", ""
	}
	lines := strings.Split(strings.TrimRight(string(bz), "\n"), "\n")
	if len(lines) == 0 {
		return "", ""
	}
	parts := strings.SplitN(lines[len(lines)-1], " ", 2)
	if len(parts) == 2 {
		return parts[0], parts[1]
	}
	return parts[0], ""
}

func targetOfCase(name string) string {
	p := strings.Split(name, "/")
	if len(p) >= 2 {
		return p[1]
	}
	return name
}

func panicSignature(r childRec) string {
	if strings.HasPrefix(r.Fn, "lib.Unmarshal") {
		return fmt.Sprintf("decoder-panic type=%s at=%s", r.Target, r.At)
	}
	return fmt.Sprintf("handler-panic fn=%s at=%s", r.Fn, r.At)
}

func absorb(run *core.Run, res childResult) {
	for _, r := range res.recs {
		switch r.T {
		case "panic":
			viol(run, panicSignature(r), "^"+regexp.QuoteMeta(r.Case)+"$", map[string]any{"input_hex": r.Input, "mutations": r.Ops, "panic": r.Msg, "stack": r.Stack, "called": r.Fn, "target": r.Target})
		case "sample":
			if r.Target == "QuorumCertificate" || r.Target == "bft.Message" {
				run.Sample(map[string]any{"monitor": "decode", "case": r.Case, "mutations": r.Ops, "input_len": r.At, "input_hex_head": r.Input})
			}
		case "recovered":
			run.Count("canopy_recovered_panics", 1)
			if recoveredSamples.Add(1) > 2 {
				recoveredKinds.Store(recoveredKind(r.Msg), r.Case)
				continue
			}
			run.Sample(map[string]any{"note": "panic recovered by canopy's own recover point (not a violation)", "case": r.Case, "fn": r.Fn, "log": firstLines(r.Msg, 14), "input_hex_head": headHex(r.Input, 300), "input_len": len(r.Input) / 2})
			recoveredKinds.Store(recoveredKind(r.Msg), r.Case)
		case "oversize":
			mustReject := r.Fn == "true"
			run.Count("oversize_cases", 1)
			run.Distinct("oversize/" + r.Target)
			if mustReject && r.Msg == "accepted" {
				viol(run, "oversize-accepted "+r.Target, "oversize", map[string]any{"encoded_len": r.At})
			}
			if !mustReject && r.Msg == "rejected" {
				viol(run, "at-cap-rejected "+r.Target, "oversize", map[string]any{"encoded_len": r.At, "note": "an element exactly at the stated cap was refused"})
			}
		case "count":
			for k, v := range r.Counts {
				if strings.HasPrefix(k, "oversize") {
					continue
				}
				run.Count("dec_"+k, v)
			}
			for _, cb := range r.Combos {
				run.Distinct("dec/" + cb)
			}
		}
	}
}

// decodeChildren runs the decode plan sharded over child processes.
func decodeChildren(run *core.Run) {
	dir, err := os.MkdirTemp("", "c19-children-")
	if err != nil {
		panic(err)
	}
	defer os.RemoveAll(dir)
	nShards := core.Workers()
	if cr := os.Getenv("VERIF_CASE"); cr != "" && !strings.Contains(cr, "dec/") {
		nShards = 0 // replay of an in-process case (or of the size-cap cases): no decode shard can match
	}
	var wg sync.WaitGroup
	for s := 0; s < nShards; s++ {
		wg.Add(1)
		go func(s int) {
			defer wg.Done()
			resume := ""
			for attempt := 0; attempt < 200; attempt++ {
				res := spawnChild(dir, "decode", s, nShards, resume, envInt("C19_HANG_SEC", 30))
				absorb(run, res)
				if res.done {
					return
				}
				name, input := lastLogged(dir, s)
				if hb, err := os.ReadFile(filepath.Join(dir, fmt.Sprintf("hang-%d.json", s))); err == nil {
					var hr childRec
					_ = json.Unmarshal(hb, &hr)
					// confirm alone, with a much longer limit, before calling it a hang
					one := spawnSingle(dir, s+1000*(attempt+1), hr.Case, envInt("C19_HANG_CONFIRM_SEC", 180))
					absorb(run, one)
					if !one.done {
						viol(run, "decoder-hang type="+targetOfCase(hr.Case), "^"+regexp.QuoteMeta(hr.Case)+"$", map[string]any{"input_hex": input, "note": fmt.Sprintf("no return within %d s in the shard and within %d s alone", envInt("C19_HANG_SEC", 30), envInt("C19_HANG_CONFIRM_SEC", 180))})
					} else {
						// a stall of the loaded machine, not of the decoder: the same input returns when it runs alone (and it was
						// judged there); counted, not a verdict
						run.Count("watchdog_fired_but_input_returned_when_run_alone", 1)
					}
					resume = hr.Case
					continue
				}
				if name == "" {
					run.Inconclusive("child %d died before logging an input: exit=%d %s", s, res.exit, tail(res.stderr, 600))
					return
				}
				kind := "decoder-crash"
				if strings.Contains(res.stderr, "fatal error:") {
					kind = "decoder-fatal"
				}
				viol(run, fmt.Sprintf("%s type=%s", kind, targetOfCase(name)), "^"+regexp.QuoteMeta(name)+"$",
					map[string]any{"input_hex": input, "exit": res.exit, "output": res.stderr})
				resume = name
			}
			run.Inconclusive("child %d restarted 200 times", s)
		}(s)
	}
	// size caps in their own child (large allocations)
	if run.Want("oversize") {
		res := spawnChild(dir, "oversize", 999, 1, "", 600)
		absorb(run, res)
		if !res.done {
			name, _ := lastLogged(dir, 999)
			viol(run, "decoder-crash type=oversize", "oversize", map[string]any{"last": name, "exit": res.exit, "output": res.stderr})
		}
	}
	wg.Wait()
	rk := map[string]string{}
	recoveredKinds.Range(func(k, v any) bool { rk[k.(string)] = v.(string); return true })
	run.Extra("canopy_recovered_panic_kinds", rk)
	run.Eval(int(run.Counter("dec_inputs_executed")))
}

func spawnSingle(dir string, _ int, caseName string, hangSec int) childResult {
	sub, _ := os.MkdirTemp(dir, "single-") // own directory: shard files stay intact
	cmd := exec.Command(os.Args[0], "-test.run", "^TestChild$", "-test.count=1", "-test.timeout", "1h")
	cmd.Env = append(os.Environ(), "C19_CHILD=decode", "C19_DIR="+sub, "C19_SHARD=0", "C19_NSHARDS=1", "C19_RESUME_AFTER=",
		"VERIF_CASE=^"+regexp.QuoteMeta(caseName)+"$", fmt.Sprintf("C19_HANG_SEC=%d", hangSec))
	var eb bytes.Buffer
	cmd.Stderr, cmd.Stdout = &eb, &eb
	_ = cmd.Run()
	res := childResult{stderr: eb.String()}
	if f, err := os.Open(filepath.Join(sub, "results-0.jsonl")); err == nil {
		sc := bufio.NewScanner(f)
		sc.Buffer(make([]byte, 1<<20), 1<<28)
		for sc.Scan() {
			var r childRec
			if json.Unmarshal(sc.Bytes(), &r) == nil {
				if r.T == "count" {
					continue // the shard run already counted this input
				}
				res.recs = append(res.recs, r)
				if r.T == "done" {
					res.done = true
				}
			}
		}
		f.Close()
	}
	return res
}

var recoveredSamples atomic.Int32

var recoveredKinds sync.Map // first canopy frame below the panic -> an example case

func firstLines(s string, n int) string {
	l := strings.Split(s, "\n")
	if len(l) > n {
		l = l[:n]
	}
	return strings.Join(l, "\n")
}

func headHex(h string, n int) string {
	if len(h) > n {
		return h[:n] + "..."
	}
	return h
}

// recoveredKind names a canopy-recovered panic by its message and the first canopy frame under panic().
func recoveredKind(log string) string {
	msg := log
	if i := strings.Index(msg, ", stack:"); i > 0 {
		msg = msg[:i]
	}
	rest := log
	if i := strings.Index(rest, "panic("); i >= 0 {
		rest = rest[i:]
	}
	return strings.TrimPrefix(msg, "panic recovered, err: ") + " @ " + topCanopyFrame(strings.Join(strings.Split(rest, "\n")[1:], "\n"))
}

func envInt(name string, def int) int {
	if v, err := strconv.Atoi(os.Getenv(name)); err == nil && v > 0 {
		return v
	}
	return def
}

func tail(s string, n int) string {
	if len(s) > n {
		return s[len(s)-n:]
	}
	return s
}

// ---------------------------------------------------------------------------------------------
// unknown fields (in-process: a valid message plus one well-formed unknown field)
// ---------------------------------------------------------------------------------------------

func unknownFields(run *core.Run) {
	e := newEnv(false)
	e.buildCorpus()
	tg := map[string]target{}
	for _, t := range decodeTargets() {
		tg[t.name] = t
	}
	rounds := core.Pick(6, 40)
	names := []string{"Block", "Transaction", "QuorumCertificate", "bft.Message", "BlockMessage", "TxMessage", "DoubleSignEvidence", "Envelope"}
	core.Parallel(len(names), func(ti int) {
		name := names[ti]
		t := tg[name]
		cname := "unknown/" + name
		if !run.Want(cname) {
			return
		}
		rng := run.Rand(cname)
		var seeds [][]byte
		seeds = append(seeds, e.corpus[name]...)
		for i := 0; i < core.Pick(12, 200); i++ {
			m := t.newMsg()
			c19util.Populate(rng, m.ProtoReflect(), 6, 0.9, e.anyPool())
			seeds = append(seeds, mb(m))
		}
		depths := map[int]bool{}
		for si, seed := range seeds {
			// the unmodified seed must decode (otherwise a rejection below would prove nothing)
			if err := lib.Unmarshal(seed, t.newMsg()); err != nil {
				run.Count("unknown_seed_rejected", 1)
				continue
			}
			tree, ok := c19util.ParseTree(seed, mdOf(t.newMsg()), 0, false)
			if !ok {
				continue
			}
			nNodes := len(tree.Nodes())
			for ni := 0; ni < nNodes; ni++ {
				for r := 0; r < rounds; r++ {
					tr, _ := c19util.ParseTree(seed, mdOf(t.newMsg()), 0, false)
					nd := tr.Nodes()[ni]
					num, typ := c19util.InjectUnknown(rng, nd)
					data := tr.Encode()
					var err lib.ErrorI
					func() {
						defer func() {
							if p := recover(); p != nil {
								viol(run, "decoder-panic type="+name+" at=unknown-field-injection", cname, map[string]any{"input_hex": hex.EncodeToString(data), "panic": fmt.Sprint(p)})
								err = lib.ErrUnmarshal(fmt.Errorf("panic"))
							}
						}()
						err = lib.Unmarshal(data, t.newMsg())
					}()
					run.Count("unknown_injections", 1)
					where := string(nd.MD.FullName())
					switch {
					case err != nil:
						run.Count("unknown_rejected", 1)
						if t.critical && !nd.InsideAny && !nd.Embedded {
							depths[nd.Depth] = true
							run.Distinct(fmt.Sprintf("unknown/%s/d%d/%s", name, nd.Depth, where))
						}
					case !t.critical:
						// the strict path of lib.Unmarshal covers Block, Transaction and QuorumCertificate only (lib/util.go:313-316)
						run.Count("obs_unknown_accepted_noncritical_"+name, 1)
					case nd.InsideAny:
						run.Count("obs_unknown_accepted_inside_any_payload", 1) // covered by the signature (DESIGN §3), not demanded
					case nd.Embedded:
						run.Count("obs_unknown_accepted_inside_embedded_bytes", 1) // opaque bytes here; checked when that layer is decoded
					default:
						viol(run, fmt.Sprintf("unknown-field-accepted type=%s depth=%d in=%s", name, nd.Depth, where), cname,
							map[string]any{"input_hex": hex.EncodeToString(data), "seed_index": si, "node": ni, "field_number": num, "wire_type": typ})
					}
				}
			}
		}
		if t.critical {
			run.Extra("unknown_field_depths_"+name, sortedInts(depths))
		}
		run.Eval(1)
	})
}
