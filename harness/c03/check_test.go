package c03

// C03 — deterministic replicated execution. Three full nodes hold the same prefix; every block is executed on every
// path the property names — proposer (mempool FSM, failing and oversize transactions present), replica validation
// (twice, and after validating and discarding a different proposal for the same height), commit with the cached
// result, commit by replay, commit after a process restart (store closed and re-opened on its file system), and sync
// replay on a fresh node fed from an archive — and the monitors compare bytes: header, every TxResult, events, the
// full state dump. The parallel tree commit's worker completion order is perturbed through the verif hook.

import (
	"bytes"
	"fmt"
	"math/rand"
	"os"
	"runtime"
	"testing"
	"time"

	"github.com/canopy-network/canopy/fsm"
	"github.com/canopy-network/canopy/lib"
	"github.com/canopy-network/canopy/store"
	"github.com/cockroachdb/pebble/v2/vfs"
	"verif/core"
	"verif/node"
)

func blockBytes(ch *node.Chain, i int, h uint64) ([]byte, error) {
	b, err := ch.Block(i, h)
	if err != nil {
		return nil, err
	}
	return lib.Marshal(b)
}

func runCase(t *testing.T, run *core.Run, name string, idx int, rng *rand.Rand) {
	opts := node.WorldOpts{
		Nodes: 3, GenesisVals: 5, ExtraVals: 4, Users: 8, Gov: true, Delegates: 1,
		Stake:   func(i int, r *rand.Rand) uint64 { return uint64(1000 + r.Intn(3_000_000)) },
		Weights: map[string]int{"send": 40, "send-edge": 10, "stake": 6, "edit-stake": 8, "unstake": 4, "pause": 4, "unpause": 3, "subsidy": 5, "invalid": 8, "change-param": 4, "dao-transfer": 3},
		Params: func(p *fsm.Params, r *rand.Rand) {
			p.Consensus.ProtocolVersion = fsm.NewProtocolVersion(0, uint64(1+idx%2))
			p.Validator.NonSignWindow, p.Validator.MaxNonSign = 3, 1
			if idx%3 == 0 {
				p.Consensus.BlockSize = lib.MaxBlockHeaderSize + 1500 // a few transactions fill a block: the proposer path sees oversize ones
			}
		},
		NodeOpts: func(i int, o *node.Options) {
			if i == 1 {
				o.FS, o.MemTableSize = vfs.NewMem(), 256<<10 // node 1 lives on a file system so it can be restarted
			}
		},
	}
	w, err := node.NewWorld(rng, opts)
	if err != nil {
		t.Fatalf("%s: world: %v", name, err)
	}
	ch := w.Ch
	defer ch.Close()
	// perturb the completion order of the 8 sub-tree workers and indexer goroutines (process-global hook: one chain per process at a time)
	jitter := rand.New(rand.NewSource(rng.Int63()))
	f := func(pt string, i int) {
		if pt == "smt.worker.done" || pt == "smt.worker.start" {
			switch jitter.Intn(4) {
			case 0:
				runtime.Gosched()
			case 1:
				time.Sleep(time.Duration(jitter.Intn(200)) * time.Microsecond)
			}
		}
	}
	if os.Getenv("NOJITTER") == "" {
		store.VerifPoint.Store(&f)
	}
	defer store.VerifPoint.Store(nil)
	if os.Getenv("NOPROCS") == "" {
		runtime.GOMAXPROCS([]int{1, 2, 16}[idx%3])
	}
	defer runtime.GOMAXPROCS(runtime.NumCPU())

	blocks := core.Pick(14, 40)
	fail := func(kind string, h uint64, detail map[string]any) {
		detail["case"], detail["height"] = name, h
		run.Violation(kind, "^"+name+"$", detail)
	}
	nextRestart := 1 + rng.Intn(3)
	ch.MidwayRecheck = idx%2 == 0 // in half of the chains the proposer builds its proposal several times per height
	for b := 0; b < blocks; b++ {
		h := w.Height()
		proposer := b % 3
		var txs [][]byte
		n := 3 + rng.Intn(14)
		if b%5 == 4 {
			n = 30 + rng.Intn(30) // above the 16-operation parallel-commit threshold by a wide margin
		}
		for i := 0; i < n; i++ {
			if ti := w.RandomTx(); ti != nil {
				txs = append(txs, ti.Bytes)
			}
		}
		// a competing proposal for the same height from another node (speculative execution that is then discarded)
		alt, altErr := ch.Propose((proposer+1)%3, txs[:len(txs)/2], nil)
		p, e := ch.Propose(proposer, txs, nil)
		if e != nil {
			fail("proposer-cannot-build-block", h, map[string]any{"error": e.Error()})
			return
		}
		run.Count("proposals_built", 1)
		results := make([]*lib.BlockResult, 3)
		for i := 0; i < 3; i++ {
			if os.Getenv("NOALT") == "" && altErr == nil && rng.Intn(2) == 0 && i != (proposer+1)%3 {
				if _, e := ch.Validate(i, alt, nil); e == nil {
					run.Count("speculative_validations_discarded", 1)
				}
			}
			r1, e := ch.Validate(i, p, nil)
			if e != nil {
				path := "validate"
				if i == proposer {
					path = "own-proposal"
				}
				fail("replica-rejects-honest-proposal path="+path, h, map[string]any{"node": i, "proposer": proposer, "error": e.Error(), "txs": len(p.Block.Transactions)})
				return
			}
			run.Count("validations", 1)
			if rng.Intn(3) == 0 {
				r2, e := ch.Validate(i, p, nil)
				if e != nil {
					fail("replica-rejects-honest-proposal path=revalidate", h, map[string]any{"node": i, "error": e.Error()})
					return
				}
				a, _ := lib.Marshal(r1)
				bb, _ := lib.Marshal(r2)
				if !bytes.Equal(a, bb) {
					fail("validation-result-differs-between-executions", h, map[string]any{"node": i})
					return
				}
				run.Count("revalidations_compared", 1)
			}
			results[i] = r1
		}
		vs, e := ch.Committee(ch.Nodes[proposer], p.QC.Header.RootHeight)
		if e != nil {
			t.Fatalf("%s: committee: %v", name, e)
		}
		if _, _, er := ch.Certify(p.QC, vs, w.SignerPick()); er != nil {
			t.Fatalf("%s: certify: %v", name, er)
		}
		// restart node 1 before committing on some heights (commit after a restart = replay on a freshly opened store)
		restarted := false
		if b == nextRestart {
			// gaps of 1, 2, 3 or 4 blocks between restarts: what a re-opened store finds in one flushed table differs
			nextRestart = b + []int{1, 1, 2, 2, 3, 4}[rng.Intn(6)]
			if err := ch.Restart(1); err != nil {
				fail("restart-failed", h, map[string]any{"error": err.Error()})
				return
			}
			restarted = true
			run.Count("restarts", 1)
		}
		for i := 0; i < 3; i++ {
			cached := results[i]
			path := "cached"
			if rng.Intn(2) == 0 || (i == 1 && restarted) {
				cached, path = nil, "replay"
			}
			if i == 1 && restarted {
				path = "replay-after-restart"
			}
			if e := ch.Deliver(i, p.QC, cached, false); e != nil {
				fail("commit-failed path="+path, h, map[string]any{"node": i, "error": e.Error()})
				return
			}
			run.Count("commits_"+path, 1)
		}
		// byte equality across nodes: indexed block (header, tx results, events) and full state
		ref, e2 := blockBytes(ch, 0, h)
		if e2 != nil {
			t.Fatalf("%s: load block: %v", name, e2)
		}
		dump0, cnt, _ := node.DumpState(ch.Nodes[0].C.FSM.Store())
		for i := 1; i < 3; i++ {
			bz, e := blockBytes(ch, i, h)
			if e != nil || !bytes.Equal(bz, ref) {
				fail("indexed-block-differs-between-nodes", h, map[string]any{"node": i, "error": fmt.Sprint(e)})
				return
			}
			d, _, _ := node.DumpState(ch.Nodes[i].C.FSM.Store())
			if d != dump0 {
				fail("state-dump-differs-between-nodes", h, map[string]any{"node": i, "dump0": dump0, "dump": d})
				return
			}
		}
		run.Count("blocks_compared_across_nodes", 1)
		run.Count("state_records_compared", int64(cnt))
		run.Count("transactions_included", int64(len(p.Block.Transactions)))
		ch.Records = append(ch.Records, &node.BlockRecord{Height: h, QC: p.QC, BlockHash: p.Block.BlockHeader.Hash, StateRoot: p.Block.BlockHeader.StateRoot, Block: p.Block})
	}
	// sync replay: a fresh node is fed the certified blocks as they were gossiped
	j, err := ch.AddNode()
	if err != nil {
		t.Fatalf("%s: late joiner: %v", name, err)
	}
	for _, rec := range ch.Records {
		if e := ch.Deliver(j, rec.QC, nil, false); e != nil {
			fail("commit-failed path=sync-replay", rec.Height, map[string]any{"error": e.Error()})
			return
		}
		a, _ := blockBytes(ch, 0, rec.Height)
		bz, _ := blockBytes(ch, j, rec.Height)
		if !bytes.Equal(a, bz) {
			fail("indexed-block-differs-between-nodes", rec.Height, map[string]any{"node": "late-joiner"})
			return
		}
		run.Count("commits_sync-replay", 1)
	}
	d0, _, _ := node.DumpState(ch.Nodes[0].C.FSM.Store())
	dj, _, _ := node.DumpState(ch.Nodes[j].C.FSM.Store())
	if d0 != dj {
		fail("state-dump-differs-between-nodes", w.Height(), map[string]any{"node": "late-joiner"})
		return
	}
	run.Eval(1)
	run.Distinct(fmt.Sprintf("%s|%d", name, len(ch.Records)))
	run.Sample(map[string]any{"case": name, "blocks": blocks, "gomaxprocs": []int{1, 2, 16}[idx%3], "generated": w.NTx})
}

func TestCheck(t *testing.T) {
	run := core.Start(t, "C03", "exploration",
		"seeded chains on 3 full nodes + a late joiner: every block (3-60 generated transactions incl. failing, duplicate and oversize ones) is executed by the proposer, validated by every node "+
			"(some twice, some after validating a competing proposal), committed with the cached result or by replay (PRNG per node), on one node after a restart, and replayed on a fresh node; "+
			"indexed block bytes and the full state dump are compared across nodes after every block; GOMAXPROCS 1/2/16, jittered sub-tree worker order; distinct_nontrivial = distinct completed chains")
	defer run.Finish()
	run.MinDistinct = 2
	run.Assume("nondeterminism that needs another machine (CPU features) is out of reach; process-wide caches are purged when control passes between nodes of one test binary (real nodes do not share a process)")
	n := core.Pick(6, 200)
	run.Sharded(n, func(i int) {
		name := fmt.Sprintf("chain/%d", i)
		if run.Want(name) {
			runCase(t, run, name, i, run.Rand(name))
		}
	})
}
