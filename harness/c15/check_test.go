package c15

// C15 — liveness under eventual synchrony, restated as bounded progress (DESIGN §2 C15): from any reachable pre-GST
// configuration the simulator produces, once messages are delivered within the phase timeout and no more root updates
// start, every honest replica commits before H honest-led rounds have elapsed.

import (
	"fmt"
	"os"

	"github.com/canopy-network/canopy/lib"
	"sort"
	"testing"

	"verif/bftsim"
	"verif/core"
)

const H = 4 // honest-led rounds allowed after GST

func TestCheck(t *testing.T) {
	run := core.Start(t, "C15", "exploration",
		"each case = adversarial prefix (scenario, committee, Byzantine subset < 1/3, timeout configuration, PRNG schedule) run for a PRNG time on real bft.BFT "+
			"instances, then GST; verdict = all honest replicas commit the in-flight height within H=4 honest-led rounds after GST (rounds where honest replicas holding "+
			">= the +2/3 threshold selected the same honest proposer). distinct_nontrivial = distinct executed schedules among cases where, at GST, replicas were at "+
			"different rounds/phases or at least one was locked")
	defer run.Finish()
	run.MinDistinct = 15
	run.Assume("unbounded 'eventually' restated as a bound of 4 honest-led rounds; rounds led by Byzantine/silent proposers or with split selection are not counted (reported); virtual time only")
	coms := bftsim.Committees()
	tos := bftsim.TimeoutConfigs()
	prefixes := []string{"split", "hidden-lock", "commit-withheld", "lock-replay-reset", "lock-replay-reset", "replay", "random", "crash"}
	n := core.Pick(70, 8000)
	const anyKind = 60 // see the second restatement below
	hist := map[int]int{}
	var histMu = make(chan struct{}, 1)
	histMu <- struct{}{}
	core.Parallel(n, func(j int) {
		name := fmt.Sprintf("prefix/%d", j)
		if !run.Want(name) {
			return
		}
		rng := run.Rand(name)
		sc := prefixes[rng.Intn(len(prefixes))]
		com := coms[rng.Intn(len(coms))]
		c := bftsim.BuildCase(name, sc, com, rng.Int63())
		c.Cfg.Timeouts = tos[rng.Intn(len(tos))]
		if rng.Intn(5) != 0 {
			// most prefixes keep anybody from committing before GST: replicas lock, leaders never see the PRECOMMIT votes
			c.Adv.K.DropPrecommitVotesP = 1
			c.Adv.K.Playbooks = []string{"stale", "forged", "split", "partial", "replayqc"} // Byzantine leaders that never complete a commit
		}
		c.Cfg.Heights = 1
		c.Cfg.MaxRounds = 0
		c.Cfg.MaxEvents = 40000
		// in a third of the cases stakes move with the root height: the committee keeps its members but its stake-sorted order
		// (hence every signer bitmap) differs between root heights, so locks and certificates from before a root-height reset
		// have to be checked against the committee of THEIR root height
		c.Cfg.ReorderCommittee = j%3 == 1
		healAt := int64(600 + rng.Intn(12000))
		byzQuiet := rng.Intn(2) == 0
		stateTriggered := false
		if sc == "lock-replay-reset" {
			// GST is triggered by the state this prefix aims at: somebody holds a lock from the old root height, others lock a
			// different value at (new root height, round 0), nobody has committed; afterwards every honest vote is needed
			stateTriggered, byzQuiet = true, true
			c.Adv.K.DropPrecommitVotesP = 1
			healAt = 60000
		}
		s := bftsim.New(c.Cfg, c.Adv)
		if os.Getenv("VERIF_CASE") != "" {
			s.EnableLog()
		}
		if c.Script != nil {
			c.Script(s, c.Adv)
		}
		divergent := false
		doHeal := func() {}
		if stateTriggered {
			prev := c.Adv.OnLock
			armed := false
			c.Adv.OnLock = func(i int, qc *lib.QuorumCertificate) {
				if prev != nil {
					prev(i, qc)
				}
				if !armed && qc.Header.RootHeight > s.Cfg.RootStart {
					armed = true
					s.At(150+s.Rng.Int63n(400), func() { doHeal() })
				}
			}
		}
		healed := false
		s.At(healAt, func() { doHeal() })
		doHeal = func() {
			if healed {
				return
			}
			healed = true
			// measure the configuration at GST
			views := map[string]bool{}
			locked := 0
			for _, i := range s.Honest() {
				b := s.Replicas[i].BFT
				views[fmt.Sprintf("%d/%d/%d", b.RootHeight, b.Round, b.Phase)] = true
				if b.HighQC != nil {
					locked++
				}
			}
			divergent = len(views) > 1 || locked > 0
			c.Heal(s, byzQuiet)
		}
		tt := c.Cfg.Timeouts
		minWait := int64(tt.Election)
		for _, x := range []int{tt.ElectionVote, tt.Propose, tt.ProposeVote, tt.Precommit, tt.PrecommitVote, tt.Commit} {
			if int64(x) < minWait {
				minWait = int64(x)
			}
		}
		// run until every honest replica committed height 1, or H+1 honest-led rounds started after GST, or the watchdog fires
		honestLedAfter := func() (led, faulty int) {
			for _, ri := range s.RoundOrder {
				if s.HealedAt == 0 || ri.FirstSeen < s.HealedAt+20 {
					continue
				}
				// a round counts when it is honest-led AND in phase: all honest replicas cast their election vote within the
				// shortest phase wait of that round (messages between them then arrive inside each other's phase windows)
				if s.HonestLed(ri) && len(ri.At) == len(s.Honest()) && ri.Spread()+10 < minWait*int64(2*ri.Round+1) {
					led++
				} else {
					faulty++
				}
			}
			return
		}
		allDone := func() bool {
			for _, i := range s.Honest() {
				if s.Replicas[i].Height() < 2 {
					return false
				}
			}
			return true
		}
		for n := 0; s.Step(); n++ {
			if allDone() {
				break
			}
			if n%64 == 0 {
				if led, faulty := honestLedAfter(); led > H+1 || led+faulty > anyKind+4 {
					break
				}
			}
		}
		run.Eval(1)
		led, faulty := honestLedAfter()
		done := allDone()
		run.Count("honest_led_rounds_after_gst", int64(led))
		run.Count("faulty_led_or_split_rounds_after_gst", int64(faulty))
		run.Count("locks_observed", int64(s.Stats.Locks))
		run.Count("round_interrupts", int64(s.Stats.RoundInterrupts))
		run.Count("root_height_resets", int64(s.Stats.RootBumps))
		if s.HealedAt == 0 {
			if done {
				run.Count("cases_committed_before_gst", 1)
			} else {
				run.Count("cases_watchdog_before_gst", 1)
			}
			return
		}
		if divergent {
			run.Count("cases_divergent_at_gst", 1)
			run.Distinct(s.TraceHash())
		}
		<-histMu
		if done {
			hist[led]++
		} else {
			hist[-1]++
		}
		histMu <- struct{}{}
		total := led + faulty
		for _, b := range []int{2, 5, 10, 20, 40, 1 << 30} {
			if total <= b {
				if done {
					run.Count(fmt.Sprintf("committed_within_%d_rounds_after_gst_of_any_kind", b), 1)
				}
				break
			}
		}
		switch {
		case done:
			run.Count("cases_committed_after_gst", 1)
		case total > anyKind:
			// second restatement: whatever the rounds looked like (Byzantine leaders, replicas out of phase), the network has
			// been synchronous for more than `anyKind` rounds and nothing was committed. On the unchanged code 8000 thorough
			// cases needed at most 20 rounds of any kind (6114 of them at most 2); after GST only the replicas' own timers can
			// keep them out of phase, so this is a failure of the protocol's round synchronisation, not of the network.
			run.Violation(fmt.Sprintf("no-commit-within-%d-rounds-of-any-kind-after-gst prefix=%s", anyKind, sc), "^"+name+"$",
				map[string]any{"case": c.Describe(s), "healed_at": s.HealedAt, "byz_quiet": byzQuiet, "honest_led_in_phase_rounds": led, "other_rounds": faulty, "timeouts": c.Cfg.Timeouts})
		case led > H:
			tbl := []string{}
			for _, i := range s.Honest() {
				b := s.Replicas[i].BFT
				lock := "-"
				if b.HighQC != nil {
					lock = fmt.Sprintf("%x@rh%d/r%d", b.HighQC.BlockHash[:4], b.HighQC.Header.RootHeight, b.HighQC.Header.Round)
				}
				tbl = append(tbl, fmt.Sprintf("r%d view=(rh%d,r%d,%s) lock=%s committed=%v", i, b.RootHeight, b.Round, b.Phase, lock, s.Replicas[i].Height() > 1))
			}
			log := s.Log
			if len(log) > 300 {
				log = log[len(log)-300:]
			}
			run.Violation(fmt.Sprintf("no-commit-within-%d-honest-led-rounds prefix=%s", H, sc), "^"+name+"$",
				map[string]any{"case": c.Describe(s), "healed_at": s.HealedAt, "byz_quiet": byzQuiet, "honest_led_rounds": led, "other_rounds": faulty, "replicas": tbl, "timeouts": c.Cfg.Timeouts, "trace_tail": log})
		default:
			run.Count("cases_inconclusive_watchdog", 1)
			if os.Getenv("VERIF_DEBUG") != "" {
				fmt.Printf("DEBUG %s handle-errors=%v\n", name, s.Stats.HandleErrs)
				for _, i := range s.Honest() {
					b := s.Replicas[i].BFT
					fmt.Printf("DEBUG %s sc=%s com=%s byz=%v r%d view=(rh%d,r%d,%s) lock=%v committed=%v led=%d faulty=%d events=%d now=%d healed=%d\n", name, sc, com.Name, c.Cfg.Byzantine, i, b.RootHeight, b.Round, b.Phase, b.HighQC != nil, s.Replicas[i].Height() > 1, led, faulty, s.Events, s.Now, s.HealedAt)
				}
			}
		}
		if j%53 == 0 {
			d := c.Describe(s)
			d["healed_at"], d["honest_led_rounds_to_commit"], d["byz_quiet_after_gst"] = s.HealedAt, led, byzQuiet
			run.Sample(d)
		}
	})
	keys := []int{}
	for k := range hist {
		keys = append(keys, k)
	}
	sort.Ints(keys)
	h := map[string]int{}
	for _, k := range keys {
		h[fmt.Sprint(k)] = hist[k]
	}
	run.Extra("histogram_honest_led_rounds_until_all_committed(-1=not finished)", h)
	fmt.Println("HIST", h)
}
