package c14

// C14 — slashing accountability. A full-node chain runs while a *ledger* records every consensus signature any
// validator key makes (view, payload). Honest keys sign at most one payload per view (the ledger refuses a second);
// two Byzantine keys also sign alternative payloads. From the ledger an evidence forge assembles what an adversary
// could: genuine equivocation pairs, the same certificate with different bitmaps, cross-view pairs, re-labelled
// headers, bitmaps that claim honest signers, grafted honest signatures, election-phase pairs, other-chain pairs,
// evidence older than the unstaking period, replays. Every object goes through the real AddDSE / ProcessDSE of the
// node's bft.BFT, through the real ProduceProposal (leader side) and ValidateProposal (replica side, together with
// proposer-claimed slash lists), and whatever is certified is executed by the real FSM.
//
// Refuting observations: a (validator, root height) implicated that the ledger does not show signing both payloads of
// the evidence's view; expired evidence implicating anybody; a proposer-claimed slash list accepted that the attached
// evidence does not justify; the same (validator, root height) in two committed slash lists; an honest validator's
// stake decreasing; a stake decrease in one block above the per-committee cap.

import (
	"bytes"
	"fmt"
	"math/rand"
	"os"
	"sort"
	"testing"

	"github.com/canopy-network/canopy/bft"
	"github.com/canopy-network/canopy/fsm"
	"github.com/canopy-network/canopy/lib"
	"github.com/canopy-network/canopy/lib/crypto"
	"verif/core"
	"verif/node"
)

// ---- ledger ----

type ledger struct {
	honest map[string]bool                       // pub hex -> honest
	signed map[string]map[string]map[string]bool // view key -> pub hex -> payload (sign bytes hex) set
	sigs   map[string][]byte                     // view|pub|payload -> signature
}

func viewKey(v *lib.View) string {
	return fmt.Sprintf("n%d/c%d/h%d/rh%d/r%d/p%d", v.NetworkId, v.ChainId, v.Height, v.RootHeight, v.Round, v.Phase)
}

// sign makes key sign qc's payload unless it is honest and has signed another payload for that view.
func (l *ledger) sign(k crypto.PrivateKeyI, qc *lib.QuorumCertificate) []byte {
	pub := lib.BytesToString(k.PublicKey().Bytes())
	vk, sb := viewKey(qc.Header), qc.SignBytes()
	pl := lib.BytesToString(sb)
	if l.signed[vk] == nil {
		l.signed[vk] = map[string]map[string]bool{}
	}
	if l.signed[vk][pub] == nil {
		l.signed[vk][pub] = map[string]bool{}
	}
	if l.honest[pub] && len(l.signed[vk][pub]) > 0 && !l.signed[vk][pub][pl] {
		return nil // an honest validator signs at most one payload per view
	}
	id := vk + "|" + pub + "|" + pl
	if s, ok := l.sigs[id]; ok {
		return s
	}
	s := k.Sign(sb)
	l.signed[vk][pub][pl] = true
	l.sigs[id] = s
	return s
}

func (l *ledger) has(v *lib.View, pub []byte, signBytes []byte) bool {
	return l.signed[viewKey(v)][lib.BytesToString(pub)][lib.BytesToString(signBytes)]
}

// ---- certificate assembly ----

func payloadQC(v *lib.View, blockHash, resultsHash, proposer []byte) *lib.QuorumCertificate {
	return &lib.QuorumCertificate{Header: v.Copy(), BlockHash: blockHash, ResultsHash: resultsHash, ProposerKey: proposer}
}

// assemble aggregates the ledger signatures of `signers` (indexes into vs) on qc's payload; claim (if not nil) is the
// bitmap the certificate claims instead of the true one; extra signatures (made on other payloads) can be grafted in.
func assemble(ch *node.Chain, l *ledger, qc *lib.QuorumCertificate, vs lib.ValidatorSet, signers []int, claim []int, graft map[int][]byte) *lib.QuorumCertificate {
	out := payloadQC(qc.Header, qc.BlockHash, qc.ResultsHash, qc.ProposerKey)
	mk := vs.MultiKey.Copy()
	n := 0
	for _, i := range signers {
		if i >= len(vs.ValidatorSet.ValidatorSet) {
			continue
		}
		k, ok := ch.Keys[lib.BytesToString(vs.ValidatorSet.ValidatorSet[i].PublicKey)]
		if !ok {
			continue
		}
		s := l.sign(k, out)
		if s == nil {
			continue
		}
		if mk.AddSigner(s, i) == nil {
			n++
		}
	}
	for i, s := range graft {
		if mk.AddSigner(s, i) == nil {
			n++
		}
	}
	if n == 0 {
		return nil
	}
	sig, err := mk.AggregateSignatures()
	if err != nil {
		return nil
	}
	bm := mk.Bitmap()
	if claim != nil {
		c := vs.MultiKey.Copy()
		for _, i := range claim {
			_ = c.AddSigner(sig, i) // only the bitmap of this copy is used
		}
		bm = c.Bitmap()
	}
	out.Signature = &lib.AggregateSignature{Signature: sig, Bitmap: bm}
	return out
}

// ---- the run ----

type material struct {
	height, rootHeight uint64
	vs                 lib.ValidatorSet
	committed          *lib.QuorumCertificate // payload of the certified block (round 0, PRECOMMIT_VOTE)
	views              []*lib.QuorumCertificate
	alts               []*lib.QuorumCertificate // same views, other payloads (signed by Byzantine keys only)
}

type forged struct {
	family string
	ev     *bft.DoubleSignEvidence
}

func idxOf(vs lib.ValidatorSet, pub []byte) int {
	for i, v := range vs.ValidatorSet.ValidatorSet {
		if bytes.Equal(v.PublicKey, pub) {
			return i
		}
	}
	return -1
}

func all(vs lib.ValidatorSet) (out []int) {
	for i := range vs.ValidatorSet.ValidatorSet {
		out = append(out, i)
	}
	return
}

func runCase(t *testing.T, run *core.Run, name string, idx int, rng *rand.Rand) {
	version := uint64(1 + idx%2)
	dsPct := []uint64{1, 10, 40}[idx%3]
	capPct := []uint64{15, 50}[(idx/3)%2]
	const unstaking = 6
	opts := node.WorldOpts{
		Nodes: 2, GenesisVals: 6, ExtraVals: 2, Users: 4, Gov: true,
		Stake: func(i int, r *rand.Rand) uint64 {
			if idx%4 == 1 {
				return 1_000_000_000 // just above the minimum stake of these chains
			}
			return 1_000_000_000 + uint64(r.Intn(3))*700_000_000
		},
		Weights: map[string]int{"send": 30, "stake": 4, "edit-stake": 4, "pause": 3, "unpause": 4},
		Params: func(p *fsm.Params, r *rand.Rand) {
			p.Consensus.ProtocolVersion = fsm.NewProtocolVersion(0, version)
			p.Validator.UnstakingBlocks, p.Validator.DelegateUnstakingBlocks = unstaking, unstaking
			p.Validator.NonSignWindow, p.Validator.MaxNonSign = 1000, 1000
			p.Validator.DoubleSignSlashPercentage, p.Validator.MaxSlashPerCommittee = dsPct, capPct
			if idx%4 == 1 {
				// the first slash of a block already drops the validator below the minimum stake (forced unstaking); further
				// slashes in the same block must still respect the cap
				p.Validator.MinimumStakeForValidators = 990_000_000
			}
		},
	}
	w, err := node.NewWorld(rng, opts)
	if err != nil {
		t.Fatalf("%s: world: %v", name, err)
	}
	ch := w.Ch
	defer ch.Close()
	L := &ledger{honest: map[string]bool{}, signed: map[string]map[string]map[string]bool{}, sigs: map[string][]byte{}}
	byz := map[string]bool{}
	for i, k := range w.ValKeys {
		pub := lib.BytesToString(k.PublicKey().Bytes())
		if i == 1 || i == 2 {
			byz[pub] = true
		} else {
			L.honest[pub] = true
		}
	}
	fail := func(kind string, h uint64, d map[string]any) {
		d["case"], d["height"] = name, h
		run.Violation(kind, "^"+name+"$", d)
	}
	blocks := core.Pick(22, 45)
	var mats []*material
	slashed := map[string]uint64{} // pub|rootHeight -> block height whose results carried it
	stakeOf := func() map[string]uint64 {
		out := map[string]uint64{}
		for _, k := range w.ValKeys {
			if v, e := ch.Nodes[0].C.FSM.GetValidator(k.PublicKey().Address()); e == nil && v != nil {
				out[lib.BytesToString(k.PublicKey().Bytes())] = v.StakedAmount
			}
		}
		return out
	}
	unstakingAt := func(k crypto.PrivateKeyI) uint64 {
		if v, e := ch.Nodes[0].C.FSM.GetValidator(k.PublicKey().Address()); e == nil && v != nil {
			return v.UnstakingHeight
		}
		return 0
	}
	ubPrev := uint64(0)
	var pendingSlash map[string]int // pub -> number of root heights listed in the results of the block just committed
	// judge checks a list of implicated (validator, root heights) against the ledger
	minRef := uint64(0) // evidence with a root height below this is expired (set per block, see below)
	judge := func(stage, family string, ev []*bft.DoubleSignEvidence, dss []*lib.DoubleSigner, now uint64) bool {
		for _, ds := range dss {
			for _, rh := range ds.Heights {
				run.Count("implications_judged", 1)
				justified, expired := false, true
				for _, e := range ev {
					if e == nil || e.VoteA == nil || e.VoteB == nil || e.VoteA.Header == nil || e.VoteA.Header.RootHeight != rh {
						continue
					}
					a, b := e.VoteA.SignBytes(), e.VoteB.SignBytes()
					if !bytes.Equal(a, b) && e.VoteA.Header.Equals(e.VoteB.Header) && L.has(e.VoteA.Header, ds.Id, a) && L.has(e.VoteB.Header, ds.Id, b) {
						justified = true
						if rh >= minRef {
							expired = false
						}
					}
				}
				pub := lib.BytesToString(ds.Id)
				switch {
				case !justified:
					kind := "byzantine"
					if L.honest[pub] {
						kind = "honest"
					}
					fail(fmt.Sprintf("implicated-without-two-signed-payloads stage=%s family=%s validator=%s", stage, family, kind), now, map[string]any{"validator": pub, "root_height": rh})
					return false
				case expired:
					fail(fmt.Sprintf("expired-evidence-implicates stage=%s", stage), now, map[string]any{"validator": pub, "evidence_root_height": rh, "now": now, "minimum_evidence_height": minRef, "family": family})
					return false
				}
				run.Count("implications_justified_by_ledger", 1)
			}
		}
		return true
	}
	for b := 0; b < blocks; b++ {
		h := w.Height()
		proposer := b % 2
		replica := 1 - proposer
		// snapshot taken while every node is at a clean committed state (a node that has validated the proposal already holds
		// the next block in its working state)
		before := stakeOf()
		// the parameters the begin-block of this block will use (governance may have changed them)
		dsPct, capPct, version := dsPct, capPct, version
		if vp, e := ch.Nodes[0].C.FSM.GetParamsVal(); e == nil && vp != nil {
			dsPct, capPct = vp.DoubleSignSlashPercentage, vp.MaxSlashPerCommittee
		}
		if os.Getenv("C14_DEBUG") != "" {
			fmt.Printf("DEBUG %s h=%d dsPct=%d cap=%d\n", name, h, dsPct, capPct)
		}
		if ch.Nodes[0].C.FSM.IsFeatureEnabled(2) {
			version = 2
		} else {
			version = 1
		}
		unst := map[string]uint64{}
		for _, k := range w.ValKeys {
			unst[lib.BytesToString(k.PublicKey().Bytes())] = unstakingAt(k)
		}
		leader := ch.Nodes[proposer].C.Consensus
		// 'expired' = root height below (the root height the leader is on - unstaking blocks); governance may change the
		// parameter, so the larger of its last two values is used (the code reads it from the state of the root height)
		ubNow := uint64(unstaking)
		if vp, e := ch.Nodes[proposer].C.FSM.GetParamsVal(); e == nil && vp != nil {
			ubNow = vp.UnstakingBlocks
		}
		ub := ubNow
		if ubPrev > ub {
			ub = ubPrev
		}
		ubPrev = ubNow
		minRef = 0
		if leader.RootHeight > ub {
			minRef = leader.RootHeight - ub
		}
		// ---- forge ----
		var offers []forged
		pick := func() *material { return mats[rng.Intn(len(mats))] }
		recent := func() *material {
			lo := len(mats) - 4
			if lo < 0 {
				lo = 0
			}
			return mats[lo+rng.Intn(len(mats)-lo)]
		}
		if len(mats) > 0 {
			add := func(f string, a, bq *lib.QuorumCertificate) {
				if a != nil && bq != nil {
					if rng.Intn(2) == 0 {
						a, bq = bq, a
					}
					offers = append(offers, forged{f, &bft.DoubleSignEvidence{VoteA: a, VoteB: bq}})
				}
			}
			byzIdx := func(m *material) (out []int) {
				for p := range byz {
					bz, _ := lib.StringToBytes(p)
					if i := idxOf(m.vs, bz); i >= 0 {
						out = append(out, i)
					}
				}
				sort.Ints(out)
				return
			}
			honestIdx := func(m *material) (out []int) {
				for i, v := range m.vs.ValidatorSet.ValidatorSet {
					if L.honest[lib.BytesToString(v.PublicKey)] {
						out = append(out, i)
					}
				}
				return
			}
			for n := 0; n < 10; n++ {
				m := recent()
				if rng.Intn(4) == 0 {
					m = pick() // possibly long expired
				}
				vi := rng.Intn(len(m.views))
				va, alt := m.views[vi], m.alts[vi]
				bi, hi := byzIdx(m), honestIdx(m)
				c := rng.Intn(13)
				if c == 12 && idx%4 == 1 && h < 5 {
					continue // (see below: in these chains nothing implicates anybody before height 5)
				}
				if c == 12 {
					// a view only the Byzantine keys ever voted in: chain height chosen freely (evidence is valid for any height),
					// root height fresh or long expired; both payloads signed by the Byzantine keys alone
					mm := pick()
					v := mm.committed.Header.Copy()
					v.Height = []uint64{1, h + 1000, mm.height + 1, 1 << 40}[rng.Intn(4)]
					v.Round, v.Phase = uint64(3+rng.Intn(3)), []lib.Phase{lib.Phase_PROPOSE_VOTE, lib.Phase_PRECOMMIT_VOTE}[rng.Intn(2)]
					qa := payloadQC(v, crypto.Hash([]byte(fmt.Sprintf("%s/free/%d/a", name, n))), crypto.Hash([]byte("ra")), mm.committed.ProposerKey)
					qb := payloadQC(v, crypto.Hash([]byte(fmt.Sprintf("%s/free/%d/b", name, n))), crypto.Hash([]byte("rb")), mm.committed.ProposerKey)
					add("byzantine-only-view-free-height", assemble(ch, L, qa, mm.vs, byzIdx(mm), nil, nil), assemble(ch, L, qb, mm.vs, byzIdx(mm), nil, nil))
					continue
				}
				if c == 11 { // genuine equivocation that nobody reported while it was fresh
					var old []*material
					for _, mm := range mats {
						if mm.height%3 == 0 && mm.rootHeight < minRef {
							old = append(old, mm)
						}
					}
					if len(old) == 0 {
						continue
					}
					m = old[rng.Intn(len(old))]
					if rng.Intn(2) == 0 {
						m = old[len(old)-1] // the one that expired most recently: the boundary
					}
					va, alt = m.views[vi], m.alts[vi]
					add("genuine-but-expired", assemble(ch, L, va, m.vs, all(m.vs), nil, nil), assemble(ch, L, alt, m.vs, byzIdx(m), nil, nil))
					continue
				}
				if c <= 1 && m.height%3 == 0 {
					continue // these equivocations are withheld until they have expired
				}
				if c <= 1 && idx%4 == 1 && h < 5 {
					continue // in these chains the first report names several root heights at once (see below)
				}
				switch c {
				case 0, 1: // genuine equivocation: everybody on A, Byzantine keys on B
					add("genuine", assemble(ch, L, va, m.vs, all(m.vs), nil, nil), assemble(ch, L, alt, m.vs, bi, nil, nil))
				case 2: // the same payload with two different signer subsets
					if len(hi) > 1 {
						add("same-payload-two-bitmaps", assemble(ch, L, va, m.vs, hi[:1], nil, nil), assemble(ch, L, va, m.vs, all(m.vs), nil, nil))
					}
				case 3: // two honest certificates of different views, unmodified
					m2 := recent()
					add("cross-view", assemble(ch, L, va, m.vs, all(m.vs), nil, nil), assemble(ch, L, m2.views[rng.Intn(len(m2.views))], m2.vs, all(m2.vs), nil, nil))
				case 4: // another view's certificate re-labelled with this view's header
					m2 := recent()
					o := assemble(ch, L, m2.views[(vi+1)%len(m2.views)], m2.vs, all(m2.vs), nil, nil)
					if o != nil && !o.Header.Equals(va.Header) {
						o.Header = va.Header.Copy()
						add("relabelled-header", assemble(ch, L, va, m.vs, all(m.vs), nil, nil), o)
					}
				case 5: // the Byzantine certificate claims honest signers in its bitmap
					if len(hi) > 0 && len(bi) > 0 {
						add("bitmap-claims-honest-signer", assemble(ch, L, va, m.vs, all(m.vs), nil, nil), assemble(ch, L, alt, m.vs, bi, append(append([]int{}, bi...), hi[rng.Intn(len(hi))]), nil))
					}
				case 6: // an honest signature over payload A grafted into the aggregate over payload B
					if len(hi) > 0 && len(bi) > 0 {
						hx := hi[rng.Intn(len(hi))]
						k := ch.Keys[lib.BytesToString(m.vs.ValidatorSet.ValidatorSet[hx].PublicKey)]
						if s := L.sign(k, payloadQC(va.Header, va.BlockHash, va.ResultsHash, va.ProposerKey)); s != nil {
							add("grafted-honest-signature", assemble(ch, L, va, m.vs, all(m.vs), nil, nil), assemble(ch, L, alt, m.vs, bi, nil, map[int][]byte{hx: s}))
						}
					}
				case 7: // only the honest signers' bitmap on both sides, B carries the Byzantine aggregate
					if len(hi) > 0 && len(bi) > 0 {
						add("honest-bitmap-on-byzantine-aggregate", assemble(ch, L, va, m.vs, hi, nil, nil), assemble(ch, L, alt, m.vs, bi, hi, nil))
					}
				case 8: // a pair in a phase where votes are not slashable
					e1 := payloadQC(va.Header, nil, nil, m.vs.ValidatorSet.ValidatorSet[0].PublicKey)
					e1.Header.Phase = lib.Phase_ELECTION_VOTE
					e2 := payloadQC(e1.Header, nil, nil, m.vs.ValidatorSet.ValidatorSet[len(m.vs.ValidatorSet.ValidatorSet)-1].PublicKey)
					add("election-phase-pair", assemble(ch, L, e1, m.vs, all(m.vs), nil, nil), assemble(ch, L, e2, m.vs, bi, nil, nil))
				case 9: // a pair made for another chain id
					o1 := payloadQC(va.Header, va.BlockHash, va.ResultsHash, va.ProposerKey)
					o1.Header.ChainId = 2
					o2 := payloadQC(o1.Header, alt.BlockHash, alt.ResultsHash, alt.ProposerKey)
					add("other-chain-pair", assemble(ch, L, o1, m.vs, bi, nil, nil), assemble(ch, L, o2, m.vs, bi, nil, nil))
				case 10: // bitmaps laid out for another root height's committee
					m2 := pick()
					if m2.rootHeight != m.rootHeight && len(byzIdx(m2)) > 0 {
						add("other-committee-bitmap", assemble(ch, L, va, m2.vs, all(m2.vs), nil, nil), assemble(ch, L, alt, m2.vs, byzIdx(m2), nil, nil))
					}
				}
			}
		}
		if idx%4 == 1 && h == 5 {
			// the first slash list of this chain carries several root heights for each Byzantine key in ONE block (the per-block,
			// per-committee cap must hold across them, also when the first of them already forces the validator to unstake)
			for _, m := range mats {
				if m.height%3 == 0 {
					continue
				}
				var bi []int
				for p := range byz {
					bz, _ := lib.StringToBytes(p)
					if i := idxOf(m.vs, bz); i >= 0 {
						bi = append(bi, i)
					}
				}
				sort.Ints(bi)
				a, bq := assemble(ch, L, m.views[0], m.vs, all(m.vs), nil, nil), assemble(ch, L, m.alts[0], m.vs, bi, nil, nil)
				if a != nil && bq != nil {
					offers = append(offers, forged{"genuine", &bft.DoubleSignEvidence{VoteA: a, VoteB: bq}})
				}
			}
		}
		// ---- leader side: AddDSE filters what replicas sent, ProduceProposal turns it into a slash list ----
		dse := bft.NewDSE()
		rawList := []*bft.DoubleSignEvidence{}
		for _, o := range offers {
			run.Count("evidence_objects_offered", 1)
			run.Count("offered_family_"+o.family, 1)
			cp := &bft.DoubleSignEvidence{VoteA: cloneQC(o.ev.VoteA), VoteB: cloneQC(o.ev.VoteB)}
			rawList = append(rawList, cp)
			// ProcessDSE alone
			ch.Nodes[proposer].C.Lock()
			got, perr := leader.ProcessDSE(&bft.DoubleSignEvidence{VoteA: cloneQC(o.ev.VoteA), VoteB: cloneQC(o.ev.VoteB)})
			before := len(dse.Evidence)
			aerr := leader.AddDSE(&dse, &bft.DoubleSignEvidence{VoteA: cloneQC(o.ev.VoteA), VoteB: cloneQC(o.ev.VoteB)})
			ch.Nodes[proposer].C.Unlock()
			if perr == nil && len(got) > 0 {
				run.Count("evidence_objects_implicating", 1)
				run.Distinct("implicating|" + o.family)
				if !judge("ProcessDSE", o.family, []*bft.DoubleSignEvidence{o.ev}, got, h) {
					return
				}
			} else {
				run.Distinct("rejected|" + o.family)
			}
			if aerr == nil && len(dse.Evidence) > before {
				run.Count("evidence_objects_kept_by_AddDSE", 1)
			}
		}
		var txs [][]byte
		for i, n := 0, 2+rng.Intn(5); i < n; i++ {
			if ti := w.RandomTx(); ti != nil {
				txs = append(txs, ti.Bytes)
			}
		}
		be := &bft.ByzantineEvidence{DSE: dse}
		p, e := ch.Propose(proposer, txs, be)
		if e != nil {
			fail("chain-cannot-produce-block", h, map[string]any{"error": e.Error(), "slashed_so_far": fmt.Sprint(slashed)})
			return
		}
		var claimed []*lib.DoubleSigner
		if p.Results.SlashRecipients != nil {
			claimed = p.Results.SlashRecipients.DoubleSigners
		}
		if !judge("ProduceProposal", "leader-list", dse.Evidence, claimed, h) {
			return
		}
		// ---- replica side: proposer-claimed slash lists that the evidence does not justify ----
		victims := []crypto.PrivateKeyI{w.ValKeys[0], w.ValKeys[3], w.ValKeys[4], w.ValKeys[1]}
		for n := 0; n < 3 && len(mats) > 0; n++ {
			v := victims[rng.Intn(len(victims))]
			vpub := v.PublicKey().Bytes()
			m := recent()
			var list []*lib.DoubleSigner
			var ev []*bft.DoubleSignEvidence
			var kind string
			c := rng.Intn(5)
			if len(claimed) > 0 && rng.Intn(2) == 0 {
				c = 5
			}
			switch c {
			case 5: // a justified entry with one more root height that no evidence covers
				kind, ev = "extra-height-on-justified-entry", dse.Evidence // only evidence that passes, so nothing but the list is wrong
				for i, ds := range claimed {
					cp := &lib.DoubleSigner{Id: ds.Id, Heights: append([]uint64{}, ds.Heights...)}
					if i == 0 {
						extra := m.rootHeight
						if rng.Intn(2) == 0 || slicesContains(cp.Heights, extra) {
							extra = h + 3
						}
						cp.Heights = append(cp.Heights, extra)
					}
					list = append(list, cp)
				}
			case 0:
				kind, list = "no-evidence", []*lib.DoubleSigner{{Id: vpub, Heights: []uint64{m.rootHeight}}}
			case 1:
				kind, list, ev = "all-offered-evidence", []*lib.DoubleSigner{{Id: vpub, Heights: []uint64{m.rootHeight}}}, rawList
			case 2:
				kind, list, ev = "extra-height", []*lib.DoubleSigner{{Id: vpub, Heights: []uint64{m.rootHeight, m.rootHeight + 1, h + 5}}}, rawList
			case 3:
				kind, ev = "extra-name-next-to-justified", dse.Evidence
				list = append(append([]*lib.DoubleSigner{}, claimed...), &lib.DoubleSigner{Id: vpub, Heights: []uint64{m.rootHeight}})
			case 4: // replay of something already slashed, with its genuine evidence
				var keys []string
				for key := range slashed {
					keys = append(keys, key)
				}
				sort.Strings(keys)
				if len(keys) > 0 {
					key := keys[rng.Intn(len(keys))]
					var pub string
					var rh uint64
					fmt.Sscanf(key, "%s %d", &pub, &rh)
					bz, _ := lib.StringToBytes(pub)
					kind, list, ev = "replay-of-slashed", []*lib.DoubleSigner{{Id: bz, Heights: []uint64{rh}}}, rawList
					for _, mm := range mats {
						if mm.rootHeight == rh {
							for vi := range mm.views {
								var bi []int
								if i := idxOf(mm.vs, bz); i >= 0 {
									bi = []int{i}
								}
								a, bq := assemble(ch, L, mm.views[vi], mm.vs, all(mm.vs), nil, nil), assemble(ch, L, mm.alts[vi], mm.vs, bi, nil, nil)
								if a != nil && bq != nil {
									ev = append(append([]*bft.DoubleSignEvidence{}, ev...), &bft.DoubleSignEvidence{VoteA: a, VoteB: bq})
								}
							}
						}
					}
				}
			}
			if list == nil {
				continue
			}
			// is the claim justified after all (the victim may be a Byzantine key with genuine evidence in the list)?
			justified := true
			for _, ds := range list {
				for _, rh := range ds.Heights {
					ok := false
					for _, e := range ev {
						if e.VoteA.Header.RootHeight == rh && e.VoteA.Header.Equals(e.VoteB.Header) && e.VoteA.Header.Phase > lib.Phase_PROPOSE && e.VoteA.Header.ChainId == ch.ChainID &&
							!bytes.Equal(e.VoteA.SignBytes(), e.VoteB.SignBytes()) && L.has(e.VoteA.Header, ds.Id, e.VoteA.SignBytes()) && L.has(e.VoteB.Header, ds.Id, e.VoteB.SignBytes()) {
							ok = true
						}
					}
					if _, done := slashed[fmt.Sprintf("%s %d", lib.BytesToString(ds.Id), rh)]; done || !ok {
						justified = false
					}
				}
			}
			if justified {
				continue
			}
			res := cloneResults(p.Results)
			res.SlashRecipients = &lib.SlashRecipients{DoubleSigners: list}
			q := &node.Proposal{RCBuildHeight: p.RCBuildHeight, BlockBytes: p.BlockBytes, Block: p.Block, Results: res, Proposer: p.Proposer}
			q.QC = &lib.QuorumCertificate{Header: p.QC.Header, Block: p.BlockBytes, BlockHash: p.QC.BlockHash, Results: res, ResultsHash: res.Hash(), ProposerKey: p.QC.ProposerKey}
			cl := make([]*bft.DoubleSignEvidence, 0, len(ev))
			for _, e := range ev {
				cl = append(cl, &bft.DoubleSignEvidence{VoteA: cloneQC(e.VoteA), VoteB: cloneQC(e.VoteB)})
			}
			_, verr := ch.Validate(replica, q, &bft.ByzantineEvidence{DSE: bft.NewDSE(cl)})
			ch.Nodes[replica].C.ResetFSM()
			run.Count("unjustified_slash_lists_offered", 1)
			run.Distinct("claim|" + kind)
			if verr == nil {
				fail("unjustified-slash-list-accepted claim="+kind, h, map[string]any{"victim": lib.BytesToString(vpub), "victim_is_honest": L.honest[lib.BytesToString(vpub)], "list": fmt.Sprint(list)})
				return
			}
		}
		// ---- the honest proposal with its evidence must pass, then everybody signs it ----
		cl := make([]*bft.DoubleSignEvidence, 0, len(dse.Evidence))
		for _, e := range dse.Evidence {
			cl = append(cl, &bft.DoubleSignEvidence{VoteA: cloneQC(e.VoteA), VoteB: cloneQC(e.VoteB)})
		}
		res, verr := ch.Validate(replica, p, &bft.ByzantineEvidence{DSE: bft.NewDSE(cl)})
		if verr != nil {
			fail("honest-proposal-with-evidence-rejected", h, map[string]any{"error": verr.Error(), "claimed": fmt.Sprint(claimed)})
			return
		}
		vs, e := ch.Committee(ch.Nodes[proposer], p.QC.Header.RootHeight)
		if e != nil {
			t.Fatalf("%s: committee: %v", name, e)
		}
		committed := payloadQC(p.QC.Header, p.QC.BlockHash, p.QC.ResultsHash, p.QC.ProposerKey)
		signedQC := assemble(ch, L, committed, vs, all(vs), nil, nil)
		if signedQC == nil {
			t.Fatalf("%s: nobody could sign", name)
		}
		p.QC.Signature = signedQC.Signature
		if e := ch.Deliver(proposer, p.QC, nil, false); e != nil {
			fail("certified-block-not-committed", h, map[string]any{"error": e.Error(), "node": "proposer", "previous_results_slashes": fmt.Sprint(pendingSlash)})
			return
		}
		if e := ch.Deliver(replica, p.QC, res, false); e != nil {
			fail("certified-block-not-committed", h, map[string]any{"error": e.Error(), "node": "replica"})
			return
		}
		after := stakeOf()
		if os.Getenv("C14_DEBUG") != "" {
			for i := 1; i <= 2; i++ {
				pub := lib.BytesToString(w.ValKeys[i].PublicKey().Bytes())
				fmt.Printf("DEBUG %s h=%d byz%d stake %d -> %d pending=%d claimedNow=%d unst=%d\n", name, h, i, before[pub], after[pub], pendingSlash[pub], len(claimed), unst[pub])
			}
		}
		// ---- stake deltas of this block (its begin-block executed the previous block's slash list) ----
		for pub, bs := range before {
			as := after[pub]
			if unst[pub] != 0 && unst[pub] <= h {
				continue // finished unstaking in this block (and possibly staked again with another amount)
			}
			if as >= bs {
				continue
			}
			dec := bs - as
			run.Count("stake_decreases_observed", 1)
			if os.Getenv("C14_DEBUG") != "" {
				fmt.Printf("DEBUG %s h=%d stake %s.. %d -> %d listed=%d dsPct=%d cap=%d v=%d unst=%d\n", name, h, pub[:8], bs, as, pendingSlash[pub], dsPct, capPct, version, unst[pub])
			}
			k := pendingSlash[pub]
			if L.honest[pub] {
				fail("honest-validator-stake-decreased", h, map[string]any{"validator": pub, "before": bs, "after": as})
				return
			}
			if k == 0 {
				fail("stake-decreased-without-listed-double-sign", h, map[string]any{"validator": pub, "before": bs, "after": as})
				return
			}
			// bound: k slashes of dsPct each, capped per committee and block under protocol version >= 2
			pct := uint64(k) * dsPct
			if version >= 2 && pct > capPct {
				pct = capPct
			}
			if pct > 100 {
				pct = 100
			}
			bound := lib.SafeMulDiv(bs, pct, 100) + uint64(k)
			run.Distinct(fmt.Sprintf("slash|k=%d|pct=%d|cap=%d|v%d", k, dsPct, capPct, version))
			if dec > bound {
				kind := "slash-exceeds-listed-double-signs"
				if version >= 2 && uint64(k)*dsPct > capPct {
					kind = "slash-exceeds-per-committee-cap"
				}
				fail(kind, h, map[string]any{"validator": pub, "before": bs, "after": as, "decrease": dec, "bound": bound, "listed_root_heights": k, "double_sign_percent": dsPct, "cap_percent": capPct})
				return
			}
			run.Count("double_sign_slashes_within_bound", 1)
		}
		// ---- record what the committed results list; at most once per (validator, root height) ----
		pendingSlash = map[string]int{}
		for _, ds := range claimed {
			pub := lib.BytesToString(ds.Id)
			seen := map[uint64]bool{}
			for _, rh := range ds.Heights {
				key := fmt.Sprintf("%s %d", pub, rh)
				if at, dup := slashed[key]; dup || seen[rh] {
					fail("double-signer-listed-twice", h, map[string]any{"validator": pub, "root_height": rh, "first_block": at})
					return
				}
				seen[rh] = true
				slashed[key] = h
				pendingSlash[pub]++
				run.Count("double_signers_in_committed_results", 1)
			}
		}
		// ---- ledger material of this height: the committed view plus failed-round views, and Byzantine alternatives ----
		m := &material{height: h, rootHeight: p.QC.Header.RootHeight, vs: vs, committed: committed}
		hash := func(s string) []byte { return crypto.Hash([]byte(fmt.Sprintf("%s/%d/%s", name, h, s))) }
		m.views = append(m.views, committed)
		m.alts = append(m.alts, payloadQC(committed.Header, hash("alt-block"), hash("alt-results"), committed.ProposerKey))
		for r := uint64(1); r <= 2; r++ {
			for _, ph := range []lib.Phase{lib.Phase_PROPOSE_VOTE, lib.Phase_PRECOMMIT_VOTE} {
				v := p.QC.Header.Copy()
				v.Round, v.Phase = r, ph
				m.views = append(m.views, payloadQC(v, hash(fmt.Sprintf("b%d", r)), hash(fmt.Sprintf("r%d", r)), committed.ProposerKey))
				m.alts = append(m.alts, payloadQC(v, hash(fmt.Sprintf("b%d'", r)), hash(fmt.Sprintf("r%d'", r)), committed.ProposerKey))
			}
		}
		// honest validators vote in every view (one payload); Byzantine keys sign both payloads of a PRNG subset of views
		for vi := range m.views {
			_ = assemble(ch, L, m.views[vi], vs, all(vs), nil, nil)
		}
		mats = append(mats, m)
	}
	run.Eval(1)
	run.Sample(map[string]any{"case": name, "blocks": blocks, "protocol_version": version, "double_sign_percent": dsPct, "cap_percent": capPct, "slashed": len(slashed)})
}

func cloneQC(q *lib.QuorumCertificate) *lib.QuorumCertificate {
	if q == nil {
		return nil
	}
	bz, err := lib.Marshal(q)
	if err != nil {
		panic(err)
	}
	out := new(lib.QuorumCertificate)
	if err := lib.Unmarshal(bz, out); err != nil {
		panic(err)
	}
	return out
}

func slicesContains(a []uint64, x uint64) bool {
	for _, v := range a {
		if v == x {
			return true
		}
	}
	return false
}

func cloneResults(r *lib.CertificateResult) *lib.CertificateResult {
	bz, _ := lib.Marshal(r)
	out := new(lib.CertificateResult)
	_ = lib.Unmarshal(bz, out)
	return out
}

func TestCheck(t *testing.T) {
	run := core.Start(t, "C14", "exploration",
		"seeded full-node chains (protocol versions 1 and 2, double-sign slash 1/10/40 %, cap 15/50 %) with a ledger of every consensus signature; per block ~10 evidence objects from 13 forge "+
			"families go through the real ProcessDSE/AddDSE, ProduceProposal and ValidateProposal (plus 3 proposer-claimed slash lists the evidence does not justify), and certified slash lists are "+
			"executed by the FSM; distinct_nontrivial = distinct (outcome, forge family) + claim kinds + slash shapes")
	defer run.Finish()
	run.MinDistinct = 12
	run.Assume("BLS aggregate signatures are unforgeable; the harness root-chain manager answers IsValidDoubleSigner like cmd/rpc/query.go (last certificate, then the index); " +
		"'expired' = root height below (root height the leader is on - unstaking blocks, larger of the parameter's last two values); the per-committee cap is enforced by canopy from protocol version 2 on and is judged only there")
	n := core.Pick(6, 120)
	run.Sharded(n, func(i int) {
		name := fmt.Sprintf("chain/%d", i)
		if run.Want(name) {
			runCase(t, run, name, i, run.Rand(name))
		}
	})
}
