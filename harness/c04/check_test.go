package c04

// C04 — token supply conservation. After every committed block of seeded full-node chains the recorded total supply is
// compared with a raw big.Int sum over every account, pool and validator record, and the change of the total from one
// block to the next is bounded by an independent re-derivation of what may be created (scheduled mint for the
// committees that qualify + DAO cut + approved DAO mints) and destroyed (slash events + at most the reward pools).

import (
	"fmt"
	"math/big"
	"math/rand"
	"os"
	"testing"

	"github.com/canopy-network/canopy/fsm"
	"github.com/canopy-network/canopy/lib"
	"github.com/canopy-network/canopy/lib/crypto"
	"verif/core"
	"verif/node"
	"verif/refs"
)

type snapshot struct {
	total, accounts, pools, stakes *big.Int
	poolByID                       map[uint64]uint64
	stakeByAddr                    map[string]uint64
	supply                         *fsm.Supply
}

func snap(st lib.RStoreI) (*snapshot, error) {
	acc, pools, _, _, err := refs.RawAccountsPools(st)
	if err != nil {
		return nil, err
	}
	vals, err := refs.RawValidators(st)
	if err != nil {
		return nil, err
	}
	stakes := new(big.Int)
	byAddr := map[string]uint64{}
	for _, v := range vals {
		stakes.Add(stakes, new(big.Int).SetUint64(v.StakedAmount))
		byAddr[string(v.Address)] = v.StakedAmount
	}
	sup, err := refs.RawSupply(st)
	if err != nil {
		return nil, err
	}
	s := &snapshot{total: new(big.Int).SetUint64(sup.Total), accounts: acc, pools: pools, stakes: stakes, supply: sup, poolByID: map[uint64]uint64{}, stakeByAddr: byAddr}
	it, e := st.Iterator(lib.JoinLenPrefix([]byte{2}))
	if e != nil {
		return nil, e
	}
	defer it.Close()
	for ; it.Valid(); it.Next() {
		p := new(fsm.Pool)
		if e := lib.Unmarshal(it.Value(), p); e != nil {
			return nil, e
		}
		s.poolByID[p.Id] = p.Amount
	}
	return s, nil
}

// mintRef re-derives the scheduled creation for a block of height h from the state BEFORE the block (C04 mechanism
// "mint only via MintToPool"): total = initial >> (h / halvening); DAO cut; the rest split over the committees whose share of
// the staked supply reaches the subsidy threshold (plus the own chain), truncating.
func mintRef(h uint64, cfg lib.Config, before *snapshot, params *fsm.Params, retired map[uint64]bool, ownChain uint64) uint64 {
	if h <= 1 || cfg.BlocksPerHalvening == 0 {
		return 0
	}
	total := cfg.InitialTokensPerBlock >> (h / cfg.BlocksPerHalvening)
	if total == 0 {
		return 0
	}
	paid := map[uint64]bool{}
	for _, c := range before.supply.CommitteeStaked {
		if before.supply.Staked == 0 {
			continue
		}
		pct := new(big.Int).Mul(new(big.Int).SetUint64(c.Amount), big.NewInt(100))
		pct.Div(pct, new(big.Int).SetUint64(before.supply.Staked))
		if pct.Cmp(new(big.Int).SetUint64(params.Validator.StakePercentForSubsidizedCommittee)) >= 0 && !retired[c.Id] {
			paid[c.Id] = true
		}
	}
	paid[ownChain] = true
	var after uint64
	switch d := params.Governance.DaoRewardPercentage; {
	case d >= 100:
		after = 0
	case d == 0:
		after = total
	default:
		after = new(big.Int).Div(new(big.Int).Mul(new(big.Int).SetUint64(total), new(big.Int).SetUint64(100-d)), big.NewInt(100)).Uint64()
	}
	dao := total - after
	return dao + (after/uint64(len(paid)))*uint64(len(paid))
}

func runCase(t *testing.T, run *core.Run, name string, idx int, rng *rand.Rand) {
	halv := []uint64{7, 20, 210000}[idx%3]
	opts := node.WorldOpts{
		Nodes: 1, GenesisVals: 4 + rng.Intn(4), ExtraVals: 4, Users: 7, Gov: true, Delegates: 1,
		Stake: func(i int, r *rand.Rand) uint64 {
			if r.Intn(3) == 0 {
				return uint64(1 + r.Intn(20))
			}
			if idx%3 != 0 {
				// in two thirds of the chains the other validators are as large as the anchor, so committees 2 and 3 reach the
				// subsidy threshold and the block mint is split over several committees (division remainders)
				return uint64(1_000_000_000 + r.Intn(3_000_000_000))
			}
			return uint64(100_000 + r.Intn(3_000_000))
		},
		Compound:   func(i int) bool { return i%2 == 0 },
		Committees: func(i int, r *rand.Rand) []uint64 { return [][]uint64{{1}, {1, 2}, {1, 3}, {1, 2, 3}}[r.Intn(4)] },
		Tweak: func(c *lib.Config) {
			c.BlocksPerHalvening = halv
			if idx%4 == 3 {
				c.InitialTokensPerBlock = 3 // rounding: DAO cut and per-committee split truncate
			}
		},
		Params: func(p *fsm.Params, r *rand.Rand) {
			p.Consensus.ProtocolVersion = fsm.NewProtocolVersion(0, uint64(1+idx%2))
			p.Validator.NonSignWindow, p.Validator.MaxNonSign = uint64(2+r.Intn(3)), uint64(r.Intn(2))
			p.Validator.NonSignSlashPercentage = []uint64{1, 10, 100}[r.Intn(3)]
			p.Validator.MaxSlashPerCommittee = []uint64{15, 100}[r.Intn(2)]
			p.Validator.UnstakingBlocks, p.Validator.MaxPauseBlocks = 2, 3
			p.Validator.StakePercentForSubsidizedCommittee = []uint64{1, 10, 33}[r.Intn(3)]
		},
		Weights: map[string]int{"send": 15, "send-edge": 12, "stake": 8, "edit-stake": 8, "unstake": 6, "pause": 4, "unpause": 3, "subsidy": 8, "invalid": 3, "change-param": 5, "dao-transfer": 8},
	}
	w, err := node.NewWorld(rng, opts)
	if err != nil {
		t.Fatalf("%s: world: %v", name, err)
	}
	defer w.Ch.Close()
	nd := w.Ch.Nodes[0]
	prev, e := snap(nd.C.FSM.Store())
	if e != nil {
		t.Fatal(e)
	}
	blocks := core.Pick(45, 100)
	var history []string
	for b := 0; b < blocks; b++ {
		h := nd.Height()
		params, _ := nd.C.FSM.GetParams()
		rec, infos, err := w.Step(3 + rng.Intn(6))
		if err != nil {
			t.Fatalf("%s: step %d: %v", name, b, err)
		}
		byHash := map[string]node.TxInfo{}
		for _, ti := range infos {
			byHash[ti.Hash] = ti
			history = append(history, fmt.Sprintf("h%d %s %s", h, ti.Kind, ti.Note))
		}
		cur, e := snap(nd.C.FSM.Store())
		if e != nil {
			t.Fatal(e)
		}
		run.Count("blocks_checked", 1)
		run.Count("transactions_included", int64(len(rec.Block.Transactions)))
		// 1. the ledger's own tally equals what actually exists
		sum := new(big.Int).Add(new(big.Int).Add(cur.accounts, cur.pools), cur.stakes)
		if sum.Cmp(cur.total) != 0 {
			run.Violation("total-supply-differs-from-holdings", "^"+name+"$", map[string]any{"case": name, "height": h, "recorded_total": cur.total.String(), "accounts": cur.accounts.String(),
				"pools": cur.pools.String(), "stakes": cur.stakes.String(), "difference": new(big.Int).Sub(sum, cur.total).String(), "history_tail": tail(history, 40)})
			return
		}
		// 2. creation and destruction bounds
		mint := mintRef(h, nd.Cfg, prev, params, map[uint64]bool{}, 1)
		var daoMint uint64
		for _, tx := range rec.Block.Transactions {
			// (by content, not by the generator's label: an 'invalid replay-of-earlier-tx' may be the first inclusion of an
			// earlier - or the same block's - DAO transfer; what is in the block was executed)
			{
				t2 := new(lib.Transaction)
				if lib.Unmarshal(tx, t2) == nil {
					if m, e := lib.FromAny(t2.Msg); e == nil {
						if d, ok := m.(*fsm.MessageDAOTransfer); ok && d.Mint {
							daoMint += d.Amount
						}
					}
				}
			}
		}
		// what the indexer recorded as events of this block
		var slashed, rewarded uint64
		if blk, e := nd.C.FSM.LoadBlock(h); e == nil && blk != nil {
			for _, ev := range blk.Events {
				switch m := ev.Msg.(type) {
				case *lib.Event_Slash:
					slashed += m.Slash.Amount
				case *lib.Event_Reward:
					rewarded += m.Reward.Amount
				}
			}
		}
		run.Count("slash_events_amount_seen", int64(slashed))
		created := new(big.Int).Add(new(big.Int).SetUint64(mint), new(big.Int).SetUint64(daoMint))
		delta := new(big.Int).Sub(cur.total, prev.total)
		// upper bound: nothing is created beyond the schedule and approved DAO mints
		if delta.Cmp(created) > 0 {
			if os.Getenv("C04_DEBUG") != "" {
				for _, tx := range rec.Block.Transactions {
					ti, ok := byHash[hashOf(tx)]
					t2 := new(lib.Transaction)
					_ = lib.Unmarshal(tx, t2)
					fmt.Fprintf(dbgFile(), "C04DBG h=%d tx=%s known=%v kind=%s note=%s type=%s\n", h, hashOf(tx)[:8], ok, ti.Kind, ti.Note, t2.MessageType)
				}
				fmt.Fprintf(dbgFile(), "C04DBG prev pools=%v\nC04DBG cur pools=%v\n", prev.poolByID, cur.poolByID)
			}
			run.Violation("supply-created-beyond-schedule", "^"+name+"$", map[string]any{"case": name, "height": h, "delta_total": delta.String(), "scheduled_mint": mint, "dao_mints": daoMint, "history_tail": tail(history, 40)})
			return
		}
		// lower bound: destruction = slashes + undistributed remainder of the reward pools (at most what the committee pools held plus what the block put in)
		burned := new(big.Int).Sub(created, delta)
		maxRemainder := new(big.Int)
		for id, amt := range prev.poolByID {
			if id <= fsm.MaxChainId {
				maxRemainder.Add(maxRemainder, new(big.Int).SetUint64(amt))
			}
		}
		maxRemainder.Add(maxRemainder, created)
		// the fees of this block's transactions land in the own committee's reward pool before it is distributed
		for _, tx := range rec.Block.Transactions {
			t2 := new(lib.Transaction)
			if lib.Unmarshal(tx, t2) == nil {
				maxRemainder.Add(maxRemainder, new(big.Int).SetUint64(t2.Fee))
			}
		}
		// subsidies of this block also land in reward pools
		for _, tx := range rec.Block.Transactions {
			{
				t2 := new(lib.Transaction)
				if lib.Unmarshal(tx, t2) == nil {
					if m, e := lib.FromAny(t2.Msg); e == nil {
						if s, ok := m.(*fsm.MessageSubsidy); ok {
							maxRemainder.Add(maxRemainder, new(big.Int).SetUint64(s.Amount))
						}
					}
				}
			}
		}
		// slashes show as stake that disappeared (not every slash path emits an event): bound them by the total stake decrease
		// a validator whose stake was also RAISED by a transaction of this block (edit-stake sets an absolute amount, so the
		// account pays the slashed part again) hides its slash in the net change: for those the whole previous stake bounds it
		raised := map[string]bool{}
		for _, tx := range rec.Block.Transactions {
			t2 := new(lib.Transaction)
			if lib.Unmarshal(tx, t2) != nil {
				continue
			}
			if m, e := lib.FromAny(t2.Msg); e == nil {
				switch x := m.(type) {
				case *fsm.MessageEditStake:
					raised[string(x.Address)] = true
				case *fsm.MessageStake:
					if pk, e := crypto.NewPublicKeyFromBytes(x.PublicKey); e == nil {
						raised[string(pk.Address().Bytes())] = true
					}
				}
			}
		}
		stakeDrop := new(big.Int)
		for a, before := range prev.stakeByAddr {
			if raised[a] {
				stakeDrop.Add(stakeDrop, new(big.Int).SetUint64(before))
			} else if after := cur.stakeByAddr[a]; after < before {
				stakeDrop.Add(stakeDrop, new(big.Int).SetUint64(before-after))
			}
		}
		limit := new(big.Int).Add(stakeDrop, maxRemainder)
		if burned.Cmp(limit) > 0 {
			run.Violation("supply-destroyed-beyond-burns", "^"+name+"$", map[string]any{"case": name, "height": h, "burned": burned.String(), "slash_events": slashed, "stake_decrease": stakeDrop.String(), "max_reward_remainder": maxRemainder.String(), "history_tail": tail(history, 40),
				"accounts_delta": new(big.Int).Sub(cur.accounts, prev.accounts).String(), "pools_delta": new(big.Int).Sub(cur.pools, prev.pools).String(), "stakes_delta": new(big.Int).Sub(cur.stakes, prev.stakes).String(),
				"pools_before": fmt.Sprint(prev.poolByID), "pools_after": fmt.Sprint(cur.poolByID), "scheduled_mint": mint, "dao_mints": daoMint, "delta_total": delta.String()})
			return
		}
		if burned.Sign() > 0 {
			run.Count("blocks_with_burns", 1)
		}
		if mint > 0 {
			run.Count("blocks_with_mint", 1)
		}
		if daoMint > 0 {
			run.Count("blocks_with_dao_mint", 1)
		}
		_ = rewarded
		prev = cur
	}
	run.Eval(1)
	run.Distinct(fmt.Sprintf("%s|%d", name, len(history)))
	if idx%3 == 0 {
		run.Sample(map[string]any{"case": name, "blocks": blocks, "blocks_per_halvening": halv, "final_total": prev.total.String(), "generated": w.NTx, "history_head": tail(history[:min(len(history), 20)], 20)})
	}
}

func hashOf(tx []byte) string { return node.HashOf(tx) }

func tail(s []string, n int) []string {
	if len(s) > n {
		return s[len(s)-n:]
	}
	return s
}

func TestCheck(t *testing.T) {
	run := core.Start(t, "C04", "exploration",
		"seeded single-node chains (45/150 blocks): sends at 0/1/exact balance/over balance/near 2^64, stake/edit/unstake with tiny and large stakes, subsidies, approved DAO transfers "+
			"with and without mint, parameter changes, non-sign slashes up to 100%, halvening every 7/20 blocks, mint of 3 units per block (truncation); after every block: "+
			"recorded total == raw sum of accounts+pools+stakes (big.Int), and delta(total) within [created - stake decreases - reward pools, created]; distinct_nontrivial = distinct completed chains")
	defer run.Finish()
	run.MinDistinct = 3
	run.Assume("burn of the undistributed reward remainder is bounded by the reward pools rather than recomputed exactly; plugin-written balances and the faucet are not configured; DEX/escrow flows belong to C20")
	n := core.Pick(8, 200)
	run.Sharded(n, func(i int) {
		name := fmt.Sprintf("chain/%d", i)
		if run.Want(name) {
			runCase(t, run, name, i, run.Rand(name))
		}
	})
}

func dbgFile() *os.File {
	f, _ := os.OpenFile(os.Getenv("C04_DEBUG"), os.O_CREATE|os.O_APPEND|os.O_WRONLY, 0o644)
	return f
}
