package bftsim

import (
	"fmt"
	"os"
	"strconv"
	"testing"
)

func TestDebugScenario(t *testing.T) {
	sc := os.Getenv("SC")
	if sc == "" {
		t.Skip()
	}
	n, _ := strconv.Atoi(os.Getenv("N"))
	if n == 0 {
		n = 20
	}
	coms := Committees()
	only, _ := strconv.Atoi(os.Getenv("ONLY"))
	for i := 0; i < n; i++ {
		if os.Getenv("ONLY") != "" && i != only {
			continue
		}
		c := BuildCase(fmt.Sprint(i), sc, coms[i%len(coms)], int64(1000+i))
		s := c.Run(os.Getenv("TRACE") != "")
		fmt.Printf("case %d com=%s byz=%v events=%d maxround=%d commits=%d locks=%d bumps=%d viol=%v aux=%v acts=%v errs=%v\n", i, coms[i%len(coms)].Name, c.Cfg.Byzantine, s.Events, s.Stats.MaxRound, s.Stats.CommitsSeen, s.Stats.Locks, s.Stats.RootBumps, s.Violations, s.AuxAlarms, c.Adv.Acts, s.Stats.HandleErrs)
		if os.Getenv("TRACE") != "" {
			for _, l := range s.Log {
				fmt.Println(l)
			}
		}
	}
}

func TestDebugPlaybook(t *testing.T) {
	pb := os.Getenv("PB")
	if pb == "" {
		t.Skip()
	}
	coms := Committees()
	for i := 0; i < 12; i++ {
		c := BuildCase(fmt.Sprint(i), "split", coms[i%len(coms)], int64(2000+i))
		c.Adv.K.Playbooks = []string{pb}
		s := c.Run(false)
		fmt.Printf("case %d com=%s events=%d commits=%d viol=%v acts=%v errs=%v\n", i, coms[i%len(coms)].Name, s.Events, s.Stats.CommitsSeen, s.Violations, c.Adv.Acts, s.Stats.HandleErrs)
	}
}
