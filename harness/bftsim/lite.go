package bftsim

import (
	"bytes"
	"fmt"
	"sync"
	"sync/atomic"

	"github.com/canopy-network/canopy/bft"
	"github.com/canopy-network/canopy/lib"
	"github.com/canopy-network/canopy/lib/crypto"
)

// liteCtl implements bft.Controller for one honest replica (lite back end).
type liteCtl struct {
	s       *Sim
	r       *Replica
	mu      sync.Mutex
	syncing *atomic.Bool
	out     chan func() // callbacks posted by the commit goroutine of StartCommitProcessPhase
	// DoubleSignersSeen records every double-signer list this replica accepted in a proposal or produced itself (C14)
	SlashAccepted [][]*lib.DoubleSigner
	SlashProduced [][]*lib.DoubleSigner
	// slashed: (address hex, root height) already slashed on this replica's chain
}

var _ bft.Controller = (*liteCtl)(nil)

func (c *liteCtl) Lock()                   { c.mu.Lock() }
func (c *liteCtl) Unlock()                 { c.mu.Unlock() }
func (c *liteCtl) ChainHeight() uint64     { return c.r.Height() }
func (c *liteCtl) RootChainHeight() uint64 { return c.r.rootVisible }

func (c *liteCtl) ProduceProposal(be *bft.ByzantineEvidence, _ *crypto.VDF) (uint64, []byte, *lib.CertificateResult, lib.ErrorI) {
	r := c.r
	var last *lib.QuorumCertificate
	if n := len(r.Chain); n > 0 {
		last = r.Chain[n-1]
	}
	_, bz := c.s.MakeBlock(r.Height(), r.lastHash(), last, r.Key, fmt.Sprintf("r%d", r.Idx))
	// controller.CalculateSlashRecipients
	var ds []*lib.DoubleSigner
	if be != nil {
		var err lib.ErrorI
		ds, err = r.BFT.ProcessDSE(be.DSE.Evidence...)
		if err != nil {
			ds = nil
		}
	}
	if len(ds) != 0 {
		c.SlashProduced = append(c.SlashProduced, ds)
	}
	return r.rootVisible, bz, MakeResults(r.Key.PublicKey(), ds), nil
}

func (c *liteCtl) ValidateProposal(rcBuildHeight uint64, qc *lib.QuorumCertificate, evidence *bft.ByzantineEvidence) (*lib.BlockResult, lib.ErrorI) {
	r := c.r
	block, err := qc.CheckProposalBasic(r.Height(), NetworkID, ChainID)
	if err != nil {
		return nil, err
	}
	if err = r.BFT.ValidateByzantineEvidence(qc.Results.SlashRecipients, evidence); err != nil {
		return nil, err
	}
	// harness validity predicate (stands in for ApplyAndValidateBlock)
	if !bytes.Equal(block.BlockHeader.LastBlockHash, r.lastHash()) || len(block.Transactions) != 1 || !bytes.HasPrefix(block.Transactions[0], []byte("lite-tx:")) {
		return nil, lib.ErrUnequalBlockHash()
	}
	if qc.Results.RewardRecipients == nil || len(qc.Results.RewardRecipients.PaymentPercents) != 1 {
		return nil, lib.ErrNilRewardRecipients()
	}
	if qc.Results.SlashRecipients != nil && len(qc.Results.SlashRecipients.DoubleSigners) != 0 {
		c.SlashAccepted = append(c.SlashAccepted, qc.Results.SlashRecipients.DoubleSigners)
	}
	return &lib.BlockResult{BlockHeader: block.BlockHeader}, nil
}

func (c *liteCtl) LoadCertificate(height uint64) (*lib.QuorumCertificate, lib.ErrorI) {
	if height == 0 || int(height) > len(c.r.Chain) {
		return nil, lib.ErrEmptyQuorumCertificate()
	}
	return c.r.Chain[height-1], nil
}

func (c *liteCtl) CommitCertificate(*lib.QuorumCertificate, *lib.Block, *lib.BlockResult, uint64) lib.ErrorI {
	return nil
}

func (c *liteCtl) GossipBlock(qc *lib.QuorumCertificate, _ []byte, _ uint64) {
	cp := &lib.QuorumCertificate{Header: qc.Header, BlockHash: qc.BlockHash, ResultsHash: qc.ResultsHash, ProposerKey: qc.ProposerKey, Signature: qc.Signature, Block: qc.Block, Results: qc.Results}
	c.out <- func() { c.s.gossipBlock(c.r.Idx, cp) }
}

func (c *liteCtl) GossipConsensus(*bft.Message, []byte) {}

func (c *liteCtl) SelfSendBlock(qc *lib.QuorumCertificate, ts uint64) {
	bz, err := lib.Marshal(&lib.BlockMessage{ChainId: ChainID, BlockAndCertificate: qc, Time: ts})
	if err != nil {
		panic(err)
	}
	c.out <- func() {
		bm := new(lib.BlockMessage)
		if e := lib.Unmarshal(bz, bm); e != nil {
			panic(e)
		}
		c.s.handlePeerBlock(c.r, bm, true)
	}
}

func (c *liteCtl) SendToReplicas(replicas lib.ValidatorSet, msg lib.Signable) {
	m := msg.(*bft.Message)
	if err := m.Sign(c.r.Key); err != nil {
		return
	}
	c.record(m)
	// self first (internal routing), then everyone else in the set
	c.s.send(c.r.Idx, c.r.Idx, m)
	for i, v := range replicas.ValidatorSet.ValidatorSet {
		if bytes.Equal(v.PublicKey, c.s.PubKeys[c.r.Idx]) {
			continue
		}
		_ = i
		c.s.send(c.r.Idx, c.s.indexOf(v.PublicKey), m)
	}
}

func (c *liteCtl) SendToProposer(msg lib.Signable) {
	m := msg.(*bft.Message)
	if err := m.Sign(c.r.Key); err != nil {
		return
	}
	c.record(m)
	to := c.s.indexOf(c.r.BFT.ProposerKey)
	if to < 0 {
		return
	}
	c.s.send(c.r.Idx, to, m)
}

// record feeds the "who really signed what" ledger and the one-vote-per-view auxiliary monitor.
func (c *liteCtl) record(m *bft.Message) {
	if !m.IsReplicaMessage() {
		return
	}
	h := m.Qc.Header
	c.s.Signed.Add(c.r.Idx, h, m.SignBytes())
	if h.Phase == bft.ElectionVote {
		k := roundKey(h)
		ri := c.s.Rounds[k]
		if ri == nil {
			ri = &RoundInfo{Key: k, Selected: map[int]int{}, At: map[int]int64{}, FirstSeen: c.s.Now, Round: h.Round}
			c.s.Rounds[k] = ri
			c.s.RoundOrder = append(c.s.RoundOrder, ri)
		}
		ri.Selected[c.r.Idx] = c.s.indexOf(m.Qc.ProposerKey)
		ri.At[c.r.Idx] = c.s.Now
	}
	k := ViewKey(h)
	p := crypto.HashString(m.SignBytes())
	if prev, ok := c.r.votesSent[k]; ok && prev != p {
		if h.Phase > bft.Propose {
			// two different PROPOSE_VOTE / PRECOMMIT_VOTE payloads in one view is what double-sign evidence punishes
			c.s.AuxAlarms = append(c.s.AuxAlarms, fmt.Sprintf("honest r%d signed two payloads in view %s", c.r.Idx, k))
		} else {
			c.s.Stats.ElectionRevotes++
		}
	}
	c.r.votesSent[k] = p
}

func (s *Sim) indexOf(pub []byte) int {
	for i, p := range s.PubKeys {
		if bytes.Equal(p, pub) {
			return i
		}
	}
	return -1
}

func (c *liteCtl) LoadRootChainId(uint64) uint64 { return ChainID }
func (c *liteCtl) LoadIsOwnRoot() bool           { return true }
func (c *liteCtl) Syncing() *atomic.Bool         { return c.syncing }
func (c *liteCtl) ResetFSM()                     {}

func (c *liteCtl) SendCertificateResultsTx(*lib.QuorumCertificate) {}

// LoadCommittee: the committee is the same at every root height (committee-preserving updates).
func (c *liteCtl) LoadCommittee(_, rootHeight uint64) (lib.ValidatorSet, lib.ErrorI) {
	if !c.s.Cfg.ReorderCommittee {
		return lib.NewValidatorSet(c.s.Vals)
	}
	vs := c.s.ValSetAt(rootHeight)
	return lib.NewValidatorSet(vs.ValidatorSet) // a fresh object, as the real controller returns
}

// LoadCommitteeData: as HandleCertificateResults leaves it after the last committed certificate.
func (c *liteCtl) LoadCommitteeData() (*lib.CommitteeData, lib.ErrorI) {
	d := &lib.CommitteeData{ChainId: ChainID}
	if n := len(c.r.Chain); n > 0 {
		d.LastRootHeightUpdated = c.r.Chain[n-1].Header.RootHeight
		d.LastChainHeightUpdated = c.r.Chain[n-1].Header.Height
	}
	return d, nil
}

func (c *liteCtl) LoadLastProposers(uint64) (*lib.Proposers, lib.ErrorI) {
	p := &lib.Proposers{}
	n := len(c.r.Chain)
	for i := n - 5; i < n; i++ {
		if i < 0 {
			continue
		}
		pk, err := crypto.NewPublicKeyFromBytes(c.r.Chain[i].ProposerKey)
		if err != nil {
			continue
		}
		p.Addresses = append(p.Addresses, pk.Address().Bytes())
	}
	return p, nil
}

func (c *liteCtl) LoadMinimumEvidenceHeight(_, _ uint64) (*uint64, lib.ErrorI) {
	var z uint64
	return &z, nil
}

func (c *liteCtl) IsValidDoubleSigner(_, _ uint64, _ []byte) bool { return true }
func (c *liteCtl) LoadMaxBlockSize() int                          { return 1 << 20 }
