package bftsim

import (
	"fmt"
	"testing"
)

func TestSmoke(t *testing.T) {
	cfg := Config{Powers: []uint64{10, 10, 10, 10}, Byzantine: []bool{false, false, false, false}, Timeouts: DefaultTimeouts(), Heights: 3, MaxRounds: 10, MaxEvents: 100000, Seed: 1, RootStart: 5}
	s := New(cfg, NewOmni(Knobs{MinDelay: 1, MaxDelay: 10}))
	s.EnableLog()
	s.Run()
	fmt.Printf("%+v\n", s.Stats)
	for h, c := range s.Commits {
		fmt.Println(h, len(c))
	}
	if len(s.Log) > 60 {
		s.Log = s.Log[:60]
	}
	for _, l := range s.Log {
		fmt.Println(l)
	}
	if len(s.Violations) > 0 {
		t.Fatal(s.Violations)
	}
}
