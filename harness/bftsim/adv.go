package bftsim

import (
	"bytes"
	"fmt"
	"math/rand"
	"sort"

	"github.com/canopy-network/canopy/bft"
	"github.com/canopy-network/canopy/lib"
	"github.com/canopy-network/canopy/lib/crypto"
)

// Knobs parameterise the network adversary and the Byzantine keys. Every probabilistic choice is made once
// per (view) or per (message, recipient) from the case PRNG, so a case is a pure function of its seed.
type Knobs struct {
	MinDelay, MaxDelay int64 // honest->honest delivery delay in virtual ms
	DropP, DupP        float64
	// targeted withholding of leader messages: with this probability per view the PRECOMMIT / COMMIT
	// of an honest leader reaches only a PRNG-chosen strict subset of the honest replicas
	HidePrecommitP, HideCommitP float64
	// drop ELECTION_VOTE messages that carry a HighQC (the new leader does not learn the lock)
	MuteLockedP float64
	// drop PRECOMMIT_VOTE messages to honest leaders (replicas lock but nobody can form the commit certificate)
	DropPrecommitVotesP float64
	// drop ELECTION candidacy messages of honest replicas (lets Byzantine keys win / forces the fallback)
	SuppressHonestCandidatesP float64
	// drop gossiped blocks with this probability (replicas must commit through consensus messages)
	DropBlocksP float64
	// Byzantine replicas as voters
	ByzVote, ByzDoubleSend, ByzBadSigVotes bool
	// Byzantine leader playbooks to choose from per view: "honest","split","partial","stale","forged","withhold","wrongphase","replayqc","mismatch"
	Playbooks []string
	// Silent: Byzantine keys do nothing at all (crash faults)
	Silent bool
	// NoByzCandidates: Byzantine keys do not stand for election (they still vote / lead if the fallback picks them)
	NoByzCandidates bool
	// HideSingle: withheld leader messages reach nobody but the leader itself (its own copy is routed internally)
	HideSingle bool
}

// Omni is the general adversary: sees all traffic, controls delivery, holds the Byzantine keys.
type Omni struct {
	K   Knobs
	s   *Sim
	rng *rand.Rand
	byz []int

	perView map[string]*viewPlan
	// pool of observed honest votes: key = view|phase|payloadhash
	votes map[string]*voteSet
	// blocks and results known by block hash
	blocks map[string]*proposal
	// PROPOSE_VOTE / PRECOMMIT_VOTE / ELECTION_VOTE certificates observed in leader messages or built by the adversary
	certs []*lib.QuorumCertificate
	// leader messages seen (bytes) for replay
	leaderMsgs [][]byte
	// election
	sentElection map[string]bool
	seenLeader   map[string]bool
	// leader state per view where a Byzantine key was elected
	lead map[string]*leadState
	// stats
	Acts map[string]int
	// hooks for scripted scenarios
	OnLock   func(i int, qc *lib.QuorumCertificate)
	OnCommit func(i int, c Commit)
	// Tune, when set, may adjust the knobs just before the plan of a new (height, root height, round) is drawn
	Tune func(a *Omni, v *lib.View)
	// Healed: after GST the adversary delivers everything promptly; ByzQuiet: Byzantine keys stop acting
	Healed   bool
	ByzQuiet bool
}

type viewPlan struct {
	precommitTo        map[int]bool // nil = everyone
	commitTo           map[int]bool
	muteLocked         bool
	suppressCandidates bool
	playbook           string
}

type voteSet struct {
	tmpl *lib.QuorumCertificate // header, hashes, proposer key
	sigs map[int][]byte
}

type proposal struct {
	block   []byte
	results *lib.CertificateResult
}

type leadState struct {
	m        int // Byzantine index elected
	view     *lib.View
	eqc      *lib.QuorumCertificate // ELECTION_VOTE certificate
	proposed bool
	sent     map[string]bool
	playbook string
	targets  map[string][]int // payload key -> honest recipients
}

func NewOmni(k Knobs) *Omni { return &Omni{K: k, Acts: map[string]int{}} }

func (a *Omni) Init(s *Sim) {
	a.s = s
	a.rng = rand.New(rand.NewSource(s.Cfg.Seed ^ 0x5eed))
	a.perView, a.votes, a.blocks = map[string]*viewPlan{}, map[string]*voteSet{}, map[string]*proposal{}
	a.sentElection, a.lead = map[string]bool{}, map[string]*leadState{}
	a.seenLeader = map[string]bool{}
	for i, b := range s.Cfg.Byzantine {
		if b {
			a.byz = append(a.byz, i)
		}
	}
}

func roundKey(v *lib.View) string { return fmt.Sprintf("%d/%d/%d", v.Height, v.RootHeight, v.Round) }

func (a *Omni) plan(v *lib.View) *viewPlan {
	k := roundKey(v)
	if p, ok := a.perView[k]; ok {
		return p
	}
	if a.Tune != nil {
		a.Tune(a, v)
	}
	p := &viewPlan{}
	hon := a.s.Honest()
	subset := func() map[int]bool {
		m := map[int]bool{}
		// strict, non-empty subset; often a single replica
		n := 1
		if len(hon) > 2 && a.rng.Intn(2) == 0 && !a.K.HideSingle {
			n = 1 + a.rng.Intn(len(hon)-1)
		}
		for _, j := range a.rng.Perm(len(hon))[:n] {
			m[hon[j]] = true
		}
		return m
	}
	if a.rng.Float64() < a.K.HidePrecommitP {
		p.precommitTo = subset()
	}
	if a.rng.Float64() < a.K.HideCommitP {
		p.commitTo = subset()
	}
	p.muteLocked = a.rng.Float64() < a.K.MuteLockedP
	p.suppressCandidates = a.rng.Float64() < a.K.SuppressHonestCandidatesP
	if len(a.K.Playbooks) > 0 {
		p.playbook = a.K.Playbooks[a.rng.Intn(len(a.K.Playbooks))]
	} else {
		p.playbook = "honest"
	}
	a.perView[k] = p
	return p
}

func (a *Omni) isByz(i int) bool { return i >= 0 && i < len(a.s.Cfg.Byzantine) && a.s.Cfg.Byzantine[i] }

// Route: observe, then decide delivery.
func (a *Omni) Route(w *Wire) []Delivery {
	if w.IsBlock {
		if a.Healed {
			return []Delivery{{1 + a.rng.Int63n(5)}}
		}
		if a.rng.Float64() < a.K.DropBlocksP {
			return nil
		}
		return []Delivery{{a.delay()}}
	}
	m := w.Msg
	a.observe(w)
	if a.Healed {
		return []Delivery{{1 + a.rng.Int63n(5)}}
	}
	if a.isByz(w.To) {
		return []Delivery{{0}} // consumed by observe()
	}
	switch {
	case m.IsProposerMessage():
		p := a.plan(m.Header)
		switch m.Header.Phase {
		case bft.Election:
			if p.suppressCandidates {
				a.Acts["suppress-candidate"]++
				return nil
			}
		case bft.Precommit:
			if p.precommitTo != nil && (a.K.HideSingle || !p.precommitTo[w.To]) {
				a.Acts["hide-precommit"]++
				return nil
			}
		case bft.Commit:
			if p.commitTo != nil && (a.K.HideSingle || !p.commitTo[w.To]) {
				a.Acts["hide-commit"]++
				return nil
			}
		}
	case m.IsReplicaMessage():
		if m.Qc.Header.Phase == bft.ElectionVote && m.HighQc != nil && a.plan(m.Qc.Header).muteLocked {
			a.Acts["mute-locked"]++
			return nil
		}
		if m.Qc.Header.Phase == bft.PrecommitVote && a.rng.Float64() < a.K.DropPrecommitVotesP {
			a.Acts["drop-precommit-vote"]++
			return nil
		}
	}
	if a.rng.Float64() < a.K.DropP {
		return nil
	}
	ds := []Delivery{{a.delay()}}
	if a.rng.Float64() < a.K.DupP {
		ds = append(ds, Delivery{a.delay()})
	}
	return ds
}

func (a *Omni) delay() int64 {
	if a.K.MaxDelay <= a.K.MinDelay {
		return a.K.MinDelay
	}
	return a.K.MinDelay + a.rng.Int63n(a.K.MaxDelay-a.K.MinDelay+1)
}

func payloadKey(q *lib.QuorumCertificate) string {
	return ViewKey(q.Header) + "|" + crypto.HashString((&lib.QuorumCertificate{Header: q.Header, BlockHash: q.BlockHash, ResultsHash: q.ResultsHash, ProposerKey: q.ProposerKey}).SignBytes())
}

// observe harvests everything useful from a message.
func (a *Omni) observe(w *Wire) {
	m := w.Msg
	if m == nil {
		return
	}
	if m.IsProposerMessage() {
		a.leaderMsgs = append(a.leaderMsgs, w.Bytes)
		if m.Qc != nil {
			if m.Qc.Block != nil && m.Qc.Results != nil && len(m.Qc.BlockHash) != 0 {
				a.blocks[string(m.Qc.BlockHash)] = &proposal{block: m.Qc.Block, results: m.Qc.Results}
			}
			if m.Qc.Signature != nil {
				a.addCert(m.Qc)
			}
		}
		if m.HighQc != nil {
			a.addCert(m.HighQc)
			if m.HighQc.Block != nil && m.HighQc.Results != nil {
				a.blocks[string(m.HighQc.BlockHash)] = &proposal{block: m.HighQc.Block, results: m.HighQc.Results}
			}
		}
		// Byzantine voters react to an honest leader's proposal
		if id := crypto.HashString(w.Bytes); !a.seenLeader[id] && !a.isByz(w.From) {
			a.seenLeader[id] = true
			if m.Header.Phase == bft.Propose {
				a.byzVoteFor(m, bft.ProposeVote, w.From)
			}
			if m.Header.Phase == bft.Precommit {
				a.byzVoteFor(m, bft.PrecommitVote, w.From)
			}
		}
		return
	}
	if m.IsReplicaMessage() {
		if m.HighQc != nil {
			a.addCert(m.HighQc)
			if m.HighQc.Block != nil && m.HighQc.Results != nil {
				a.blocks[string(m.HighQc.BlockHash)] = &proposal{block: m.HighQc.Block, results: m.HighQc.Results}
			}
		}
		k := payloadKey(m.Qc)
		vs := a.votes[k]
		if vs == nil {
			vs = &voteSet{tmpl: &lib.QuorumCertificate{Header: m.Qc.Header, BlockHash: m.Qc.BlockHash, ResultsHash: m.Qc.ResultsHash, ProposerKey: m.Qc.ProposerKey}, sigs: map[int][]byte{}}
			a.votes[k] = vs
		}
		vs.sigs[w.From] = m.Signature.Signature
		// Byzantine keys second every election vote cast for an honest candidate
		if m.Qc.Header.Phase == bft.ElectionVote && !a.isByz(w.To) && a.K.ByzVote && !a.K.Silent && !a.ByzQuiet && !a.seenLeader["ev"+k] {
			a.seenLeader["ev"+k] = true
			for _, b := range a.byz {
				a.s.Inject(w.To, mustMarshal(a.vote(b, vs.tmpl)), a.delay())
				a.Acts["byz-election-vote"]++
			}
		}
		if a.isByz(w.To) && !a.K.Silent && !a.ByzQuiet {
			a.onVoteToByz(w.To, m, vs)
		}
	}
}

func (a *Omni) addCert(q *lib.QuorumCertificate) {
	for _, c := range a.certs {
		if c.Header.Equals(q.Header) && bytes.Equal(c.BlockHash, q.BlockHash) && bytes.Equal(c.Signature.GetBitmap(), q.Signature.GetBitmap()) {
			return
		}
	}
	a.certs = append(a.certs, &lib.QuorumCertificate{Header: q.Header, BlockHash: q.BlockHash, ResultsHash: q.ResultsHash, ProposerKey: q.ProposerKey, Signature: q.Signature})
}

// sign a replica vote with a Byzantine key
func (a *Omni) vote(idx int, tmpl *lib.QuorumCertificate) *bft.Message {
	m := &bft.Message{Qc: &lib.QuorumCertificate{Header: tmpl.Header, BlockHash: tmpl.BlockHash, ResultsHash: tmpl.ResultsHash, ProposerKey: tmpl.ProposerKey}}
	_ = m.Sign(a.s.Keys[idx])
	a.s.Signed.Add(idx, tmpl.Header, m.SignBytes())
	return m
}

func mustMarshal(m *bft.Message) []byte {
	bz, err := lib.Marshal(m)
	if err != nil {
		panic(err)
	}
	return bz
}

// byzVoteFor: Byzantine keys vote for an honest leader's proposal (and try duplicates / bad signatures).
func (a *Omni) byzVoteFor(leaderMsg *bft.Message, phase lib.Phase, leader int) {
	if !a.K.ByzVote || a.K.Silent || a.ByzQuiet {
		return
	}
	h := leaderMsg.Header.Copy()
	h.Phase = phase
	tmpl := &lib.QuorumCertificate{Header: h, BlockHash: leaderMsg.Qc.BlockHash, ResultsHash: leaderMsg.Qc.ResultsHash, ProposerKey: a.s.PubKeys[leader]}
	for _, b := range a.byz {
		bz := mustMarshal(a.vote(b, tmpl))
		a.s.Inject(leader, bz, a.delay())
		a.Acts["byz-vote"]++
		if a.K.ByzDoubleSend {
			a.s.Inject(leader, bz, a.delay()+1)
			a.Acts["byz-vote-dup"]++
		}
	}
	if a.K.ByzBadSigVotes {
		// a vote "from" an honest key with a signature made by a Byzantine key
		for _, hnst := range a.s.Honest() {
			if hnst == leader || len(a.byz) == 0 {
				continue
			}
			m := a.vote(a.byz[0], tmpl)
			m.Signature.PublicKey = a.s.PubKeys[hnst]
			a.s.Inject(leader, mustMarshal(m), a.delay())
			a.Acts["byz-forged-vote"]++
			break
		}
	}
}

// aggregate builds a certificate from the votes known for tmpl plus (optionally) all Byzantine keys.
func (a *Omni) aggregate(tmpl *lib.QuorumCertificate, withByz bool, only map[int]bool) (*lib.QuorumCertificate, uint64) {
	k := payloadKey(tmpl)
	root := tmpl.Header.RootHeight
	mk := a.s.ValSetAt(root).MultiKey.Copy()
	var power uint64
	add := func(i int, sig []byte) {
		if only != nil && !only[i] && !a.isByz(i) {
			return // `only` restricts which observed honest votes are used; Byzantine keys always sign
		}
		if en, _ := mk.SignerEnabledAt(a.s.PosAt(i, root)); en {
			return
		}
		if err := mk.AddSigner(sig, a.s.PosAt(i, root)); err == nil {
			power += a.s.PowerAt(i, root)
		}
	}
	if vs := a.votes[k]; vs != nil {
		idx := make([]int, 0, len(vs.sigs))
		for i := range vs.sigs {
			idx = append(idx, i)
		}
		sort.Ints(idx)
		for _, i := range idx {
			add(i, vs.sigs[i])
		}
	}
	if withByz {
		for _, b := range a.byz {
			add(b, a.vote(b, tmpl).Signature.Signature)
		}
	}
	if power == 0 {
		return nil, 0
	}
	sig, err := mk.AggregateSignatures()
	if err != nil {
		return nil, 0
	}
	return &lib.QuorumCertificate{Header: tmpl.Header, BlockHash: tmpl.BlockHash, ResultsHash: tmpl.ResultsHash, ProposerKey: tmpl.ProposerKey,
		Signature: &lib.AggregateSignature{Signature: sig, Bitmap: mk.Bitmap()}}, power
}

// AfterPhase: Byzantine candidacy in every view an honest replica enters.
func (a *Omni) AfterPhase(i int, handled lib.Phase) {
	r := a.s.Replicas[i]
	if r == nil {
		return
	}
	if handled == bft.PrecommitVote && a.OnLock != nil && r.BFT.HighQC != nil {
		a.OnLock(i, r.BFT.HighQC)
	}
	if a.K.Silent || a.K.NoByzCandidates || a.ByzQuiet || handled != bft.Election {
		return
	}
	v := r.BFT.View.Copy()
	v.Phase = bft.Election
	k := roundKey(v)
	if a.sentElection[k] {
		return
	}
	a.sentElection[k] = true
	lp, _ := r.ctl.LoadLastProposers(0)
	for _, b := range a.byz {
		sd := &lib.SortitionData{LastProposerAddresses: lp.Addresses, RootHeight: v.RootHeight, Height: v.Height, Round: v.Round,
			TotalValidators: a.s.ValSetAt(v.RootHeight).NumValidators, TotalPower: a.s.ValSetAt(v.RootHeight).TotalPower, VotingPower: a.s.PowerAt(b, v.RootHeight)}
		_, vrf, isCand := bft.Sortition(&bft.SortitionParams{SortitionData: sd, PrivateKey: a.s.Keys[b]})
		if !isCand {
			continue
		}
		m := &bft.Message{Header: v, Vrf: vrf}
		_ = m.Sign(a.s.Keys[b])
		bz := mustMarshal(m)
		for _, h := range a.s.Honest() {
			a.s.Inject(h, bz, 1+a.rng.Int63n(5))
		}
		a.Acts["byz-candidate"]++
	}
}

func (a *Omni) AfterCommit(i int, c Commit) {
	if a.OnCommit != nil {
		a.OnCommit(i, c)
	}
}

// onVoteToByz: a vote addressed to Byzantine key m arrived: m is (believed to be) the leader of that view.
func (a *Omni) onVoteToByz(m int, msg *bft.Message, vs *voteSet) {
	h := msg.Qc.Header
	rk := roundKey(h)
	ls := a.lead[rk]
	if ls == nil {
		ls = &leadState{m: m, view: h.Copy(), sent: map[string]bool{}, targets: map[string][]int{}, playbook: a.plan(h).playbook}
		a.lead[rk] = ls
	}
	if ls.m != m {
		return
	}
	thr := a.s.ValSetAt(h.RootHeight).MinimumMaj23
	switch h.Phase {
	case bft.ElectionVote:
		if ls.proposed {
			return
		}
		eqc, p := a.aggregate(vs.tmpl, true, nil)
		if eqc == nil || p < thr {
			return
		}
		ls.eqc, ls.proposed = eqc, true
		a.propose(ls, msg)
	case bft.ProposeVote, bft.PrecommitVote:
		next := bft.Precommit
		if h.Phase == bft.PrecommitVote {
			next = bft.Commit
		}
		if ls.playbook == "fakeqc" {
			// fabricated certificates: the Byzantine keys' own aggregate with a bitmap that claims everybody signed
			if h.Phase == bft.ProposeVote {
				for _, ph := range []lib.Phase{bft.ProposeVote, bft.PrecommitVote} {
					fh := h.Copy()
					fh.Phase = ph
					tmpl := &lib.QuorumCertificate{Header: fh, BlockHash: vs.tmpl.BlockHash, ResultsHash: vs.tmpl.ResultsHash, ProposerKey: vs.tmpl.ProposerKey}
					fq, _ := a.aggregate(tmpl, true, map[int]bool{})
					if fq == nil {
						continue
					}
					full := a.s.ValSet.MultiKey.Copy()
					for i := range a.s.Cfg.Powers {
						_ = full.AddSigner(a.vote(a.byz[0], tmpl).Signature.Signature, i)
					}
					fq.Signature.Bitmap = full.Bitmap()
					v := ls.view.Copy()
					v.Phase = ph + 1
					fm := &bft.Message{Header: v, Qc: fq, RcBuildHeight: v.RootHeight, Timestamp: uint64(a.s.Now + 1)}
					_ = fm.Sign(a.s.Keys[ls.m])
					from := a.s.indexOf(msg.Signature.PublicKey)
					a.s.Inject(from, mustMarshal(fm), 1+a.rng.Int63n(3))
					a.Acts["byz-fake-certificate"]++
				}
			}
			return
		}
		qc, p := a.aggregate(vs.tmpl, true, nil)
		if qc == nil {
			return
		}
		partialOK := ls.playbook == "partial"
		if p < thr && !partialOK {
			return
		}
		a.leaderSend(ls, next, qc, vs)
		if ls.playbook == "wrongphase" && h.Phase == bft.ProposeVote && p >= thr {
			// skip the PRECOMMIT_VOTE round: present the PROPOSE_VOTE certificate as commit justification
			a.leaderSend(ls, bft.Commit, qc, vs)
		}
	}
}

// propose sends PROPOSE message(s) according to the playbook of the view.
func (a *Omni) propose(ls *leadState, trigger *bft.Message) {
	s := a.s
	v := ls.view.Copy()
	v.Phase = bft.Propose
	hon := s.Honest()
	// reference replica for chain context
	ref := s.Replicas[hon[0]]
	for _, i := range hon {
		if s.Replicas[i].Height() == v.Height {
			ref = s.Replicas[i]
			break
		}
	}
	var last *lib.QuorumCertificate
	if n := len(ref.Chain); n > 0 {
		last = ref.Chain[n-1]
	}
	fresh := func(tag string) (*proposal, []byte) {
		blk, bz := s.MakeBlock(v.Height, ref.lastHash(), last, s.Keys[ls.m], tag)
		return &proposal{block: bz, results: MakeResults(s.Keys[ls.m].PublicKey(), nil)}, blk.BlockHeader.Hash
	}
	mk := func(p *proposal, hash []byte, high *lib.QuorumCertificate) []byte {
		m := &bft.Message{Header: v, Qc: &lib.QuorumCertificate{Header: ls.eqc.Header, Results: p.results, ResultsHash: p.results.Hash(), Block: p.block, BlockHash: hash,
			ProposerKey: s.PubKeys[ls.m], Signature: ls.eqc.Signature}, HighQc: high, RcBuildHeight: v.RootHeight}
		_ = m.Sign(s.Keys[ls.m])
		a.blocks[string(hash)] = p
		return mustMarshal(m)
	}
	sendTo := func(bz []byte, to []int) {
		for _, i := range to {
			s.Inject(i, bz, 1+a.rng.Int63n(5))
		}
	}
	a.Acts["byz-lead-"+ls.playbook]++
	switch ls.playbook {
	case "split", "fakeqc":
		pa, ha := fresh(fmt.Sprintf("byzA%d", ls.m))
		pb, hb := fresh(fmt.Sprintf("byzB%d", ls.m))
		perm := a.rng.Perm(len(hon))
		cut := 1 + a.rng.Intn(len(hon))
		var s1, s2 []int
		for j, x := range perm {
			if j < cut {
				s1 = append(s1, hon[x])
			} else {
				s2 = append(s2, hon[x])
			}
		}
		sendTo(mk(pa, ha, nil), s1)
		sendTo(mk(pb, hb, nil), s2)
	case "stale", "replayqc":
		// re-propose a value for which some PROPOSE_VOTE certificate is known, justified by that certificate;
		// prefer certificates from an older root height with the highest round number
		var cands []*lib.QuorumCertificate
		for _, c := range a.certs {
			if c.Header.Phase == bft.ProposeVote && c.Header.Height == v.Height && a.blocks[string(c.BlockHash)] != nil {
				cands = append(cands, c)
			}
		}
		if len(cands) == 0 {
			p, h := fresh(fmt.Sprintf("byz%d", ls.m))
			sendTo(mk(p, h, nil), hon)
			return
		}
		sort.SliceStable(cands, func(i, j int) bool {
			if cands[i].Header.RootHeight != cands[j].Header.RootHeight {
				return cands[i].Header.RootHeight < cands[j].Header.RootHeight
			}
			return cands[i].Header.Round > cands[j].Header.Round
		})
		c := cands[0]
		if ls.playbook == "replayqc" {
			c = cands[a.rng.Intn(len(cands))]
		}
		p := a.blocks[string(c.BlockHash)]
		high := &lib.QuorumCertificate{Header: c.Header, BlockHash: c.BlockHash, ResultsHash: c.ResultsHash, ProposerKey: c.ProposerKey, Signature: c.Signature, Block: p.block, Results: p.results}
		sendTo(mk(p, c.BlockHash, high), hon)
		a.Acts["stale-justification"]++
	case "mismatch":
		// a proposal that its own justification does not certify: a genuine PROPOSE_VOTE certificate (the newest known, the
		// one replicas are most likely locked on) attached to another block with the certified results, to the certified
		// block with other results, or to a proposal that differs in both
		var best *lib.QuorumCertificate
		for _, c := range a.certs {
			if c.Header.Phase == bft.ProposeVote && c.Header.Height == v.Height && a.blocks[string(c.BlockHash)] != nil {
				if best == nil || best.Header.Less(c.Header) {
					best = c
				}
			}
		}
		if best == nil {
			p, h := fresh(fmt.Sprintf("byz%d", ls.m))
			sendTo(mk(p, h, nil), hon)
			return
		}
		orig := a.blocks[string(best.BlockHash)]
		high := &lib.QuorumCertificate{Header: best.Header, BlockHash: best.BlockHash, ResultsHash: best.ResultsHash, ProposerKey: best.ProposerKey, Signature: best.Signature, Block: orig.block, Results: orig.results}
		p2, h2 := fresh(fmt.Sprintf("byzM%d", ls.m))
		variant := a.rng.Intn(3)
		prop, hash := &proposal{block: p2.block, results: orig.results}, h2 // 0: other block, certified results
		switch variant {
		case 1: // certified block, other results
			other := MakeResults(s.Keys[ls.m].PublicKey(), nil)
			other.RewardRecipients.PaymentPercents[0].Percent = 99
			prop, hash = &proposal{block: orig.block, results: other}, best.BlockHash
		case 2: // both differ
			prop = p2
		}
		m := &bft.Message{Header: v, Qc: &lib.QuorumCertificate{Header: ls.eqc.Header, Results: prop.results, ResultsHash: prop.results.Hash(), Block: prop.block, BlockHash: hash,
			ProposerKey: s.PubKeys[ls.m], Signature: ls.eqc.Signature}, HighQc: high, RcBuildHeight: v.RootHeight}
		_ = m.Sign(s.Keys[ls.m])
		if variant != 1 {
			a.blocks[string(hash)] = prop
		}
		sendTo(mustMarshal(m), hon)
		a.Acts[fmt.Sprintf("mismatched-justification-%d", variant)]++
	case "forged":
		// fresh value "justified" by a certificate the Byzantine keys alone signed, with a huge round number
		p, h := fresh(fmt.Sprintf("byzF%d", ls.m))
		fh := v.Copy()
		fh.Phase, fh.Round = bft.ProposeVote, v.Round+50
		tmpl := &lib.QuorumCertificate{Header: fh, BlockHash: h, ResultsHash: p.results.Hash(), ProposerKey: s.PubKeys[ls.m]}
		fq, _ := a.aggregate(tmpl, true, map[int]bool{})
		if fq != nil {
			fq.Block, fq.Results = p.block, p.results
			// variant: claim everybody signed
			if a.rng.Intn(2) == 0 {
				full := s.ValSet.MultiKey.Copy()
				for i := range s.Cfg.Powers {
					_ = full.AddSigner(a.vote(a.byz[0], tmpl).Signature.Signature, i)
				}
				fq.Signature.Bitmap = full.Bitmap()
			}
		}
		sendTo(mk(p, h, fq), hon)
	default: // honest, partial, withhold, wrongphase: one fresh value to everybody
		p, h := fresh(fmt.Sprintf("byz%d", ls.m))
		sendTo(mk(p, h, nil), hon)
	}
}

// leaderSend sends the next leader message (PRECOMMIT or COMMIT) carrying qc.
func (a *Omni) leaderSend(ls *leadState, phase lib.Phase, qc *lib.QuorumCertificate, vs *voteSet) {
	s := a.s
	key := fmt.Sprintf("%d|%s", phase, payloadKey(qc))
	if ls.sent[key] {
		return
	}
	ls.sent[key] = true
	v := ls.view.Copy()
	v.Phase = phase
	m := &bft.Message{Header: v, Qc: qc, RcBuildHeight: v.RootHeight}
	if phase == bft.Commit {
		m.Timestamp = uint64(s.Now + 1)
	}
	_ = m.Sign(s.Keys[ls.m])
	bz := mustMarshal(m)
	hon := s.Honest()
	to := hon
	p := a.plan(ls.view)
	if ls.playbook == "withhold" || ls.playbook == "split" {
		// certificates go only to a strict subset (a single replica for COMMIT)
		if phase == bft.Commit {
			to = []int{hon[a.rng.Intn(len(hon))]}
		} else if p.precommitTo != nil {
			to = nil
			for i := range p.precommitTo {
				to = append(to, i)
			}
			sort.Ints(to)
		}
	}
	for _, i := range to {
		s.Inject(i, bz, 1+a.rng.Int63n(5))
	}
	a.Acts[fmt.Sprintf("byz-lead-send-%s", phase)]++
}

// ReplayOld re-sends previously seen leader messages to everybody (old rounds, old root heights).
func (a *Omni) ReplayOld(n int) {
	if len(a.leaderMsgs) == 0 || a.ByzQuiet {
		return
	}
	for k := 0; k < n; k++ {
		bz := a.leaderMsgs[a.rng.Intn(len(a.leaderMsgs))]
		for _, h := range a.s.Honest() {
			a.s.Inject(h, bz, a.rng.Int63n(20))
		}
		a.Acts["replay-leader-msg"]++
	}
}
