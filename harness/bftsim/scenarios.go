package bftsim

import (
	"fmt"
	"math/rand"

	"github.com/canopy-network/canopy/lib"
)

// Committee is a stake vector.
type Committee struct {
	Name   string
	Powers []uint64
}

// Committees are chosen so that floor(2T/3)+1 differs from T/2+1 and (for some) from ceil(2T/3).
func Committees() []Committee {
	eq := func(n int, p uint64) []uint64 {
		v := make([]uint64, n)
		for i := range v {
			v[i] = p
		}
		return v
	}
	return []Committee{
		{"4-equal", eq(4, 10)},
		{"4-unit", eq(4, 1)},
		{"5-equal", eq(5, 10)},
		{"6-unit", eq(6, 1)}, // T=6: threshold 5, ceil(2T/3)=4
		{"7-equal", eq(7, 10)},
		{"5-whale", []uint64{32, 17, 17, 17, 17}}, // one validator just under 1/3
		{"7-ramp", []uint64{1, 2, 3, 4, 5, 6, 7}},
		{"4-huge", eq(4, 1<<60)},
		{"6-mixed", []uint64{5, 5, 5, 5, 5, 5}}, // T=30: threshold 21, ceil=20
	}
}

// ByzantineSubset picks a PRNG-chosen maximal subset with power strictly below one third.
func ByzantineSubset(powers []uint64, rng *rand.Rand, none bool) []bool {
	out := make([]bool, len(powers))
	if none {
		return out
	}
	var total uint64
	for _, p := range powers {
		total += p
	}
	var acc uint64
	for _, i := range rng.Perm(len(powers)) {
		// strict: 3*(acc+p) < total  (big enough numbers are avoided by the committee list: totals < 2^62)
		if 3*(acc+powers[i]) < total {
			out[i] = true
			acc += powers[i]
		}
	}
	return out
}

// Case is one simulation to run.
type Case struct {
	Name     string
	Scenario string
	Cfg      Config
	Adv      *Omni
	Script   func(s *Sim, a *Omni)
}

// ScenarioNames lists the scripted adversary scenarios (DESIGN §2 C01).
var ScenarioNames = []string{"split", "hidden-lock", "commit-withheld", "lock-replay-reset", "replay", "random", "crash", "benign"}

// TimeoutConfigs for C15.
func TimeoutConfigs() []Timeouts {
	return []Timeouts{
		DefaultTimeouts(),
		{100, 100, 100, 400, 100, 100, 100, 100}, // PROPOSE >> others
		{100, 100, 100, 100, 100, 100, 100, 20},  // COMMIT << others
		{50, 30, 60, 90, 120, 70, 40, 80},
	}
}

// BuildCase assembles the case (scenario, committee, seed).
func BuildCase(name, scenario string, com Committee, seed int64) *Case {
	rng := rand.New(rand.NewSource(seed))
	c := &Case{Name: name, Scenario: scenario}
	c.Cfg = Config{Powers: com.Powers, Timeouts: DefaultTimeouts(), Heights: 2 + rng.Intn(2), MaxRounds: 12, MaxEvents: 60000, Seed: seed, RootStart: 5}
	c.Cfg.Byzantine = ByzantineSubset(com.Powers, rng, scenario == "benign")
	k := Knobs{MinDelay: 1, MaxDelay: 20, ByzVote: true, ByzDoubleSend: true, ByzBadSigVotes: true}
	bumpAll := func(s *Sim, root uint64, skew int64) {
		for _, i := range s.Honest() {
			// each replica learns of the new root height at its own time; the NEW_COMMITTEE reset follows within a few ms
			// (the real node queues ResetBFT right after updating the root-chain info: at most one timer event can interleave)
			s.BumpRoot(i, root, s.Rng.Int63n(skew+1), s.Rng.Int63n(4))
		}
	}
	switch scenario {
	case "benign":
		k.ByzVote = false
	case "crash":
		k.Silent = true
		k.DropP = 0.05
	case "split":
		k.Playbooks = []string{"split", "split", "partial", "wrongphase", "forged", "fakeqc", "honest"}
		k.SuppressHonestCandidatesP = 0.7
		k.HidePrecommitP, k.DropBlocksP = 0.3, 0.5
	case "hidden-lock":
		k.Playbooks = []string{"stale", "replayqc", "honest", "forged", "mismatch"}
		k.HidePrecommitP, k.MuteLockedP, k.SuppressHonestCandidatesP = 0.7, 0.5, 0.4
	case "commit-withheld":
		// an honest leader's COMMIT reaches nobody but the leader itself, which commits alone (gossip suppressed); the others,
		// locked on that value, then face Byzantine leaders that try to unlock them (forged / stale justifications, splits)
		k.Playbooks = []string{"forged", "forged", "stale", "split", "withhold", "fakeqc", "mismatch", "mismatch"}
		k.HideCommitP, k.DropBlocksP, k.HideSingle, k.NoByzCandidates = 1.0, 1.0, true, true
		c.Cfg.Heights = 1 // a withheld commit means the others must decide the same value by themselves
		c.Script = func(s *Sim, a *Omni) {
			a.OnCommit = func(int, Commit) {
				a.K.NoByzCandidates, a.K.SuppressHonestCandidatesP, a.K.MuteLockedP = false, 0.9, 0.5
			}
		}
	case "lock-replay-reset":
		// phase A (root R): round 0 fails, a later round locks a strict subset; then every replica sees root R+1;
		// phase B (root R+1): locked replicas are muted, the commit of the first deciding round reaches one replica,
		// Byzantine leaders re-propose the old value with its old certificate.
		k.Playbooks = []string{"stale"}
		c.Cfg.Heights = 1
		c.Cfg.MaxRounds = 10
		bumped := false
		// variant: from round 1 of the new root height the locked replica is heard again and honest leaders are preferred, so
		// an honest leader that holds the newer lock receives the older certificate (with the larger round number) in an
		// ELECTION_VOTE; the Byzantine keys only vote
		honestRelay := rng.Intn(2) == 0
		c.Script = func(s *Sim, a *Omni) {
			a.Tune = func(a *Omni, v *lib.View) {
				a.K.HideSingle = true
				if v.RootHeight == s.Cfg.RootStart {
					// phase A: Byzantine keys stay quiet; round 0 fails; later rounds lock exactly one replica
					a.K.Silent = true
					a.K.HidePrecommitP, a.K.HideCommitP, a.K.MuteLockedP, a.K.DropBlocksP = 1, 1, 0, 1
					a.K.SuppressHonestCandidatesP, a.K.DropP = 0, 0
					if v.Round == 0 {
						a.K.DropP = 1
					}
				} else {
					// phase B: Byzantine keys vote with everybody; the locked replica is muted; the first commit reaches one
					// replica only; from round 1 on Byzantine keys seek the leadership and re-propose the old value
					a.K.Silent = false
					a.K.HidePrecommitP, a.K.HideCommitP, a.K.MuteLockedP, a.K.DropBlocksP, a.K.DropP = 0, 1, 1, 1, 0
					a.K.NoByzCandidates, a.K.SuppressHonestCandidatesP = true, 0
					if v.Round >= 1 {
						a.K.NoByzCandidates, a.K.SuppressHonestCandidatesP = false, 0.9
						if honestRelay {
							a.K.NoByzCandidates, a.K.SuppressHonestCandidatesP, a.K.MuteLockedP = true, 0, 0
						}
					}
				}
			}
			a.OnLock = func(i int, qc *lib.QuorumCertificate) {
				if !bumped && qc.Header.RootHeight == s.Cfg.RootStart && qc.Header.Round >= 1 {
					bumped = true
					s.At(30+s.Rng.Int63n(100), func() { bumpAll(s, s.Cfg.RootStart+1, 10) })
				}
			}
		}
	case "replay":
		k.Playbooks = []string{"replayqc", "stale", "honest", "mismatch"}
		k.DropP, k.DupP, k.HidePrecommitP, k.HideCommitP, k.DropBlocksP = 0.1, 0.2, 0.3, 0.3, 0.5
		c.Script = func(s *Sim, a *Omni) {
			for t := int64(300); t < 20000; t += 250 + s.Rng.Int63n(400) {
				s.At(t, func() { a.ReplayOld(3) })
			}
			nb := 1 + s.Rng.Intn(3)
			for j := 0; j < nb; j++ {
				root := s.Cfg.RootStart + uint64(j) + 1
				s.At(400+s.Rng.Int63n(4000)+int64(j)*1500, func() { bumpAll(s, root, 150) })
			}
		}
	case "random":
		k.MaxDelay = int64([]int{20, 100, 300}[rng.Intn(3)])
		k.DropP = []float64{0, 0.1, 0.3}[rng.Intn(3)]
		k.DupP = 0.1
		k.HidePrecommitP, k.HideCommitP, k.MuteLockedP, k.SuppressHonestCandidatesP, k.DropBlocksP = 0.2, 0.2, 0.2, 0.3, 0.3
		k.Playbooks = []string{"honest", "split", "partial", "stale", "forged", "withhold", "wrongphase", "replayqc", "fakeqc", "mismatch"}
		c.Script = func(s *Sim, a *Omni) {
			nb := s.Rng.Intn(4)
			for j := 0; j < nb; j++ {
				root := s.Cfg.RootStart + uint64(j) + 1
				s.At(200+s.Rng.Int63n(5000)+int64(j)*1200, func() { bumpAll(s, root, 300) })
			}
			// pause / resume individual replicas
			for _, i := range s.Honest() {
				if s.Rng.Intn(4) == 0 {
					i := i
					at, dur := s.Rng.Int63n(3000), 200+s.Rng.Int63n(1500)
					s.At(at, func() {
						if s.HealedAt == 0 { // no new faults after GST
							s.Replicas[i].Paused = true
						}
					})
					s.At(at+dur, func() { s.Resume(i) })
				}
			}
			for t := int64(500); t < 12000; t += 500 + s.Rng.Int63n(800) {
				s.At(t, func() { a.ReplayOld(2) })
			}
		}
	default:
		panic("unknown scenario " + scenario)
	}
	c.Adv = NewOmni(k)
	return c
}

// Run executes the case and returns the simulation.
func (c *Case) Run(logTrace bool) *Sim {
	s := New(c.Cfg, c.Adv)
	if logTrace {
		s.EnableLog()
	}
	if c.Script != nil {
		c.Script(s, c.Adv)
	}
	s.Run()
	return s
}

// Resume un-pauses a replica and re-arms its timer for the phase it is in.
func (s *Sim) Resume(i int) {
	r := s.Replicas[i]
	if r == nil || !r.Paused {
		return
	}
	r.Paused = false
	s.setTimer(r, 1)
}

// Describe renders a case for evidence samples.
func (c *Case) Describe(s *Sim) map[string]any {
	return map[string]any{
		"case": c.Name, "scenario": c.Scenario, "powers": fmt.Sprint(c.Cfg.Powers), "byzantine": fmt.Sprint(c.Cfg.Byzantine), "heights": c.Cfg.Heights,
		"events": s.Events, "virtual_ms": s.Now, "max_round": s.Stats.MaxRound, "locks": s.Stats.Locks, "round_interrupts": s.Stats.RoundInterrupts,
		"root_bumps": s.Stats.RootBumps, "commits": s.Stats.CommitsSeen, "byz_injected": s.Stats.ByzInjected, "adversary_acts": c.Adv.Acts, "trace": s.TraceHash(),
	}
}

// RoundInfo describes one (height, root height, round) as the honest replicas saw it.
type RoundInfo struct {
	Key       string
	Selected  map[int]int   // honest replica -> validator index it voted for as proposer
	At        map[int]int64 // honest replica -> virtual time of that election vote
	FirstSeen int64
	Round     uint64
}

// Spread is the difference between the first and the last honest election vote of the round.
func (ri *RoundInfo) Spread() int64 {
	var lo, hi int64 = 1 << 62, -1
	for _, t := range ri.At {
		if t < lo {
			lo = t
		}
		if t > hi {
			hi = t
		}
	}
	if hi < 0 {
		return 0
	}
	return hi - lo
}

// HonestLed reports whether honest replicas holding at least the +2/3 threshold selected the same honest proposer.
func (s *Sim) HonestLed(ri *RoundInfo) bool {
	power := map[int]uint64{}
	for r, p := range ri.Selected {
		power[p] += s.Cfg.Powers[r]
	}
	for p, pw := range power {
		if p >= 0 && !s.Cfg.Byzantine[p] && pw >= s.ValSet.MinimumMaj23 {
			return true
		}
	}
	return false
}

// Heal is GST: from now on every message between honest replicas arrives within a few virtual ms, paused replicas
// resume, every replica learns the highest root height any of them has been told about (in-flight root updates are
// delivered, no new ones start), and - if byzQuiet - the Byzantine keys stop acting.
func (c *Case) Heal(s *Sim, byzQuiet bool) {
	a := c.Adv
	a.Healed, a.ByzQuiet = true, byzQuiet
	maxRoot := s.Cfg.RootStart
	for _, r := range s.Replicas {
		if r != nil && r.rootVisible > maxRoot {
			maxRoot = r.rootVisible
		}
	}
	for _, e := range s.q {
		if (e.kind == evRootVisible || e.kind == evRootReset) && e.root > maxRoot {
			maxRoot = e.root
		}
	}
	for _, i := range s.Honest() {
		if r := s.Replicas[i]; r.rootReset < maxRoot && maxRoot > s.Cfg.RootStart {
			s.BumpRoot(i, maxRoot, s.Rng.Int63n(5), s.Rng.Int63n(3))
		}
		s.Resume(i)
	}
	s.NoMoreBumps = true
	s.HealedAt = s.Now
	// a replica that already committed serves its certificate to the ones that fell behind (the node's block-sync path,
	// which is outside the BFT rounds): whoever committed re-gossips once the network works again
	// (every height it has, oldest first: a replica that missed height h cannot use the certificate of h+1)
	for _, i := range s.Honest() {
		r := s.Replicas[i]
		for k := range r.Chain {
			i, qc := i, r.Chain[k]
			s.At(int64(k)*10, func() { s.gossipBlock(i, qc) })
		}
	}
}
