// Package bftsim is a virtual-time discrete-event simulator around N real bft.BFT instances.
//
// The harness owns the clock, the network and the root chain. Each honest replica is a real
// bft.BFT object whose bft.Controller is implemented here ("lite" back end: blocks are small real
// lib.Block values, proposal validity is a harness predicate, commit = the checks controller.HandlePeerBlock
// makes). BFT.Start() is never run; its two branches are reproduced call for call (see DESIGN §1.4).
// Byzantine replicas are not BFT instances: they are keys held by an Adversary that sees all traffic.
package bftsim

import (
	"bytes"
	"container/heap"
	"crypto/sha256"
	"fmt"
	"hash"
	"math/rand"
	"sort"
	"sync"
	"sync/atomic"

	"github.com/canopy-network/canopy/bft"
	"github.com/canopy-network/canopy/lib"
	"github.com/canopy-network/canopy/lib/crypto"
)

const (
	NetworkID = 1
	ChainID   = 7
)

// Timeouts in virtual milliseconds.
type Timeouts struct {
	NewHeight, Election, ElectionVote, Propose, ProposeVote, Precommit, PrecommitVote, Commit int
}

// DefaultTimeouts: all phases equal.
func DefaultTimeouts() Timeouts { return Timeouts{100, 100, 100, 100, 100, 100, 100, 100} }

// Config of one simulation.
type Config struct {
	Powers    []uint64 // voting power per validator index
	Byzantine []bool   // which indices the adversary controls
	Timeouts  Timeouts
	Heights   int   // how many consecutive heights to run
	MaxRounds int   // per height and root height: a height that exceeds it is abandoned
	MaxEvents int   // watchdog on processed events
	Seed      int64 // PRNG seed of the case
	RootStart uint64
	// ReorderCommittee: the committee is the same set of keys at every root height, but stakes move a little with the root
	// height (power = 1000*Powers[i] + (i+rootHeight) mod n), so the stake-sorted ORDER of the validator set - and with it
	// every signer bitmap - differs between root heights, as it does on a real root chain whenever stakes change
	ReorderCommittee bool
}

type evKind int

const (
	evTimer evKind = iota
	evDeliver
	evBlock
	evRootVisible
	evRootReset
	evCall
)

type event struct {
	at   int64
	seq  int64
	kind evKind
	to   int
	gen  int    // timer generation
	data []byte // marshalled bft.Message or lib.BlockMessage
	from int
	root uint64
	fn   func()
}

type evHeap []*event

func (h evHeap) Len() int { return len(h) }
func (h evHeap) Less(i, j int) bool {
	if h[i].at != h[j].at {
		return h[i].at < h[j].at
	}
	return h[i].seq < h[j].seq
}
func (h evHeap) Swap(i, j int) { h[i], h[j] = h[j], h[i] }
func (h *evHeap) Push(x any)   { *h = append(*h, x.(*event)) }
func (h *evHeap) Pop() any {
	old := *h
	n := len(old)
	x := old[n-1]
	*h = old[:n-1]
	return x
}

// Commit is what an honest replica decided for a height.
type Commit struct {
	Replica     int
	Height      uint64
	BlockHash   []byte
	ResultsHash []byte
	QCView      string
	At          int64
}

// Wire is a message in flight as the adversary sees it.
type Wire struct {
	From, To int
	Bytes    []byte
	Msg      *bft.Message // decoded copy for inspection (do not mutate)
	IsBlock  bool         // a gossiped block (lib.BlockMessage) rather than a consensus message
	At       int64
}

// Delivery is one scheduled arrival of a message.
type Delivery struct{ Delay int64 }

// Adversary controls the network and the Byzantine keys.
type Adversary interface {
	Init(s *Sim)
	// Route decides, for a message an honest replica sends, when (and how often) it arrives. nil = dropped.
	Route(w *Wire) []Delivery
	// AfterPhase is called after honest replica i executed a phase handler (state may be inspected).
	AfterPhase(i int, handled lib.Phase)
	// AfterCommit is called when honest replica i committed.
	AfterCommit(i int, c Commit)
}

// Replica is one honest validator.
type Replica struct {
	Idx         int
	Key         crypto.PrivateKeyI
	BFT         *bft.BFT
	ctl         *liteCtl
	gen         int
	Chain       []*lib.QuorumCertificate // committed certificates by height-1
	rootVisible uint64
	rootReset   uint64
	Paused      bool
	// monitors
	votesSent  map[string]string // (view,phase) -> payload hash of the vote sent (at most one per view)
	RoundsSeen int
}

// Sim is one simulation.
type Sim struct {
	Cfg      Config
	Keys     []crypto.PrivateKeyI
	PubKeys  [][]byte
	Vals     *lib.ConsensusValidators
	ValSet   lib.ValidatorSet
	vsMu     sync.Mutex
	vsCache  map[uint64]vsEntry
	idPos    []int
	Replicas []*Replica // nil entries for Byzantine indices
	Now      int64
	Rng      *rand.Rand
	Adv      Adversary
	q        evHeap
	seq      int64
	Events   int

	Commits    map[uint64][]Commit
	Transcript []*Wire // everything honest replicas ever sent (the adversary's knowledge)
	Violations []string
	AuxAlarms  []string // auxiliary invariant failures (localise, not verdicts)
	Stats      Stats
	Log        []string // compact trace for witnesses
	logOn      bool
	txCounter  int
	Signed     *Ledger
	Rounds     map[string]*RoundInfo
	// NoMoreBumps: after GST no further root-height updates are started
	NoMoreBumps bool
	HealedAt    int64
	RoundOrder  []*RoundInfo
	trace       hash.Hash
}

// TraceHash identifies the schedule that was executed (order and timing of every processed event).
func (s *Sim) TraceHash() string { return fmt.Sprintf("%x", s.trace.Sum(nil)[:12]) }

// Stats are measured counters of one simulation.
type Stats struct {
	Delivered, Dropped, Duplicated, TimerFires, RoundInterrupts, Locks, Unlocks, CommitsSeen, RootBumps int
	MaxRound                                                                                            uint64
	HandleErrs                                                                                          map[string]int
	LeaderMsgs, Votes, PacemakerMsgs                                                                    int
	ByzInjected, ElectionRevotes                                                                        int
	HeightsDecided                                                                                      int
}

// Ledger records who really signed what (used by C14): signer index -> view string -> set of payload hashes.
type Ledger struct {
	mu sync.Mutex
	m  map[int]map[string]map[string]bool
}

func (l *Ledger) Add(signer int, view *lib.View, payload []byte) {
	l.mu.Lock()
	defer l.mu.Unlock()
	if l.m == nil {
		l.m = map[int]map[string]map[string]bool{}
	}
	if l.m[signer] == nil {
		l.m[signer] = map[string]map[string]bool{}
	}
	k := ViewKey(view)
	if l.m[signer][k] == nil {
		l.m[signer][k] = map[string]bool{}
	}
	l.m[signer][k][crypto.HashString(payload)] = true
}

// Equivocated reports whether signer signed more than one payload in some view at root height rh.
func (l *Ledger) Equivocated(signer int, rootHeight uint64) bool {
	l.mu.Lock()
	defer l.mu.Unlock()
	for k, p := range l.m[signer] {
		var h, r, rd uint64
		var ph int
		fmt.Sscanf(k, "%d/%d/%d/%d", &h, &r, &rd, &ph)
		if r == rootHeight && len(p) > 1 {
			return true
		}
	}
	return false
}

// ViewKey renders a view.
func ViewKey(v *lib.View) string {
	return fmt.Sprintf("%d/%d/%d/%d", v.Height, v.RootHeight, v.Round, int(v.Phase))
}

var keyCache sync.Map // deterministic BLS keys are expensive to derive; share across simulations

// KeyFor returns the deterministic BLS key number i.
func KeyFor(i int) crypto.PrivateKeyI {
	if k, ok := keyCache.Load(i); ok {
		return k.(crypto.PrivateKeyI)
	}
	seed := make([]byte, 32)
	seed[0], seed[29], seed[30], seed[31] = 0x01, byte((i+1)>>8), byte(i+1), 0x5a // below the group order
	k, err := crypto.BytesToBLS12381PrivateKey(seed)
	if err != nil {
		panic(err)
	}
	keyCache.Store(i, k)
	return k
}

// New builds a simulation.
func New(cfg Config, adv Adversary) *Sim {
	s := &Sim{Cfg: cfg, Adv: adv, Rng: rand.New(rand.NewSource(cfg.Seed)), Commits: map[uint64][]Commit{}, Signed: &Ledger{}, trace: sha256.New(), Rounds: map[string]*RoundInfo{}}
	s.Stats.HandleErrs = map[string]int{}
	n := len(cfg.Powers)
	s.Vals = &lib.ConsensusValidators{}
	for i := 0; i < n; i++ {
		k := KeyFor(i)
		s.Keys = append(s.Keys, k)
		s.PubKeys = append(s.PubKeys, k.PublicKey().Bytes())
		s.Vals.ValidatorSet = append(s.Vals.ValidatorSet, &lib.ConsensusValidator{PublicKey: k.PublicKey().Bytes(), VotingPower: cfg.Powers[i], NetAddress: fmt.Sprintf("v%d", i)})
	}
	vs, err := lib.NewValidatorSet(s.Vals)
	if err != nil {
		panic(err)
	}
	s.ValSet = vs
	s.Replicas = make([]*Replica, n)
	for i := 0; i < n; i++ {
		if cfg.Byzantine[i] {
			continue
		}
		r := &Replica{Idx: i, Key: s.Keys[i], votesSent: map[string]string{}, rootVisible: cfg.RootStart}
		r.ctl = &liteCtl{s: s, r: r, syncing: &atomic.Bool{}, out: make(chan func(), 8)}
		c := lib.DefaultConfig()
		c.ChainId, c.NetworkID = ChainID, NetworkID
		c.RunVDF = false
		t := cfg.Timeouts
		c.ConsensusConfig = lib.ConsensusConfig{NewHeightTimeoutMs: t.NewHeight, ElectionTimeoutMS: t.Election, ElectionVoteTimeoutMS: t.ElectionVote,
			ProposeTimeoutMS: t.Propose, ProposeVoteTimeoutMS: t.ProposeVote, PrecommitTimeoutMS: t.Precommit, PrecommitVoteTimeoutMS: t.PrecommitVote, CommitTimeoutMS: t.Commit}
		b, e := bft.New(c, r.Key, cfg.RootStart, 1, r.ctl, false, nil, lib.NewNullLogger())
		if e != nil {
			panic(e)
		}
		r.BFT = b
		// what Start() does before its loop
		b.ValidatorSet, _ = r.ctl.LoadCommittee(0, cfg.RootStart)
		b.CommitteeData, _ = r.ctl.LoadCommitteeData()
		b.NewHeight(false) // the first ResetBFT a starting node processes
		s.Replicas[i] = r
	}
	adv.Init(s)
	// every replica starts the height with the NEW_HEIGHT wait
	for _, r := range s.Replicas {
		if r != nil {
			s.setTimer(r, int64(cfg.Timeouts.NewHeight))
		}
	}
	return s
}

// EnableLog turns on the compact trace.
func (s *Sim) EnableLog() { s.logOn = true }

func (s *Sim) logf(f string, a ...any) {
	if s.logOn {
		s.Log = append(s.Log, fmt.Sprintf("t=%d ", s.Now)+fmt.Sprintf(f, a...))
	}
}

func (s *Sim) push(e *event) {
	s.seq++
	e.seq = s.seq
	heap.Push(&s.q, e)
}

func (s *Sim) setTimer(r *Replica, wait int64) {
	r.gen++
	s.push(&event{at: s.Now + wait, kind: evTimer, to: r.Idx, gen: r.gen})
}

// At schedules fn at virtual time now+delay (adversary scripting).
func (s *Sim) At(delay int64, fn func()) { s.push(&event{at: s.Now + delay, kind: evCall, fn: fn}) }

// Inject delivers raw consensus-message bytes to honest replica `to` after delay (Byzantine send).
func (s *Sim) Inject(to int, data []byte, delay int64) {
	if s.Replicas[to] == nil {
		return
	}
	s.Stats.ByzInjected++
	s.push(&event{at: s.Now + delay, kind: evDeliver, to: to, data: data, from: -1})
}

// InjectBlock delivers a block message (certificate + block) to honest replica `to`.
func (s *Sim) InjectBlock(to int, data []byte, delay int64) {
	if s.Replicas[to] == nil {
		return
	}
	s.Stats.ByzInjected++
	s.push(&event{at: s.Now + delay, kind: evBlock, to: to, data: data, from: -1})
}

// BumpRoot makes root height `root` visible to replica i after visDelay and processes the NEW_COMMITTEE
// reset resetDelay later (the real node updates RCManager first, then queues ResetBFT).
func (s *Sim) BumpRoot(i int, root uint64, visDelay, resetDelay int64) {
	if s.NoMoreBumps {
		return
	}
	s.push(&event{at: s.Now + visDelay, kind: evRootVisible, to: i, root: root})
	s.push(&event{at: s.Now + visDelay + resetDelay, kind: evRootReset, to: i, root: root})
}

// send is called by the controller of honest replica `from`.
func (s *Sim) send(from, to int, m *bft.Message) {
	bz, err := lib.Marshal(m)
	if err != nil {
		panic(err)
	}
	w := &Wire{From: from, To: to, Bytes: bz, Msg: m, At: s.Now}
	s.Transcript = append(s.Transcript, w)
	switch {
	case m.IsPacemakerMessage():
		s.Stats.PacemakerMsgs++
	case m.IsReplicaMessage():
		s.Stats.Votes++
	default:
		s.Stats.LeaderMsgs++
	}
	if to == from {
		// internal routing (P2P.SelfSend): immediate, not under adversary control
		s.push(&event{at: s.Now, kind: evDeliver, to: to, data: bz, from: from})
		return
	}
	ds := s.Adv.Route(w)
	if len(ds) == 0 {
		s.Stats.Dropped++
		return
	}
	if len(ds) > 1 {
		s.Stats.Duplicated += len(ds) - 1
	}
	for _, d := range ds {
		if s.Replicas[to] == nil {
			continue // to a Byzantine key: the adversary has already seen it in Route
		}
		s.push(&event{at: s.Now + d.Delay, kind: evDeliver, to: to, data: bz, from: from})
	}
}

// gossipBlock is called when an honest replica gossips its committed certificate.
func (s *Sim) gossipBlock(from int, qc *lib.QuorumCertificate) {
	bz, err := lib.Marshal(&lib.BlockMessage{ChainId: ChainID, BlockAndCertificate: qc, Time: uint64(s.Now + 1)})
	if err != nil {
		panic(err)
	}
	for to := range s.Replicas {
		if to == from {
			continue
		}
		w := &Wire{From: from, To: to, Bytes: bz, IsBlock: true, At: s.Now}
		s.Transcript = append(s.Transcript, w)
		for _, d := range s.Adv.Route(w) {
			if s.Replicas[to] != nil {
				s.push(&event{at: s.Now + d.Delay, kind: evBlock, to: to, data: bz, from: from})
			}
		}
	}
}

// Step processes one event; false when the queue is empty or the watchdog fired.
func (s *Sim) Step() bool {
	if s.q.Len() == 0 || s.Events >= s.Cfg.MaxEvents {
		return false
	}
	e := heap.Pop(&s.q).(*event)
	s.Now = e.at
	s.Events++
	fmt.Fprintf(s.trace, "%d.%d.%d.%d.%d|", e.kind, e.to, e.from, e.at, len(e.data))
	switch e.kind {
	case evCall:
		e.fn()
	case evTimer:
		r := s.Replicas[e.to]
		if r == nil || e.gen != r.gen || r.Paused {
			return true
		}
		s.firePhase(r)
	case evDeliver:
		r := s.Replicas[e.to]
		if r == nil || r.Paused {
			return true
		}
		m := new(bft.Message)
		if err := lib.Unmarshal(e.data, m); err != nil {
			s.Stats.HandleErrs["unmarshal"]++
			return true
		}
		s.Stats.Delivered++
		// as ListenForConsensus does: no controller lock held by the caller
		if err := r.BFT.HandleMessage(m); err != nil {
			s.Stats.HandleErrs[fmt.Sprint(err.Code())]++
		}
	case evBlock:
		r := s.Replicas[e.to]
		if r == nil || r.Paused {
			return true
		}
		bm := new(lib.BlockMessage)
		if err := lib.Unmarshal(e.data, bm); err != nil {
			return true
		}
		s.handlePeerBlock(r, bm, e.from == e.to)
	case evRootVisible:
		if r := s.Replicas[e.to]; r != nil && e.root > r.rootVisible {
			r.rootVisible = e.root
		}
	case evRootReset:
		r := s.Replicas[e.to]
		if r == nil {
			return true
		}
		if e.root <= r.rootReset {
			return true // root-chain info arrives in order over one subscription: no reset for an older or repeated height
		}
		r.rootReset = e.root
		if e.root > r.rootVisible {
			r.rootVisible = e.root
		}
		s.Stats.RootBumps++
		r.ctl.mu.Lock()
		hadLock := r.BFT.HighQC != nil
		r.BFT.NewHeight(true) // Start(): ResetBFT{IsRootChainUpdate:true}
		r.ctl.mu.Unlock()
		s.logf("r%d NEW_COMMITTEE reset root=%d keptLock=%v", r.Idx, r.rootVisible, hadLock)
		s.setTimer(r, int64(s.Cfg.Timeouts.NewHeight))
	}
	return true
}

// firePhase reproduces the timer branch of BFT.Start(): Lock; HandlePhase; Unlock, then re-arms the timer
// exactly as SetTimerForNextPhase computed it.
func (s *Sim) firePhase(r *Replica) {
	b := r.BFT
	s.Stats.TimerFires++
	r.ctl.mu.Lock()
	before, roundBefore := b.Phase, b.Round
	lockBefore := qcKey(b.HighQC)
	if before == bft.CommitProcess {
		// the commit goroutine sleeps CommitTimeoutMS of *real* time between SelfSendBlock and GossipBlock
		b.Config.CommitTimeoutMS = 0
	}
	b.HandlePhase()
	after := b.Phase
	var wait int64 = -1
	interrupted := false
	switch {
	case after == bft.Pacemaker && before != bft.Pacemaker:
		// RoundInterrupt() ran inside the handler
		interrupted = true
		wait = int64(b.Config.RoundInterruptTimeoutMS)
	case before == bft.Pacemaker && after == bft.Election:
		wait = 0
	case before == bft.CommitProcess && after == bft.CommitProcess:
		wait = -1 // no timer: waits for the block
	case after == before:
		wait = -1 // syncing / not a validator: timers stopped
	default:
		wait = int64(b.WaitTime(before, roundBefore).Milliseconds())
	}
	lockAfter := qcKey(b.HighQC)
	if b.Round > s.Stats.MaxRound {
		s.Stats.MaxRound = b.Round
	}
	r.ctl.mu.Unlock()
	if interrupted {
		s.Stats.RoundInterrupts++
	}
	if lockAfter != lockBefore {
		if lockAfter != "" {
			s.Stats.Locks++
			s.logf("r%d LOCK %s", r.Idx, lockAfter)
		}
	}
	s.logf("r%d handled %s round=%d -> phase %s round=%d interrupted=%v", r.Idx, before, roundBefore, after, b.Round, interrupted)
	if before == bft.CommitProcess && !interrupted {
		// wait for both callbacks of the commit goroutine, then run them at the current virtual instant
		f1 := <-r.ctl.out
		f2 := <-r.ctl.out
		b.Config.CommitTimeoutMS = s.Cfg.Timeouts.Commit
		f1()
		f2()
	} else if before == bft.CommitProcess {
		b.Config.CommitTimeoutMS = s.Cfg.Timeouts.Commit
	}
	if wait >= 0 {
		s.setTimer(r, wait)
	}
	if before == bft.Pacemaker {
		r.RoundsSeen++
	}
	s.Adv.AfterPhase(r.Idx, before)
}

func qcKey(q *lib.QuorumCertificate) string {
	if q == nil || q.Header == nil {
		return ""
	}
	return fmt.Sprintf("%x@rh%d/r%d", q.BlockHash[:4], q.Header.RootHeight, q.Header.Round)
}

// Height returns the height replica i is deciding.
func (r *Replica) Height() uint64 { return uint64(len(r.Chain)) + 1 }

// handlePeerBlock mirrors controller.HandlePeerBlock(msg, syncing=false) + CommitCertificate + the NEW_HEIGHT
// reset that ListenForBlock triggers, for the lite back end.
func (s *Sim) handlePeerBlock(r *Replica, msg *lib.BlockMessage, self bool) {
	qc := msg.BlockAndCertificate
	if err := qc.CheckBasic(); err != nil {
		s.Stats.HandleErrs["block-basic"]++
		return
	}
	vs, err := r.ctl.LoadCommittee(0, qc.Header.RootHeight)
	if err != nil {
		return
	}
	partial, err := qc.Check(vs, r.ctl.LoadMaxBlockSize(), &lib.View{NetworkId: NetworkID, ChainId: ChainID}, false)
	if err != nil || partial {
		s.Stats.HandleErrs["block-qc"]++
		return
	}
	block, err := qc.CheckProposalBasic(r.Height(), NetworkID, ChainID)
	if err == nil && qc.Header.Phase != lib.Phase_PRECOMMIT_VOTE {
		s.Stats.HandleErrs["block-phase"]++
		return
	}
	if err != nil {
		s.Stats.HandleErrs["block-proposal"]++
		return
	}
	// ApplyAndValidateBlock (lite): the block must extend this replica's chain
	if !bytes.Equal(block.BlockHeader.LastBlockHash, r.lastHash()) {
		s.Stats.HandleErrs["block-parent"]++
		return
	}
	c := Commit{Replica: r.Idx, Height: qc.Header.Height, BlockHash: bytes.Clone(qc.BlockHash), ResultsHash: bytes.Clone(qc.ResultsHash), QCView: ViewKey(qc.Header), At: s.Now}
	for _, o := range s.Commits[c.Height] {
		if !bytes.Equal(o.BlockHash, c.BlockHash) || !bytes.Equal(o.ResultsHash, c.ResultsHash) {
			s.Violations = append(s.Violations, fmt.Sprintf("fork height=%d r%d=%x/%x (qc %s) vs r%d=%x/%x (qc %s)", c.Height,
				o.Replica, o.BlockHash[:6], o.ResultsHash[:6], o.QCView, c.Replica, c.BlockHash[:6], c.ResultsHash[:6], c.QCView))
		}
	}
	if len(s.Commits[c.Height]) == 0 {
		s.Stats.HeightsDecided++
	}
	s.Commits[c.Height] = append(s.Commits[c.Height], c)
	s.Stats.CommitsSeen++
	s.logf("r%d COMMIT height=%d block=%x qc=%s", r.Idx, c.Height, c.BlockHash[:4], c.QCView)
	stored := &lib.QuorumCertificate{Header: qc.Header, BlockHash: qc.BlockHash, ResultsHash: qc.ResultsHash, ProposerKey: qc.ProposerKey, Signature: qc.Signature, Block: qc.Block, Results: qc.Results}
	r.Chain = append(r.Chain, stored)
	s.Adv.AfterCommit(r.Idx, c)
	if !self {
		s.gossipBlock(r.Idx, stored)
	}
	// ListenForBlock: ResetBFT{} -> NewHeight(false) + NEW_HEIGHT wait
	r.ctl.mu.Lock()
	r.BFT.NewHeight(false)
	r.ctl.mu.Unlock()
	r.votesSent = map[string]string{}
	if int(r.Height()) <= s.Cfg.Heights {
		s.setTimer(r, int64(s.Cfg.Timeouts.NewHeight))
	} else {
		r.gen++ // done: stop timers
	}
}

func (r *Replica) lastHash() []byte {
	if len(r.Chain) == 0 {
		return bytes.Repeat([]byte{0xAA}, crypto.HashSize)
	}
	return r.Chain[len(r.Chain)-1].BlockHash
}

// Run processes events until every honest replica decided cfg.Heights heights, the queue empties or the watchdog fires.
func (s *Sim) Run() {
	for s.Step() {
		done := true
		for _, r := range s.Replicas {
			if r != nil && int(r.Height()) <= s.Cfg.Heights {
				done = false
				break
			}
		}
		if done {
			return
		}
		if s.Cfg.MaxRounds > 0 && int(s.Stats.MaxRound) > s.Cfg.MaxRounds {
			return
		}
	}
}

// Honest returns the indices of honest replicas.
func (s *Sim) Honest() []int {
	var out []int
	for i, r := range s.Replicas {
		if r != nil {
			out = append(out, i)
		}
	}
	return out
}

// valsAt returns the committee in force at a root height and the position of every replica index in it.
func (s *Sim) valsAt(root uint64) (lib.ValidatorSet, []int) {
	if !s.Cfg.ReorderCommittee {
		if s.idPos == nil {
			for i := range s.Cfg.Powers {
				s.idPos = append(s.idPos, i)
			}
		}
		return s.ValSet, s.idPos
	}
	s.vsMu.Lock()
	defer s.vsMu.Unlock()
	if c, ok := s.vsCache[root]; ok {
		return c.vs, c.pos
	}
	n := len(s.Cfg.Powers)
	order := make([]int, n)
	for i := range order {
		order[i] = i
	}
	pw := func(i int) uint64 { return 1000*s.Cfg.Powers[i] + uint64((i+int(root%uint64(n)))%n) }
	sort.SliceStable(order, func(a, b int) bool { return pw(order[a]) > pw(order[b]) })
	vals := &lib.ConsensusValidators{}
	pos := make([]int, n)
	for p, i := range order {
		pos[i] = p
		vals.ValidatorSet = append(vals.ValidatorSet, &lib.ConsensusValidator{PublicKey: s.PubKeys[i], VotingPower: pw(i), NetAddress: fmt.Sprintf("v%d", i)})
	}
	vs, err := lib.NewValidatorSet(vals)
	if err != nil {
		panic(err)
	}
	if s.vsCache == nil {
		s.vsCache = map[uint64]vsEntry{}
	}
	s.vsCache[root] = vsEntry{vs, pos}
	return vs, pos
}

// ValSetAt is the committee in force at a root height.
func (s *Sim) ValSetAt(root uint64) lib.ValidatorSet { vs, _ := s.valsAt(root); return vs }

// PosAt is the position (bitmap index) of replica i in the committee of a root height.
func (s *Sim) PosAt(i int, root uint64) int { _, pos := s.valsAt(root); return pos[i] }

// PowerAt is the voting power of replica i in the committee of a root height.
func (s *Sim) PowerAt(i int, root uint64) uint64 {
	vs, pos := s.valsAt(root)
	return vs.ValidatorSet.ValidatorSet[pos[i]].VotingPower
}

type vsEntry struct {
	vs  lib.ValidatorSet
	pos []int
}

// PowerOf sums the voting power of the given indices.
func (s *Sim) PowerOf(idx []int) uint64 {
	var p uint64
	for _, i := range idx {
		p += s.Cfg.Powers[i]
	}
	return p
}

// MakeBlock builds a small valid lib.Block for height h extending parent with a unique payload.
func (s *Sim) MakeBlock(h uint64, parent []byte, lastQC *lib.QuorumCertificate, proposer crypto.PrivateKeyI, tag string) (*lib.Block, []byte) {
	s.txCounter++
	hdr := &lib.BlockHeader{
		Height: h, NetworkId: NetworkID, Time: uint64(1_000_000 + s.Now), NumTxs: 1, TotalTxs: h,
		LastBlockHash: parent, StateRoot: crypto.Hash([]byte("state" + tag)), TransactionRoot: crypto.Hash([]byte("tx" + tag)),
		ValidatorRoot: crypto.Hash([]byte("vals")), NextValidatorRoot: crypto.Hash([]byte("vals")),
		ProposerAddress: proposer.PublicKey().Address().Bytes(),
	}
	if h > 1 && lastQC != nil {
		hdr.LastQuorumCertificate = &lib.QuorumCertificate{Header: lastQC.Header, BlockHash: lastQC.BlockHash, ResultsHash: lastQC.ResultsHash, ProposerKey: lastQC.ProposerKey, Signature: lastQC.Signature}
	}
	if _, err := hdr.SetHash(); err != nil {
		panic(err)
	}
	blk := &lib.Block{BlockHeader: hdr, Transactions: [][]byte{[]byte(fmt.Sprintf("lite-tx:%s:%d", tag, s.txCounter))}}
	bz, err := lib.Marshal(blk)
	if err != nil {
		panic(err)
	}
	return blk, bz
}

// MakeResults builds certificate results rewarding the proposer.
func MakeResults(proposer crypto.PublicKeyI, ds []*lib.DoubleSigner) *lib.CertificateResult {
	res := &lib.CertificateResult{
		RewardRecipients: &lib.RewardRecipients{PaymentPercents: []*lib.PaymentPercents{{Address: proposer.Address().Bytes(), Percent: 100, ChainId: ChainID}}},
		SlashRecipients:  &lib.SlashRecipients{},
	}
	if len(ds) != 0 {
		res.SlashRecipients.DoubleSigners = ds
	}
	return res
}
