package c08

// C08 — state root is a pure, collision-free function of the state.
//
// Monitor: after every commit of a generated history the root produced by the real store / tree is
// compared with refs.CanonicalRoot(model set) — an independent recursive definition of the commitment.
// Level A drives store.Store (160-bit keys, real Root()/Commit()/Reset()/Copy()/NewTxn paths);
// level B drives store.SMT with short key lengths (dense trees: every structural case of
// insert/delete/sibling-collapse/border adjacency) through both commit paths via the verif hook, with
// forced completion orders of the 8 subtree workers.

import (
	"bytes"
	"crypto/sha256"
	"encoding/binary"
	"fmt"
	"math/rand"
	"sort"
	"sync"
	"testing"

	"github.com/canopy-network/canopy/lib"
	"github.com/canopy-network/canopy/store"
	"verif/core"
	"verif/refs"
)

// ---------- key pool for level A (hashed-key structure searched by brute force) ----------

type pool struct {
	clustered [][]byte // keys whose hashes share long prefixes with another pool key (birthday pairs)
	border    [][]byte // keys hashing next to the 8 sub-tree borders and the sentinels
	uniform   [][]byte
	maxShared int
}

func rawKey(i uint32) []byte {
	var b [4]byte
	binary.BigEndian.PutUint32(b[:], i)
	// a realistic two-segment state key: [1]prefix [4]id
	return lib.JoinLenPrefix([]byte{byte(1 + i%3)}, b[:])
}

func buildPool(rng *rand.Rand, n int) *pool {
	type hk struct {
		h [20]byte
		k []byte
	}
	base := rng.Uint32()
	all := make([]hk, n)
	for i := range all {
		k := rawKey(base + uint32(i))
		s := sha256.Sum256(k)
		copy(all[i].h[:], s[:20])
		all[i].k = k
	}
	sort.Slice(all, func(i, j int) bool { return bytes.Compare(all[i].h[:], all[j].h[:]) < 0 })
	p := &pool{}
	// adjacent pairs with the longest common prefixes
	type pr struct{ i, cp int }
	prs := make([]pr, 0, n)
	for i := 1; i < n; i++ {
		cp := 0
		for cp < 160 && (all[i].h[cp/8]>>(7-uint(cp%8)))&1 == (all[i-1].h[cp/8]>>(7-uint(cp%8)))&1 {
			cp++
		}
		prs = append(prs, pr{i, cp})
	}
	sort.Slice(prs, func(a, b int) bool { return prs[a].cp > prs[b].cp })
	for _, x := range prs[:64] {
		p.clustered = append(p.clustered, all[x.i].k, all[x.i-1].k)
		// neighbours of the pair as well: triples sharing shorter prefixes
		if x.i+1 < n {
			p.clustered = append(p.clustered, all[x.i+1].k)
		}
	}
	p.maxShared = prs[0].cp
	// border-adjacent: smallest and largest hashes of each 3-bit region
	start := 0
	for r := 0; r < 8; r++ {
		end := sort.Search(n, func(i int) bool { return int(all[i].h[0]>>5) > r })
		for j := 0; j < 3 && start+j < end; j++ {
			p.border = append(p.border, all[start+j].k, all[end-1-j].k)
		}
		start = end
	}
	for i := 0; i < 400; i++ {
		p.uniform = append(p.uniform, all[rng.Intn(n)].k)
	}
	return p
}

func (p *pool) universe(rng *rand.Rand, size int) [][]byte {
	seen := map[string]bool{}
	var out [][]byte
	add := func(k []byte) {
		if !seen[string(k)] {
			seen[string(k)] = true
			out = append(out, k)
		}
	}
	for len(out) < size {
		switch rng.Intn(4) {
		case 0:
			// a whole cluster (pair + neighbour)
			i := rng.Intn(len(p.clustered)/3) * 3
			add(p.clustered[i])
			add(p.clustered[i+1])
			add(p.clustered[i+2])
		case 1:
			add(p.border[rng.Intn(len(p.border))])
		default:
			add(p.uniform[rng.Intn(len(p.uniform))])
		}
	}
	return out
}

// ---------- level A: real Store ----------

type opRec struct {
	Op  string `json:"op"`
	Key string `json:"key,omitempty"`
	Val string `json:"val,omitempty"`
	N   int    `json:"n,omitempty"`
}

func newStore(t testing.TB) *store.Store {
	cfg := lib.DefaultConfig()
	cfg.StoreConfig.LSSCompactionInterval = 0
	s, err := store.NewStoreInMemory(lib.NewNullLogger(), cfg)
	if err != nil {
		t.Fatalf("NewStoreInMemory: %v", err)
	}
	return s.(*store.Store)
}

func setHash(m map[string][]byte) string {
	keys := make([]string, 0, len(m))
	for k := range m {
		keys = append(keys, k)
	}
	sort.Strings(keys)
	h := sha256.New()
	for _, k := range keys {
		h.Write([]byte{byte(len(k))})
		h.Write([]byte(k))
		h.Write([]byte{byte(len(m[k]))})
		h.Write(m[k])
	}
	return fmt.Sprintf("%x", h.Sum(nil)[:12])
}

func storeCase(t *testing.T, run *core.Run, p *pool, name string, rng *rand.Rand) {
	st := newStore(t)
	defer st.Close()
	model := map[string][]byte{}
	uni := p.universe(rng, 4+rng.Intn(60))
	blocks := 3 + rng.Intn(6)
	var hist []opRec
	nontrivial := false
	valCounter := 0
	batchSizes := []int{1, 2, 15, 16, 17, 40, 120}
	var snaps []map[string][]byte // state after each committed version
	rolledBack := false
	apply := func(s lib.RWStoreI, m map[string][]byte, n int, record bool) {
		for j := 0; j < n; j++ {
			k := uni[rng.Intn(len(uni))]
			if rng.Intn(10) < 3 {
				if _, ok := m[string(k)]; ok {
					nontrivial = true
				}
				if err := s.Delete(k); err != nil {
					t.Fatalf("delete: %v", err)
				}
				delete(m, string(k))
				if record {
					hist = append(hist, opRec{Op: "del", Key: core.Hex(k)})
				}
			} else {
				valCounter++
				v := []byte(fmt.Sprintf("v%d-%d", valCounter, rng.Intn(3)))
				if rng.Intn(12) == 0 {
					v = bytes.Repeat([]byte{byte(valCounter)}, 300)
				}
				if _, ok := m[string(k)]; ok {
					nontrivial = true
				}
				if err := s.Set(k, v); err != nil {
					t.Fatalf("set: %v", err)
				}
				m[string(k)] = v
				if record {
					hist = append(hist, opRec{Op: "set", Key: core.Hex(k), Val: string(v[:min(len(v), 12)])})
				}
			}
		}
	}
	for b := 0; b < blocks; b++ {
		// speculative execution that is then discarded: must leave no trace in the tree
		switch rng.Intn(5) {
		case 0:
			scratch := map[string][]byte{}
			for k, v := range model {
				scratch[k] = v
			}
			apply(st, scratch, batchSizes[rng.Intn(len(batchSizes))], false)
			r, err := st.Root()
			if err != nil {
				t.Fatalf("root: %v", err)
			}
			if want := refs.CanonicalRoot(scratch, 160); !bytes.Equal(r, want) {
				run.Violation("root-mismatch path=speculative", name, map[string]any{"history": hist, "got": core.Hex(r), "want": core.Hex(want), "set_size": len(scratch)})
			}
			run.Count("speculative_roots", 1)
			st.Reset()
			hist = append(hist, opRec{Op: "speculative-root-then-reset"})
		case 1:
			cp, err := st.Copy()
			if err != nil {
				t.Fatalf("copy: %v", err)
			}
			scratch := map[string][]byte{}
			for k, v := range model {
				scratch[k] = v
			}
			apply(cp, scratch, batchSizes[rng.Intn(len(batchSizes))], false)
			r, err := cp.Root()
			if err != nil {
				t.Fatalf("root(copy): %v", err)
			}
			if want := refs.CanonicalRoot(scratch, 160); !bytes.Equal(r, want) {
				run.Violation("root-mismatch path=copy", name, map[string]any{"history": hist, "got": core.Hex(r), "want": core.Hex(want), "set_size": len(scratch)})
			}
			run.Count("copy_roots", 1)
			cp.Discard()
			hist = append(hist, opRec{Op: "root-on-copy-then-discard"})
		case 2:
			// the mempool path of the controller: uncommitted work (sets, overwrites, deletes of committed keys) is pending on
			// the store when the copy is taken; the copy's root must be the commitment of committed + pending state
			scratch := map[string][]byte{}
			for k, v := range model {
				scratch[k] = v
			}
			apply(st, scratch, batchSizes[rng.Intn(len(batchSizes))], false)
			cp, err := st.Copy()
			if err != nil {
				t.Fatalf("copy: %v", err)
			}
			if rng.Intn(2) == 0 {
				apply(cp, scratch, batchSizes[rng.Intn(len(batchSizes))], false)
			}
			r, err := cp.Root()
			if err != nil {
				t.Fatalf("root(copy): %v", err)
			}
			if want := refs.CanonicalRoot(scratch, 160); !bytes.Equal(r, want) {
				run.Violation("root-mismatch path=copy-with-pending-work", name, map[string]any{"history": hist, "got": core.Hex(r), "want": core.Hex(want), "set_size": len(scratch)})
			}
			run.Count("copy_with_pending_work_roots", 1)
			cp.Discard()
			st.Reset()
			hist = append(hist, opRec{Op: "pending-work-copy-root-then-reset"})
		}
		n := batchSizes[rng.Intn(len(batchSizes))]
		if rng.Intn(8) == 0 || (b == 0 && rng.Intn(4) == 0) {
			n = 0 // an empty block (as the very first commit: the commitment of the empty set)
			run.Count("empty_batches_committed", 1)
		}
		// an older handle: a copy taken before this block commits and asked for its root afterwards, with nothing pending on
		// it, still holds the state it was taken from
		var stale lib.StoreI
		var staleModel map[string][]byte
		if rng.Intn(4) == 0 {
			c, err := st.Copy()
			if err != nil {
				t.Fatalf("copy: %v", err)
			}
			stale, staleModel = c, map[string][]byte{}
			for k, v := range model {
				staleModel[k] = v
			}
			hist = append(hist, opRec{Op: "copy-held-across-commit"})
		}
		hist = append(hist, opRec{Op: "batch", N: n})
		if rng.Intn(3) == 0 {
			// through a nested transaction that is flushed, plus one that is discarded
			tx := st.NewTxn()
			apply(tx, model, n, true)
			if err := tx.Flush(); err != nil {
				t.Fatalf("flush: %v", err)
			}
			tx2 := st.NewTxn()
			scratch := map[string][]byte{}
			apply(tx2, scratch, 3, false)
			tx2.Discard()
			run.Count("nested_txn_batches", 1)
		} else {
			apply(st, model, n, true)
		}
		root, err := st.Commit()
		if err != nil {
			t.Fatalf("commit: %v", err)
		}
		hist = append(hist, opRec{Op: "commit"})
		want := refs.CanonicalRoot(model, 160)
		run.Count("commits_compared", 1)
		if n >= 16 {
			run.Count("batches_over_parallel_threshold", 1)
		}
		if !bytes.Equal(root, want) {
			run.Violation(fmt.Sprintf("root-mismatch path=store-commit batch>=16:%v rolled-back-before:%v", n >= 16, rolledBack), name,
				map[string]any{"history": hist, "got": core.Hex(root), "want": core.Hex(want), "set_size": len(model)})
			return
		}
		if stale != nil {
			r, err := stale.Root()
			if err != nil {
				t.Fatalf("root(stale copy): %v", err)
			}
			if want := refs.CanonicalRoot(staleModel, 160); !bytes.Equal(r, want) {
				run.Violation("root-mismatch path=copy-held-across-commit", name, map[string]any{"history": hist, "got": core.Hex(r), "want": core.Hex(want),
					"set_size": len(staleModel), "root_of_the_newer_commit": core.Hex(root)})
			}
			run.Count("roots_of_copies_held_across_a_commit", 1)
			stale.Discard()
		}
		snap := make(map[string][]byte, len(model))
		for k, v := range model {
			snap[k] = v
		}
		snaps = append(snaps, snap)
		// a rollback to an earlier height: the heights committed after it are discarded; what is committed next must again
		// be the commitment of its key/value set alone (nothing of the discarded heights may remain in the tree)
		if len(snaps) >= 3 && rng.Intn(4) == 0 {
			target := 1 + rng.Intn(len(snaps)-1) // version numbers start at 1
			if err := st.Rollback(uint64(target)); err != nil {
				t.Fatalf("rollback to %d: %v", target, err)
			}
			snaps = snaps[:target]
			model = map[string][]byte{}
			for k, v := range snaps[target-1] {
				model[k] = v
			}
			rolledBack = true
			run.Count("rollbacks", 1)
			hist = append(hist, opRec{Op: "rollback", N: target})
		}
	}
	run.Eval(1)
	if nontrivial && len(model) >= 2 {
		run.Distinct("A/" + setHash(model) + fmt.Sprint(len(hist)))
	}
	if rng.Intn(40) == 0 {
		run.Sample(map[string]any{"level": "store", "case": name, "final_set_size": len(model), "history_head": hist[:min(len(hist), 12)]})
	}
}

// ---------- level B: SMT with short keys, both commit paths, forced worker orders ----------

type smtEnv struct {
	st  *store.Store
	txn *store.Txn
}

var smtPrefix = lib.JoinLenPrefix([]byte("t/"))

func newSMTEnv(t testing.TB) *smtEnv {
	st := newStore(t)
	db := st.DB()
	batch := db.NewBatch()
	vs := store.NewVersionedStore(db.NewSnapshot(), batch, 1)
	return &smtEnv{st: st, txn: store.NewTxn(vs, vs, smtPrefix, false, false, true, 1)}
}

func forbidden(leaf refs.BitKey, nbits int) bool {
	// positions that are reserved in a tree of this key length (sentinels, the 16 synthetic borders, the
	// root's own key truncated to nbits). For 160-bit keys hitting one needs a hash pre-image.
	enc := leaf.Encode()
	zero := refs.BitKey{B: make([]byte, 20), N: nbits}.Prefix(nbits).Encode()
	ones := refs.BitKey{B: bytes.Repeat([]byte{0xFF}, 20), N: nbits}.Prefix(nbits).Encode()
	if bytes.Equal(enc, zero) || bytes.Equal(enc, ones) {
		return true
	}
	rk := refs.BitKey{B: store.RootKey, N: nbits}.Prefix(nbits).Encode()
	if bytes.Equal(enc, rk) {
		return true
	}
	for r := 0; r < 8; r++ {
		lo := append([]byte{byte(r) << 5}, make([]byte, 19)...)
		hi := append([]byte{byte(r)<<5 | 0x1F}, bytes.Repeat([]byte{0xFF}, 19)...)
		if bytes.Equal(enc, refs.BitKey{B: lo, N: nbits}.Prefix(nbits).Encode()) || bytes.Equal(enc, refs.BitKey{B: hi, N: nbits}.Prefix(nbits).Encode()) {
			return true
		}
	}
	return false
}

// universeB returns raw keys with pairwise distinct, non-reserved leaves in an nbits tree.
func universeB(rng *rand.Rand, nbits, size int) [][]byte {
	seen := map[string]bool{}
	var out [][]byte
	for tries := 0; len(out) < size && tries < size*50; tries++ {
		k := rawKey(rng.Uint32())
		lk := refs.LeafKey(k, nbits)
		if forbidden(lk, nbits) || seen[string(lk.B)] {
			continue
		}
		seen[string(lk.B)] = true
		out = append(out, k)
	}
	return out
}

var hookMu sync.Mutex // serialises cases that install the process-global VerifPoint hook

func smtCase(t *testing.T, run *core.Run, name string, rng *rand.Rand, forceOrder bool) {
	nbitsChoices := []int{8, 9, 12, 16, 24, 160}
	nbits := nbitsChoices[rng.Intn(len(nbitsChoices))]
	size := 30 + rng.Intn(170)
	if nbits == 8 && size > 150 {
		size = 150
	}
	uni := universeB(rng, nbits, size)
	env := newSMTEnv(t)
	defer env.st.Close()
	tree := store.NewSMT(store.RootKey, nbits, env.txn)
	model := map[string][]byte{}
	var hist []opRec
	rounds := 3 + rng.Intn(6)
	nontrivial := false
	for r := 0; r < rounds; r++ {
		n := []int{1, 3, 15, 16, 17, 33, 64, 150}[rng.Intn(8)]
		if n > len(uni) {
			n = len(uni)
		}
		sets := map[string][]byte{}
		var dels []string
		touched := map[string]bool{}
		for len(touched) < n {
			k := string(uni[rng.Intn(len(uni))])
			if touched[k] {
				continue
			}
			touched[k] = true
			if _, present := model[k]; (present && rng.Intn(2) == 0) || (!present && rng.Intn(8) == 0) {
				dels = append(dels, k) // delete present keys often, absent keys sometimes (no-op deletes)
				if present {
					nontrivial = true
				}
				delete(model, k)
			} else {
				v := []byte(fmt.Sprintf("r%d-%d", r, rng.Intn(1000)))
				sets[k] = v
				if present {
					nontrivial = true
				}
				model[k] = v
			}
		}
		parallel := rng.Intn(2) == 0
		var order []int
		if forceOrder && parallel && n >= 16 {
			// impose a PRNG-chosen completion order on the active sub-tree workers
			active := map[int]bool{}
			for k := range touched {
				active[int(refs.LeafKey([]byte(k), nbits).B[0]>>5)] = true
			}
			for i := range active {
				order = append(order, i)
			}
			sort.Ints(order)
			rng.Shuffle(len(order), func(i, j int) { order[i], order[j] = order[j], order[i] })
			pos := map[int]int{}
			for p, idx := range order {
				pos[idx] = p
			}
			var mu sync.Mutex
			cond := sync.NewCond(&mu)
			turn := 0
			var seen []int
			f := func(pt string, i int) {
				if pt != "smt.worker.done" {
					return
				}
				mu.Lock()
				for turn != pos[i] {
					cond.Wait()
				}
				seen = append(seen, i)
				turn++
				cond.Broadcast()
				mu.Unlock()
			}
			store.VerifPoint.Store(&f)
			err := store.VerifSMTCommit(tree, sets, dels, true)
			store.VerifPoint.Store(nil)
			if err != nil {
				t.Fatalf("smt commit: %v", err)
			}
			if len(seen) == len(order) {
				run.Count("forced_worker_orders", 1)
				run.Distinct(fmt.Sprintf("B/order/%v/%d", order, nbits))
			}
		} else if err := store.VerifSMTCommit(tree, sets, dels, parallel); err != nil {
			t.Fatalf("smt commit: %v", err)
		}
		hist = append(hist, opRec{Op: fmt.Sprintf("batch sets=%d dels=%d parallel=%v order=%v", len(sets), len(dels), parallel, order), N: n})
		got, want := tree.Root(), refs.CanonicalRoot(model, nbits)
		run.Count("smt_commits_compared", 1)
		if parallel && n >= 16 {
			run.Count("smt_parallel_commits", 1)
		}
		if !bytes.Equal(got, want) {
			run.Violation(fmt.Sprintf("root-mismatch path=smt parallel=%v bits=%d forced=%v", parallel && n >= 16, nbits, order != nil), name,
				map[string]any{"bits": nbits, "history": hist, "got": core.Hex(got), "want": core.Hex(want), "set_size": len(model)})
			return
		}
		// sometimes persist and re-open the tree from the store (cold node cache, reads from the batch)
		if rng.Intn(3) == 0 {
			tree = store.NewSMT(store.RootKey, nbits, env.txn)
			if !bytes.Equal(tree.Root(), want) {
				run.Violation(fmt.Sprintf("root-mismatch path=smt-reopen bits=%d", nbits), name,
					map[string]any{"bits": nbits, "history": hist, "got": core.Hex(tree.Root()), "want": core.Hex(want)})
				return
			}
			run.Count("smt_reopens", 1)
		}
	}
	run.Eval(1)
	if nontrivial && len(model) >= 2 {
		run.Distinct(fmt.Sprintf("B/%d/%s/%d", nbits, setHash(model), len(hist)))
	}
	if rng.Intn(40) == 0 {
		run.Sample(map[string]any{"level": "smt", "case": name, "bits": nbits, "final_set_size": len(model), "history": hist})
	}
}

// twinCase: two different histories that end in the same set must give the same root (purity),
// and a set differing in one value or one key must give a different root (observed, not assumed).
func twinCase(t *testing.T, run *core.Run, p *pool, name string, rng *rand.Rand) {
	uni := p.universe(rng, 10+rng.Intn(40))
	final := map[string][]byte{}
	for _, k := range uni {
		if rng.Intn(3) != 0 {
			final[string(k)] = []byte(fmt.Sprintf("f%d", rng.Intn(1000)))
		}
	}
	if len(final) < 2 {
		return
	}
	reach := func(noise bool) []byte {
		st := newStore(t)
		defer st.Close()
		if noise {
			// write junk, commit, then converge to the final set over two more commits
			for _, k := range uni {
				_ = st.Set(k, []byte("junk"))
			}
			if _, err := st.Commit(); err != nil {
				t.Fatal(err)
			}
			i := 0
			for _, k := range uni {
				if v, ok := final[string(k)]; ok && i%2 == 0 {
					_ = st.Set(k, v)
				} else if !ok {
					_ = st.Delete(k)
				}
				i++
			}
			if _, err := st.Commit(); err != nil {
				t.Fatal(err)
			}
		}
		for k, v := range final {
			_ = st.Set([]byte(k), v)
		}
		r, err := st.Commit()
		if err != nil {
			t.Fatal(err)
		}
		return r
	}
	a, b := reach(false), reach(true)
	run.Count("twin_histories_compared", 1)
	if !bytes.Equal(a, b) {
		run.Violation("twin-histories-differ", name, map[string]any{"a": core.Hex(a), "b": core.Hex(b), "set_size": len(final)})
	}
	// different state -> different root
	other := map[string][]byte{}
	for k, v := range final {
		other[k] = v
	}
	for k := range other {
		other[k] = append([]byte("x"), other[k]...)
		break
	}
	st := newStore(t)
	for k, v := range other {
		_ = st.Set([]byte(k), v)
	}
	c, err := st.Commit()
	st.Close()
	if err != nil {
		t.Fatal(err)
	}
	run.Count("different_sets_compared", 1)
	if bytes.Equal(a, c) {
		run.Violation("different-sets-same-root", name, map[string]any{"root": core.Hex(a)})
	}
	run.Eval(1)
	run.Distinct("T/" + setHash(final))
}

func TestCheck(t *testing.T) {
	run := core.Start(t, "C08", "exploration",
		"seeded histories of set/overwrite/delete/no-op-delete batches (sizes 1..150 around the 16-op parallel threshold) over keys whose "+
			"hashes share long prefixes or sit next to the 8 sub-tree borders; after every commit the real root is compared with an independent "+
			"canonical Merkle root of the model set. distinct_nontrivial = distinct (final set, history length) with >=2 keys and at least one "+
			"overwrite or delete of a present key, plus distinct forced worker completion orders")
	defer run.Finish()
	run.MinDistinct = 20
	run.Assume("SHA-256 is collision free; reference root shares only the hash function and the documented key byte format with store/smt.go")
	prng := run.Rand("pool")
	p := buildPool(prng, core.Pick(1<<17, 1<<20))
	run.Extra("max_shared_hash_prefix_bits_in_pool", p.maxShared)

	nA, nB, nF, nT := core.Pick(250, 20000), core.Pick(400, 30000), core.Pick(40, 1500), core.Pick(40, 2000)
	core.Parallel(nA, func(i int) {
		name := fmt.Sprintf("store/%d", i)
		if run.Want(name) {
			storeCase(t, run, p, name, run.Rand(name))
		}
	})
	core.Parallel(nB, func(i int) {
		name := fmt.Sprintf("smt/%d", i)
		if run.Want(name) {
			smtCase(t, run, name, run.Rand(name), false)
		}
	})
	for i := 0; i < nF; i++ { // serial: the hook is process-global
		name := fmt.Sprintf("smt-forced/%d", i)
		if run.Want(name) {
			smtCase(t, run, name, run.Rand(name), true)
		}
	}
	core.Parallel(nT, func(i int) {
		name := fmt.Sprintf("twin/%d", i)
		if run.Want(name) {
			twinCase(t, run, p, name, run.Rand(name))
		}
	})
}
