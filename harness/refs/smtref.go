// Package refs holds the reference oracles: small, independent definitions of "the right answer"
// that the monitors compare the real code's observable behaviour against.
package refs

import (
	"bytes"
	"crypto/sha256"
	"math/bits"
	"sort"
)

// This file is the canonical Merkle commitment of a key/value set, written from the format comments
// in store/smt.go (node-key byte encoding, H(lk‖lv‖rk‖rv), min/max sentinels) and sharing no code with it.

// BitKey is a bit string of N bits stored left-aligned in B (unused low bits of the last byte are 0).
type BitKey struct {
	B []byte
	N int
}

// Bit returns bit i (0 = most significant of the first byte).
func (k BitKey) Bit(i int) int { return int(k.B[i/8]>>(7-uint(i%8))) & 1 }

// Prefix returns the first n bits.
func (k BitKey) Prefix(n int) BitKey {
	nb := (n + 7) / 8
	b := make([]byte, nb)
	copy(b, k.B[:nb])
	if r := n % 8; r != 0 {
		b[nb-1] &= 0xFF << (8 - uint(r))
	}
	return BitKey{B: b, N: n}
}

// Encode renders the bit string in canopy's node-key byte format: all full bytes as they are, the final
// (possibly partial) byte right-aligned, then one meta byte = number of leading zero bits of the
// meaningful part of that final byte (an all-zero final part counts its last 0 as the value bit).
func (k BitKey) Encode() []byte {
	if k.N == 0 {
		return []byte{0, 0}
	}
	nb := (k.N + 7) / 8
	out := make([]byte, nb, nb+1)
	copy(out, k.B[:nb])
	last := k.N % 8
	if last == 0 {
		last = 8
	}
	out[nb-1] >>= 8 - uint(last)
	pad := bits.LeadingZeros8(out[nb-1]) - (8 - last)
	if out[nb-1] == 0 {
		pad--
	}
	return append(out, byte(pad))
}

// LeafKey maps a raw state key to its tree position: the first nbits bits of SHA-256(key).
func LeafKey(raw []byte, nbits int) BitKey {
	h := sha256.Sum256(raw)
	return BitKey{B: h[:], N: nbits}.Prefix(nbits)
}

// Leaf is one element of the committed set.
type Leaf struct {
	K BitKey
	V []byte // the value stored at the leaf (hash of the state value, or the sentinel bytes)
}

func commonPrefix(a, b BitKey) int {
	n := a.N
	if b.N < n {
		n = b.N
	}
	for i := 0; i < n; i++ {
		if a.Bit(i) != b.Bit(i) {
			return i
		}
	}
	return n
}

// node returns (encoded key, value) of the canonical sub-tree over the sorted leaves s.
func node(s []Leaf) ([]byte, []byte) {
	if len(s) == 1 {
		return s[0].K.Encode(), s[0].V
	}
	cp := commonPrefix(s[0].K, s[len(s)-1].K)
	// first index whose bit cp is 1
	i := sort.Search(len(s), func(i int) bool { return s[i].K.Bit(cp) == 1 })
	lk, lv := node(s[:i])
	rk, rv := node(s[i:])
	h := sha256.New()
	h.Write(lk)
	h.Write(lv)
	h.Write(rk)
	h.Write(rv)
	return s[0].K.Prefix(cp).Encode(), h.Sum(nil)
}

// CanonicalRoot is the root commitment of the set {raw key -> raw value} for a tree of nbits-bit keys.
// It returns nil if two raw keys map to the same leaf (the caller's generator must avoid that) or a key
// maps onto a sentinel.
func CanonicalRoot(kv map[string][]byte, nbits int) []byte {
	leaves := make([]Leaf, 0, len(kv)+2)
	zero := make([]byte, 20)
	ones := bytes.Repeat([]byte{0xFF}, 20)
	leaves = append(leaves, Leaf{K: BitKey{B: zero, N: nbits}.Prefix(nbits), V: zero})
	leaves = append(leaves, Leaf{K: BitKey{B: ones, N: nbits}.Prefix(nbits), V: ones})
	for k, v := range kv {
		hv := sha256.Sum256(v)
		leaves = append(leaves, Leaf{K: LeafKey([]byte(k), nbits), V: hv[:]})
	}
	sort.Slice(leaves, func(i, j int) bool { return bytes.Compare(leaves[i].K.B, leaves[j].K.B) < 0 })
	for i := 1; i < len(leaves); i++ {
		if bytes.Equal(leaves[i].K.B, leaves[i-1].K.B) {
			return nil
		}
	}
	_, v := node(leaves)
	return v
}
