package refs

import (
	"bytes"
	"crypto/sha256"
	"fmt"
	"math/big"

	"github.com/canopy-network/canopy/lib"
	"github.com/drand/kyber"
	bls12381 "github.com/drand/kyber-bls12381"
	"github.com/drand/kyber/sign"
	"github.com/drand/kyber/sign/bdn"
)

// Member is one committee member as the reference sees it.
type Member struct {
	PublicKey []byte
	Power     uint64
}

// Threshold is floor(2T/3)+1 computed without overflow.
func Threshold(ms []Member) *big.Int {
	t := new(big.Int)
	for _, m := range ms {
		t.Add(t, new(big.Int).SetUint64(m.Power))
	}
	t.Mul(t, big.NewInt(2))
	t.Div(t, big.NewInt(3))
	return t.Add(t, big.NewInt(1))
}

// ValidCert is the reference finality gate written from the property text (C02): the certificate must name exactly
// this block hash and results hash for this network, chain and height, be in the commit-justifying phase, and carry a
// valid aggregate signature of members holding >= floor(2T/3)+1 of the power of `committee` (the committee in force
// at the certificate's root height). It uses kyber directly, not lib.ValidatorSet / lib.AggregateSignature.
func ValidCert(committee []Member, networkID, chainID, nextHeight uint64, qc *lib.QuorumCertificate) (bool, string) {
	if qc == nil || qc.Header == nil || qc.Signature == nil {
		return false, "missing parts"
	}
	h := qc.Header
	if h.NetworkId != networkID {
		return false, "network id"
	}
	if h.ChainId != chainID {
		return false, "chain id"
	}
	if h.Height != nextHeight {
		return false, "height"
	}
	if h.Phase != lib.Phase_PRECOMMIT_VOTE {
		return false, "phase"
	}
	// the block bytes must hash to the named block hash, and carry the same height
	blk := new(lib.Block)
	if err := lib.Unmarshal(qc.Block, blk); err != nil || blk.BlockHeader == nil {
		return false, "block undecodable"
	}
	// re-decode the header into a private copy and hash it with the hash field cleared
	hb0, err := lib.Marshal(blk.BlockHeader)
	if err != nil {
		return false, "header marshal"
	}
	hdr := new(lib.BlockHeader)
	if err = lib.Unmarshal(hb0, hdr); err != nil {
		return false, "header copy"
	}
	claimed := hdr.Hash
	hdr.Hash = nil
	hb, err := lib.Marshal(hdr)
	if err != nil {
		return false, "header marshal"
	}
	sum := sha256.Sum256(hb)
	if !bytes.Equal(sum[:], claimed) || !bytes.Equal(sum[:], qc.BlockHash) {
		return false, "block hash binding"
	}
	if blk.BlockHeader.Height != nextHeight {
		return false, "block height"
	}
	if uint64(blk.BlockHeader.NetworkId) != networkID {
		return false, "block network"
	}
	if qc.Results == nil {
		return false, "no results"
	}
	rb, err := lib.Marshal(qc.Results)
	if err != nil {
		return false, "results marshal"
	}
	rs := sha256.Sum256(rb)
	if !bytes.Equal(rs[:], qc.ResultsHash) {
		return false, "results hash binding"
	}
	// signers and their power from the bitmap (bit i of byte i/8, least significant first)
	n := len(committee)
	if len(qc.Signature.Bitmap) != (n+7)/8 {
		return false, "bitmap length"
	}
	suite := bls12381.NewBLS12381Suite()
	pts := make([]kyber.Point, n)
	for i, m := range committee {
		p := suite.G1().Point()
		if err := p.UnmarshalBinary(m.PublicKey); err != nil {
			return false, "member key"
		}
		pts[i] = p
	}
	mask, e2 := sign.NewMask(suite, pts, nil)
	if e2 != nil {
		return false, "mask"
	}
	power := new(big.Int)
	for i := 0; i < n; i++ {
		if qc.Signature.Bitmap[i/8]&(1<<uint(i%8)) != 0 {
			if err := mask.SetBit(i, true); err != nil {
				return false, "setbit"
			}
			power.Add(power, new(big.Int).SetUint64(committee[i].Power))
		}
	}
	if power.Cmp(Threshold(committee)) < 0 {
		return false, fmt.Sprintf("power %s below threshold %s", power, Threshold(committee))
	}
	scheme := bdn.NewSchemeOnG2(suite)
	agg, e3 := scheme.AggregatePublicKeys(mask)
	if e3 != nil {
		return false, "aggregate keys"
	}
	// sign bytes: the certificate without block, results and signature (from the format comment of SignBytes)
	sb, err := lib.Marshal(&lib.QuorumCertificate{Header: qc.Header, BlockHash: qc.BlockHash, ResultsHash: qc.ResultsHash, ProposerKey: qc.ProposerKey})
	if err != nil {
		return false, "signbytes"
	}
	if err := scheme.Verify(agg, sb, qc.Signature.Signature); err != nil {
		return false, "aggregate signature"
	}
	return true, ""
}
