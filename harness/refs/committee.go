package refs

import (
	"bytes"
	"sort"

	"github.com/canopy-network/canopy/fsm"
	"github.com/canopy-network/canopy/lib"
)

// RawValidators scans the validator records (state prefix 3) of a store view without going through the FSM getters.
func RawValidators(st lib.RStoreI) ([]*fsm.Validator, error) {
	it, err := st.Iterator(lib.JoinLenPrefix([]byte{3}))
	if err != nil {
		return nil, err
	}
	defer it.Close()
	var out []*fsm.Validator
	for ; it.Valid(); it.Next() {
		v := new(fsm.Validator)
		if e := lib.Unmarshal(it.Value(), v); e != nil {
			return nil, e
		}
		out = append(out, v)
	}
	return out, nil
}

// Committee is the reference derivation (C13): members of chainId that are (not) delegates, not paused, not unstaking,
// ordered by (stake desc, address desc), capped (0 = all); power = stake.
func Committee(vals []*fsm.Validator, chainID uint64, delegates bool, limit uint64) []Member {
	var f []*fsm.Validator
	for _, v := range vals {
		in := false
		for _, c := range v.Committees {
			if c == chainID {
				in = true
			}
		}
		if !in || v.Delegate != delegates || v.MaxPausedHeight != 0 || v.UnstakingHeight != 0 {
			continue
		}
		f = append(f, v)
	}
	sort.SliceStable(f, func(i, j int) bool {
		if f[i].StakedAmount != f[j].StakedAmount {
			return f[i].StakedAmount > f[j].StakedAmount
		}
		return bytes.Compare(f[i].Address, f[j].Address) > 0
	})
	if limit > 0 && uint64(len(f)) > limit {
		f = f[:limit]
	}
	out := make([]Member, len(f))
	for i, v := range f {
		out[i] = Member{PublicKey: v.PublicKey, Power: v.StakedAmount}
	}
	return out
}
