package refs

import (
	"encoding/binary"
	"fmt"
	"math/big"
	"sort"

	"github.com/canopy-network/canopy/fsm"
	"github.com/canopy-network/canopy/lib"
)

// Marker is one deferred-action index entry (unstaking: prefix 5, paused: prefix 6): height || address.
type Marker struct {
	Height uint64
	Addr   string
}

// RawMarkers scans a deferred-action index.
func RawMarkers(st lib.RStoreI, prefix byte) ([]Marker, error) {
	it, err := st.Iterator(lib.JoinLenPrefix([]byte{prefix}))
	if err != nil {
		return nil, err
	}
	defer it.Close()
	var out []Marker
	for ; it.Valid(); it.Next() {
		seg := lib.DecodeLengthPrefixed(it.Key())
		if len(seg) != 3 || len(seg[1]) != 8 {
			return nil, fmt.Errorf("malformed marker key %x", it.Key())
		}
		out = append(out, Marker{Height: binary.BigEndian.Uint64(seg[1]), Addr: string(seg[2])})
	}
	return out, nil
}

// RawSupply reads the supply record (prefix 10).
func RawSupply(st lib.RStoreI) (*fsm.Supply, error) {
	bz, err := st.Get(lib.JoinLenPrefix([]byte{10}))
	if err != nil {
		return nil, err
	}
	s := new(fsm.Supply)
	if e := lib.Unmarshal(bz, s); e != nil {
		return nil, e
	}
	return s, nil
}

// RawAccountsPools sums account (prefix 1) and pool (prefix 2) balances.
func RawAccountsPools(st lib.RStoreI) (accounts, pools *big.Int, nAcc, nPool int, err error) {
	accounts, pools = new(big.Int), new(big.Int)
	it, e := st.Iterator(lib.JoinLenPrefix([]byte{1}))
	if e != nil {
		return nil, nil, 0, 0, e
	}
	for ; it.Valid(); it.Next() {
		a := new(fsm.Account)
		if e := lib.Unmarshal(it.Value(), a); e != nil {
			it.Close()
			return nil, nil, 0, 0, e
		}
		accounts.Add(accounts, new(big.Int).SetUint64(a.Amount))
		nAcc++
	}
	it.Close()
	it, e = st.Iterator(lib.JoinLenPrefix([]byte{2}))
	if e != nil {
		return nil, nil, 0, 0, e
	}
	for ; it.Valid(); it.Next() {
		p := new(fsm.Pool)
		if e := lib.Unmarshal(it.Value(), p); e != nil {
			it.Close()
			return nil, nil, 0, 0, e
		}
		pools.Add(pools, new(big.Int).SetUint64(p.Amount))
		nPool++
	}
	it.Close()
	return
}

// StakingProblems cross-checks the staking records of one state view (C12, first sentence). It returns one
// human-readable line per disagreement, each starting with a stable kind.
func StakingProblems(st lib.RStoreI) ([]string, map[string]int, error) {
	stats := map[string]int{}
	vals, err := RawValidators(st)
	if err != nil {
		return nil, nil, err
	}
	sup, err := RawSupply(st)
	if err != nil {
		return nil, nil, err
	}
	unst, err := RawMarkers(st, 5)
	if err != nil {
		return nil, nil, err
	}
	paus, err := RawMarkers(st, 6)
	if err != nil {
		return nil, nil, err
	}
	var out []string
	staked, deleg := new(big.Int), new(big.Int)
	perCom, perComDel := map[uint64]*big.Int{}, map[uint64]*big.Int{}
	byAddr := map[string]*fsm.Validator{}
	add := func(m map[uint64]*big.Int, c uint64, a uint64) {
		if m[c] == nil {
			m[c] = new(big.Int)
		}
		m[c].Add(m[c], new(big.Int).SetUint64(a))
	}
	for _, v := range vals {
		byAddr[string(v.Address)] = v
		s := new(big.Int).SetUint64(v.StakedAmount)
		staked.Add(staked, s)
		if v.Delegate {
			deleg.Add(deleg, s)
		}
		for _, c := range v.Committees {
			add(perCom, c, v.StakedAmount)
			if v.Delegate {
				add(perComDel, c, v.StakedAmount)
			}
		}
		if v.UnstakingHeight != 0 {
			stats["validators_unstaking"]++
		}
		if v.MaxPausedHeight != 0 {
			stats["validators_paused"]++
		}
	}
	stats["validators"] = len(vals)
	stats["unstaking_markers"], stats["paused_markers"] = len(unst), len(paus)
	if staked.Cmp(new(big.Int).SetUint64(sup.Staked)) != 0 {
		out = append(out, fmt.Sprintf("tally-staked supply.staked=%d sum=%s", sup.Staked, staked))
	}
	if deleg.Cmp(new(big.Int).SetUint64(sup.DelegatedOnly)) != 0 {
		out = append(out, fmt.Sprintf("tally-delegated supply.delegated_only=%d sum=%s", sup.DelegatedOnly, deleg))
	}
	cmpPools := func(kind string, pools []*fsm.Pool, want map[uint64]*big.Int) {
		got := map[uint64]*big.Int{}
		for _, p := range pools {
			got[p.Id] = new(big.Int).SetUint64(p.Amount)
		}
		ids := map[uint64]bool{}
		for c := range got {
			ids[c] = true
		}
		for c := range want {
			ids[c] = true
		}
		sorted := make([]uint64, 0, len(ids))
		for c := range ids {
			sorted = append(sorted, c)
		}
		sort.Slice(sorted, func(i, j int) bool { return sorted[i] < sorted[j] })
		for _, c := range sorted {
			g, w := got[c], want[c]
			if g == nil {
				g = new(big.Int)
			}
			if w == nil {
				w = new(big.Int)
			}
			if g.Cmp(w) != 0 {
				out = append(out, fmt.Sprintf("%s committee=%d tally=%s sum=%s", kind, c, g, w))
			}
		}
	}
	cmpPools("tally-committee-staked", sup.CommitteeStaked, perCom)
	cmpPools("tally-committee-delegated", sup.CommitteeDelegatedOnly, perComDel)
	// markers <-> validator status, both directions
	seenU, seenP := map[string]bool{}, map[string]bool{}
	for _, m := range unst {
		v := byAddr[m.Addr]
		switch {
		case v == nil:
			out = append(out, fmt.Sprintf("marker-unstaking-without-validator height=%d addr=%x", m.Height, m.Addr))
		case v.UnstakingHeight != m.Height:
			out = append(out, fmt.Sprintf("marker-unstaking-height-mismatch marker=%d validator=%d addr=%x", m.Height, v.UnstakingHeight, m.Addr))
		}
		if seenU[m.Addr] {
			out = append(out, fmt.Sprintf("marker-unstaking-duplicate addr=%x", m.Addr))
		}
		seenU[m.Addr] = true
	}
	for _, m := range paus {
		v := byAddr[m.Addr]
		switch {
		case v == nil:
			out = append(out, fmt.Sprintf("marker-paused-without-validator height=%d addr=%x", m.Height, m.Addr))
		case v.MaxPausedHeight != m.Height:
			out = append(out, fmt.Sprintf("marker-paused-height-mismatch marker=%d validator=%d addr=%x", m.Height, v.MaxPausedHeight, m.Addr))
		}
		if seenP[m.Addr] {
			out = append(out, fmt.Sprintf("marker-paused-duplicate addr=%x", m.Addr))
		}
		seenP[m.Addr] = true
	}
	for _, v := range vals {
		if v.UnstakingHeight != 0 && !seenU[string(v.Address)] {
			out = append(out, fmt.Sprintf("validator-unstaking-without-marker height=%d addr=%x", v.UnstakingHeight, v.Address))
		}
		if v.MaxPausedHeight != 0 && !seenP[string(v.Address)] {
			out = append(out, fmt.Sprintf("validator-paused-without-marker height=%d addr=%x", v.MaxPausedHeight, v.Address))
		}
	}
	return out, stats, nil
}
