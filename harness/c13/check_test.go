package c13

// C13 — committee derivation and voting power. On seeded full-node chains with status churn every block (stake, edit,
// pause, unpause, unstake, cap changes, ties at the cap boundary), the answers of GetCommitteeMembers / LoadCommittee /
// GetDelegates / LoadRootChainInfo for EVERY past height are compared, after every later block, with refs.Committee
// computed from a raw validator scan of that height's state (filter, order by (stake desc, address desc), cap,
// power = stake, threshold = floor(2T/3)+1 in big.Int). The first answer for a height is remembered: later answers
// must be identical (stability of history, shared validator cache included; > 64 heights so that cache evicts).

import (
	"bytes"
	"crypto/sha256"
	"fmt"
	"math/big"
	"math/rand"
	"testing"

	"github.com/canopy-network/canopy/fsm"
	"github.com/canopy-network/canopy/lib"
	"verif/core"
	"verif/node"
	"verif/refs"
)

func digest(ms []refs.Member) string {
	h := sha256.New()
	for _, m := range ms {
		h.Write(m.PublicKey)
		fmt.Fprintf(h, "|%d;", m.Power)
	}
	return fmt.Sprintf("%d:%x", len(ms), h.Sum(nil)[:8])
}

func fromVS(vs lib.ValidatorSet) []refs.Member {
	if vs.ValidatorSet == nil {
		return nil
	}
	out := make([]refs.Member, 0, len(vs.ValidatorSet.ValidatorSet))
	for _, v := range vs.ValidatorSet.ValidatorSet {
		out = append(out, refs.Member{PublicKey: v.PublicKey, Power: v.VotingPower})
	}
	return out
}

func same(a, b []refs.Member) bool {
	if len(a) != len(b) {
		return false
	}
	for i := range a {
		if !bytes.Equal(a[i].PublicKey, b[i].PublicKey) || a[i].Power != b[i].Power {
			return false
		}
	}
	return true
}

func render(ms []refs.Member) []string {
	out := []string{}
	for _, m := range ms {
		out = append(out, fmt.Sprintf("%x:%d", m.PublicKey[:4], m.Power))
	}
	return out
}

func runCase(t *testing.T, run *core.Run, name string, idx int, rng *rand.Rand) {
	nVals := 5 + rng.Intn(6)
	capv := []uint64{1, 2, uint64(nVals - 1), uint64(nVals), uint64(nVals + 1), 3}[idx%6]
	delCap := []uint64{0, 1, 2}[rng.Intn(3)]
	tiers := []uint64{100, 100, 200, 200, 300, 1_000_000}
	opts := node.WorldOpts{
		Nodes: 1, GenesisVals: nVals, ExtraVals: 5, Users: 5, Gov: true, Delegates: 2,
		Stake:    func(i int, r *rand.Rand) uint64 { return tiers[r.Intn(len(tiers))] }, // many exact ties
		Compound: func(i int) bool { return false },                                     // stakes stay tied unless edited
		Committees: func(i int, r *rand.Rand) []uint64 {
			return [][]uint64{{1}, {1, 2}, {1, 2, 3}, {2}, {2, 1}, {3, 1, 2}}[r.Intn(6)]
		},
		Params: func(p *fsm.Params, r *rand.Rand) {
			p.Consensus.ProtocolVersion = fsm.NewProtocolVersion(0, uint64(1+idx%2))
			p.Validator.MaxCommitteeSize, p.Validator.MaximumDelegatesPerCommittee = capv, delCap
			p.Validator.UnstakingBlocks, p.Validator.MaxPauseBlocks = 3, 4
		},
		Weights: map[string]int{"send": 3, "stake": 12, "edit-stake": 14, "unstake": 8, "pause": 10, "unpause": 8, "change-param": 6, "invalid": 1, "send-edge": 0, "subsidy": 0, "dao-transfer": 0},
	}
	w, err := node.NewWorld(rng, opts)
	if err != nil {
		t.Fatalf("%s: world: %v", name, err)
	}
	defer w.Ch.Close()
	nd := w.Ch.Nodes[0]
	first := map[string]string{} // (height, chain, kind) -> digest of the first answer
	chains := []uint64{1, 2, 3}
	blocks := core.Pick(70, 90)
	query := func(h uint64, full bool) bool {
		ro, e := nd.Store.NewReadOnly(h)
		if e != nil {
			t.Fatalf("%s: read-only %d: %v", name, h, e)
		}
		raw, er := refs.RawValidators(ro)
		// the caps in force at that height, read from the raw state of that height (NOT through the state machine view whose
		// answers are being judged)
		pbz, pe := ro.Get(fsm.KeyForParams(fsm.ParamSpaceVal))
		ro.Discard()
		if er != nil {
			t.Fatalf("%s: raw scan %d: %v", name, h, er)
		}
		pv := new(fsm.ValidatorParams)
		if pe != nil || lib.Unmarshal(pbz, pv) != nil || pv.MaxCommitteeSize == 0 {
			t.Fatalf("%s: raw validator params at %d: %v", name, h, pe)
		}
		tm, e := nd.C.FSM.TimeMachine(h)
		if e != nil {
			t.Fatalf("%s: time machine %d: %v", name, h, e)
		}
		defer func() {
			if tm != nd.C.FSM {
				tm.Discard()
			}
		}()
		if lp, e := nd.C.FSM.GetParamsVal(); e == nil && (lp.MaxCommitteeSize != pv.MaxCommitteeSize || lp.MaximumDelegatesPerCommittee != pv.MaximumDelegatesPerCommittee) {
			run.Count("past_heights_queried_under_other_caps_than_now", 1)
		}
		for _, c := range chains {
			want := refs.Committee(raw, c, false, pv.MaxCommitteeSize)
			wantDel := refs.Committee(raw, c, true, pv.MaximumDelegatesPerCommittee)
			report := func(kind string, got []refs.Member, ref []refs.Member) bool {
				run.Count("committee_answers_compared", 1)
				if !same(got, ref) {
					run.Violation(fmt.Sprintf("committee-mismatch api=%s", kind), "^"+name+"$", map[string]any{"case": name, "query_height": h, "current_height": nd.Height(), "chain": c,
						"cap": pv.MaxCommitteeSize, "delegate_cap": pv.MaximumDelegatesPerCommittee, "got": render(got), "reference": render(ref)})
					return false
				}
				k := fmt.Sprintf("%d/%d/%s", h, c, kind)
				d := digest(got)
				if prev, ok := first[k]; ok && prev != d {
					run.Violation(fmt.Sprintf("history-changed api=%s", kind), "^"+name+"$", map[string]any{"case": name, "query_height": h, "current_height": nd.Height(), "chain": c, "first": prev, "now": d})
					return false
				} else if ok {
					run.Count("historical_answers_rechecked", 1)
				}
				first[k] = d
				return true
			}
			vs, e := tm.GetCommitteeMembers(c)
			if e != nil && len(want) != 0 {
				run.Violation("committee-error api=GetCommitteeMembers", "^"+name+"$", map[string]any{"case": name, "query_height": h, "chain": c, "error": e.Error(), "reference": render(want)})
				return false
			}
			if e == nil && !report("GetCommitteeMembers", fromVS(vs), want) {
				return false
			}
			if e == nil {
				// power and threshold
				tot := new(big.Int)
				for _, m := range want {
					tot.Add(tot, new(big.Int).SetUint64(m.Power))
				}
				if tot.Cmp(new(big.Int).SetUint64(vs.TotalPower)) != 0 || refs.Threshold(want).Cmp(new(big.Int).SetUint64(vs.MinimumMaj23)) != 0 || vs.NumValidators != uint64(len(want)) {
					run.Violation("threshold-mismatch", "^"+name+"$", map[string]any{"case": name, "query_height": h, "chain": c, "total": vs.TotalPower, "min_maj23": vs.MinimumMaj23, "ref_total": tot.String(), "ref_threshold": refs.Threshold(want).String()})
					return false
				}
				run.Count("thresholds_compared", 1)
			}
			vs2, e := nd.C.FSM.LoadCommittee(c, h)
			if e == nil && !report("LoadCommittee", fromVS(vs2), want) {
				return false
			}
			if (e == nil) != (len(want) != 0) && e != nil {
				run.Violation("committee-error api=LoadCommittee", "^"+name+"$", map[string]any{"case": name, "query_height": h, "chain": c, "error": e.Error(), "reference": render(want)})
				return false
			}
			if full {
				dv, e := tm.GetDelegates(c)
				if e == nil && !report("GetDelegates", fromVS(dv), wantDel) {
					return false
				}
				if e != nil && len(wantDel) != 0 {
					run.Violation("committee-error api=GetDelegates", "^"+name+"$", map[string]any{"case": name, "query_height": h, "chain": c, "error": e.Error(), "reference": render(wantDel)})
					return false
				}
				if info, e := nd.C.FSM.LoadRootChainInfo(c, h); e == nil {
					if !report("LoadRootChainInfo", fromVS(lib.ValidatorSet{ValidatorSet: info.ValidatorSet}), want) {
						return false
					}
				}
			}
			if len(want) > int(pv.MaxCommitteeSize)-1 && len(want) > 0 {
				run.Count("answers_at_cap", 1)
			}
		}
		return true
	}
	for b := 0; b < blocks; b++ {
		if _, _, err := w.Step(2 + rng.Intn(5)); err != nil {
			t.Fatalf("%s: step %d: %v", name, b, err)
		}
		run.Count("blocks_committed", 1)
		cur := nd.Height()
		// the newest height fully, plus a PRNG sample of older heights (all of them every 10th block)
		if !query(cur, true) {
			return
		}
		for h := uint64(1); h < cur; h++ {
			if b%10 == 9 || rng.Intn(6) == 0 {
				if !query(h, rng.Intn(3) == 0) {
					return
				}
			}
		}
	}
	run.Eval(1)
	run.Distinct(fmt.Sprintf("%s|cap=%d|vals=%d", name, capv, nVals))
	run.Sample(map[string]any{"case": name, "genesis_validators": nVals, "cap": capv, "delegate_cap": delCap, "blocks": blocks, "generated": w.NTx})
}

func TestCheck(t *testing.T) {
	run := core.Start(t, "C13", "exploration",
		"seeded single-node chains of 70-90 blocks: 5-10 genesis validators with stakes drawn from {100,100,200,200,300,1e6} (exact ties), committees {1},{1,2},{1,2,3},{2}, cap in "+
			"{1,2,n-1,n,n+1,3}, delegate cap in {0,1,2}, status churn by stake/edit/pause/unpause/unstake/cap-change transactions; after every block the committee of the newest height and a sample "+
			"(every 10th block: all) of the past heights is queried through 4 APIs and compared with the reference derived from a raw scan; distinct_nontrivial = distinct completed chains")
	defer run.Finish()
	run.MinDistinct = 2
	run.Assume("cap 0 (= unlimited) is reachable only for the delegate cap: ValidatorParams.Check rejects MaxCommitteeSize == 0")
	n := core.Pick(6, 120)
	run.Sharded(n, func(i int) {
		name := fmt.Sprintf("chain/%d", i)
		if run.Want(name) {
			runCase(t, run, name, i, run.Rand(name))
		}
	})
}
