// Package c20util wires two real canopy chains (a root chain and a nested chain whose root-chain manager points at
// the root node) so that sell-order locks/closes/resets and DEX batches, receipts and rotations are produced by
// canopy's own controller / state machine code, and offers harness-signed certificate-result transactions for a third
// committee whose keys the harness holds (duplicate / conflicting instructions, hostile DEX batches).
package c20util

import (
	"fmt"
	"math/rand"

	"github.com/canopy-network/canopy/fsm"
	"github.com/canopy-network/canopy/lib"
	"github.com/canopy-network/canopy/lib/crypto"
	"github.com/canopy-network/canopy/store"
	"verif/node"
)

const (
	RootID   = uint64(1) // the root chain
	NestedID = uint64(2) // a real nested canopy chain
	GhostID  = uint64(3) // a committee without a chain: its certificate results are written and signed by the harness
)

// Opts configures an environment.
type Opts struct {
	Vals       int
	Users      int
	UserFunds  func(i int) uint64
	RootPools  map[uint64]uint64 // extra genesis pools of the root chain (liquidity pools of NestedID / GhostID)
	NestPools  map[uint64]uint64 // genesis pools of the nested chain (liquidity pool of RootID)
	Params     func(p *fsm.Params)
	Tweak      func(c *lib.Config)
	WithNested bool
	// RootOrderBooks are sell orders the root chain starts with (state import): canopy's SetOrderBooks files every order
	// under the chain id of its BOOK and funds that chain's escrow pool; the orders' own Committee field is not validated
	RootOrderBooks *lib.OrderBooks
}

// Env is the pair of chains plus the keys.
type Env struct {
	Opts   Opts
	Root   *node.Chain
	Nested *node.Chain
	Vals   []crypto.PrivateKeyI
	Users  []crypto.PrivateKeyI
	txTime uint64
	cur    *node.Chain
	// GhostHeight is the chain height the next harness-signed certificate of GhostID claims
	GhostHeight uint64
	// ProposerView is the block result the proposer's mempool built for the block of the last step (the path on which
	// failing transactions are executed and dropped); the BlockRecord carries the result of validating the finished block
	ProposerView *lib.BlockResult
}

func params(chain uint64, o Opts) *fsm.Params {
	p := fsm.DefaultParams()
	p.Consensus.RootChainId = RootID
	p.Validator.MinimumOrderSize = 1
	p.Validator.BuyDeadlineBlocks = 4
	p.Validator.NonSignWindow, p.Validator.MaxNonSign = 1000, 1000
	if o.Params != nil {
		o.Params(p)
	}
	return p
}

// New builds the environment.
func New(o Opts) (*Env, error) {
	e := &Env{Opts: o, txTime: 1_700_000_000_000_000, GhostHeight: 1}
	rs := &node.GenesisSpec{ChainID: RootID, Params: params(RootID, o), Accounts: map[string]uint64{}, Pools: map[uint64]uint64{}}
	ns := &node.GenesisSpec{ChainID: NestedID, Params: params(NestedID, o), Accounts: map[string]uint64{}, Pools: map[uint64]uint64{}}
	for i := 0; i < o.Vals; i++ {
		k := node.BLSKey(i)
		e.Vals = append(e.Vals, k)
		gv := node.GenesisVal{Key: k, Stake: 1_000_000 + uint64(i), Committees: []uint64{RootID, NestedID, GhostID}, Compound: true}
		rs.Validators = append(rs.Validators, gv)
		// the nested chain's own validator records only serve its internal lotteries; its committee is read from the root
		gn := gv
		gn.Committees = []uint64{NestedID}
		ns.Validators = append(ns.Validators, gn)
		rs.Accounts[k.PublicKey().Address().String()] = 1_000_000
		ns.Accounts[k.PublicKey().Address().String()] = 1_000_000
	}
	for i := 0; i < o.Users; i++ {
		k := node.EdKey(i)
		e.Users = append(e.Users, k)
		f := uint64(5_000_000_000)
		if o.UserFunds != nil {
			f = o.UserFunds(i)
		}
		rs.Accounts[k.PublicKey().Address().String()] = f
		ns.Accounts[k.PublicKey().Address().String()] = f
	}
	for id, a := range o.RootPools {
		rs.Pools[id] = a
	}
	for id, a := range o.NestPools {
		ns.Pools[id] = a
	}
	store.VerifPurgeProcessCaches()
	var err error
	withBooks := func(i int, no *node.Options) {
		if no.Genesis != nil && o.RootOrderBooks != nil {
			no.Genesis.OrderBooks = o.RootOrderBooks // the genesis state is rendered to genesis.json after this callback
		}
	}
	if e.Root, err = node.NewChain(rs, 1, o.Tweak, withBooks); err != nil {
		return nil, fmt.Errorf("root chain: %v", err)
	}
	if o.WithNested {
		store.VerifPurgeProcessCaches()
		if e.Nested, err = node.NewChain(ns, 1, o.Tweak); err != nil {
			return nil, fmt.Errorf("nested chain: %v", err)
		}
		nn := e.Nested.Nodes[0]
		nn.RCM.SetRoot(e.Root.Nodes[0])
		if er := nn.RCM.Sync(); er != nil {
			return nil, fmt.Errorf("nested sync: %v", er)
		}
		// the chain starts from the root-chain info of the real root
		store.VerifPurgeProcessCaches()
		reset := nn.C.SetFSMInConsensusModeForProposals()
		nn.C.Mempool.FSM.Reset()
		er := nn.C.Mempool.CheckMempool()
		reset()
		if er != nil {
			return nil, fmt.Errorf("nested CheckMempool: %v", er)
		}
	}
	return e, nil
}

// Close closes both chains.
func (e *Env) Close() {
	e.Root.Close()
	if e.Nested != nil {
		e.Nested.Close()
	}
}

func (e *Env) RootNode() *node.Node { return e.Root.Nodes[0] }
func (e *Env) NestNode() *node.Node { return e.Nested.Nodes[0] }

// enter purges canopy's process-wide block cache (keyed by height only) whenever control passes between the chains
func (e *Env) enter(ch *node.Chain) {
	if e.cur != ch {
		store.VerifPurgeProcessCaches()
		e.cur = ch
	}
}

// step drives one block the way a single-validator-node network does: the leader builds the proposal, validates it as
// every replica (the leader included) does in the PROPOSE_VOTE phase, the committee certifies it, and the node commits
// with the cached validation result.
func (e *Env) step(ch *node.Chain, txs [][]byte) (*node.BlockRecord, error) {
	e.enter(ch)
	p, err := ch.Propose(0, txs, nil)
	if err != nil {
		return nil, fmt.Errorf("propose: %v", err)
	}
	e.ProposerView = nil
	if cp, ok := ch.Nodes[0].C.GetProposalBlockFromMempool(); ok && cp != nil && cp.BlockResult != nil && cp.Block != nil &&
		cp.Block.BlockHeader != nil && cp.Block.BlockHeader.Height == p.Block.BlockHeader.Height {
		e.ProposerView = cp.BlockResult
	}
	res, err := ch.Validate(0, p, nil)
	if err != nil {
		return nil, fmt.Errorf("leader rejects its own proposal at height %d: %v", p.Block.BlockHeader.Height, err)
	}
	vs, err := ch.Committee(ch.Nodes[0], p.QC.Header.RootHeight)
	if err != nil {
		return nil, fmt.Errorf("committee: %v", err)
	}
	signers, power, er := ch.Certify(p.QC, vs, nil)
	if er != nil {
		return nil, er
	}
	if power < vs.MinimumMaj23 {
		return nil, fmt.Errorf("signers hold %d < %d", power, vs.MinimumMaj23)
	}
	if err = ch.Deliver(0, p.QC, res, false); err != nil {
		return nil, fmt.Errorf("commit of height %d failed: %v", p.Block.BlockHeader.Height, err)
	}
	rec := &node.BlockRecord{Height: p.Block.BlockHeader.Height, QC: p.QC, BlockHash: p.Block.BlockHeader.Hash, StateRoot: p.Block.BlockHeader.StateRoot, Block: p.Block, Result: res, Signers: signers}
	ch.Records = append(ch.Records, rec)
	return rec, nil
}

// StepRoot commits one root block built from the given transactions.
func (e *Env) StepRoot(txs [][]byte) (*node.BlockRecord, error) { return e.step(e.Root, txs) }

// StepNested commits one nested block; it returns the certificate-result transactions its proposer submitted to the root.
func (e *Env) StepNested(txs [][]byte) (*node.BlockRecord, [][]byte, error) {
	rn := e.RootNode()
	before := len(rn.RCM.Submitted)
	rec, err := e.step(e.Nested, txs)
	sub := append([][]byte(nil), rn.RCM.Submitted[before:]...)
	return rec, sub, err
}

// Sign builds and signs a transaction for the given chain with a deterministic clock.
func (e *Env) Sign(k crypto.PrivateKeyI, msg lib.MessageI, chain, fee, height uint64, memo string) []byte {
	a, err := lib.NewAny(msg)
	if err != nil {
		panic(err)
	}
	e.txTime += 1000
	t := &lib.Transaction{MessageType: msg.Name(), Msg: a, CreatedHeight: height, Time: e.txTime, Fee: fee, Memo: memo, NetworkId: node.NetworkID, ChainId: chain}
	if er := t.Sign(k); er != nil {
		panic(er)
	}
	bz, er := lib.Marshal(t)
	if er != nil {
		panic(er)
	}
	return bz
}

// OrderID is the id canopy gives the order created by a transaction (first 20 bytes of the transaction hash).
func OrderID(tx []byte) []byte { return crypto.Hash(tx)[:20] }

// GhostCert builds a certificate-results transaction of committee GhostID for the root chain, signed by every committee
// member (all keys are harness-held), carrying the given results. Heights: the certificate claims ghost-chain height
// GhostHeight (advanced on each call) and the root height given.
func (e *Env) GhostCert(res *lib.CertificateResult, rootHeight uint64, signers func(i int) bool) ([]byte, error) {
	rn := e.RootNode()
	e.enter(e.Root)
	vs, er := rn.C.FSM.LoadCommittee(GhostID, rootHeight)
	if er != nil {
		return nil, fmt.Errorf("ghost committee: %v", er)
	}
	if res.RewardRecipients == nil {
		res.RewardRecipients = &lib.RewardRecipients{PaymentPercents: []*lib.PaymentPercents{{Address: e.Vals[0].PublicKey().Address().Bytes(), Percent: 100, ChainId: GhostID}}}
	}
	if res.SlashRecipients == nil {
		res.SlashRecipients = new(lib.SlashRecipients)
	}
	e.GhostHeight++
	qc := &lib.QuorumCertificate{
		Header:      &lib.View{NetworkId: node.NetworkID, ChainId: GhostID, Height: e.GhostHeight, RootHeight: rootHeight, Round: 0, Phase: lib.Phase_PRECOMMIT_VOTE},
		BlockHash:   crypto.Hash([]byte(fmt.Sprint("ghost-block", e.GhostHeight))),
		Results:     res,
		ResultsHash: res.Hash(),
		ProposerKey: e.Vals[0].PublicKey().Bytes(),
	}
	mk := vs.MultiKey.Copy()
	sb := qc.SignBytes()
	for i, v := range vs.ValidatorSet.ValidatorSet {
		if signers != nil && !signers(i) {
			continue
		}
		k, ok := e.Root.Keys[lib.BytesToString(v.PublicKey)]
		if !ok {
			continue
		}
		if err := mk.AddSigner(k.Sign(sb), i); err != nil {
			return nil, err
		}
	}
	sig, err := mk.AggregateSignatures()
	if err != nil {
		return nil, err
	}
	qc.Signature = &lib.AggregateSignature{Signature: sig, Bitmap: mk.Bitmap()}
	return e.Sign(e.Vals[0], &fsm.MessageCertificateResults{Qc: qc}, RootID, 0, rn.Height(), ""), nil
}

// Pick returns a user key.
func (e *Env) Pick(rng *rand.Rand) crypto.PrivateKeyI { return e.Users[rng.Intn(len(e.Users))] }

// FailureOf returns the error the node's mempool recorded when it executed and dropped the transaction.
func FailureOf(n *node.Node, tx []byte) (string, bool) {
	if !n.C.IsFailedTx(crypto.HashString(tx)) {
		return "", false
	}
	page, err := n.C.GetFailedTxsPage("", lib.PageParams{PageNumber: 1, PerPage: 5000})
	if err != nil || page == nil {
		return "", true
	}
	if list, ok := page.Results.(*lib.FailedTxs); ok && list != nil {
		h := crypto.HashString(tx)
		for _, f := range *list {
			if f != nil && f.Hash == h && f.Error != nil {
				return f.Error.Error(), true
			}
		}
	}
	return "", true
}
