package c20util

import (
	"bytes"
	"fmt"
	"math/big"
	"sort"
	"strings"

	"github.com/canopy-network/canopy/fsm"
	"github.com/canopy-network/canopy/lib"
)

// DeadAddr is the address canopy credits the initial liquidity points and the rounding dust of deposits to.
var DeadAddr = func() []byte { b, _ := lib.StringToBytes(strings.Repeat("dead", 10)); return b }()

// BlockInput is everything the transition oracle is told about one committed block of one chain. Everything in it is an
// observation: raw scans before / after, the block result canopy produced (transactions with their senders, events in
// execution order) and the counter-chain batches canopy was handed in this block.
type BlockInput struct {
	Self   uint64
	Height uint64
	Prev   *State
	Cur    *State
	Result *lib.BlockResult
	// Remote[c]: the batch of counter chain c handed to canopy's HandleDexBatch in this block (root chain: the DexBatch
	// of the committee's certificate-results transaction; nested chain: the root chain's locked batch)
	Remote map[uint64]*lib.DexBatch
	// LockHints[c][orderId]: buyer receive addresses named by lock instructions the chain processed in this block
	LockHints map[uint64]map[string][][]byte
	// Exempt: accounts whose balance moves for reasons outside the property (committee rewards of validators)
	Exempt map[string]bool
}

// OrderOp is one observed transition of a sell order.
type OrderOp struct {
	Chain uint64
	ID    string
	Op    string // C, E+, E-, E=, L, R, D (deleted: paid to seller), X (closed: paid to buyer)
}

// DexSettle is a locally originated DEX order whose escrow left the holding pool in this block.
type DexSettle struct {
	Chain   uint64
	ID      string
	Amount  uint64
	Bought  uint64 // what the counter chain says it paid (0: refunded)
	Fallbck bool   // refunded by the liveness fallback
}

// DexExec is a counter-chain order this chain executed (receipt produced).
type DexExec struct {
	Chain   uint64
	ID      string
	Addr    string
	Sold    uint64
	Receipt uint64
}

// Report is what the oracle found.
type Report struct {
	Problems []Problem
	Stats    map[string]int
	Ops      []OrderOp
	Settled  []DexSettle
	Executed []DexExec
	Shapes   []string // one line per processed counter-chain batch: its shape and outcome pattern
}

func (r *Report) bad(kind, format string, a ...any) {
	r.Problems = append(r.Problems, Problem{kind, fmt.Sprintf(format, a...)})
}

type ledger map[string]*big.Int

func (l ledger) add(addr []byte, v *big.Int) {
	k := string(addr)
	if l[k] == nil {
		l[k] = new(big.Int)
	}
	l[k].Add(l[k], v)
}
func (l ledger) sub(addr []byte, v *big.Int) { l.add(addr, new(big.Int).Neg(v)) }

func isqrt(x *big.Int) *big.Int { return new(big.Int).Sqrt(x) }

func batchNonEmpty(b *lib.DexBatch) bool { return b != nil && !b.IsEmpty() }

func cloneBatch(b *lib.DexBatch) *lib.DexBatch {
	if b == nil {
		return nil
	}
	bz, _ := lib.Marshal(b)
	out := new(lib.DexBatch)
	_ = lib.Unmarshal(bz, out)
	return out
}

func sameBatch(a, b *lib.DexBatch) bool {
	if a == nil || b == nil {
		return a == b
	}
	x, _ := lib.Marshal(a)
	y, _ := lib.Marshal(b)
	return bytes.Equal(x, y)
}

// BatchHash is the hash canopy links receipts to a batch with (computed on a copy: DexBatch.Hash mutates empty batches).
func BatchHash(b *lib.DexBatch) []byte {
	c := cloneBatch(b)
	if c == nil {
		return (*lib.DexBatch)(nil).Hash()
	}
	c.LivenessFallback = false
	return c.Hash()
}

// CheckBlock is the transition oracle.
func CheckBlock(in *BlockInput) *Report {
	rep := &Report{Stats: map[string]int{}}
	exp := ledger{} // expected balance change per account
	roles := map[string]string{}
	role := func(addr []byte, r string, prio bool) {
		if _, ok := roles[string(addr)]; !ok || prio {
			roles[string(addr)] = r
		}
	}
	holdIn := map[uint64]*big.Int{} // what this block's transactions put into the holding pools
	unknownKind := false
	// 1. transactions: every included transaction succeeded (failed ones are not part of a block)
	for _, tr := range in.Result.Transactions {
		if tr == nil || tr.Transaction == nil {
			continue
		}
		exp.sub(tr.Sender, u(tr.Transaction.Fee))
		role(tr.Sender, "tx-sender", false)
		m, err := lib.FromAny(tr.Transaction.Msg)
		if err != nil {
			unknownKind = true
			continue
		}
		switch x := m.(type) {
		case *fsm.MessageSend:
			exp.sub(x.FromAddress, u(x.Amount))
			exp.add(x.ToAddress, u(x.Amount))
			role(x.ToAddress, "send-recipient", false)
		case *fsm.MessageCreateOrder, *fsm.MessageEditOrder, *fsm.MessageDeleteOrder, *fsm.MessageDexLiquidityWithdraw, *fsm.MessageCertificateResults:
			// their effect on balances is derived from the order book / batch records below
		case *fsm.MessageDexLimitOrder:
			exp.sub(x.Address, u(x.AmountForSale))
			if holdIn[x.ChainId] == nil {
				holdIn[x.ChainId] = new(big.Int)
			}
			holdIn[x.ChainId].Add(holdIn[x.ChainId], u(x.AmountForSale))
			rep.Stats["dex_limit_orders_included"]++
		case *fsm.MessageDexLiquidityDeposit:
			exp.sub(x.Address, u(x.Amount))
			if holdIn[x.ChainId] == nil {
				holdIn[x.ChainId] = new(big.Int)
			}
			holdIn[x.ChainId].Add(holdIn[x.ChainId], u(x.Amount))
			rep.Stats["dex_deposits_included"]++
		default:
			unknownKind = true
		}
	}
	// 2. sell orders: differences of the raw order books
	type vanished struct {
		chain uint64
		o     *lib.SellOrder
		cands [][]byte
	}
	var gone []vanished
	chains := map[uint64]bool{}
	for c := range in.Prev.Orders {
		chains[c] = true
	}
	for c := range in.Cur.Orders {
		chains[c] = true
	}
	cids := make([]uint64, 0, len(chains))
	for c := range chains {
		cids = append(cids, c)
	}
	sort.Slice(cids, func(i, j int) bool { return cids[i] < cids[j] })
	for _, c := range cids {
		ids := map[string]bool{}
		for id := range in.Prev.Orders[c] {
			ids[id] = true
		}
		for id := range in.Cur.Orders[c] {
			ids[id] = true
		}
		sorted := make([]string, 0, len(ids))
		for id := range ids {
			sorted = append(sorted, id)
		}
		sort.Strings(sorted)
		for _, id := range sorted {
			p, q := in.Prev.Orders[c][id], in.Cur.Orders[c][id]
			switch {
			case p == nil:
				exp.sub(q.SellersSendAddress, u(q.AmountForSale))
				role(q.SellersSendAddress, "seller-of-new-order", true)
				rep.Ops = append(rep.Ops, OrderOp{c, id, "C"})
				if len(q.BuyerReceiveAddress) != 0 {
					rep.Ops = append(rep.Ops, OrderOp{c, id, "L"})
				}
			case q == nil:
				v := vanished{chain: c, o: p, cands: [][]byte{p.SellersSendAddress}}
				if len(p.BuyerReceiveAddress) != 0 {
					v.cands = append(v.cands, p.BuyerReceiveAddress)
				}
				for _, a := range in.LockHints[c][id] {
					v.cands = append(v.cands, a)
				}
				gone = append(gone, v)
			default:
				if !bytes.Equal(p.SellersSendAddress, q.SellersSendAddress) {
					rep.bad("order-seller-changed", "chain=%d order=%x seller %x -> %x", c, id, p.SellersSendAddress, q.SellersSendAddress)
				}
				switch {
				case q.AmountForSale > p.AmountForSale:
					exp.sub(q.SellersSendAddress, u(q.AmountForSale-p.AmountForSale))
					role(q.SellersSendAddress, "seller-of-edited-order", true)
					rep.Ops = append(rep.Ops, OrderOp{c, id, "E+"})
				case q.AmountForSale < p.AmountForSale:
					exp.add(q.SellersSendAddress, u(p.AmountForSale-q.AmountForSale))
					role(q.SellersSendAddress, "seller-of-edited-order", true)
					rep.Ops = append(rep.Ops, OrderOp{c, id, "E-"})
				case q.RequestedAmount != p.RequestedAmount || !bytes.Equal(q.SellerReceiveAddress, p.SellerReceiveAddress) || !bytes.Equal(q.Data, p.Data):
					rep.Ops = append(rep.Ops, OrderOp{c, id, "E="})
				}
				pl, ql := len(p.BuyerReceiveAddress) != 0, len(q.BuyerReceiveAddress) != 0
				switch {
				case !pl && ql:
					rep.Ops = append(rep.Ops, OrderOp{c, id, "L"})
				case pl && !ql:
					rep.Ops = append(rep.Ops, OrderOp{c, id, "R"})
				case pl && ql && !bytes.Equal(p.BuyerReceiveAddress, q.BuyerReceiveAddress):
					rep.Ops = append(rep.Ops, OrderOp{c, id, "R"}, OrderOp{c, id, "L"})
				}
			}
		}
	}
	// 3. DEX: replay canopy's own event trace over the scanned records
	dexChains := map[uint64]bool{}
	for c := range in.Remote {
		dexChains[c] = true
	}
	for c := range in.Prev.Locked {
		dexChains[c] = true
	}
	for c := range in.Cur.Locked {
		dexChains[c] = true
	}
	for c := range in.Prev.Next {
		dexChains[c] = true
	}
	for c := range in.Cur.Next {
		dexChains[c] = true
	}
	for c := range holdIn {
		dexChains[c] = true
	}
	for id := range in.Prev.Pools {
		if id > fsm.LiquidityPoolAddend && id <= fsm.LiquidityPoolAddend+fsm.MaxChainId {
			dexChains[id-fsm.LiquidityPoolAddend] = true
		}
	}
	for _, ev := range in.Result.Events {
		switch ev.Msg.(type) {
		case *lib.Event_DexSwap, *lib.Event_DexLiquidityDeposit, *lib.Event_DexLiquidityWithdrawal:
			dexChains[ev.ChainId] = true
		}
	}
	dcs := make([]uint64, 0, len(dexChains))
	for c := range dexChains {
		dcs = append(dcs, c)
	}
	sort.Slice(dcs, func(i, j int) bool { return dcs[i] < dcs[j] })
	for _, c := range dcs {
		replayDex(in, c, exp, holdIn[c], rep, role)
	}
	// 4. balances: every account's change is explained exactly; a vanished order pays exactly its amount to exactly one of
	// its seller / buyer
	res := map[string]*big.Int{}
	addrs := map[string]bool{}
	for a := range in.Prev.Accounts {
		addrs[a] = true
	}
	for a := range in.Cur.Accounts {
		addrs[a] = true
	}
	for a := range exp {
		addrs[a] = true
	}
	for a := range addrs {
		if in.Exempt[a] {
			continue
		}
		d := new(big.Int).Sub(u(in.Cur.Accounts[a]), u(in.Prev.Accounts[a]))
		if e := exp[a]; e != nil {
			d.Sub(d, e)
		}
		if d.Sign() != 0 {
			res[a] = d
		}
	}
	rep.Stats["accounts_attributed"] += len(addrs)
	if unknownKind {
		rep.bad("harness-unknown-transaction-kind", "the block holds a transaction kind the ledger oracle has no rule for")
		return rep
	}
	assign := make([]int, len(gone))
	var search func(i int) bool
	search = func(i int) bool {
		if i == len(gone) {
			for _, d := range res {
				if d.Sign() != 0 {
					return false
				}
			}
			return true
		}
		amt := u(gone[i].o.AmountForSale)
		tried := map[string]bool{}
		for ci, cand := range gone[i].cands {
			k := string(cand)
			if tried[k] {
				continue
			}
			tried[k] = true
			if in.Exempt[k] {
				// cannot be verified: accept
				assign[i] = ci
				if search(i + 1) {
					return true
				}
				continue
			}
			d := res[k]
			if d == nil || d.Cmp(amt) < 0 {
				continue
			}
			d.Sub(d, amt)
			assign[i] = ci
			ok := search(i + 1)
			if ok {
				return true
			}
			d.Add(d, amt)
		}
		return false
	}
	if len(gone) <= 14 && search(0) {
		for i, v := range gone {
			op := "D"
			if assign[i] > 0 && !bytes.Equal(v.cands[assign[i]], v.o.SellersSendAddress) {
				op = "X"
			}
			rep.Ops = append(rep.Ops, OrderOp{v.chain, string(v.o.Id), op})
			rep.Stats["order_payouts_attributed"]++
		}
	} else {
		// no consistent attribution: name what does not add up
		candOf := map[string]*lib.SellOrder{}
		for _, v := range gone {
			for _, c := range v.cands {
				candOf[string(c)] = v.o
			}
			rep.Ops = append(rep.Ops, OrderOp{v.chain, string(v.o.Id), "?"})
		}
		keys := make([]string, 0, len(res))
		for a := range res {
			keys = append(keys, a)
		}
		sort.Strings(keys)
		for _, a := range keys {
			d := res[a]
			if d.Sign() == 0 {
				continue
			}
			if o := candOf[a]; o != nil {
				times := "other"
				amt := u(o.AmountForSale)
				if amt.Sign() > 0 && new(big.Int).Mod(d, amt).Sign() == 0 {
					times = new(big.Int).Div(d, amt).String() + "x"
				}
				rep.bad("order-payout-not-exactly-once", "account=%x (seller or buyer of vanished order %x, escrowed %d) unexplained change %s (= %s the escrowed amount) vanished_orders=%d", a, o.Id, o.AmountForSale, d, times, len(gone))
			} else {
				rep.bad("balance-change-unexplained role="+roleOf(roles, a), "account=%x unexplained change %s", a, d)
			}
		}
		// a vanished order none of whose candidates got anything
		for _, v := range gone {
			paid := false
			for _, c := range v.cands {
				if d := res[string(c)]; d != nil && d.Sign() > 0 || in.Exempt[string(c)] {
					paid = true
				}
			}
			if !paid {
				rep.bad("order-payout-not-exactly-once", "order %x (chain %d, escrowed %d) vanished and neither seller nor buyer was credited", v.o.Id, v.chain, v.o.AmountForSale)
			}
		}
	}
	return rep
}

func roleOf(roles map[string]string, a string) string {
	if r, ok := roles[a]; ok {
		return r
	}
	return "bystander"
}

// replayDex replays the DEX events of one block for counter chain c.
func replayDex(in *BlockInput, c uint64, exp ledger, holdIn *big.Int, rep *Report, role func([]byte, string, bool)) {
	prevPool, curPool := in.Prev.Pools[c+fsm.LiquidityPoolAddend], in.Cur.Pools[c+fsm.LiquidityPoolAddend]
	liq := u(in.Prev.PoolAmount(c + fsm.LiquidityPoolAddend))
	hold := u(in.Prev.PoolAmount(c + fsm.HoldingPoolAddend))
	if holdIn != nil {
		hold.Add(hold, holdIn)
	}
	pts := map[string]*big.Int{}
	T := new(big.Int)
	if prevPool != nil {
		for _, p := range prevPool.Points {
			if pts[string(p.Address)] == nil {
				pts[string(p.Address)] = new(big.Int)
			}
			pts[string(p.Address)].Add(pts[string(p.Address)], u(p.Points))
		}
		T.SetUint64(prevPool.TotalPoolPoints)
	}
	getPts := func(a []byte) *big.Int {
		if pts[string(a)] == nil {
			pts[string(a)] = new(big.Int)
		}
		return pts[string(a)]
	}
	L := in.Prev.Locked[c]
	R := in.Remote[c]
	var mirror *big.Int
	if R != nil {
		mirror = u(R.PoolSize)
	}
	var evs []*lib.Event
	for _, ev := range in.Result.Events {
		if ev.ChainId != c {
			continue
		}
		switch ev.Msg.(type) {
		case *lib.Event_DexSwap, *lib.Event_DexLiquidityDeposit, *lib.Event_DexLiquidityWithdrawal:
			evs = append(evs, ev)
		}
	}
	prevLockedNonEmpty := batchNonEmpty(L)
	consumed := prevLockedNonEmpty && !sameBatch(L, in.Cur.Locked[c])
	fallback := false
	// liveness fallback (nested chain): refunds without events, points mirrored from the root
	if R != nil && R.LivenessFallback && liq.Sign() != 0 {
		fallback = true
		rep.Stats["liveness_fallbacks"]++
		if L != nil {
			for _, o := range L.Orders {
				exp.add(o.Address, u(o.AmountForSale))
				hold.Sub(hold, u(o.AmountForSale))
				role(o.Address, "dex-order-owner", false)
				rep.Settled = append(rep.Settled, DexSettle{c, string(o.OrderId), o.AmountForSale, 0, true})
			}
			for _, d := range L.Deposits {
				exp.add(d.Address, u(d.Amount))
				hold.Sub(hold, u(d.Amount))
				role(d.Address, "lp-depositor", false)
			}
		}
		pts = map[string]*big.Int{}
		for _, p := range R.PoolPoints {
			getPts(p.Address).Add(getPts(p.Address), u(p.Points))
		}
		T.SetUint64(R.TotalPoolPoints)
		L = nil
	}
	if len(evs) == 0 && !consumed && !fallback {
		// nothing claimed: the pools may only move through this block's transactions
		finishDex(in, c, liq, hold, pts, T, curPool, rep, false)
		return
	}
	lOrders, lW, lD := []*lib.DexLimitOrder{}, map[string]*lib.DexLiquidityWithdraw{}, map[string]*lib.DexLiquidityDeposit{}
	if L != nil {
		lOrders = L.Orders
		for _, w := range L.Withdrawals {
			lW[string(w.OrderId)] = w
		}
		for _, d := range L.Deposits {
			lD[string(d.OrderId)] = d
		}
	}
	idxLocal := 0
	type group struct {
		active   bool
		local    bool
		D, M, T0 *big.Int
		x0, y0   *big.Int
	}
	var g group
	closeGroup := func() {
		if !g.active {
			return
		}
		g.active = false
		kb := isqrt(new(big.Int).Mul(g.x0, g.y0))
		ka := isqrt(new(big.Int).Mul(new(big.Int).Add(g.x0, g.D), g.y0))
		ref := new(big.Int)
		if kb.Sign() > 0 && ka.Cmp(kb) >= 0 {
			ref.Mul(g.T0, new(big.Int).Sub(ka, kb))
			ref.Div(ref, kb)
		}
		rep.Stats["deposit_batches_checked"]++
		if g.M.Cmp(ref) > 0 {
			rep.bad("lp-points-minted-above-reference", "chain=%d local=%v deposited=%s into reserve=%s counter=%s with %s points outstanding: minted %s > reference %s", c, g.local, g.D, g.x0, g.y0, g.T0, g.M, ref)
			return
		}
		dust := new(big.Int).Sub(ref, g.M)
		getPts(DeadAddr).Add(getPts(DeadAddr), dust)
		T.Add(T, dust)
	}
	var execs []DexExec
	swapsOK := 0
	for _, ev := range evs {
		switch m := ev.Msg.(type) {
		case *lib.Event_DexSwap:
			closeGroup()
			s := m.DexSwap
			if s.LocalOrigin {
				role(ev.Address, "dex-order-owner", false)
				if R == nil || mirror == nil {
					rep.bad("dex-trace-without-remote-batch", "chain=%d a locked order was settled although no counter-chain batch was delivered in this block", c)
					continue
				}
				if idxLocal >= len(lOrders) {
					rep.bad("dex-order-settled-twice", "chain=%d more settlements than orders in the locked batch (%d): order=%x", c, len(lOrders), s.OrderId)
					continue
				}
				o := lOrders[idxLocal]
				if !bytes.Equal(o.Address, ev.Address) || o.AmountForSale != s.SoldAmount || !bytes.Equal(o.OrderId, s.OrderId) {
					rep.bad("dex-receipt-mismatch", "chain=%d settlement %d names order %x/%d, the locked batch holds %x/%d", c, idxLocal, s.OrderId, s.SoldAmount, o.OrderId, o.AmountForSale)
				}
				if idxLocal >= len(R.Receipts) || R.Receipts[idxLocal] != s.BoughtAmount || s.Success != (s.BoughtAmount != 0) {
					rep.bad("dex-receipt-mismatch", "chain=%d settlement %d of order %x uses receipt %d success=%v, the counter-chain batch says %v", c, idxLocal, s.OrderId, s.BoughtAmount, s.Success, R.Receipts)
				}
				idxLocal++
				hold.Sub(hold, u(s.SoldAmount))
				if s.Success {
					liq.Add(liq, u(s.SoldAmount))
					mirror.Sub(mirror, u(s.BoughtAmount))
				} else {
					exp.add(ev.Address, u(s.SoldAmount))
					rep.Stats["dex_orders_refunded"]++
				}
				rep.Settled = append(rep.Settled, DexSettle{c, string(s.OrderId), s.SoldAmount, s.BoughtAmount, false})
				continue
			}
			// an order of the counter chain executed against the local reserve: x = counter reserve, y = local reserve
			role(ev.Address, "dex-swap-recipient", false)
			rep.Stats["swaps_checked"]++
			if mirror == nil {
				rep.bad("dex-trace-without-remote-batch", "chain=%d a swap executed although no counter-chain batch was delivered in this block", c)
				continue
			}
			dx, dy := u(s.SoldAmount), u(s.BoughtAmount)
			if s.Success {
				swapsOK++
				if dy.Cmp(liq) > 0 {
					rep.bad("swap-pays-more-than-reserve", "chain=%d x=%s y=%s dx=%s dy=%s", c, mirror, liq, dx, dy)
				}
				before := new(big.Int).Mul(mirror, liq)
				after := new(big.Int).Mul(new(big.Int).Add(mirror, dx), new(big.Int).Sub(liq, dy))
				if after.Cmp(before) < 0 {
					rep.bad("swap-lowers-product", "chain=%d x=%s y=%s dx=%s dy=%s product %s -> %s", c, mirror, liq, dx, dy, before, after)
				}
				mirror.Add(mirror, dx)
				liq.Sub(liq, dy)
				exp.add(ev.Address, dy)
				rep.Stats["swaps_succeeded"]++
			}
			execs = append(execs, DexExec{Chain: c, Sold: s.SoldAmount, Receipt: s.BoughtAmount, Addr: string(ev.Address)})
		case *lib.Event_DexLiquidityWithdrawal:
			closeGroup()
			w := m.DexLiquidityWithdrawal
			role(ev.Address, "lp-withdrawer", false)
			rep.Stats["withdrawals_checked"]++
			held := getPts(ev.Address)
			burned, local := u(w.PointsBurned), u(w.LocalAmount)
			if burned.Cmp(held) > 0 {
				rep.bad("withdraw-burns-more-points-than-held", "chain=%d holder=%x holds %s burns %s", c, ev.Address, held, burned)
			}
			share := new(big.Int)
			if T.Sign() > 0 {
				share.Mul(liq, burned)
				share.Div(share, T)
			}
			if local.Cmp(share) > 0 {
				rep.bad("withdraw-exceeds-share", "chain=%d holder=%x burns %s of %s points, reserve %s: share %s, paid %s", c, ev.Address, burned, T, liq, share, local)
			}
			if _, isLocal := lW[string(w.OrderId)]; !isLocal && R != nil {
				found := false
				for _, rw := range R.Withdrawals {
					if bytes.Equal(rw.OrderId, w.OrderId) && bytes.Equal(rw.Address, ev.Address) {
						found = true
					}
				}
				if !found {
					rep.bad("withdraw-without-request", "chain=%d holder=%x order=%x is in neither batch", c, ev.Address, w.OrderId)
				}
			}
			exp.add(ev.Address, local)
			liq.Sub(liq, local)
			held.Sub(held, burned)
			T.Sub(T, burned)
			if mirror != nil {
				mirror.Sub(mirror, u(w.RemoteAmount))
			}
		case *lib.Event_DexLiquidityDeposit:
			d := m.DexLiquidityDeposit
			role(ev.Address, "lp-depositor", false)
			rep.Stats["deposits_checked"]++
			if g.active && g.local != d.LocalOrigin {
				closeGroup()
			}
			if !g.active {
				x0, y0 := new(big.Int).Set(liq), new(big.Int)
				if mirror != nil {
					y0.Set(mirror)
				}
				if !d.LocalOrigin {
					x0, y0 = y0, x0
				}
				if T.Sign() == 0 {
					// the first deposit initialises the pool: sqrt(x*y) points to the dead address
					k := isqrt(new(big.Int).Mul(x0, y0))
					getPts(DeadAddr).Add(getPts(DeadAddr), k)
					T.Add(T, k)
				}
				g = group{active: true, local: d.LocalOrigin, D: new(big.Int), M: new(big.Int), T0: new(big.Int).Set(T), x0: x0, y0: y0}
			}
			if d.LocalOrigin {
				if _, ok := lD[string(d.OrderId)]; !ok {
					rep.bad("deposit-without-request", "chain=%d depositor=%x order=%x is not in the locked batch", c, ev.Address, d.OrderId)
				}
				hold.Sub(hold, u(d.Amount))
				liq.Add(liq, u(d.Amount))
			} else if mirror != nil {
				mirror.Add(mirror, u(d.Amount))
			}
			getPts(ev.Address).Add(getPts(ev.Address), u(d.Points))
			T.Add(T, u(d.Points))
			g.D.Add(g.D, u(d.Amount))
			g.M.Add(g.M, u(d.Points))
		}
	}
	closeGroup()
	// the locked batch may only be consumed by receipts made for exactly it, and then completely
	if consumed && !fallback {
		rep.Stats["locked_batches_consumed"]++
		switch {
		case R == nil:
			rep.bad("locked-batch-consumed-without-matching-receipts", "chain=%d the locked batch changed although no counter-chain batch was delivered", c)
		case !bytes.Equal(R.ReceiptHash, BatchHash(L)) || len(R.Receipts) != len(lOrders):
			rep.bad("locked-batch-consumed-without-matching-receipts", "chain=%d locked batch hash %x orders=%d, delivered receipts are for %x (%d receipts)", c, BatchHash(L), len(lOrders), R.ReceiptHash, len(R.Receipts))
		case idxLocal != len(lOrders):
			rep.bad("locked-batch-order-not-settled", "chain=%d locked batch had %d orders, %d were settled", c, len(lOrders), idxLocal)
		}
	} else if idxLocal != 0 {
		rep.bad("dex-order-settled-twice", "chain=%d %d orders were settled although the locked batch was not consumed", c, idxLocal)
	}
	// receipts recorded for the counter chain must be exactly what was paid
	cl := in.Cur.Locked[c]
	rotated := batchNonEmpty(cl) && cl.LockedHeight == in.Height && R != nil && bytes.Equal(cl.ReceiptHash, BatchHash(R))
	switch {
	case len(execs) > 0 && !rotated:
		// the counter chain's orders were executed: the batch locked now must tell the counter chain what was paid
		if swapsOK > 0 {
			rep.bad("swap-paid-without-receipt", "chain=%d %d swaps paid out but the batch locked at this height does not carry receipts for the counter batch", c, swapsOK)
		}
	case len(execs) > 0:
		rep.Stats["rotations_with_receipts"]++
		if len(cl.Receipts) != len(R.Orders) {
			rep.bad("dex-receipt-mismatch", "chain=%d %d receipts recorded for %d counter-chain orders", c, len(cl.Receipts), len(R.Orders))
			break
		}
		want := map[string]int{}
		for i, o := range R.Orders {
			r := cl.Receipts[i]
			rep.Executed = append(rep.Executed, DexExec{Chain: c, ID: string(o.OrderId), Addr: string(o.Address), Sold: o.AmountForSale, Receipt: r})
			if r != 0 {
				want[fmt.Sprintf("%x/%d/%d", o.Address, o.AmountForSale, r)]++
			}
		}
		for _, e := range execs {
			if e.Receipt != 0 {
				want[fmt.Sprintf("%x/%d/%d", e.Addr, e.Sold, e.Receipt)]--
			}
		}
		for k, n := range want {
			if n != 0 {
				rep.bad("dex-receipt-mismatch", "chain=%d receipt and payout disagree for (address/sold/bought) %s: recorded-minus-paid=%d", c, k, n)
			}
		}
	case rotated:
		// nothing was executed in this block: receipts may only be carried over from the batch that was locked before
		pl := in.Prev.Locked[c]
		carried := pl != nil && bytes.Equal(pl.ReceiptHash, cl.ReceiptHash) && fmt.Sprint(pl.Receipts) == fmt.Sprint(cl.Receipts)
		for _, r := range cl.Receipts {
			if r != 0 && !carried {
				rep.bad("receipt-without-payout", "chain=%d the batch locked at this height claims receipts %v for the counter batch but no swap was paid in this block", c, cl.Receipts)
				break
			}
		}
	}
	if R != nil && (len(evs) > 0 || consumed) {
		shape := fmt.Sprintf("self=%d counter=%d L{o=%d w=%d d=%d} R{o=%d w=%d d=%d} settled=%d swaps_ok=%d/%d fallback=%v", in.Self, c, len(lOrders), len(lW), len(lD), len(R.Orders), len(R.Withdrawals), len(R.Deposits), idxLocal, swapsOK, len(execs), fallback)
		rep.Shapes = append(rep.Shapes, shape)
	} else if fallback {
		rep.Shapes = append(rep.Shapes, fmt.Sprintf("self=%d counter=%d fallback-only", in.Self, c))
	}
	finishDex(in, c, liq, hold, pts, T, curPool, rep, true)
}

// finishDex compares the replayed pools and points with the scanned state after the block.
func finishDex(in *BlockInput, c uint64, liq, hold *big.Int, pts map[string]*big.Int, T *big.Int, curPool *fsm.Pool, rep *Report, traced bool) {
	if got := u(in.Cur.PoolAmount(c + fsm.LiquidityPoolAddend)); got.Cmp(liq) != 0 {
		rep.bad("liquidity-pool-differs-from-trace", "chain=%d pool=%s, previous amount and this block's claimed swaps/deposits/withdrawals give %s (traced=%v)", c, got, liq, traced)
	}
	if got := u(in.Cur.PoolAmount(c + fsm.HoldingPoolAddend)); got.Cmp(hold) != 0 {
		rep.bad("holding-pool-differs-from-trace", "chain=%d pool=%s, previous amount, this block's orders/deposits and claimed settlements give %s (traced=%v)", c, got, hold, traced)
	}
	cur := map[string]*big.Int{}
	curT := new(big.Int)
	if curPool != nil {
		for _, p := range curPool.Points {
			if cur[string(p.Address)] == nil {
				cur[string(p.Address)] = new(big.Int)
			}
			cur[string(p.Address)].Add(cur[string(p.Address)], u(p.Points))
		}
		curT.SetUint64(curPool.TotalPoolPoints)
	}
	keys := map[string]bool{}
	for a := range cur {
		keys[a] = true
	}
	for a := range pts {
		keys[a] = true
	}
	for a := range keys {
		g, w := cur[a], pts[a]
		if g == nil {
			g = new(big.Int)
		}
		if w == nil {
			w = new(big.Int)
		}
		if g.Cmp(w) == 0 {
			continue
		}
		if a == string(DeadAddr) {
			if g.Cmp(w) > 0 {
				rep.bad("lp-points-minted-above-reference", "chain=%d dead-address points %s > reference %s", c, g, w)
			} else {
				rep.Stats["dead_points_below_reference"]++
			}
			continue
		}
		rep.bad("lp-points-differ-from-trace", "chain=%d holder=%x has %s points, previous points and this block's claimed deposits/withdrawals give %s", c, a, g, w)
	}
	if curT.Cmp(T) > 0 {
		rep.bad("lp-points-minted-above-reference", "chain=%d total points %s > reference %s", c, curT, T)
	}
	rep.Stats["dex_pool_states_compared"]++
}

// CompareProposerView compares the block result the proposer's mempool built (the path on which failing transactions
// are executed and dropped) with the result of validating the finished block: the same transactions in the same order and
// the same events. An event that only the proposer's result holds was emitted by a transaction that is not part of the
// block: it leaked out of a failed transaction.
func CompareProposerView(proposer, validated *lib.BlockResult) (out []Problem) {
	if proposer == nil || validated == nil {
		return nil
	}
	if len(proposer.Transactions) != len(validated.Transactions) {
		out = append(out, Problem{"proposer-result-differs-from-validated-block what=transactions", fmt.Sprintf("proposer built %d transaction results, validation %d", len(proposer.Transactions), len(validated.Transactions))})
	} else {
		for i := range proposer.Transactions {
			if proposer.Transactions[i].TxHash != validated.Transactions[i].TxHash {
				out = append(out, Problem{"proposer-result-differs-from-validated-block what=transactions", fmt.Sprintf("transaction %d: %s vs %s", i, proposer.Transactions[i].TxHash, validated.Transactions[i].TxHash)})
				break
			}
		}
	}
	render := func(ev *lib.Event) string {
		bz, _ := lib.MarshalJSON(ev)
		return string(bz)
	}
	count := map[string]int{}
	for _, ev := range proposer.Events {
		count[render(ev)]++
	}
	for _, ev := range validated.Events {
		count[render(ev)]--
	}
	var extra, missing []string
	for k, n := range count {
		if n > 0 {
			extra = append(extra, k)
		} else if n < 0 {
			missing = append(missing, k)
		}
	}
	sort.Strings(extra)
	sort.Strings(missing)
	if len(extra)+len(missing) > 0 {
		kinds := map[string]bool{}
		for _, ev := range proposer.Events {
			if count[render(ev)] > 0 {
				kinds[ev.EventType] = true
			}
		}
		ks := make([]string, 0, len(kinds))
		for k := range kinds {
			ks = append(ks, k)
		}
		sort.Strings(ks)
		if len(extra) > 6 {
			extra = extra[:6]
		}
		if len(missing) > 6 {
			missing = missing[:6]
		}
		out = append(out, Problem{"proposer-result-differs-from-validated-block what=events", fmt.Sprintf("events only in the proposer's result (types %v): %v; events only in the validated result: %v", ks, extra, missing)})
	} else if len(proposer.Events) == len(validated.Events) {
		for i := range proposer.Events {
			if render(proposer.Events[i]) != render(validated.Events[i]) {
				out = append(out, Problem{"proposer-result-differs-from-validated-block what=event-order", fmt.Sprintf("event %d differs: %s vs %s", i, render(proposer.Events[i]), render(validated.Events[i]))})
				break
			}
		}
	}
	return
}

// BookEvents checks canopy's order-book events of one block against the scanned order books: a swap event names an order
// that is gone afterwards, a lock event an order that is locked for that buyer afterwards (or gone, or reset later in the
// block), a reset event an order that is unlocked afterwards (or gone, or locked again later in the block).
func BookEvents(in *BlockInput) (out []Problem, n int) {
	find := func(st *State, id []byte) *lib.SellOrder {
		for _, m := range st.Orders {
			if o := m[string(id)]; o != nil {
				return o
			}
		}
		return nil
	}
	later := func(from int, id []byte, lock bool) bool {
		for _, ev := range in.Result.Events[from+1:] {
			switch m := ev.Msg.(type) {
			case *lib.Event_OrderBookLock:
				if lock && bytes.Equal(m.OrderBookLock.OrderId, id) {
					return true
				}
			case *lib.Event_OrderBookReset:
				if !lock && bytes.Equal(m.OrderBookReset.OrderId, id) {
					return true
				}
			}
		}
		return false
	}
	for i, ev := range in.Result.Events {
		switch m := ev.Msg.(type) {
		case *lib.Event_OrderBookSwap:
			n++
			if o := find(in.Cur, m.OrderBookSwap.OrderId); o != nil {
				out = append(out, Problem{"order-event-contradicts-order-book event=swap", fmt.Sprintf("order %x is reported closed (sold %d) but is still in the book", m.OrderBookSwap.OrderId, m.OrderBookSwap.SoldAmount)})
			}
		case *lib.Event_OrderBookLock:
			n++
			o := find(in.Cur, m.OrderBookLock.OrderId)
			if o != nil && !bytes.Equal(o.BuyerReceiveAddress, m.OrderBookLock.BuyerReceiveAddress) && !later(i, m.OrderBookLock.OrderId, false) {
				out = append(out, Problem{"order-event-contradicts-order-book event=lock", fmt.Sprintf("order %x is reported locked for %x but the book says buyer=%x", m.OrderBookLock.OrderId, m.OrderBookLock.BuyerReceiveAddress, o.BuyerReceiveAddress)})
			}
		case *lib.Event_OrderBookReset:
			n++
			o := find(in.Cur, m.OrderBookReset.OrderId)
			if o != nil && len(o.BuyerReceiveAddress) != 0 && !later(i, m.OrderBookReset.OrderId, true) {
				out = append(out, Problem{"order-event-contradicts-order-book event=reset", fmt.Sprintf("order %x is reported reset but the book says buyer=%x", m.OrderBookReset.OrderId, o.BuyerReceiveAddress)})
			}
		}
	}
	return
}
