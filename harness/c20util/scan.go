package c20util

import (
	"encoding/binary"
	"fmt"
	"math/big"

	"github.com/canopy-network/canopy/fsm"
	"github.com/canopy-network/canopy/lib"
	"verif/refs"
)

// State is a raw scan of the records the property talks about (no fsm getter is used: prefixes are iterated and the
// values decoded directly).
type State struct {
	Accounts map[string]uint64                    // address bytes -> balance (prefix 1)
	Pools    map[uint64]*fsm.Pool                 // pool id -> record (prefix 2)
	Orders   map[uint64]map[string]*lib.SellOrder // chain id -> order id -> sell order (prefix 13)
	Locked   map[uint64]*lib.DexBatch             // chain id -> locked batch (prefix 15 segment 1)
	Next     map[uint64]*lib.DexBatch             // chain id -> next batch (prefix 15 segment 2)
	Stakes   map[string]uint64
	Supply   *fsm.Supply
}

// Scan reads a state view.
func Scan(st lib.RStoreI) (*State, error) {
	s := &State{Accounts: map[string]uint64{}, Pools: map[uint64]*fsm.Pool{}, Orders: map[uint64]map[string]*lib.SellOrder{},
		Locked: map[uint64]*lib.DexBatch{}, Next: map[uint64]*lib.DexBatch{}, Stakes: map[string]uint64{}}
	each := func(prefix byte, fn func(k, v []byte) error) error {
		it, err := st.Iterator(lib.JoinLenPrefix([]byte{prefix}))
		if err != nil {
			return err
		}
		defer it.Close()
		for ; it.Valid(); it.Next() {
			if e := fn(it.Key(), it.Value()); e != nil {
				return e
			}
		}
		return nil
	}
	if err := each(1, func(k, v []byte) error {
		a := new(fsm.Account)
		if e := lib.Unmarshal(v, a); e != nil {
			return e
		}
		s.Accounts[string(a.Address)] = a.Amount
		return nil
	}); err != nil {
		return nil, err
	}
	if err := each(2, func(k, v []byte) error {
		p := new(fsm.Pool)
		if e := lib.Unmarshal(v, p); e != nil {
			return e
		}
		seg := lib.DecodeLengthPrefixed(k)
		if len(seg) != 2 || len(seg[1]) != 8 || binary.BigEndian.Uint64(seg[1]) != p.Id {
			return fmt.Errorf("pool key %x does not match record id %d", k, p.Id)
		}
		s.Pools[p.Id] = p
		return nil
	}); err != nil {
		return nil, err
	}
	if err := each(13, func(k, v []byte) error {
		o := new(lib.SellOrder)
		if e := lib.Unmarshal(v, o); e != nil {
			return e
		}
		seg := lib.DecodeLengthPrefixed(k)
		if len(seg) != 3 || len(seg[1]) != 8 {
			return fmt.Errorf("malformed order key %x", k)
		}
		c := binary.BigEndian.Uint64(seg[1])
		if s.Orders[c] == nil {
			s.Orders[c] = map[string]*lib.SellOrder{}
		}
		if string(seg[2]) != string(o.Id) {
			return fmt.Errorf("order key %x holds order id %x", k, o.Id)
		}
		s.Orders[c][string(o.Id)] = o
		return nil
	}); err != nil {
		return nil, err
	}
	if err := each(15, func(k, v []byte) error {
		seg := lib.DecodeLengthPrefixed(k)
		if len(seg) != 3 || len(seg[1]) != 1 || len(seg[2]) != 8 {
			return fmt.Errorf("malformed dex key %x", k)
		}
		b := new(lib.DexBatch)
		if e := lib.Unmarshal(v, b); e != nil {
			return e
		}
		c := binary.BigEndian.Uint64(seg[2])
		switch seg[1][0] {
		case 1:
			s.Locked[c] = b
		case 2:
			s.Next[c] = b
		default:
			return fmt.Errorf("unknown dex segment in key %x", k)
		}
		return nil
	}); err != nil {
		return nil, err
	}
	vals, err := refs.RawValidators(st)
	if err != nil {
		return nil, err
	}
	for _, v := range vals {
		s.Stakes[string(v.Address)] = v.StakedAmount
	}
	if s.Supply, err = refs.RawSupply(st); err != nil {
		return nil, err
	}
	return s, nil
}

func u(x uint64) *big.Int { return new(big.Int).SetUint64(x) }

// PoolAmount returns the balance of a pool (0 when the record does not exist).
func (s *State) PoolAmount(id uint64) uint64 {
	if p := s.Pools[id]; p != nil {
		return p.Amount
	}
	return 0
}

// batchEscrow sums what a batch holds in the holding pool: pending orders and deposits.
func batchEscrow(b *lib.DexBatch) *big.Int {
	sum := new(big.Int)
	if b == nil {
		return sum
	}
	for _, o := range b.Orders {
		sum.Add(sum, u(o.AmountForSale))
	}
	for _, d := range b.Deposits {
		sum.Add(sum, u(d.Amount))
	}
	return sum
}

// Problem is one disagreement found by an oracle; Kind is the stable part of the violation signature.
type Problem struct {
	Kind   string
	Detail string
}

func (p Problem) String() string { return p.Kind + ": " + p.Detail }

// Identities checks the per-state identities of the property on one scanned state:
// escrow pool == sum of open sell orders (per chain), holding pool == pending orders + deposits of next+locked batch
// (per chain), sum of LP points == total (per liquidity pool, no duplicate holders), total supply == everything held.
func Identities(s *State) (out []Problem, stats map[string]int) {
	stats = map[string]int{}
	ids := map[uint64]bool{}
	for c := range s.Orders {
		ids[c] = true
	}
	for c := range s.Locked {
		ids[c] = true
	}
	for c := range s.Next {
		ids[c] = true
	}
	for id := range s.Pools {
		switch {
		case id > fsm.EscrowPoolAddend && id <= fsm.EscrowPoolAddend+fsm.MaxChainId:
			ids[id-fsm.EscrowPoolAddend] = true
		case id > fsm.LiquidityPoolAddend && id <= fsm.LiquidityPoolAddend+fsm.MaxChainId:
			ids[id-fsm.LiquidityPoolAddend] = true
		case id > fsm.HoldingPoolAddend && id <= fsm.HoldingPoolAddend+fsm.MaxChainId:
			ids[id-fsm.HoldingPoolAddend] = true
		}
	}
	for c := range ids {
		// escrow
		sum := new(big.Int)
		for _, o := range s.Orders[c] {
			sum.Add(sum, u(o.AmountForSale))
			stats["open_orders_summed"]++
		}
		if esc := u(s.PoolAmount(c + fsm.EscrowPoolAddend)); esc.Cmp(sum) != 0 {
			out = append(out, Problem{"escrow-pool-differs-from-open-orders", fmt.Sprintf("chain=%d escrow_pool=%s sum_open_orders=%s orders=%d", c, esc, sum, len(s.Orders[c]))})
		}
		stats["escrow_identities"]++
		// holding
		hsum := new(big.Int).Add(batchEscrow(s.Locked[c]), batchEscrow(s.Next[c]))
		if hold := u(s.PoolAmount(c + fsm.HoldingPoolAddend)); hold.Cmp(hsum) != 0 {
			out = append(out, Problem{"holding-pool-differs-from-pending-batches", fmt.Sprintf("chain=%d holding_pool=%s locked=%s next=%s", c, hold, batchEscrow(s.Locked[c]), batchEscrow(s.Next[c]))})
		}
		stats["holding_identities"]++
		// points
		if p := s.Pools[c+fsm.LiquidityPoolAddend]; p != nil {
			psum := new(big.Int)
			seen := map[string]bool{}
			for _, pt := range p.Points {
				psum.Add(psum, u(pt.Points))
				if seen[string(pt.Address)] {
					out = append(out, Problem{"lp-holder-listed-twice", fmt.Sprintf("chain=%d holder=%x", c, pt.Address)})
				}
				seen[string(pt.Address)] = true
			}
			if psum.Cmp(u(p.TotalPoolPoints)) != 0 {
				out = append(out, Problem{"lp-points-sum-differs-from-total", fmt.Sprintf("chain=%d sum=%s total=%d holders=%d", c, psum, p.TotalPoolPoints, len(p.Points))})
			}
			stats["points_identities"]++
			stats["lp_holders_summed"] += len(p.Points)
		}
	}
	// supply
	total := new(big.Int)
	for _, a := range s.Accounts {
		total.Add(total, u(a))
	}
	for _, p := range s.Pools {
		total.Add(total, u(p.Amount))
	}
	for _, st := range s.Stakes {
		total.Add(total, u(st))
	}
	if total.Cmp(u(s.Supply.Total)) != 0 {
		out = append(out, Problem{"total-supply-differs-from-holdings", fmt.Sprintf("recorded=%d holdings=%s", s.Supply.Total, total)})
	}
	stats["supply_identities"]++
	return
}
