package c18

// An in-memory, buffered, full-duplex net.Conn pair ("network link") with deadlines, arbitrary read
// fragmentation, an adjustable byte rate and fault injection (link cut). No sockets.

import (
	"io"
	"net"
	"os"
	"sync"
	"sync/atomic"
	"time"
)

type memAddr string

func (a memAddr) Network() string { return "mem" }
func (a memAddr) String() string  { return string(a) }

// halfPipe is one direction of a link.
type halfPipe struct {
	mu       sync.Mutex
	cond     *sync.Cond
	ring     []byte // ring buffer of queued bytes
	head, n  int
	capacity int
	wclosed  bool // writer side closed: reader drains then gets EOF
	rclosed  bool // reader side closed: writer gets ErrClosedPipe
	cut      bool // link cut: both sides fail at once, queued data discarded
	rdl, wdl time.Time
	nextFree time.Time
	rtimer   *time.Timer
	wtimer   *time.Timer
	maxRead  int // >0: a Read returns at most this many bytes (fragmentation)
	// throttle: bytes per second (0 = unlimited); changed live through the link
	rate  atomic.Int64
	bytes atomic.Int64 // bytes accepted so far
}

func newHalf(capacity, maxRead int) *halfPipe {
	h := &halfPipe{capacity: capacity, maxRead: maxRead, ring: make([]byte, capacity)}
	h.cond = sync.NewCond(&h.mu)
	return h
}

func (h *halfPipe) setDeadline(read bool, t time.Time) {
	h.mu.Lock()
	defer h.mu.Unlock()
	tp, tm := &h.wdl, &h.wtimer
	if read {
		tp, tm = &h.rdl, &h.rtimer
	}
	*tp = t
	if *tm != nil {
		(*tm).Stop()
		*tm = nil
	}
	if !t.IsZero() {
		d := time.Until(t)
		if d < 0 {
			d = 0
		}
		*tm = time.AfterFunc(d, func() {
			h.mu.Lock()
			h.cond.Broadcast()
			h.mu.Unlock()
		})
	}
	h.cond.Broadcast()
}

func (h *halfPipe) read(p []byte) (int, error) {
	h.mu.Lock()
	defer h.mu.Unlock()
	for {
		if h.cut || h.rclosed {
			return 0, io.ErrClosedPipe
		}
		if h.n > 0 {
			n := len(p)
			if h.maxRead > 0 && n > h.maxRead {
				n = h.maxRead
			}
			if n > h.n {
				n = h.n
			}
			first := copy(p[:n], h.ring[h.head:min(h.head+n, h.capacity)])
			if first < n {
				copy(p[first:n], h.ring[:n-first])
			}
			wasFull := h.n == h.capacity
			h.head = (h.head + n) % h.capacity
			h.n -= n
			if wasFull || h.n == 0 {
				h.cond.Broadcast()
			}
			return n, nil
		}
		if h.wclosed {
			return 0, io.EOF
		}
		if len(p) == 0 {
			return 0, nil
		}
		if !h.rdl.IsZero() && !time.Now().Before(h.rdl) {
			return 0, os.ErrDeadlineExceeded
		}
		h.cond.Wait()
	}
}

func (h *halfPipe) write(p []byte) (int, error) {
	total := 0
	for len(p) > 0 {
		if r := h.rate.Load(); r > 0 {
			// a slow link: the bytes of this write take len/rate seconds to get through (virtual clock, so
			// that sleep granularity does not add up)
			n := len(p)
			if n > 4096 {
				n = 4096
			}
			d := time.Duration(float64(n) / float64(r) * float64(time.Second))
			h.mu.Lock()
			dl := h.wdl
			dead := h.cut || h.wclosed || h.rclosed
			now := time.Now()
			if h.nextFree.Before(now.Add(-200 * time.Millisecond)) {
				h.nextFree = now // idle link; otherwise a late wake-up is made up for by the following writes
			}
			h.nextFree = h.nextFree.Add(d)
			until := h.nextFree
			h.mu.Unlock()
			if dead {
				return total, io.ErrClosedPipe
			}
			if !dl.IsZero() && until.After(dl) {
				time.Sleep(time.Until(dl))
				return total, os.ErrDeadlineExceeded
			}
			if w := time.Until(until); w > 2*time.Millisecond {
				time.Sleep(w)
			}
		}
		h.mu.Lock()
		for {
			if h.cut || h.wclosed || h.rclosed {
				h.mu.Unlock()
				return total, io.ErrClosedPipe
			}
			if h.n < h.capacity {
				break
			}
			if !h.wdl.IsZero() && !time.Now().Before(h.wdl) {
				h.mu.Unlock()
				return total, os.ErrDeadlineExceeded
			}
			h.cond.Wait()
		}
		n := h.capacity - h.n
		if n > len(p) {
			n = len(p)
		}
		if h.rate.Load() > 0 && n > 4096 {
			n = 4096
		}
		tail := (h.head + h.n) % h.capacity
		first := copy(h.ring[tail:min(tail+n, h.capacity)], p[:n])
		if first < n {
			copy(h.ring[:n-first], p[first:n])
		}
		wasEmpty := h.n == 0
		h.n += n
		h.bytes.Add(int64(n))
		p = p[n:]
		total += n
		if wasEmpty {
			h.cond.Broadcast()
		}
		h.mu.Unlock()
	}
	return total, nil
}

func (h *halfPipe) closeWrite() { h.mu.Lock(); h.wclosed = true; h.cond.Broadcast(); h.mu.Unlock() }
func (h *halfPipe) closeRead() {
	h.mu.Lock()
	h.rclosed = true
	h.n = 0
	h.cond.Broadcast()
	h.mu.Unlock()
}
func (h *halfPipe) doCut() {
	h.mu.Lock()
	h.cut = true
	h.n = 0
	h.cond.Broadcast()
	h.mu.Unlock()
}

// memConn is one end of a link.
type memConn struct {
	in, out       *halfPipe
	local, remote memAddr
	once          sync.Once
}

func (c *memConn) Read(p []byte) (int, error)  { return c.in.read(p) }
func (c *memConn) Write(p []byte) (int, error) { return c.out.write(p) }
func (c *memConn) Close() error {
	c.once.Do(func() { c.out.closeWrite(); c.in.closeRead() })
	return nil
}
func (c *memConn) LocalAddr() net.Addr  { return c.local }
func (c *memConn) RemoteAddr() net.Addr { return c.remote }
func (c *memConn) SetDeadline(t time.Time) error {
	c.in.setDeadline(true, t)
	c.out.setDeadline(false, t)
	return nil
}
func (c *memConn) SetReadDeadline(t time.Time) error  { c.in.setDeadline(true, t); return nil }
func (c *memConn) SetWriteDeadline(t time.Time) error { c.out.setDeadline(false, t); return nil }

// link is a pair of connected ends plus the controls of the "network" between them.
type link struct {
	a, b   *memConn
	ab, ba *halfPipe
}

// newLink creates a link; capacity is the per-direction buffer, maxRead the read fragmentation (0 = none).
func newLink(name string, capacity, maxRead int) *link {
	ab, ba := newHalf(capacity, maxRead), newHalf(capacity, maxRead)
	la, lb := memAddr("mem-"+name+"-a:1"), memAddr("mem-"+name+"-b:1")
	return &link{
		a:  &memConn{in: ba, out: ab, local: la, remote: lb},
		b:  &memConn{in: ab, out: ba, local: lb, remote: la},
		ab: ab, ba: ba,
	}
}

// cut severs the link at once in both directions (network failure), discarding bytes in flight.
func (l *link) cut() { l.ab.doCut(); l.ba.doCut() }

// setRateAB throttles the a->b direction to r bytes per second (0 = unlimited).
func (l *link) setRateAB(r int64) { l.ab.rate.Store(r) }
