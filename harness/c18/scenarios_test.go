package c18

// Workloads. Every scenario builds a world of real nodes (and raw peers), drives the real code, and hands
// the record of what was sent and what was popped to the delivery oracle in world_test.go.

import (
	"crypto/sha256"
	"encoding/binary"
	"fmt"
	"hash"
	"math/rand"
	"os"
	"strings"
	"sync"
	"sync/atomic"
	"time"

	"github.com/canopy-network/canopy/lib"
	"github.com/canopy-network/canopy/p2p"
	"google.golang.org/protobuf/types/known/anypb"
)

// chunk is the number of payload bytes the real sender puts in one packet; measured by probeChunk.
var chunk int

// raceMode: this process is a -race build, where a megabyte costs 10-50 times more; sizes are scaled down so
// that the code's own 3 s heartbeat deadline is not what ends every connection.
var raceMode bool

var allTopics = []lib.Topic{0, 1, 2, 3, 4, 5}

// probeChunk measures the packet payload size by watching a real node send to a raw peer.
func probeChunk(res *results) error {
	w := newWorld(res, "probe", "probe", 0x5a5a5a5a5a5a5a5a)
	defer w.close()
	a, r := w.addRealNode(), w.addRawNode()
	c, err := w.connect(a, r, connOpts{capacity: 1 << 20, modeA: modeDirect, modeB: modeRaw})
	if err != nil {
		return err
	}
	go w.rawReader(c.b)
	rec := w.newRec(a.idx, r.idx, lib.Topic_BLOCK, 0, 0, 1_100_000, "direct")
	t0 := time.Now()
	c.a.send(w, rec, makePayload(rec.Size, rec.ID, w.mask))
	t1 := time.Now()
	defer func() {
		if os.Getenv("VERIF_C18_DEBUG") != "" {
			fmt.Printf("DEBUG probe: Send returned after %.3fs, delivered after %.3fs\n", t1.Sub(t0).Seconds(), time.Since(t0).Seconds())
		}
	}()
	if !waitFor(watchdog, func() bool { return w.deliveredCount() >= 1 }) {
		return fmt.Errorf("probe message did not arrive: send result %d, raw packets seen %d, pings %d, node log %q, violations %v", rec.ok.Load(), c.b.rawPkts.Load(), c.b.pings.Load(), a.log.lastLines(), res.Viol)
	}
	chunk = int(c.b.firstData.Load())
	if chunk < 1024 || chunk >= wireMax {
		return fmt.Errorf("implausible chunk size %d", chunk)
	}
	w.evaluate(evalOpts{complete: true})
	return nil
}

// ---------- size classes ----------

func boundarySizes() []int {
	c := chunk
	return []int{0, 1, c - 1, c, c + 1, 2*c - 1, 2 * c, 2*c + 1, 3*c - 1, 3 * c, 3*c + 1}
}

func pickSize(rng *rand.Rand, class string) int {
	if raceMode {
		switch x := rng.Intn(100); {
		case class == "boundary" && x < 8:
			return chunk - 1 + rng.Intn(3) // one or two packets
		case class == "boundary" && x < 10:
			return 2*chunk - 1 + rng.Intn(3)
		case x < 1:
			return chunk + 1
		case x < 15:
			return rng.Intn(2)
		case x < 90:
			return 2 + rng.Intn(4000)
		default:
			return 4000 + rng.Intn(60_000)
		}
	}
	switch class {
	case "small":
		switch x := rng.Intn(100); {
		case x < 12:
			return rng.Intn(2) // 0 or 1
		case x < 80:
			return 2 + rng.Intn(8190)
		case x < 93:
			return 8192 + rng.Intn(300_000)
		default:
			return chunk - 1 + rng.Intn(3)
		}
	case "boundary":
		if rng.Intn(6) == 0 {
			return 2 + rng.Intn(5000)
		}
		b := boundarySizes()
		return b[rng.Intn(len(b))]
	default: // big
		if rng.Intn(4) == 0 {
			return (1 << 20) + rng.Intn(7<<20)
		}
		return rng.Intn(20000)
	}
}

type plan struct {
	dest  int // index into the node's endpoint list
	topic lib.Topic
	size  int
}

type meshParams struct {
	class    string
	nodes    int
	maxG     int // sender goroutines per node
	msgs     int // messages per goroutine (upper bound)
	hold     time.Duration
	forceDir int // -1 random, else the mode for every link
}

// ---------- mesh: the delivery oracle under concurrent senders on all topics ----------

func caseMesh(res *results, name string, rng *rand.Rand, mp meshParams) {
	w := newWorld(res, name, "mesh-"+mp.class, rng.Uint64())
	defer w.close()
	for i := 0; i < mp.nodes; i++ {
		w.addRealNode()
	}
	eps := make([][]*endpoint, mp.nodes) // eps[i] = endpoints of node i
	caps := []int{2048, 65536, 1 << 20, 8 << 20}
	frags := []int{0, 0, 1500, 65536, 7, 1}
	var linkDesc []string
	for i := 0; i < mp.nodes; i++ {
		for j := i + 1; j < mp.nodes; j++ {
			o := connOpts{capacity: caps[rng.Intn(len(caps))], maxRead: frags[rng.Intn(len(frags))]}
			if mp.class != "small" && o.maxRead > 0 && o.maxRead < 1500 {
				o.maxRead = 1500 // byte-wise reads of megabytes only cost time
			}
			m := rng.Intn(2)
			if mp.forceDir >= 0 {
				m = mp.forceDir
			}
			o.modeA, o.modeB = m, m
			c, err := w.connect(w.nodes[i], w.nodes[j], o)
			if err != nil {
				res.count("cases_skipped_handshake", 1)
				return
			}
			eps[i] = append(eps[i], c.a)
			eps[j] = append(eps[j], c.b)
			linkDesc = append(linkDesc, fmt.Sprintf("%d-%d:cap%d,frag%d,mode%d", i, j, o.capacity, o.maxRead, m))
		}
	}
	// the plan is a pure function of the PRNG; the interleaving is the schedule's
	plans := make([][][]plan, mp.nodes)
	ph := sha256.New()
	total, multi := 0, 0
	perStream := map[[3]int]int{}
	for i := range plans {
		g := 2 + rng.Intn(mp.maxG-1)
		plans[i] = make([][]plan, g)
		for k := range plans[i] {
			n := 1 + rng.Intn(mp.msgs)
			for s := 0; s < n; s++ {
				p := plan{dest: rng.Intn(len(eps[i])), topic: allTopics[rng.Intn(nTopics)], size: pickSize(rng, mp.class)}
				plans[i][k] = append(plans[i][k], p)
				fmt.Fprintf(ph, "%d/%d/%d/%d/%d;", i, k, p.dest, p.topic, p.size)
				total++
				if p.size > chunk {
					multi++
				}
				perStream[[3]int{i, p.dest, int(p.topic)}]++
			}
		}
	}
	contended := 0
	for _, n := range perStream {
		if n >= 2 {
			contended++
		}
	}
	var wg sync.WaitGroup
	start := make(chan struct{})
	senders := 0
	for i := range plans {
		for k := range plans[i] {
			wg.Add(1)
			senders++
			go func(i, k int) {
				defer wg.Done()
				<-start
				for s, p := range plans[i][k] {
					e := eps[i][p.dest]
					path := "direct"
					if e.mode == modePeerSet {
						path = "sendto"
					}
					r := w.newRec(i, e.peer.idx, p.topic, k, s, p.size, path)
					e.send(w, r, makePayload(p.size, r.ID, w.mask))
				}
			}(i, k)
		}
	}
	close(start)
	wg.Wait()
	if mp.hold > 0 {
		time.Sleep(mp.hold) // keeps the connections up long enough for heartbeats to interleave (pacing, not a verdict)
	}
	w.quiesce(eps)
	w.evaluate(evalOpts{complete: true, ordered: true})
	res.eval(1)
	res.count("mesh_messages_planned", int64(total))
	res.count("mesh_multi_packet_messages", int64(multi))
	res.count("mesh_sender_goroutines", int64(senders))
	if contended >= 1 && total >= 8 && w.unplanned == 0 {
		res.distinct(fmt.Sprintf("mesh/%x/%v", ph.Sum(nil)[:8], linkDesc))
	}
	if rng.Intn(12) == 0 {
		res.sample(map[string]any{"case": name, "scenario": w.scenario, "nodes": mp.nodes, "links": linkDesc, "sender_goroutines": senders,
			"messages": total, "multi_packet": multi, "streams_with_concurrent_messages": contended})
	}
}

// quiesce brings the world to a point where every message handed over has been delivered or dropped.
func (w *world) quiesce(eps [][]*endpoint) {
	var wg sync.WaitGroup
	for i := range eps {
		for _, e := range eps[i] {
			if e.mode != modeDirect {
				continue
			}
			wg.Add(1)
			go func(e *endpoint) {
				defer wg.Done()
				if !w.fence(e, allTopics) {
					w.gaveUp("%s: fence %d->%d outstanding after watchdog", w.name, e.n.idx, e.peer.idx)
				}
			}(e)
		}
	}
	wg.Wait()
	// asynchronous path (SendTo spawns a goroutine per message and reports nothing): wait by count
	want := func() (outstanding int) {
		w.mu.Lock()
		defer w.mu.Unlock()
		got := map[[32]byte]int{}
		for _, d := range w.deliv {
			got[d.Hash]++
		}
		need := map[[32]byte]int{}
		for _, r := range w.recs {
			if r.Path == "sendto" && r.ok.Load() == 1 && !w.lossOK[[2]int{r.From, r.To}] {
				need[r.Hash]++
			}
		}
		for h, n := range need {
			if got[h] < n {
				outstanding += n - got[h]
			}
		}
		return
	}
	slack := func() (s int64) {
		for _, n := range w.nodes {
			if n.p == nil {
				continue
			}
			s += n.log.sendFailed.Load()
			for t := range n.log.inboxFull {
				s += n.log.inboxFull[t].Load()
			}
		}
		return
	}
	anyDead := func() {
		for i := range eps {
			for _, e := range eps[i] {
				w.connDead(e)
			}
		}
	}
	if !waitFor(watchdog, func() bool { anyDead(); return int64(want()) <= slack() }) {
		// were the connections still up? then this is a loss that the watchdog, not the oracle, noticed
		w.gaveUp("%s: %d SendTo messages outstanding after watchdog", w.name, want())
	}
	w.settle()
}

// ---------- inbox full: the one loss the code is entitled to, and it must be a whole-message loss ----------

func caseInboxFull(res *results, name string, rng *rand.Rand) {
	w := newWorld(res, name, "inbox-full", rng.Uint64())
	defer w.close()
	a, b := w.addRealNode(), w.addRealNode()
	c, err := w.connect(a, b, connOpts{capacity: 1 << 20, modeA: modeDirect, modeB: modeDirect})
	if err != nil {
		res.count("cases_skipped_handshake", 1)
		return
	}
	t := allTopics[rng.Intn(nTopics)]
	b.setPaused(t, true)
	t0 := time.Now()
	dbg := func(s string) {
		if os.Getenv("VERIF_C18_DEBUG") != "" {
			fmt.Printf("DEBUG %s %s at %.1fs\n", name, s, time.Since(t0).Seconds())
		}
	}
	n := 1000 + 20 + rng.Intn(200)
	var wg sync.WaitGroup
	for g := 0; g < 4; g++ {
		wg.Add(1)
		go func(g int) {
			defer wg.Done()
			for s := 0; s < n/4; s++ {
				size := 16 + (s*7+g)%200
				if s%97 == 5 {
					size = chunk + 1 + s // multi-packet messages among them
				}
				r := w.newRec(a.idx, b.idx, t, g, s, size, "direct")
				c.a.send(w, r, makePayload(size, r.ID, w.mask))
			}
		}(g)
	}
	wg.Wait()
	dbg("senders done")
	// other topics keep flowing meanwhile
	for _, ot := range allTopics {
		if ot != t {
			r := w.newRec(a.idx, b.idx, ot, 9, 0, 100, "direct")
			c.a.send(w, r, makePayload(100, r.ID, w.mask))
		}
	}
	overflowed := waitFor(watchdog, func() bool { return b.log.inboxFull[t].Load() > 0 || w.connDead(c.a) }) && b.log.inboxFull[t].Load() > 0
	dbg("overflow wait done")
	b.setPaused(t, false)
	// let the consumer empty the inbox first, or the markers below are dropped like the rest
	waitFor(watchdog/3, func() bool { return b.p.GetInboxStats()[t] == 0 || w.connDead(c.a) })
	if !w.fence(c.a, allTopics) {
		w.gaveUp("%s: fence outstanding", name)
	}
	dbg("fence done")
	w.settle()
	w.evaluate(evalOpts{complete: true, ordered: true})
	dbg("evaluated")
	res.eval(1)
	if overflowed {
		res.count("inbox_full_drops_observed", b.log.inboxFull[t].Load())
		res.distinct(fmt.Sprintf("inbox-full/%d/%d", t, n))
	}
}

// ---------- hostile raw peer ----------

type rawScript struct {
	w        *world
	e        *endpoint // raw side
	victim   int
	asm      map[lib.Topic]*refAsm // reference reassembly: running SHA-256 and length per topic
	forbid   string                // when set, messages completed from now on must not be delivered (kind of the violation)
	sentPkts int
	werr     error
	last     *sentRec // the record of the message completed last by this script
}

type refAsm struct {
	h hash.Hash
	n int
}

func (a *refAsm) add(b []byte) { a.h.Write(b); a.n += len(b) }
func (a *refAsm) sum() (out [32]byte) {
	copy(out[:], a.h.Sum(nil))
	return
}

func (s *rawScript) ref(t lib.Topic) *refAsm {
	a := s.asm[t]
	if a == nil {
		a = &refAsm{h: sha256.New()}
		s.asm[t] = a
	}
	return a
}

// fragment returns n fresh decodable bytes that are not, as such, any message.
func (s *rawScript) fragment(n int) []byte {
	r := s.w.newRec(s.e.n.idx, s.victim, 0, -2, 0, n, "fragment")
	return makePayload(n, r.ID, s.w.mask)
}

// packet sends one protocol packet and keeps the reference reassembly (split at EOF) up to date.
func (s *rawScript) packet(t lib.Topic, eof bool, b []byte) {
	s.ref(t).add(b)
	if eof {
		if t >= 0 && t < nTopics {
			r := s.w.newRec(s.e.n.idx, s.victim, t, 0, s.sentPkts, s.ref(t).n, "raw")
			r.Forbid = s.forbid
			s.w.registerHash(r, s.ref(t).sum(), s.ref(t).n)
			r.ok.Store(1)
			s.last = r
		}
		delete(s.asm, t)
	}
	if err := s.e.writePacket(t, eof, b); err != nil && s.werr == nil {
		s.werr = err
	}
	s.sentPkts++
}

// whole sends one well-formed message.
func (s *rawScript) whole(t lib.Topic, size int) {
	b := s.fragment(size)
	if size == 0 {
		s.packet(t, true, nil)
		return
	}
	for o := 0; o < size; o += chunk {
		end := min(o+chunk, size)
		s.packet(t, end == size, b[o:end])
	}
}

func lenPrefixed(b []byte) []byte {
	out := make([]byte, 4+len(b))
	binary.BigEndian.PutUint32(out, uint32(len(b)))
	copy(out[4:], b)
	return out
}

var hostileKinds = []string{
	"unknown-topic", "garbage-bytes", "unknown-any-type", "non-packet-type", "empty-envelope", "nil-payload-any", "length-over-wire-max", "frame-just-over-wire-max",
	"length-huge", "zero-length-packets", "interleave-same-topic", "interleave-across-topics", "eofless-then-close", "eofless-then-cut",
	"heartbeat-abuse", "eofless-reconnect", "overlimit", "overlimit-by-one", "at-limit",
}

// caseHostile runs one hostile script against a real node reached through the real handshake.
func caseHostile(res *results, name, kind string, rng *rand.Rand) (aimedAtObserved bool) {
	w := newWorld(res, name, "hostile-"+kind, rng.Uint64())
	w.hostile = true
	defer w.close()
	v, r := w.addRealNode(), w.addRawNode()
	// one honest real peer is connected to the victim too and keeps talking: its traffic must be unaffected
	h := w.addRealNode()
	hc, err := w.connect(h, v, connOpts{capacity: 1 << 20, modeA: modeDirect, modeB: modePeerSet})
	if err != nil {
		res.count("cases_skipped_handshake", 1)
		return
	}
	capacity := 1 << 20
	frag := []int{0, 1500, 3}[rng.Intn(3)]
	heavy := strings.HasPrefix(kind, "overlimit") || kind == "at-limit"
	if heavy {
		frag = 0 // 256 MB three bytes at a time only costs time
	}
	c, err := w.connect(r, v, connOpts{capacity: capacity, maxRead: frag, modeA: modeRaw, modeB: modePeerSet})
	if err != nil {
		res.count("cases_skipped_handshake", 1)
		return
	}
	c.a.autoPong.Store(true)
	go w.rawReader(c.a)
	s := &rawScript{w: w, e: c.a, victim: v.idx, asm: map[lib.Topic]*refAsm{}}
	t1 := allTopics[rng.Intn(nTopics)]
	t2 := allTopics[(int(t1)+1+rng.Intn(nTopics-1))%nTopics]
	stopHonest := make(chan struct{})
	var hw sync.WaitGroup
	hw.Add(1)
	go func() { // honest neighbour traffic on the same topics of the same victim inbox
		defer hw.Done()
		for i := 0; ; i++ {
			select {
			case <-stopHonest:
				return
			default:
			}
			tt := []lib.Topic{t1, t2}[i%2]
			rec := w.newRec(h.idx, v.idx, tt, 0, i, 0, "direct")
			hc.a.send(w, rec, makePayload(200+i%1000, rec.ID, w.mask))
			if rec.ok.Load() != 1 {
				return // the code dropped the neighbour's connection (logged; loss then permitted)
			}
			if heavy {
				time.Sleep(20 * time.Millisecond) // the victim has 256 MB to reassemble; do not add to it
			} else if i > 300 {
				time.Sleep(time.Millisecond)
			}
		}
	}()
	// the path works: a well-formed message gets through first
	s.whole(t1, 10+rng.Intn(3000))
	expectClose := true
	partial := func() { s.packet(t1, false, s.fragment(1+rng.Intn(5000))) }
	switch kind {
	case "unknown-topic":
		partial()
		// even case numbers: ids below Topic_INVALID that name no topic; odd: ids from Topic_INVALID up and negative
		bad := []lib.Topic{7, 42, 98}[rng.Intn(3)]
		if n := name[len(name)-1]; (n-'0')%2 == 1 {
			bad = []lib.Topic{99, 100, 1 << 20, -1}[rng.Intn(4)]
		}
		w.scenario += fmt.Sprintf(" stream=%d", bad)
		s.forbid = "malformed-accepted"
		s.packet(bad, true, s.fragment(10))
	case "garbage-bytes":
		partial()
		g := make([]byte, 1+rng.Intn(4000))
		rng.Read(g)
		g[0] = 0xFF // not a valid field tag for Envelope
		s.forbid = "malformed-accepted"
		_ = c.a.writeFrame(lenPrefixed(g))
	case "unknown-any-type":
		partial()
		bz, _ := lib.Marshal(&p2p.Envelope{Payload: &anypb.Any{TypeUrl: "type.googleapis.com/types.NoSuchMessage", Value: []byte{1, 2, 3}}})
		s.forbid = "malformed-accepted"
		_ = c.a.writeFrame(lenPrefixed(bz))
	case "non-packet-type":
		partial()
		inner, _ := lib.NewAny(&lib.PeerMeta{NetworkId: 1, ChainId: 1})
		bz, _ := lib.Marshal(&p2p.Envelope{Payload: inner})
		s.forbid = "malformed-accepted"
		_ = c.a.writeFrame(lenPrefixed(bz))
	case "empty-envelope":
		partial()
		s.forbid = "malformed-accepted"
		_ = c.a.writeFrame(lenPrefixed(nil))
	case "nil-payload-any":
		partial()
		bz, _ := lib.Marshal(&p2p.Envelope{Payload: &anypb.Any{}})
		s.forbid = "malformed-accepted"
		_ = c.a.writeFrame(lenPrefixed(bz))
	case "length-over-wire-max":
		partial()
		f := make([]byte, 4)
		binary.BigEndian.PutUint32(f, wireMax+1)
		s.forbid = "overlimit-accepted"
		_ = c.a.writeFrame(f)
		_ = c.a.writeFrame(make([]byte, 4096))
	case "frame-just-over-wire-max":
		// a complete, well-formed single-packet message whose wire frame is a little (1 byte .. 50 %) larger than the
		// per-frame limit but far below the per-message limit: the victim must close without delivering it
		partial()
		s.forbid = "overlimit-accepted"
		s.packet(t1, true, s.fragment(wireMax+[]int{0, 1, 4096, 500_000}[rng.Intn(4)]))
	case "length-huge":
		partial()
		s.forbid = "overlimit-accepted"
		_ = c.a.writeFrame([]byte{0xFF, 0xFF, 0xFF, 0xFF, 1, 2, 3})
	case "zero-length-packets":
		expectClose = false
		for i := 0; i < 1+rng.Intn(5); i++ {
			s.packet(t1, false, nil)
		}
		s.packet(t1, true, nil) // an empty message, whole by the protocol's own definition
		s.packet(t1, false, s.fragment(100))
		s.packet(t1, false, nil)
		s.packet(t1, true, nil) // a 100 byte message ended by an empty EOF packet
	case "interleave-same-topic":
		expectClose = false
		a1, b1, a2, b2 := s.fragment(1000), s.fragment(900), s.fragment(800), s.fragment(700)
		s.packet(t1, false, a1)
		s.packet(t1, false, b1)
		s.packet(t1, true, a2) // by the protocol this is ONE message a1|b1|a2 from this (hostile) sender
		s.packet(t1, true, b2)
	case "interleave-across-topics":
		expectClose = false
		a, b := s.fragment(2*chunk+5), s.fragment(chunk+7)
		s.packet(t1, false, a[:chunk])
		s.packet(t2, false, b[:chunk])
		s.packet(lib.Topic_HEARTBEAT, true, []byte("ping"))
		s.packet(t1, false, a[chunk:2*chunk])
		s.packet(t2, true, b[chunk:])
		s.packet(t1, true, a[2*chunk:])
	case "eofless-then-close", "eofless-then-cut":
		for i := 0; i < 1+rng.Intn(4); i++ {
			s.packet(t1, false, s.fragment(1+rng.Intn(3*4096)))
		}
		s.whole(t2, 50) // another topic is unaffected and whole
		waitFor(watchdog, func() bool { return w.deliveredFrom(r.idx) >= 2 })
		if kind == "eofless-then-close" {
			c.a.stop()
		} else {
			c.lk.cut()
		}
		w.permitLoss(r.idx, v.idx)
	case "eofless-reconnect":
		for i := 0; i < 1+rng.Intn(4); i++ {
			s.packet(t1, false, s.fragment(1+rng.Intn(3*4096)))
		}
		c.a.stop()
		waitFor(watchdog, func() bool { return !v.p.Has(r.pub) })
		c2, err := w.connect(r, v, connOpts{capacity: capacity, modeA: modeRaw, modeB: modePeerSet})
		if err != nil {
			res.count("cases_skipped_handshake", 1)
			close(stopHonest)
			hw.Wait()
			return
		}
		c2.a.autoPong.Store(true)
		go w.rawReader(c2.a)
		s = &rawScript{w: w, e: c2.a, victim: v.idx, asm: map[lib.Topic]*refAsm{}}
		c = c2
		expectClose = false // the canary below must arrive whole, not glued to the old partial
	case "heartbeat-abuse":
		expectClose = false
		s.packet(lib.Topic_HEARTBEAT, true, []byte("bogus"))
		s.packet(lib.Topic_HEARTBEAT, false, s.fragment(5000))
		s.packet(lib.Topic_HEARTBEAT, true, nil)
		for i := 0; i < 50; i++ {
			s.packet(lib.Topic_HEARTBEAT, true, []byte("ping"))
		}
	case "overlimit", "overlimit-by-one", "at-limit":
		// a message spread over many maximal packets
		total := maxMsg + 1 + rng.Intn(chunk)
		if kind == "overlimit-by-one" {
			total = maxMsg + 1
		}
		if kind == "at-limit" {
			total, expectClose = maxMsg, false
		}
		buf := s.fragment(chunk)
		sent := 0
		partial()
		sent += s.ref(t1).n
		if expectClose {
			s.forbid = "overlimit-accepted"
		}
		// same bytes in every full packet: only the total matters here, and 256 MB of distinct words buys nothing
		full := frameFor(&p2p.Packet{StreamId: t1, Eof: false, Bytes: buf})
		tStart, tLast := time.Now(), time.Now()
		for sent < total {
			if os.Getenv("VERIF_C18_DEBUG") != "" && time.Since(tLast) > 300*time.Millisecond {
				fmt.Printf("DEBUG %s packet %d took %.2fs (t=%.1fs)\n", name, s.sentPkts, time.Since(tLast).Seconds(), time.Since(tStart).Seconds())
			}
			tLast = time.Now()
			n := min(chunk, total-sent)
			if n == chunk && sent+n < total {
				s.ref(t1).add(buf)
				if err := c.a.writeFrame(full); err != nil && s.werr == nil {
					s.werr = err
				}
				s.sentPkts++
			} else {
				s.packet(t1, sent+n == total, buf[:n])
			}
			sent += n
			if s.werr != nil {
				break
			}
		}
	}
	// the canary: a well-formed message after the script
	canaryTopic := t2
	s.whole(canaryTopic, 64+rng.Intn(2000))
	canary := s.last // (not "the newest record of the world": the honest neighbour keeps adding its own)
	closedSeen := false
	if expectClose {
		// either the victim closes the connection (required) or it goes on and delivers the canary (violation,
		// raised by evaluate through Forbid)
		ok := waitFor(watchdog, func() bool {
			select {
			case <-c.a.closed:
				return true
			default:
			}
			return w.isDelivered(canary)
		})
		select {
		case <-c.a.closed:
			closedSeen = true
		default:
		}
		if !ok {
			w.gaveUp("%s: neither closed nor canary delivered before the watchdog", name)
		}
		w.permitLoss(r.idx, v.idx)
		if closedSeen && v.p.Has(r.pub) {
			// removal from the peer set is part of closing; give the callback a moment, then look again
			if !waitFor(5*time.Second, func() bool { return !v.p.Has(r.pub) }) {
				res.violate("closed-but-still-in-peer-set scenario="+w.scenario, name, map[string]any{"log": v.log.lastLines()})
			}
		}
	} else if kind != "eofless-then-close" && kind != "eofless-then-cut" {
		rawClosed := func() bool {
			select {
			case <-c.a.closed:
				return true
			default:
				return false
			}
		}
		if !waitFor(watchdog, func() bool { return w.isDelivered(canary) || rawClosed() }) || !w.isDelivered(canary) {
			select {
			case <-c.a.closed:
				// closed although everything sent was legal protocol: loss is then permitted, but say so
				res.count("hostile_legal_script_closed", 1)
				w.permitLoss(r.idx, v.idx)
				if os.Getenv("VERIF_C18_DEBUG") != "" {
					fmt.Printf("DEBUG %s legal script closed: %q\n", name, v.log.lastLines())
				}
			default:
				w.gaveUp("%s: canary outstanding after watchdog", name)
			}
		}
	}
	close(stopHonest)
	hw.Wait()
	if !w.fence(hc.a, []lib.Topic{t1, t2}) {
		w.gaveUp("%s: honest neighbour fence outstanding", name)
	}
	w.settle()
	w.evaluate(evalOpts{complete: true, ordered: true})
	res.eval(1)
	res.count("hostile_scripts_run", 1)
	aimedAtObserved = !heavy
	if e, ok := v.log.peerErr(r.pubHex); ok && strings.Contains(e, "max message size") {
		if heavy {
			res.count("hostile_rejected_by_message_size_cap", 1) // handlePacket's cap on the reassembled message
		} else {
			res.count("hostile_rejected_by_wire_frame_cap", 1) // receiveLengthPrefixed's cap on one frame
		}
		aimedAtObserved = true
	} else if kind == "at-limit" && w.isDelivered(canary) {
		aimedAtObserved = true
	} else if heavy {
		res.count("hostile_overlimit_closed_for_another_reason", 1)
		e, _ := v.log.peerErr(r.pubHex)
		res.sample(map[string]any{"case": name, "note": "closed before/without the size cap", "reason_logged_by_code": e, "packets_sent": s.sentPkts, "victim_log_tail": v.log.lastLines()})
	}
	res.count("hostile_packets_sent", int64(s.sentPkts))
	if closedSeen {
		res.count("hostile_connections_closed_by_victim", 1)
	}
	res.count("heartbeat_pings_seen_by_raw_peer", c.a.pings.Load())
	res.count("heartbeat_pongs_seen_by_raw_peer", c.a.pongs.Load())
	if aimedAtObserved {
		res.distinct(fmt.Sprintf("hostile/%s/%d/%d", kind, t1, t2))
	}
	if rng.Intn(6) == 0 {
		res.sample(map[string]any{"case": name, "scenario": w.scenario, "packets_sent": s.sentPkts, "closed_by_victim": closedSeen, "victim_log_tail": v.log.lastLines()})
	}
	return aimedAtObserved
}

func (w *world) isDelivered(r *sentRec) bool {
	w.mu.Lock()
	defer w.mu.Unlock()
	for _, d := range w.deliv {
		if d.Hash == r.Hash && d.At == r.To {
			return true
		}
	}
	return false
}

func (w *world) deliveredFrom(from int) int {
	w.mu.Lock()
	defer w.mu.Unlock()
	n := 0
	pub := w.nodes[from].pubHex
	for _, d := range w.deliv {
		if d.Sender == pub {
			n++
		}
	}
	return n
}

// ---------- early send: a message that arrives before AddPeer has finished must still be attributed ----------

func caseEarlySend(res *results, name string, rng *rand.Rand, stallLogger bool) {
	w := newWorld(res, name, "early-send", rng.Uint64())
	w.hostile = true
	defer w.close()
	v, r := w.addRealNode(), w.addRawNode()
	decoy := newKey().PublicKey().Bytes() // the identity the victim *believes* it is dialling (peer book entry)
	w.pubIdx[fmt.Sprintf("%x", decoy)] = 7
	popped := make(chan struct{})
	var once sync.Once
	if stallLogger {
		// a logger that is slow exactly once (disk stall): between the start of the receive service and the
		// moment AddPeer replaces the caller-supplied identity with the authenticated one
		hook := func(msg string) {
			if len(msg) > 12 && msg[:12] == "Try Add peer" {
				select {
				case <-popped:
				case <-time.After(3 * time.Second):
				}
			}
		}
		v.log.hook.Store(&hook)
	}
	t := allTopics[rng.Intn(nTopics)]
	lk := newLink(name, 1<<20, 0)
	re := &endpoint{n: r, peer: v, mode: modeRaw}
	var wg sync.WaitGroup
	wg.Add(2)
	var aerr, rerr error
	go func() {
		defer wg.Done()
		// outbound dial of a peer-book entry: expected key is only a hint (strictPublicKey=false)
		info := &lib.PeerInfo{Address: &lib.PeerAddress{PublicKey: decoy, NetAddress: "mem-book-entry:1"}, IsOutbound: true}
		aerr = v.p.AddPeer(lk.b, info, false, false)
	}()
	var recp atomic.Pointer[sentRec]
	size := 100 + rng.Intn(1000)
	go func() {
		defer wg.Done()
		rerr = w.dialOne(re, lk.a, true, nil)
		if rerr != nil {
			return
		}
		// send at once, without waiting for the victim to finish AddPeer
		s := &rawScript{w: w, e: re, victim: v.idx, asm: map[lib.Topic]*refAsm{}}
		s.whole(t, size)
		recp.Store(s.last)
	}()
	// the consumer pops the message as soon as it is there (it reads Sender the way the controller does)
	go func() {
		waitFor(10*time.Second, func() bool { return w.deliveredCount() >= 1 })
		once.Do(func() { close(popped) })
	}()
	wg.Wait()
	once.Do(func() {})
	if aerr != nil || rerr != nil {
		res.count("cases_skipped_handshake", 1)
		lk.cut()
		return
	}
	re.closed = make(chan struct{})
	go w.rawReader(re)
	w.mu.Lock()
	w.conns = append(w.conns, &conn{lk: lk, a: re, b: &endpoint{n: v, peer: r, mode: modePeerSet}})
	w.mu.Unlock()
	if !waitFor(watchdog, func() bool { rec := recp.Load(); return rec != nil && w.isDelivered(rec) }) {
		w.gaveUp("%s: early message outstanding", name)
	}
	w.settle()
	w.evaluate(evalOpts{complete: true})
	res.eval(1)
	res.count("early_send_cases", 1)
	res.distinct(fmt.Sprintf("early-send/%d/%v", t, stallLogger))
}

// ---------- teardown while messages are in flight ----------

var teardownKinds = []string{"p2p-stop", "conn-stop", "link-cut", "replace", "remote-close", "send-error"}

func caseTeardown(res *results, name, kind string, rng *rand.Rand, hold time.Duration) {
	w := newWorld(res, name, "teardown-"+kind, rng.Uint64())
	t0 := time.Now()
	dbg := func(s string) {
		if os.Getenv("VERIF_C18_DEBUG") != "" {
			fmt.Printf("DEBUG %s %s at %.1fs\n", name, s, time.Since(t0).Seconds())
		}
	}
	defer dbg("closed")
	defer w.close()
	a, b := w.addRealNode(), w.addRealNode()
	mode := modePeerSet
	if kind == "conn-stop" {
		mode = modeDirect
	}
	if kind == "link-cut" || kind == "send-error" {
		mode = rng.Intn(2)
	}
	o := connOpts{capacity: []int{4096, 1 << 18, 1 << 20}[rng.Intn(3)], modeA: mode, modeB: mode}
	c, err := w.connect(a, b, o)
	if err != nil {
		res.count("cases_skipped_handshake", 1)
		return
	}
	// a third node stays connected to b throughout: its messages must all arrive
	third := w.addRealNode()
	c3, err := w.connect(third, b, connOpts{capacity: 1 << 20, modeA: modeDirect, modeB: modePeerSet})
	if err != nil {
		res.count("cases_skipped_handshake", 1)
		return
	}
	if hold > 0 {
		time.Sleep(hold) // let heartbeats start (pacing only)
	}
	var handed atomic.Int64
	trigger := int64(5 + rng.Intn(40))
	fire := make(chan struct{})
	var fireOnce sync.Once
	var wg sync.WaitGroup
	sender := func(e *endpoint, g, n int, class string, grng *rand.Rand) {
		defer wg.Done()
		for s := 0; s < n; s++ {
			size := pickSize(grng, class)
			path := "direct"
			if e.mode == modePeerSet {
				path = "sendto"
			}
			r := w.newRec(e.n.idx, e.peer.idx, allTopics[grng.Intn(nTopics)], g, s, size, path)
			e.send(w, r, makePayload(size, r.ID, w.mask))
			if handed.Add(1) == trigger {
				fireOnce.Do(func() { close(fire) })
			}
		}
	}
	w.permitLoss(a.idx, b.idx)
	for g := 0; g < 4; g++ {
		wg.Add(3)
		cls := "small"
		if g == 0 {
			cls = "boundary" // one goroutine sends multi-packet messages, so a teardown can land inside a message
		}
		go sender(c.a, g, 10+rng.Intn(20), cls, rand.New(rand.NewSource(rng.Int63())))
		go sender(c.b, g, 10+rng.Intn(20), "small", rand.New(rand.NewSource(rng.Int63())))
		go sender(c3.a, g, 10+rng.Intn(10), "small", rand.New(rand.NewSource(rng.Int63())))
	}
	// set API users, as the controller and the RPC server are
	stopAPI := make(chan struct{})
	var apiWG sync.WaitGroup
	apiWG.Add(1)
	go func() {
		defer apiWG.Done()
		for i := 0; ; i++ {
			select {
			case <-stopAPI:
				return
			default:
			}

			_ = b.p.PeerCount()
			_ = b.p.Has(a.pub)
			_, _ = b.p.GetPeerInfo(third.pub)
			_ = b.p.IsMustConnect(a.pub)
			_ = b.p.GetInboxStats()
			if i%16 == 0 {
				_, _, _ = b.p.GetAllInfos()
			}
			time.Sleep(time.Millisecond)
		}
	}()
	dbg("connected, senders started")
	select {
	case <-fire:
	case <-time.After(watchdog):
	}
	dbg("trigger reached")
	switch kind {
	case "p2p-stop":
		a.p.Stop()
	case "conn-stop":
		c.a.mc.Stop()
	case "link-cut":
		c.lk.cut()
	case "remote-close":
		_ = c.lk.a.Close()
	case "send-error":
		// the outgoing direction of a fails while its incoming direction still carries a message
		c.lk.ab.closeRead()
	case "replace":
		// the same identity connects again; the older session is replaced (or the newer one refused) while
		// traffic is flowing
		lk2 := newLink(name+"-dup", 1<<20, 0)
		var dwg sync.WaitGroup
		dwg.Add(2)
		go func() {
			defer dwg.Done()
			_ = a.p.AddPeer(lk2.a, &lib.PeerInfo{Address: &lib.PeerAddress{NetAddress: "mem-dup-a:1"}, IsOutbound: false}, false, false)
		}()
		go func() {
			defer dwg.Done()
			_ = b.p.AddPeer(lk2.b, &lib.PeerInfo{Address: &lib.PeerAddress{NetAddress: "mem-dup-b:1"}, IsOutbound: false}, false, false)
		}()
		dwg.Wait()
		w.mu.Lock()
		w.conns = append(w.conns, &conn{lk: lk2, a: &endpoint{}, b: &endpoint{}})
		w.mu.Unlock()
	}
	dbg("teardown done")
	wg.Wait()
	dbg("senders done")
	close(stopAPI)
	apiWG.Wait()
	// the bystander connection must be complete
	if !w.fence(c3.a, allTopics) {
		w.gaveUp("%s: bystander fence outstanding", name)
	}
	dbg("fence done")
	w.settle()
	w.evaluate(evalOpts{complete: true, ordered: true})
	res.eval(1)
	res.count("teardowns_mid_traffic", 1)
	res.distinct(fmt.Sprintf("teardown/%s/%d/%d/%d", kind, mode, o.capacity, trigger))
}

// ---------- slow link: a Send that times out half way through a message ----------

// caseSlowLink throttles the link so that each maximal packet needs ~1.8 s (within the 5 s write deadline
// and the 3 s heartbeat timeout), keeps every other topic busy and fills one topic's send queue. A Send on
// that topic then waits for queue slots packet by packet; if a wait exceeds the code's 10 s it returns false
// having queued only part of the message. Whatever is delivered afterwards must still be whole messages.
func caseSlowLink(res *results, name string, rng *rand.Rand) {
	w := newWorld(res, name, "slow-link", rng.Uint64())
	defer w.close()
	a, b := w.addRealNode(), w.addRealNode()
	c, err := w.connect(a, b, connOpts{capacity: 64 << 10, modeA: modeDirect, modeB: modeDirect})
	if err != nil {
		res.count("cases_skipped_handshake", 1)
		return
	}
	victim := lib.Topic_TX
	c.lk.setRateAB(wireMax * 10 / 18)
	if os.Getenv("VERIF_C18_DEBUG") != "" {
		go func() {
			t0 := time.Now()
			for i := 0; i < 40; i++ {
				time.Sleep(500 * time.Millisecond)
				fmt.Printf("DEBUG %s t=%.1fs a->b bytes=%d delivered=%d\n", name, time.Since(t0).Seconds(), c.lk.ab.bytes.Load(), w.deliveredCount())
			}
		}()
	}
	// every other topic has a long supply of maximal single-packet messages
	seq := 0
	for i := 0; i < 14; i++ {
		for _, t := range allTopics {
			if t == victim {
				continue
			}
			r := w.newRec(a.idx, b.idx, t, 0, seq, chunk, "direct")
			seq++
			c.a.send(w, r, makePayload(chunk, r.ID, w.mask))
		}
	}
	// fill the victim topic's queue with small messages
	for i := 0; i < 1000; i++ {
		r := w.newRec(a.idx, b.idx, victim, 1, i, 40, "direct")
		c.a.send(w, r, makePayload(40, r.ID, w.mask))
	}
	// multi-packet messages on the victim topic: each packet waits for a slot
	// a refusal at the first packet leaves nothing behind; one at a later packet does. Which it was cannot be
	// seen from the result of Send, so a second refusal is awaited (the message after a half-queued one is
	// glued to it whether it is accepted or not).
	refused := 0
	for i := 0; i < 4 && refused < 2; i++ {
		r := w.newRec(a.idx, b.idx, victim, 2, i, 0, "direct")
		c.a.send(w, r, makePayload(4*chunk+11, r.ID, w.mask))
		if r.ok.Load() == 2 {
			refused++
		}
		if w.connDead(c.a) {
			break
		}
	}
	c.lk.setRateAB(0)
	// the next message on the topic
	r := w.newRec(a.idx, b.idx, victim, 3, 0, 0, "direct")
	c.a.send(w, r, makePayload(777, r.ID, w.mask))
	if !w.fence(c.a, allTopics) {
		w.gaveUp("%s: fence outstanding", name)
	}
	w.settle()
	w.evaluate(evalOpts{complete: true, ordered: true})
	res.eval(1)
	res.count("slow_link_sends_refused_midway_or_before", int64(refused))
	if refused > 0 && w.unplanned == 0 {
		res.distinct("slow-link/" + name)
	}
}

// ---------- the message size limit with an honest real sender (thorough tier: 256 MB through the pipe) ----------

func caseLimit(res *results, name, which string, rng *rand.Rand) {
	w := newWorld(res, name, "limit-"+which, rng.Uint64())
	defer w.close()
	a, b := w.addRealNode(), w.addRealNode()
	c, err := w.connect(a, b, connOpts{capacity: 8 << 20, modeA: modeDirect, modeB: modePeerSet})
	if err != nil {
		res.count("cases_skipped_handshake", 1)
		return
	}
	t := allTopics[rng.Intn(nTopics)]
	pre := w.newRec(a.idx, b.idx, t, 0, 0, 0, "direct")
	c.a.send(w, pre, makePayload(3*chunk+1, pre.ID, w.mask))
	size := maxMsg
	if which == "over" {
		size = maxMsg + 1
	}
	big := w.newRec(a.idx, b.idx, t, 0, 1, 0, "direct")
	if which == "over" {
		big.Forbid = "overlimit-accepted"
	}
	payload := makePayload(size, big.ID, w.mask)
	c.a.send(w, big, payload)
	payload = nil
	if which == "at" {
		if !w.fence(c.a, allTopics) {
			w.gaveUp("%s: fence outstanding", name)
		}
	} else {
		// the receiver must close; the sender notices when its stream is closed
		if !waitFor(watchdog, func() bool { return !b.p.Has(a.pub) }) {
			w.gaveUp("%s: receiver still has the peer after an over-limit message", name)
		}
		w.permitLoss(a.idx, b.idx)
	}
	w.settle()
	w.evaluate(evalOpts{complete: true, ordered: true})
	res.eval(1)
	res.count("limit_cases", 1)
	e, _ := b.log.peerErr(a.pubHex)
	switch {
	case which == "at" && w.isDelivered(big):
		res.count("limit_message_at_the_limit_delivered_whole", 1)
		res.distinct("limit/at")
	case which == "over" && strings.Contains(e, "max message size"):
		res.count("limit_message_over_the_limit_rejected_by_cap", 1)
		res.distinct("limit/over")
	default:
		res.count("limit_cases_ended_for_another_reason", 1)
		res.sample(map[string]any{"case": name, "note": "the connection ended before the limit was reached", "reason_logged_by_code": e})
	}
}

// ---------- contention: many goroutines hand multi-packet messages to ONE stream at the same instant ----------

// caseContend aims at the mechanism that keeps the packets of one message contiguous on a topic (Stream.mu in
// queueSends): payloads and hashes are prepared in advance, all senders are released together and each hands its
// message over several times in a row, so that the time spent inside queueSends is a large part of the run.
func caseContend(res *results, name string, rng *rand.Rand) {
	w := newWorld(res, name, "contend", rng.Uint64())
	defer w.close()
	a, b := w.addRealNode(), w.addRealNode()
	mode := int(name[len(name)-1]-'0') % 2 // even case numbers: peer set (SendTo), odd: direct (MultiConn.Send)
	c, err := w.connect(a, b, connOpts{capacity: 4 << 20, modeA: mode, modeB: mode})
	if err != nil {
		res.count("cases_skipped_handshake", 1)
		return
	}
	g, k := 12+rng.Intn(13), 4+rng.Intn(3)
	if raceMode {
		g, k = 6+rng.Intn(4), 2
	}
	topics := []lib.Topic{allTopics[rng.Intn(nTopics)]}
	topics = append(topics, allTopics[(int(topics[0])+1+rng.Intn(nTopics-1))%nTopics])
	type prepared struct {
		topic   lib.Topic
		payload []byte
		recs    []*sentRec
	}
	path := "direct"
	if mode == modePeerSet {
		path = "sendto"
	}
	prep := make([]prepared, g)
	for i := range prep {
		t := topics[0]
		if i%3 == 2 {
			t = topics[1]
		}
		size := chunk + 1 + rng.Intn(64) // two packets
		if i%5 == 4 {
			size = 2*chunk + 1 + rng.Intn(64) // three
		}
		first := w.newRec(a.idx, b.idx, t, i, 0, size, path)
		p := prepared{topic: t, payload: makePayload(size, first.ID, w.mask), recs: []*sentRec{first}}
		for s := 1; s < k; s++ {
			p.recs = append(p.recs, w.newRec(a.idx, b.idx, t, i, s, size, path))
		}
		wire := p.payload
		if mode == modePeerSet {
			wire, _ = lib.Marshal(&p2p.Packet{Bytes: p.payload})
		}
		for _, r := range p.recs {
			w.register(r, wire) // the same bytes are handed over k times: the multiset counts them
		}
		prep[i] = p
	}
	// phase 1, full queue: the link is held back while one maximal packet is on the wire, the topic's send queue
	// is filled to its capacity with small messages, and only then the multi-packet senders arrive: every one of
	// their packets has to wait for a slot. Whoever waits there must hold the stream to itself until its message
	// is queued completely.
	if mode == modeDirect {
		c.lk.setRateAB(int64(wireMax) / 2)
		blocker := w.newRec(a.idx, b.idx, topics[1], 900, 0, chunk, path)
		c.a.send(w, blocker, makePayload(chunk, blocker.ID, w.mask))
		for i := 0; i < 1000; i++ {
			r := w.newRec(a.idx, b.idx, topics[0], 901, i, 32, path)
			c.a.send(w, r, makePayload(32, r.ID, w.mask))
		}
		var fwg sync.WaitGroup
		nf := 6 + rng.Intn(5)
		for i := 0; i < nf; i++ {
			size := chunk + 1 + rng.Intn(64)
			r := w.newRec(a.idx, b.idx, topics[0], 910+i, 0, size, path)
			payload := makePayload(size, r.ID, w.mask)
			w.register(r, payload)
			fwg.Add(1)
			go func() {
				defer fwg.Done()
				if c.a.mc.Send(topics[0], payload) {
					r.ok.Store(1)
				} else {
					r.ok.Store(2)
				}
			}()
		}
		time.Sleep(150 * time.Millisecond) // lets the senders reach the full queue (pacing only)
		c.lk.setRateAB(0)
		fwg.Wait()
		res.count("contend_full_queue_senders", int64(nf))
	}
	var wg sync.WaitGroup
	start := make(chan struct{})
	for i := range prep {
		wg.Add(1)
		go func(p prepared) {
			defer wg.Done()
			<-start
			for _, r := range p.recs {
				if mode == modeDirect {
					if c.a.mc.Send(p.topic, p.payload) {
						r.ok.Store(1)
					} else {
						r.ok.Store(2)
					}
				} else {
					if err := a.p.SendTo(b.pub, p.topic, &p2p.Packet{Bytes: p.payload}); err == nil {
						r.ok.Store(1)
					} else {
						r.ok.Store(2)
					}
				}
			}
		}(prep[i])
	}
	close(start)
	wg.Wait()
	w.quiesce([][]*endpoint{{c.a}, {c.b}})
	w.evaluate(evalOpts{complete: true})
	res.eval(1)
	res.count("contend_messages", int64(g*k))
	if w.unplanned == 0 {
		res.distinct(fmt.Sprintf("contend/%d/%d/%d/%v", mode, g, k, topics))
	}
}
