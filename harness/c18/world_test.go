package c18

// The "world" of one case: real p2p.P2P nodes and raw peers, the links between them, the record of what
// was handed to Send / SendTo and of what was popped from the inboxes, and the delivery oracle.

import (
	"encoding/binary"
	"encoding/hex"
	"fmt"
	"io"
	"os"
	"sort"
	"strings"
	"sync"
	"sync/atomic"
	"time"

	"github.com/canopy-network/canopy/lib"
	"github.com/canopy-network/canopy/lib/crypto"
	"github.com/canopy-network/canopy/p2p"
)

const (
	nTopics  = 6           // application topics 0..5 (6 is the reserved heartbeat stream)
	maxMsg   = 256_000_000 // the message size limit the property refers to (p2p maxMessageSize)
	wireMax  = 1_000_000   // the limit of one length-prefixed wire message (p2p maxPacketSize)
	watchdog = 90 * time.Second
)

// ---------- results (collected in-process or in a race child, applied to the core.Run by the parent) ----------

type violation struct {
	Sig     string `json:"sig"`
	Case    string `json:"case"` // a case name, or (Regex) a regular expression selecting the cases to re-run
	Witness any    `json:"witness"`
	Regex   bool   `json:"regex,omitempty"`
}

type results struct {
	mu       sync.Mutex
	Viol     []violation      `json:"viol"`
	Counts   map[string]int64 `json:"counts"`
	Evals    int64            `json:"evals"`
	Distinct []string         `json:"distinct"`
	Samples  []any            `json:"samples"`
	Inconcl  []string         `json:"inconcl"`
}

func newResults() *results { return &results{Counts: map[string]int64{}} }

func (r *results) violate(sig, caseName string, witness any) {
	r.mu.Lock()
	if len(r.Viol) < 200 {
		r.Viol = append(r.Viol, violation{Sig: sig, Case: caseName, Witness: witness})
	}
	r.mu.Unlock()
}
func (r *results) count(name string, n int64) { r.mu.Lock(); r.Counts[name] += n; r.mu.Unlock() }
func (r *results) eval(n int)                 { r.mu.Lock(); r.Evals += int64(n); r.mu.Unlock() }
func (r *results) distinct(k string)          { r.mu.Lock(); r.Distinct = append(r.Distinct, k); r.mu.Unlock() }
func (r *results) sample(v any) {
	r.mu.Lock()
	if len(r.Samples) < 8 {
		r.Samples = append(r.Samples, v)
	}
	r.mu.Unlock()
}
func (r *results) inconclusive(format string, a ...any) {
	r.mu.Lock()
	if len(r.Inconcl) < 20 {
		r.Inconcl = append(r.Inconcl, fmt.Sprintf(format, a...))
	}
	r.mu.Unlock()
}

// ---------- logger that doubles as an observer of the code's own loss reports ----------

type capLogger struct {
	inboxFull  [nTopics + 2]atomic.Int64 // "CRITICAL: Inbox <TOPIC> queue full in receive service" per topic
	sendFailed atomic.Int64              // "sending ... failed" (asynchronous SendTo path)
	fatal      atomic.Int64
	hook       atomic.Pointer[func(msg string)] // a slow logger is a legal environment: scenarios may stall here
	mu         sync.Mutex
	tail       []string
	peerErrs   map[string]string // hex public key -> last error the code reported for that peer (OnPeerError)
}

// peerErr returns the error the code logged when it dropped the connection to the peer, if it did.
func (l *capLogger) peerErr(pubHex string) (string, bool) {
	l.mu.Lock()
	defer l.mu.Unlock()
	e, ok := l.peerErrs[pubHex]
	return e, ok
}

func (l *capLogger) emit(level, msg string) {
	if strings.HasPrefix(msg, "CRITICAL: Inbox ") {
		f := strings.Fields(msg)
		if len(f) > 2 {
			if v, ok := lib.Topic_value[f[2]]; ok && v >= 0 && int(v) < len(l.inboxFull) {
				l.inboxFull[v].Add(1)
			}
		}
	} else if strings.HasPrefix(msg, "sending ") && strings.HasSuffix(msg, " failed") {
		l.sendFailed.Add(1)
	}
	if level == "F" {
		l.fatal.Add(1)
	}
	if level == "W" {
		// p2p.PeerError: "<prefix> <hex public key>@<remote address> <error>"
		if i := strings.Index(msg, "@mem-"); i > 0 {
			j := strings.LastIndexByte(msg[:i], ' ')
			l.mu.Lock()
			if l.peerErrs == nil {
				l.peerErrs = map[string]string{}
			}
			l.peerErrs[msg[j+1:i]] = msg[i+1:]
			l.mu.Unlock()
		}
	}
	if level != "D" {
		l.mu.Lock()
		if len(msg) > 300 {
			msg = msg[:300]
		}
		l.tail = append(l.tail, level+" "+msg)
		if len(l.tail) > 30 {
			l.tail = l.tail[len(l.tail)-30:]
		}
		l.mu.Unlock()
	}
	if h := l.hook.Load(); h != nil {
		(*h)(msg)
	}
}
func (l *capLogger) lastLines() []string {
	l.mu.Lock()
	defer l.mu.Unlock()
	return append([]string(nil), l.tail...)
}
func (l *capLogger) Debug(msg string)          { l.emit("D", msg) }
func (l *capLogger) Info(msg string)           { l.emit("I", msg) }
func (l *capLogger) Warn(msg string)           { l.emit("W", msg) }
func (l *capLogger) Error(msg string)          { l.emit("E", msg) }
func (l *capLogger) Fatal(msg string)          { l.emit("F", msg) }
func (l *capLogger) Print(msg string)          { l.emit("I", msg) }
func (l *capLogger) Debugf(f string, a ...any) { l.emit("D", fmt.Sprintf(f, a...)) }
func (l *capLogger) Infof(f string, a ...any)  { l.emit("I", fmt.Sprintf(f, a...)) }
func (l *capLogger) Warnf(f string, a ...any)  { l.emit("W", fmt.Sprintf(f, a...)) }
func (l *capLogger) Errorf(f string, a ...any) { l.emit("E", fmt.Sprintf(f, a...)) }
func (l *capLogger) Fatalf(f string, a ...any) { l.emit("F", fmt.Sprintf(f, a...)) }
func (l *capLogger) Printf(f string, a ...any) { l.emit("I", fmt.Sprintf(f, a...)) }

// ---------- nodes ----------

type node struct {
	idx    int
	priv   crypto.PrivateKeyI
	pub    []byte
	pubHex string
	p      *p2p.P2P // nil for a raw peer
	log    *capLogger
	dir    string

	quit   chan struct{}
	wg     sync.WaitGroup
	pmu    sync.Mutex
	pcond  *sync.Cond
	paused [nTopics]bool
}

var (
	nodePoolMu sync.Mutex
	nodePool   []*node
	p2pConfig  = func() lib.Config {
		c := lib.DefaultConfig()
		c.ChainId = lib.CanopyChainId
		return c
	}()
)

func newKey() crypto.PrivateKeyI {
	k, err := crypto.NewBLS12381PrivateKey()
	if err != nil {
		panic(err)
	}
	return k
}

// fillNodePool creates every real node the process will use BEFORE any connection exists: p2p.New() assigns
// the package-level ReadTimeout/WriteTimeout that connection goroutines read, and a process runs New() once.
func fillNodePool(n int, baseDir string) {
	nodePoolMu.Lock()
	defer nodePoolMu.Unlock()
	made := make([]*node, n)
	var wg sync.WaitGroup
	sem := make(chan struct{}, 8)
	var newMu sync.Mutex
	for i := 0; i < n; i++ {
		wg.Add(1)
		go func(i int) {
			defer wg.Done()
			sem <- struct{}{}
			defer func() { <-sem }()
			nd := &node{priv: newKey(), log: &capLogger{}}
			nd.pub = nd.priv.PublicKey().Bytes()
			nd.pubHex = hex.EncodeToString(nd.pub)
			nd.dir = fmt.Sprintf("%s/n%d", baseDir, i)
			_ = os.MkdirAll(nd.dir, 0o755)
			cfg := p2pConfig
			cfg.DataDirPath = nd.dir
			newMu.Lock() // New() writes package globals
			nd.p = p2p.New(nd.priv, 1, nil, cfg, nd.log)
			newMu.Unlock()
			made[i] = nd
		}(i)
	}
	wg.Wait()
	nodePool = append(nodePool, made...)
}

func takeNode() *node {
	nodePoolMu.Lock()
	defer nodePoolMu.Unlock()
	if len(nodePool) == 0 {
		panic("c18: node pool exhausted (case list and pool size disagree)")
	}
	n := nodePool[len(nodePool)-1]
	nodePool = nodePool[:len(nodePool)-1]
	return n
}

func newRawNode() *node {
	nd := &node{priv: newKey(), log: &capLogger{}}
	nd.pub = nd.priv.PublicKey().Bytes()
	nd.pubHex = hex.EncodeToString(nd.pub)
	return nd
}

// ---------- records ----------

type sentRec struct {
	ID     uint64
	From   int
	To     int
	Topic  lib.Topic
	G, Seq int
	Size   int
	Hash   [32]byte
	Path   string // direct | sendto | raw | fragment
	Fence  bool
	Forbid string       // when set: this message was sent after traffic that must close the connection; its delivery is a violation of this kind
	ok     atomic.Int32 // 0 pending, 1 accepted (Send returned true / SendTo nil), 2 refused
	// set by evaluate
	delivered int
	fenceCh   chan struct{}
}

type delivRec struct {
	At      int
	Topic   lib.Topic
	Sender  string // hex public key read from Sender.Address.PublicKey at pop time
	Size    int
	Hash    [32]byte
	Ord     int
	Kept    []byte // only when the hash is not one that was sent
	matched *sentRec
}

type world struct {
	res      *results
	name     string
	scenario string
	mask     uint64
	nodes    []*node
	conns    []*conn
	hostile  bool // deliveries that are no whole message are "partial-delivery" rather than "corrupted-message"

	mu     sync.Mutex
	recs   []*sentRec
	byHash map[[32]byte][]*sentRec
	deliv  []*delivRec
	ord    [8][nTopics + 2]int
	pubIdx map[string]int
	// lossOK[to][from]: the connection from->to was torn down (by the scenario or by the code) so that
	// whole-message loss on it is permitted
	lossOK    map[[2]int]bool
	unplanned int
	watchdogs int // waits that ended by the watchdog: the case cannot vouch for completeness any more
}

// gaveUp records that a wait ended by the watchdog: the run becomes inconclusive and this world's completeness
// check is skipped (what is outstanding may simply still be on its way).
func (w *world) gaveUp(format string, a ...any) {
	w.mu.Lock()
	w.watchdogs++
	w.mu.Unlock()
	w.res.inconclusive(format, a...)
}

func newWorld(res *results, name, scenario string, mask uint64) *world {
	return &world{res: res, name: name, scenario: scenario, mask: mask, byHash: map[[32]byte][]*sentRec{},
		pubIdx: map[string]int{}, lossOK: map[[2]int]bool{}}
}

func (w *world) addNode(n *node) *node {
	n.idx = len(w.nodes)
	n.quit = make(chan struct{})
	n.pcond = sync.NewCond(&n.pmu)
	w.nodes = append(w.nodes, n)
	w.pubIdx[n.pubHex] = n.idx
	if n.p != nil {
		for t := 0; t < nTopics; t++ {
			n.wg.Add(1)
			go w.consume(n, lib.Topic(t))
		}
	}
	return n
}

func (w *world) addRealNode() *node { return w.addNode(takeNode()) }
func (w *world) addRawNode() *node  { return w.addNode(newRawNode()) }

func (n *node) setPaused(t lib.Topic, v bool) {
	n.pmu.Lock()
	n.paused[t] = v
	n.pcond.Broadcast()
	n.pmu.Unlock()
}

// readSenderLikeController reads the sender identity the way controller/block.go:37 and friends do.
func readSenderLikeController(m *lib.MessageAndMetadata) []byte {
	if m.Sender == nil || m.Sender.Address == nil {
		return nil
	}
	return m.Sender.Address.PublicKey
}

func (w *world) consume(n *node, t lib.Topic) {
	defer n.wg.Done()
	ch := n.p.Inbox(t)
	for {
		n.pmu.Lock()
		for n.paused[t] {
			n.pcond.Wait()
		}
		n.pmu.Unlock()
		select {
		case m := <-ch:
			w.onDeliver(n.idx, t, hex.EncodeToString(readSenderLikeController(m)), m.Message)
		case <-n.quit:
			return
		}
	}
}

func (w *world) onDeliver(at int, t lib.Topic, sender string, msg []byte) {
	d := &delivRec{At: at, Topic: t, Sender: sender, Size: len(msg), Hash: sha(msg)}
	w.mu.Lock()
	d.Ord = w.ord[at][t]
	w.ord[at][t]++
	cands := w.byHash[d.Hash]
	if len(cands) == 0 {
		keep := msg
		if len(keep) > 1<<20 {
			keep = append(append([]byte(nil), msg[:1<<19]...), msg[len(msg)-(1<<19):]...)
		} else {
			keep = append([]byte(nil), msg...)
		}
		d.Kept = keep
	}
	w.deliv = append(w.deliv, d)
	var fence chan struct{}
	for _, c := range cands {
		if c.Fence && c.To == at && c.Topic == t && c.fenceCh != nil {
			fence = c.fenceCh
			c.fenceCh = nil
			break
		}
	}
	w.mu.Unlock()
	if fence != nil {
		close(fence)
	}
}

func (w *world) newRec(from, to int, t lib.Topic, g, seq, size int, path string) *sentRec {
	w.mu.Lock()
	r := &sentRec{ID: uint64(len(w.recs)) + 1, From: from, To: to, Topic: t, G: g, Seq: seq, Size: size, Path: path}
	w.recs = append(w.recs, r)
	w.mu.Unlock()
	return r
}

// register makes the exact bytes that are expected in the remote inbox known to the oracle (before sending).
func (w *world) register(r *sentRec, wire []byte) {
	h := sha(wire)
	w.mu.Lock()
	r.Hash, r.Size = h, len(wire)
	w.byHash[h] = append(w.byHash[h], r)
	w.mu.Unlock()
}

// registerHash is register for a message whose bytes the harness did not keep (streamed reference).
func (w *world) registerHash(r *sentRec, h [32]byte, size int) {
	w.mu.Lock()
	r.Hash, r.Size = h, size
	w.byHash[h] = append(w.byHash[h], r)
	w.mu.Unlock()
}

// ---------- connections ----------

const (
	modePeerSet = iota // P2P.AddPeer (peer set, SendTo*, authenticated Sender)
	modeDirect         // P2P.NewConnection (MultiConn.Send with its ok result)
	modeRaw            // p2p.NewHandshake only; the harness speaks the wire protocol itself
)

type endpoint struct {
	n, peer *node
	mode    int
	mc      *p2p.MultiConn
	ec      *p2p.EncryptedConn
	c       *conn
	wmu     sync.Mutex
	// raw reader state
	closed    chan struct{} // closed when the raw reader saw the connection end
	pings     atomic.Int64
	pongs     atomic.Int64
	autoPong  atomic.Bool
	rawPkts   atomic.Int64
	firstData atomic.Int64 // length of the first non-EOF data packet seen (probe of the chunk size)
}

type conn struct {
	lk   *link
	a, b *endpoint
}

type connOpts struct {
	capacity, maxRead int
	modeA, modeB      int
	// decoy: for peer-set endpoints, the caller-supplied (unauthenticated) identity placed in PeerInfo
	decoyPub []byte
}

var handshakeMeta = &lib.PeerMeta{NetworkId: p2pConfig.NetworkID, ChainId: p2pConfig.ChainId}

func (w *world) dialOne(e *endpoint, mc *memConn, outbound bool, decoy []byte) error {
	switch e.mode {
	case modePeerSet:
		info := &lib.PeerInfo{Address: &lib.PeerAddress{NetAddress: mc.RemoteAddr().String()}, IsOutbound: outbound}
		strict := false
		if outbound {
			// a configured dial peer: expected key known, checked strictly
			info.Address.PublicKey = e.peer.pub
			strict = true
		}
		if decoy != nil {
			info.Address.PublicKey, strict = decoy, false
		}
		if err := e.n.p.AddPeer(mc, info, false, strict); err != nil {
			return err
		}
		if !e.n.p.Has(e.peer.pub) {
			return fmt.Errorf("AddPeer returned nil but peer is not in the set")
		}
	case modeDirect:
		info := &lib.PeerInfo{Address: &lib.PeerAddress{PublicKey: e.peer.pub, NetAddress: mc.RemoteAddr().String()}, IsOutbound: outbound}
		m, err := e.n.p.NewConnection(mc, info)
		if err != nil {
			return err
		}
		e.mc = m
	case modeRaw:
		ec, err := p2p.NewHandshake(mc, handshakeMeta.Copy(), e.n.priv)
		if err != nil {
			return err
		}
		_ = ec.SetDeadline(time.Time{})
		e.ec = ec
		e.closed = make(chan struct{})
		e.autoPong.Store(true)
	}
	return nil
}

// connect joins a and b through a fresh in-memory link using the real handshake on both sides.
func (w *world) connect(a, b *node, o connOpts) (*conn, error) {
	var last error
	for attempt := 0; attempt < 3; attempt++ {
		lk := newLink(fmt.Sprintf("%s-%d-%d-%d", w.name, a.idx, b.idx, attempt), o.capacity, o.maxRead)
		c := &conn{lk: lk}
		c.a = &endpoint{n: a, peer: b, mode: o.modeA, c: c}
		c.b = &endpoint{n: b, peer: a, mode: o.modeB, c: c}
		errs := make([]error, 2)
		var wg sync.WaitGroup
		wg.Add(2)
		go func() { defer wg.Done(); errs[0] = w.dialOne(c.a, lk.a, true, o.decoyPub) }()
		go func() { defer wg.Done(); errs[1] = w.dialOne(c.b, lk.b, false, nil) }()
		wg.Wait()
		if errs[0] == nil && errs[1] == nil {
			w.mu.Lock()
			w.conns = append(w.conns, c)
			w.mu.Unlock()
			return c, nil
		}
		last = fmt.Errorf("a: %v / b: %v", errs[0], errs[1])
		lk.cut()
		c.a.stop()
		c.b.stop()
		w.res.count("handshake_retries", 1)
	}
	return nil, last
}

// stop tears the endpoint's side of the connection down the way its owner would.
func (e *endpoint) stop() {
	switch {
	case e.mc != nil:
		e.mc.Stop()
	case e.ec != nil:
		_ = e.ec.Close()
	}
}

func (w *world) permitLoss(a, b int) {
	w.mu.Lock()
	w.lossOK[[2]int{a, b}] = true
	w.lossOK[[2]int{b, a}] = true
	w.mu.Unlock()
}

// send hands one message to the real code on this endpoint (direct: MultiConn.Send, peer set: P2P.SendTo).
func (e *endpoint) send(w *world, r *sentRec, payload []byte) {
	switch e.mode {
	case modeDirect:
		w.register(r, payload)
		if e.mc.Send(r.Topic, payload) {
			r.ok.Store(1)
		} else {
			r.ok.Store(2)
		}
	case modePeerSet:
		msg := &p2p.Packet{Bytes: payload}
		wire, err := lib.Marshal(msg)
		if err != nil {
			panic(err)
		}
		w.register(r, wire)
		if err := e.n.p.SendTo(e.peer.pub, r.Topic, msg); err == nil {
			r.ok.Store(1)
		} else {
			r.ok.Store(2)
		}
	default:
		panic("send on raw endpoint: use rawMessage")
	}
}

// ---------- raw endpoint: the harness speaks the wire protocol ----------

func frameFor(pkt *p2p.Packet) []byte {
	a, err := lib.NewAny(pkt)
	if err != nil {
		panic(err)
	}
	bz, err := lib.Marshal(&p2p.Envelope{Payload: a})
	if err != nil {
		panic(err)
	}
	out := make([]byte, 4+len(bz))
	binary.BigEndian.PutUint32(out, uint32(len(bz)))
	copy(out[4:], bz)
	return out
}

func (e *endpoint) writeFrame(f []byte) error {
	e.wmu.Lock()
	defer e.wmu.Unlock()
	_, err := e.ec.Write(f)
	return err
}

func (e *endpoint) writePacket(t lib.Topic, eof bool, b []byte) error {
	return e.writeFrame(frameFor(&p2p.Packet{StreamId: t, Eof: eof, Bytes: b}))
}

// rawReader reassembles what the real node sends, independently of the code under test, and feeds the
// result to the oracle as deliveries at the raw node.
func (w *world) rawReader(e *endpoint) {
	defer close(e.closed)
	asm := map[lib.Topic][]byte{}
	sender := hex.EncodeToString(e.ec.Address.PublicKey)
	hdr := make([]byte, 4)
	for {
		if _, err := io.ReadFull(e.ec, hdr); err != nil {
			return
		}
		n := binary.BigEndian.Uint32(hdr)
		if n > wireMax {
			w.res.violate(fmt.Sprintf("oversize-wire-frame scenario=%s", w.scenario), w.name, map[string]any{"len": n})
			return
		}
		buf := make([]byte, n)
		if _, err := io.ReadFull(e.ec, buf); err != nil {
			return
		}
		env := new(p2p.Envelope)
		if err := lib.Unmarshal(buf, env); err != nil {
			w.res.violate(fmt.Sprintf("garbage-from-real-node scenario=%s", w.scenario), w.name, map[string]any{"err": err.Error()})
			return
		}
		m, err := lib.FromAny(env.Payload)
		if err != nil {
			w.res.violate(fmt.Sprintf("garbage-from-real-node scenario=%s", w.scenario), w.name, map[string]any{"err": err.Error()})
			return
		}
		pkt, ok := m.(*p2p.Packet)
		if !ok {
			continue
		}
		if pkt.StreamId == lib.Topic_HEARTBEAT {
			switch string(pkt.Bytes) {
			case "ping":
				e.pings.Add(1)
				if e.autoPong.Load() {
					_ = e.writePacket(lib.Topic_HEARTBEAT, true, []byte("pong"))
				}
			case "pong":
				e.pongs.Add(1)
			}
			continue
		}
		e.rawPkts.Add(1)
		if !pkt.Eof && e.firstData.Load() == 0 {
			e.firstData.Store(int64(len(pkt.Bytes)))
		}
		asm[pkt.StreamId] = append(asm[pkt.StreamId], pkt.Bytes...)
		if pkt.Eof {
			if pkt.StreamId >= 0 && pkt.StreamId < nTopics {
				w.onDeliver(e.n.idx, pkt.StreamId, sender, asm[pkt.StreamId])
			} else {
				w.res.violate(fmt.Sprintf("wrong-topic scenario=%s unknown stream from real node", w.scenario), w.name, map[string]any{"stream": pkt.StreamId})
			}
			asm[pkt.StreamId] = nil
		}
	}
}

// rawMessage sends payload as one whole message the way an honest implementation would (chunk-sized
// packets, EOF on the last) and records it as sent.
func (e *endpoint) rawMessage(w *world, r *sentRec, payload []byte, chunk int) error {
	w.register(r, payload)
	r.ok.Store(1)
	if len(payload) == 0 {
		return e.writePacket(r.Topic, true, nil)
	}
	for o := 0; o < len(payload); o += chunk {
		end := o + chunk
		if end > len(payload) {
			end = len(payload)
		}
		if err := e.writePacket(r.Topic, end == len(payload), payload[o:end]); err != nil {
			return err
		}
	}
	return nil
}

// ---------- quiescence ----------

// fence sends one marker message per topic on a direct endpoint after every sender on it has returned and
// waits until the markers have been popped remotely: per (connection, topic) the code is FIFO, so everything
// queued earlier has by then been delivered or dropped. Returns false if the watchdog fired.
func (w *world) fence(e *endpoint, topics []lib.Topic) bool {
	pending := append([]lib.Topic(nil), topics...)
	// a marker can itself be dropped by a full inbox (the code logs it; the loss budget covers it): re-send
	for attempt := 0; attempt < 3 && len(pending) > 0; attempt++ {
		chans := map[lib.Topic]chan struct{}{}
		for _, t := range pending {
			r := w.newRec(e.n.idx, e.peer.idx, t, -1, attempt, 24, "direct")
			r.Fence = true
			ch := make(chan struct{})
			w.mu.Lock()
			r.fenceCh = ch
			w.mu.Unlock()
			e.send(w, r, makePayload(24, r.ID, w.mask))
			if r.ok.Load() != 1 {
				// refused: the stream was closed; the code reports the reason through OnPeerError
				return waitFor(5*time.Second, func() bool { return w.connDead(e) })
			}
			chans[t] = ch
		}
		to := time.After(watchdog / 3)
		tick := time.NewTicker(20 * time.Millisecond)
		var still []lib.Topic
		for _, t := range pending {
			ch := chans[t]
		wait:
			for {
				select {
				case <-ch:
					break wait
				case <-tick.C:
					if w.connDead(e) {
						tick.Stop()
						return true
					}
				case <-to:
					still = append(still, t)
					to = time.After(0) // the remaining topics get no additional wait in this round
					break wait
				}
			}
		}
		tick.Stop()
		pending = still
	}
	return len(pending) == 0
}

// connDead reports whether the code itself dropped the connection of this endpoint (either side logged a
// peer error for the other); from then on whole-message loss on it is permitted.
func (w *world) connDead(e *endpoint) bool {
	_, d1 := e.n.log.peerErr(e.peer.pubHex)
	_, d2 := e.peer.log.peerErr(e.n.pubHex)
	if !d1 && !d2 {
		return false
	}
	w.mu.Lock()
	first := !w.lossOK[[2]int{e.n.idx, e.peer.idx}]
	w.lossOK[[2]int{e.n.idx, e.peer.idx}] = true
	w.lossOK[[2]int{e.peer.idx, e.n.idx}] = true
	w.unplanned += map[bool]int{true: 1, false: 0}[first]
	w.mu.Unlock()
	if first {
		w.res.count("connections_dropped_by_code_unplanned", 1)
		if os.Getenv("VERIF_C18_DEBUG") != "" {
			fmt.Printf("DEBUG %s conn %d-%d dropped\n  %d: %q\n  %d: %q\n", w.name, e.n.idx, e.peer.idx, e.n.idx, e.n.log.lastLines(), e.peer.idx, e.peer.log.lastLines())
		}
	}
	return true
}

// waitCount waits until pred() holds (polled) or the watchdog fires.
func waitFor(d time.Duration, pred func() bool) bool {
	deadline := time.Now().Add(d)
	for !pred() {
		if time.Now().After(deadline) {
			return false
		}
		time.Sleep(2 * time.Millisecond)
	}
	return true
}

func (w *world) deliveredCount() int { w.mu.Lock(); defer w.mu.Unlock(); return len(w.deliv) }

// settle waits until the inboxes of all real nodes are empty and nothing new has been popped for a moment.
// It only affects how much the oracle gets to see, never what it concludes.
func (w *world) settle() {
	last, stable := -1, 0
	for i := 0; i < 400 && stable < 5; i++ {
		n := w.deliveredCount()
		empty := true
		for _, nd := range w.nodes {
			if nd.p == nil {
				continue
			}
			for _, c := range nd.p.GetInboxStats() {
				if c > 0 {
					empty = false
				}
			}
		}
		if n == last && empty {
			stable++
		} else {
			stable = 0
		}
		last = n
		time.Sleep(5 * time.Millisecond)
	}
}

// close stops all nodes' consumers and connections of the world.
func (w *world) close() {
	for _, c := range w.conns {
		c.a.stop()
		c.b.stop()
		c.lk.cut()
	}
	for _, n := range w.nodes {
		if n.p != nil {
			n.p.Stop()
		}
		n.setAllUnpaused()
		close(n.quit)
	}
	for _, n := range w.nodes {
		n.wg.Wait()
		if n.dir != "" {
			_ = os.RemoveAll(n.dir)
		}
	}
}

func (n *node) setAllUnpaused() {
	n.pmu.Lock()
	for i := range n.paused {
		n.paused[i] = false
	}
	n.pcond.Broadcast()
	n.pmu.Unlock()
}

// ---------- the delivery oracle ----------

type evalOpts struct {
	// complete: every accepted direct message whose connection was not torn down must have been delivered
	complete bool
	// ordered: direct messages of one sender goroutine on one topic arrive in the order they were handed over
	ordered bool
}

func topicName(t lib.Topic) string { return lib.Topic_name[int32(t)] }

func (w *world) describe(d *delivRec) map[string]any {
	m := map[string]any{"at_node": d.At, "topic": topicName(d.Topic), "sender_pub": d.Sender, "size": d.Size, "sha256": short(d.Hash), "inbox_order": d.Ord}
	if idx, ok := w.pubIdx[d.Sender]; ok {
		m["sender_node"] = idx
	}
	return m
}

func describeRec(r *sentRec) map[string]any {
	return map[string]any{"msg_id": r.ID, "from_node": r.From, "to_node": r.To, "topic": topicName(r.Topic), "goroutine": r.G, "seq": r.Seq,
		"size": r.Size, "sha256": short(r.Hash), "path": r.Path, "send_result": r.ok.Load()}
}

func (w *world) evaluate(o evalOpts) {
	// connections the code dropped on its own (heartbeat timeout under load, ...) are looked up in its log
	w.mu.Lock()
	conns := append([]*conn(nil), w.conns...)
	w.mu.Unlock()
	for _, c := range conns {
		if c.a != nil && c.a.n != nil && c.a.peer != nil {
			w.connDead(c.a)
		}
	}
	w.mu.Lock()
	defer w.mu.Unlock()
	known := func(id uint64) (int, bool) {
		if id == 0 || id > uint64(len(w.recs)) {
			return 0, false
		}
		return w.recs[id-1].Size, true
	}
	viol := func(kind, detail string, wit map[string]any) {
		wit["scenario"] = w.scenario
		w.res.violate(strings.TrimSpace(fmt.Sprintf("%s scenario=%s %s", kind, w.scenario, detail)), w.name, wit)
	}
	type key struct {
		from, to int
		topic    lib.Topic
		hash     [32]byte
	}
	sentN, gotN := map[key]int{}, map[key]int{}
	for _, r := range w.recs {
		sentN[key{r.From, r.To, r.Topic, r.Hash}]++
	}
	sort.SliceStable(w.deliv, func(i, j int) bool {
		a, b := w.deliv[i], w.deliv[j]
		if a.At != b.At {
			return a.At < b.At
		}
		if a.Topic != b.Topic {
			return a.Topic < b.Topic
		}
		return a.Ord < b.Ord
	})
	lastSeq := map[[4]int]int{}
	for _, d := range w.deliv {
		w.res.count("deliveries_checked", 1)
		cands := w.byHash[d.Hash]
		if len(cands) == 0 {
			segs, unexpl := decodeSegments(d.Kept, w.mask, known)
			wit := map[string]any{"delivered": w.describe(d), "decoded_segments": segs, "unexplained_bytes": unexpl, "head": lib.BytesToString(d.Kept[:min(len(d.Kept), 48)])}
			var parts []map[string]any
			for i, s := range segs {
				if i < 6 {
					parts = append(parts, describeRec(w.recs[s.ID-1]))
				}
			}
			wit["segment_messages"] = parts
			zero := len(d.Kept) > 0
			for _, x := range d.Kept {
				if x != 0 {
					zero = false
					break
				}
			}
			if zero {
				// all zero bytes of some length: is there a message of exactly that length on that stream?
				for _, r := range w.recs {
					if r.To == d.At && r.Topic == d.Topic && r.Size == d.Size && r.Path != "fragment" {
						wit["same_length_message_sent"] = describeRec(r)
						break
					}
				}
			}
			// was the connection this came over torn down (by the scenario or by the code)? Then the known
			// teardown race can explain a zeroed or tail-only delivery; on a connection that stayed up it cannot.
			connState := "conn=up"
			if si, ok := w.pubIdx[d.Sender]; ok && w.lossOK[[2]int{si, d.At}] {
				connState = "conn=torn-down"
			}
			switch {
			case zero:
				viol("corrupted-message", "shape=zeroed "+connState, wit)
			case w.hostile && len(segs) > 0:
				viol("partial-delivery", connState, wit)
			case len(segs) == 0:
				viol("phantom-message", "", wit)
			case len(segs) == 1 && segs[0].FromByte == 0 && segs[0].Len < w.recs[segs[0].ID-1].Size:
				viol("corrupted-message", "shape=truncated "+connState, wit)
			case len(segs) == 1:
				viol("corrupted-message", "shape=fragment "+connState, wit)
			default:
				shape := "merged"
				ids := map[uint64]bool{}
				for _, s := range segs {
					ids[s.ID] = true
				}
				if len(ids) < len(segs) {
					shape = "interleaved"
				}
				viol("corrupted-message", "shape="+shape+" "+connState, wit)
			}
			continue
		}
		senderIdx, senderKnown := w.pubIdx[d.Sender]
		var toOK, topicOK, senderOK []*sentRec
		for _, c := range cands {
			if c.To == d.At {
				toOK = append(toOK, c)
				if c.Topic == d.Topic {
					topicOK = append(topicOK, c)
					if senderKnown && c.From == senderIdx {
						senderOK = append(senderOK, c)
					}
				}
			}
		}
		wit := map[string]any{"delivered": w.describe(d), "sent_as": describeRec(cands[0])}
		switch {
		case len(toOK) == 0:
			viol("wrong-destination", "", wit)
			continue
		case len(topicOK) == 0:
			wit["sent_as"] = describeRec(toOK[0])
			viol("wrong-topic", fmt.Sprintf("sent=%s got=%s", topicName(toOK[0].Topic), topicName(d.Topic)), wit)
			toOK[0].delivered++ // it did arrive: reported once, as what it is
			continue
		case len(senderOK) == 0:
			wit["sent_as"] = describeRec(topicOK[0])
			viol("wrong-sender", "", wit)
			topicOK[0].delivered++
			continue
		}
		k := key{senderIdx, d.At, d.Topic, d.Hash}
		gotN[k]++
		if gotN[k] > sentN[k] {
			wit["sent_count"], wit["delivered_count"] = sentN[k], gotN[k]
			viol("duplicate-message", "", wit)
			continue
		}
		if f := senderOK[0].Forbid; f != "" {
			viol(f, "", wit)
			continue
		}
		// attach to the first not yet delivered candidate (in send order)
		var m *sentRec
		for _, c := range senderOK {
			if c.delivered == 0 {
				m = c
				break
			}
		}
		m.delivered++
		d.matched = m
		if o.ordered && m.Path != "sendto" && m.G >= 0 && d.Size > 8 {
			ok := [4]int{m.From, m.To, int(m.Topic), m.G}
			if prev, seen := lastSeq[ok]; seen && m.Seq < prev {
				wit["previous_seq_delivered"] = prev
				viol("reordered-message", "path="+m.Path, wit)
			}
			lastSeq[ok] = m.Seq
			w.res.count("order_pairs_checked", 1)
		}
	}
	// completeness
	missing := map[[2]int][]*sentRec{} // (to, topic) -> accepted direct messages that never arrived
	var nAccepted, nDelivered, nRefused int
	for _, r := range w.recs {
		switch r.ok.Load() {
		case 1:
			nAccepted++
		case 2:
			nRefused++
		}
		if r.delivered > 0 {
			nDelivered++
			continue
		}
		if r.ok.Load() == 1 && r.Path != "sendto" && !w.lossOK[[2]int{r.From, r.To}] {
			missing[[2]int{r.To, int(r.Topic)}] = append(missing[[2]int{r.To, int(r.Topic)}], r)
		}
	}
	w.res.count("messages_accepted_by_send", int64(nAccepted))
	w.res.count("messages_refused_by_send", int64(nRefused))
	w.res.count("messages_delivered_whole", int64(nDelivered))
	if o.complete && w.watchdogs == 0 {
		for k, ms := range missing {
			var budget int64
			if nd := w.nodes[k[0]]; nd.p != nil {
				budget = nd.log.inboxFull[k[1]].Load()
			}
			w.res.count("losses_permitted_inbox_full", min(budget, int64(len(ms))))
			if int64(len(ms)) > budget {
				var list []map[string]any
				for i, r := range ms {
					if i < 5 {
						list = append(list, describeRec(r))
					}
				}
				viol("lost-message", "path="+ms[0].Path, map[string]any{"missing": len(ms), "inbox_full_drops_logged_by_code": budget, "first_missing": list,
					"receiver_log_tail": w.nodes[k[0]].log.lastLines()})
			}
		}
	}
}
