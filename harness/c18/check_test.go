package c18

// C18 — multiplexed peer messaging delivers whole messages on the right topic; no data race.
//
// Runtime monitoring of the real p2p package: 2-4 real p2p.P2P nodes (and raw peers that complete the real
// encrypted handshake) are joined by in-memory links, no sockets. Three monitors:
//  1. delivery oracle  — everything handed to MultiConn.Send / P2P.SendTo is recorded as
//     (destination, topic, SHA-256, authenticated sender); everything popped from the remote inboxes must be
//     one of those, on that topic, from that sender, at most as often as sent, per-sender FIFO on the
//     synchronous path, and complete except for losses the code itself reports (inbox full) or that follow a
//     teardown. Payloads are self-describing so a truncated / merged / interleaved delivery is explained.
//  2. hostile raw peer — malformed, over-limit and EOF-less traffic: connection closed, nothing partial in
//     any inbox, an honest neighbour of the victim unaffected.
//  3. race detector    — the same workloads (plus teardown while messages are in flight, heartbeats running,
//     set API users) in child processes built with -race at several GOMAXPROCS; every distinct report is a
//     violation "data-race <top canopy frame A> | <top canopy frame B>".

import (
	"bufio"
	"bytes"
	"encoding/json"
	"fmt"
	"os"
	"os/exec"
	"path/filepath"
	"regexp"
	"sort"
	"strconv"
	"strings"
	"sync"
	"testing"
	"time"

	"verif/core"
)

// ---------- case list: a pure function of (seed, tier) ----------

func parentCases() []string {
	var cs []string
	// the long-running one first
	for i := 0; i < core.Pick(1, 3); i++ {
		cs = append(cs, fmt.Sprintf("slow-link/%d", i))
	}
	for _, k := range []string{"overlimit", "overlimit-by-one", "at-limit"} {
		for i := 0; i < core.Pick(1, 3); i++ {
			if k == "at-limit" && !core.Thorough() {
				continue // a whole 256 MB message costs the receiver seconds of reallocation: thorough tier
			}
			cs = append(cs, fmt.Sprintf("hostile/%s/%d", k, i))
		}
	}
	if core.Thorough() {
		cs = append(cs, "limit/at", "limit/over")
	}
	for i := 0; i < core.Pick(4, 40); i++ {
		cs = append(cs, fmt.Sprintf("contend/%d", i))
	}
	for i := 0; i < core.Pick(2, 24); i++ {
		cs = append(cs, fmt.Sprintf("mesh/big/%d", i))
	}
	for i := 0; i < core.Pick(5, 100); i++ {
		cs = append(cs, fmt.Sprintf("mesh/boundary/%d", i))
	}
	for i := 0; i < core.Pick(10, 250); i++ {
		cs = append(cs, fmt.Sprintf("mesh/small/%d", i))
	}
	for _, k := range hostileKinds {
		if strings.HasPrefix(k, "overlimit") || k == "at-limit" {
			continue
		}
		for i := 0; i < core.Pick(2, 16); i++ {
			cs = append(cs, fmt.Sprintf("hostile/%s/%d", k, i))
		}
	}
	for i := 0; i < core.Pick(3, 20); i++ {
		cs = append(cs, fmt.Sprintf("early-send/%d", i))
	}
	for _, k := range teardownKinds {
		for i := 0; i < core.Pick(2, 25); i++ {
			cs = append(cs, fmt.Sprintf("teardown/%s/%d", k, i))
		}
	}
	for i := 0; i < core.Pick(1, 6); i++ {
		cs = append(cs, fmt.Sprintf("inbox-full/%d", i))
	}
	return cs
}

type childSpec struct {
	Procs  int      `json:"procs"` // GOMAXPROCS of a race child
	Shard  int      `json:"shard"`
	Race   bool     `json:"race"`
	Budget int      `json:"budget"` // weight of cases running at once
	Chunk  int      `json:"chunk"`  // packet payload size measured by the probe child (0: measure)
	Cases  []string `json:"cases"`
}

func raceChildren() []childSpec {
	var out []childSpec
	procs := []int{2, 8}
	shards := 1
	if core.Thorough() {
		procs = []int{2, 4, 16}
		shards = 4
	}
	for _, p := range procs {
		for s := 0; s < shards; s++ {
			pre := fmt.Sprintf("race-p%d/s%d/", p, s)
			var cs []string
			for _, k := range teardownKinds {
				for i := 0; i < core.Pick(1, 3); i++ {
					cs = append(cs, fmt.Sprintf("%steardown/%s/%d", pre, k, i))
				}
			}
			for i := 0; i < core.Pick(3, 8); i++ {
				cs = append(cs, fmt.Sprintf("%smesh/small/%d", pre, i))
			}
			for i := 0; i < core.Pick(1, 3); i++ {
				cs = append(cs, fmt.Sprintf("%smesh/boundary/%d", pre, i))
			}
			for _, k := range hostileKinds {
				if strings.HasPrefix(k, "overlimit") || k == "at-limit" {
					continue
				}
				cs = append(cs, fmt.Sprintf("%shostile/%s/0", pre, k))
			}
			cs = append(cs, pre+"early-send/0", pre+"early-send/1", pre+"inbox-full/0", pre+"contend/0")
			out = append(out, childSpec{Procs: p, Shard: s, Cases: cs})
		}
	}
	return out
}

var racePrefix = regexp.MustCompile(`^race-p\d+/s\d+/`)

func nodesNeeded(name string) int {
	base := racePrefix.ReplaceAllString(name, "")
	if strings.Contains(base, "overlimit") || strings.Contains(base, "at-limit") {
		return 6
	}
	switch strings.SplitN(base, "/", 2)[0] {
	case "mesh":
		return 4
	case "hostile", "inbox-full", "slow-link", "limit", "contend":
		return 2
	case "teardown":
		return 3
	default:
		return 1
	}
}

// runCase dispatches one named case; the PRNG stream is named by the full case name.
func runCase(res *results, name string) {
	rng := core.NewRand(core.Seed(), "C18/"+name)
	inRace := racePrefix.MatchString(name)
	base := racePrefix.ReplaceAllString(name, "")
	f := strings.Split(base, "/")
	hold := time.Duration(0)
	if inRace {
		hold = 1200 * time.Millisecond // > heartbeatInterval: pings and pongs are on the wire when things are torn down
	}
	switch f[0] {
	case "mesh":
		mp := meshParams{class: f[1], nodes: 2 + rng.Intn(3), forceDir: -1, hold: hold}
		switch f[1] {
		case "small":
			mp.maxG, mp.msgs = 16, 20
		case "boundary":
			mp.maxG, mp.msgs = 6, 5
		case "big":
			mp.maxG, mp.msgs, mp.nodes = 5, 4, 2+rng.Intn(2)
		}
		if inRace {
			mp.maxG, mp.msgs = mp.maxG/2+1, mp.msgs/2+1
		}
		caseMesh(res, name, rng, mp)
	case "hostile":
		// the over-limit scripts need 256 MB to get through before the victim's own 3 s heartbeat deadline
		// ends the connection for an unrelated reason; on a starved machine they get a second (thorough: third) attempt
		for attempt := 0; attempt < core.Pick(2, 3); attempt++ {
			if caseHostile(res, name, f[1], rng) {
				break
			}
			res.count("hostile_overlimit_retries", 1)
		}
	case "early-send":
		caseEarlySend(res, name, rng, !inRace || rng.Intn(2) == 0)
	case "teardown":
		caseTeardown(res, name, f[1], rng, hold)
	case "inbox-full":
		caseInboxFull(res, name, rng)
	case "slow-link":
		caseSlowLink(res, name, rng)
	case "limit":
		caseLimit(res, name, f[1], rng)
	case "contend":
		caseContend(res, name, rng)
	default:
		panic("unknown case " + name)
	}
}

// weight is a rough cost of a case in "megabytes moved at once"; the pool admits cases up to a budget so that
// the 3 s heartbeat and 5 s write deadlines inside the code under test are not starved by the harness itself.
func weight(name string) int {
	base := racePrefix.ReplaceAllString(name, "")
	switch {
	case strings.HasPrefix(base, "slow-link"):
		return 0 // mostly asleep
	case strings.HasPrefix(base, "limit"), strings.Contains(base, "overlimit"), strings.Contains(base, "at-limit"):
		return 5
	case strings.HasPrefix(base, "mesh/big"), strings.HasPrefix(base, "mesh/boundary"), strings.HasPrefix(base, "contend"):
		return 3
	case strings.HasPrefix(base, "teardown"):
		return 2
	default:
		return 1
	}
}

// runCases runs the named cases concurrently up to a weight budget.
func runCases(res *results, names []string, budget int, progress *os.File) {
	var wg sync.WaitGroup
	var mu sync.Mutex
	cond := sync.NewCond(&mu)
	used := 0
	var pmu sync.Mutex
	note := func(s, n string) {
		if progress != nil {
			pmu.Lock()
			fmt.Fprintf(progress, "%s %s\n", s, n)
			pmu.Unlock()
		}
	}
	for _, n := range names {
		wt := min(weight(n), budget)
		mu.Lock()
		for used+wt > budget {
			cond.Wait()
		}
		used += wt
		mu.Unlock()
		wg.Add(1)
		go func(n string, wt int) {
			defer wg.Done()
			defer func() { mu.Lock(); used -= wt; cond.Broadcast(); mu.Unlock() }()
			note("START", n)
			t0 := time.Now()
			runCase(res, n)
			note("END", n)
			if os.Getenv("VERIF_C18_TIMING") != "" {
				fmt.Printf("TIMING %-40s %.2fs\n", n, time.Since(t0).Seconds())
			}
		}(n, wt)
	}
	wg.Wait()
}

func apply(run *core.Run, res *results) {
	res.mu.Lock()
	defer res.mu.Unlock()
	for _, v := range res.Viol {
		sel := "^" + regexp.QuoteMeta(v.Case) + "$"
		if v.Regex {
			sel = v.Case
		}
		run.Violation(v.Sig, sel, v.Witness)
	}
	names := make([]string, 0, len(res.Counts))
	for k := range res.Counts {
		names = append(names, k)
	}
	sort.Strings(names)
	for _, k := range names {
		run.Count(k, res.Counts[k])
	}
	run.Eval(int(res.Evals))
	for _, d := range res.Distinct {
		run.Distinct(d)
	}
	for _, s := range res.Samples {
		run.Sample(s)
	}
	for _, s := range res.Inconcl {
		run.Inconclusive("%s", s)
	}
}

func filter(run *core.Run, names []string) []string {
	var out []string
	for _, n := range names {
		if run.Want(n) {
			out = append(out, n)
		}
	}
	return out
}

func TestCheck(t *testing.T) {
	run := core.Start(t, "C18", "exploration",
		"real p2p nodes over in-memory links; distinct_nontrivial = distinct workload plans (hash of every sender goroutine's (destination, topic, size) "+
			"list and the link parameters) in which at least one (connection, topic) stream carried two or more messages from concurrent goroutines "+
			"and every accepted message was accounted for, plus distinct (hostile script, topics), (teardown kind, mode, buffer, trigger count), "+
			"inbox-overflow and send-timeout cases in which the event aimed at was actually observed")
	defer run.Finish()
	run.MinDistinct = core.Pick(40, 300)
	run.Assume("SHA-256 is collision free; the in-memory link delivers bytes in order and unmodified (it is the harness's own 200 lines)")
	run.Assume("losses are accepted only when the code itself logged 'Inbox ... queue full' for that node and topic, or after a teardown of that connection")

	tmp, err := os.MkdirTemp("", "c18-")
	if err != nil {
		t.Fatal(err)
	}
	defer os.RemoveAll(tmp)

	// Every case runs in a child process: the code under test can crash the process (and does: see the
	// crash-in-canopy signature), which must cost one observation, not the run.
	var children []childSpec
	var plain, heavyCases []string
	for _, n := range filter(run, parentCases()) {
		if weight(n) >= 5 {
			heavyCases = append(heavyCases, n) // 256 MB through one stream: run before everything else, one at a time
		} else {
			plain = append(plain, n)
		}
	}
	shards := core.Pick(3, 6)
	for s := 0; s < shards; s++ {
		ch := childSpec{Shard: s, Budget: core.Pick(4, 4)}
		for i, n := range plain {
			if i%shards == s {
				ch.Cases = append(ch.Cases, n)
			}
		}
		if len(ch.Cases) > 0 {
			children = append(children, ch)
		}
	}
	raceBin := os.Getenv("VERIF_RACE_BIN")
	raceWanted := false
	for _, ch := range raceChildren() {
		ch.Cases = filter(run, ch.Cases)
		if len(ch.Cases) == 0 {
			continue
		}
		raceWanted = true
		if raceBin == "" {
			continue
		}
		ch.Race = true
		ch.Budget = max(3, min(ch.Procs, 6))
		children = append(children, ch)
	}
	if raceWanted && raceBin == "" {
		run.Inconclusive("VERIF_RACE_BIN not set: the race-detector monitor did not run")
	}
	res := newResults()
	reports := map[string]*raceReport{}
	var rmu sync.Mutex
	var cwg sync.WaitGroup
	// a first, tiny child measures the packet payload size of the real sender
	runChild(t, os.Args[0], tmp, childSpec{Shard: 99}, res, reports, &rmu)
	measured := int(res.Counts["packet_payload_bytes_last_probe"])
	if measured == 0 {
		t.Fatalf("probe child did not report a packet payload size")
	}
	for i := range children {
		children[i].Chunk = measured
	}
	if len(heavyCases) > 0 {
		// the victim of an over-limit script has to take in 256 MB without ever pausing for 3 s (its own
		// heartbeat deadline); nothing else of this check runs meanwhile
		runChild(t, os.Args[0], tmp, childSpec{Shard: 98, Budget: 1, Chunk: measured, Cases: heavyCases}, res, reports, &rmu)
	}
	slots := make(chan struct{}, core.Pick(5, 5)) // child processes at a time
	for _, ch := range children {
		cwg.Add(1)
		go func(ch childSpec) {
			defer cwg.Done()
			slots <- struct{}{}
			defer func() { <-slots }()
			bin := os.Args[0]
			if ch.Race {
				bin = raceBin
			}
			runChild(t, bin, tmp, ch, res, reports, &rmu)
		}(ch)
	}
	cwg.Wait()
	apply(run, res)
	run.Extra("measured_packet_payload_bytes", res.Counts["packet_payload_bytes_last_probe"])
	run.Extra("message_size_limit_bytes", maxMsg)
	capReached := res.Counts["hostile_rejected_by_message_size_cap"] > 0
	run.Extra("message_size_cap_reached", capReached)
	if run.Want("hostile/overlimit/0") && !capReached {
		// the sub-monitor for handlePacket's cap saw nothing: the victim could not take in 256 MB without pausing
		// for 3 s (its own heartbeat deadline). The wire-frame cap scripts still ran. The thorough tier refuses to
		// pass without it; the quick tier says so and goes on.
		fmt.Println("NOTE property=C18 the 256 MB message-size cap was not reached (over-limit scripts were ended by the victim's heartbeat timeout); see message_size_cap_reached in the evidence")
		if core.Thorough() {
			run.Inconclusive("the message-size cap was never reached in this run (over-limit scripts ended by the victim's heartbeat timeout)")
		}
	}
	if raceWanted && raceBin != "" {
		keys := make([]string, 0, len(reports))
		for k := range reports {
			keys = append(keys, k)
		}
		sort.Strings(keys)
		run.Count("race_distinct_reports", int64(len(keys)))
		for _, k := range keys {
			r := reports[k]
			run.Violation(k, "^"+regexp.QuoteMeta(r.casePrefix), map[string]any{"occurrences": r.n, "gomaxprocs": r.procs, "first_report": r.text})
		}
	}
}

// ---------- child processes ----------

type childJob struct {
	Spec childSpec `json:"spec"`
	Out  string    `json:"out"`
	Dir  string    `json:"dir"`
}

var (
	panicLine   = regexp.MustCompile(`(?m)^(panic:|fatal error:).*$`)
	canopyFrame = regexp.MustCompile(`github\.com/canopy-network/canopy/([^\s(]+(\([^)]*\))?[^\s(]*)`)
)

// runChild runs the cases of one shard in a child process; if the child dies it records why and carries on
// with the cases that had not been started.
func runChild(t *testing.T, bin, tmp string, ch childSpec, res *results, reports map[string]*raceReport, rmu *sync.Mutex) {
	prefix := fmt.Sprintf("plain/s%d", ch.Shard)
	if ch.Race {
		prefix = fmt.Sprintf("race-p%d/s%d/", ch.Procs, ch.Shard)
	}
	remaining := ch.Cases
	crashedWith := map[string]int{}
	for attempt := 0; (len(remaining) > 0 || ch.Shard == 99) && attempt < 10; attempt++ {
		dir := filepath.Join(tmp, fmt.Sprintf("child-%s-%d", strings.ReplaceAll(prefix, "/", "_"), attempt))
		_ = os.MkdirAll(dir, 0o755)
		spec := ch
		spec.Cases = remaining
		job := childJob{Spec: spec, Out: filepath.Join(dir, "out.json"), Dir: dir}
		jb, _ := json.Marshal(job)
		jobPath := filepath.Join(dir, "job.json")
		_ = os.WriteFile(jobPath, jb, 0o644)
		cmd := exec.Command(bin, "-test.run", "^TestChild$", "-test.count=1", "-test.timeout", "3h")
		cmd.Env = append(os.Environ(), "VERIF_C18_CHILD="+jobPath)
		if os.Getenv("GOGC") == "" {
			cmd.Env = append(cmd.Env, "GOGC=400") // fewer collector pauses inside the code's 3 s deadlines; memory is not the constraint
		}
		if ch.Race {
			cmd.Env = append(cmd.Env, "GOMAXPROCS="+strconv.Itoa(ch.Procs),
				"GORACE=halt_on_error=0 history_size=3 log_path="+filepath.Join(dir, "race"))
		}
		logf, _ := os.Create(filepath.Join(dir, "stdout"))
		cmd.Stdout, cmd.Stderr = logf, logf
		err := cmd.Run()
		logf.Close()
		if os.Getenv("VERIF_C18_TIMING") != "" {
			lg, _ := os.ReadFile(filepath.Join(dir, "stdout"))
			for _, ln := range strings.Split(string(lg), "\n") {
				if strings.HasPrefix(ln, "TIMING") || strings.HasPrefix(ln, "DEBUG") {
					fmt.Println(ln)
				}
			}
		}
		if ch.Race {
			collectRaces(t, dir, prefix, ch.Procs, res, reports, rmu)
		}
		out, rerr := os.ReadFile(job.Out)
		if rerr == nil {
			var cr results
			if err := json.Unmarshal(out, &cr); err != nil {
				t.Errorf("child result: %v", err)
				return
			}
			mergeChild(res, &cr, ch.Race)
			return
		}
		// no result: the child died. Inside canopy = an observation; elsewhere = my error.
		lg, _ := os.ReadFile(filepath.Join(dir, "stdout"))
		prog, _ := os.ReadFile(filepath.Join(dir, "progress"))
		active, ended := progressOf(prog)
		m := panicLine.Find(lg)
		if m == nil || !bytes.Contains(lg, []byte(canopyPath)) {
			t.Errorf("child %s failed without a result: %v\n%s", prefix, err, tail(lg, 3000))
			res.inconclusive("child %s died outside canopy code", prefix)
			return
		}
		fn := "?"
		if f := canopyFrame.FindSubmatch(lg[bytes.Index(lg, m):]); f != nil {
			fn = string(f[1])
			if i := strings.Index(fn, "("); i > 0 && !strings.HasPrefix(fn[i:], "(*") {
				fn = fn[:i]
			}
			if i := strings.LastIndex(fn, "("); i > 0 && !strings.HasPrefix(fn[i:], "(*") {
				fn = fn[:i]
			}
		}
		mode := "plain"
		if ch.Race {
			mode = "race"
		}
		res.mu.Lock()
		res.Viol = append(res.Viol, violation{Sig: fmt.Sprintf("crash-in-canopy %s at=%s", strings.TrimSpace(string(m)), fn),
			Case: strings.Join(quoteAll(active), "|"), Regex: true,
			Witness: map[string]any{"build": mode, "active_cases": active, "log_tail": tail(lg, 6000)}})
		res.mu.Unlock()
		res.count("child_process_crashes", 1)
		// carry on: finished cases are done; a case that was active at the crash gets one more chance (the
		// crash may have been another case's) and is spent the second time
		done := map[string]bool{}
		for _, n := range ended {
			done[n] = true
		}
		for _, n := range active {
			crashedWith[n]++
			if crashedWith[n] >= 2 {
				done[n] = true
				res.count("cases_spent_in_crashes", 1)
			}
		}
		var next []string
		for _, n := range remaining {
			if !done[n] {
				next = append(next, n)
			}
		}
		if len(active) == 0 && len(next) == len(remaining) && len(next) > 0 {
			next = next[1:] // no progress information: make sure the loop ends
		}
		remaining = next
	}
}

func quoteAll(names []string) []string {
	out := make([]string, len(names))
	for i, n := range names {
		out[i] = "^" + regexp.QuoteMeta(n) + "$"
	}
	return out
}

func mergeChild(res, cr *results, race bool) {
	res.mu.Lock()
	defer res.mu.Unlock()
	pre := ""
	if race {
		pre = "race_child_" // counters of race children are kept apart from those of the plain build
	}
	for k, v := range cr.Counts {
		if k == "packet_payload_bytes_last_probe" {
			res.Counts[k] = v
			continue
		}
		res.Counts[pre+k] += v
	}
	res.Viol = append(res.Viol, cr.Viol...)
	res.Evals += cr.Evals
	for _, d := range cr.Distinct {
		if race {
			d = "race/" + d
		}
		res.Distinct = append(res.Distinct, d)
	}
	for _, s := range cr.Samples {
		if len(res.Samples) < 8 {
			res.Samples = append(res.Samples, s)
		}
	}
	res.Inconcl = append(res.Inconcl, cr.Inconcl...)
	res.Counts[pre+"child_processes"]++
}

func collectRaces(t *testing.T, dir, prefix string, procs int, res *results, reports map[string]*raceReport, rmu *sync.Mutex) {
	files, _ := filepath.Glob(filepath.Join(dir, "race.*"))
	blocks := 0
	for _, f := range files {
		bz, _ := os.ReadFile(f)
		for _, b := range parseRaceLog(string(bz)) {
			blocks++
			sig, harnessOnly := b.signature()
			if harnessOnly {
				res.inconclusive("race inside the harness itself (fix the harness): %s", sig)
				t.Logf("harness-internal race:\n%s", b.text)
				continue
			}
			rmu.Lock()
			r := reports[sig]
			if r == nil {
				r = &raceReport{text: b.text, casePrefix: prefix}
				reports[sig] = r
			}
			r.n++
			r.procs = appendUnique(r.procs, procs)
			rmu.Unlock()
		}
	}
	res.count("race_report_blocks", int64(blocks))
}

func appendUnique(s []int, v int) []int {
	for _, x := range s {
		if x == v {
			return s
		}
	}
	return append(s, v)
}

func tail(b []byte, n int) string {
	if len(b) > n {
		b = b[len(b)-n:]
	}
	return string(b)
}

func progressOf(progress []byte) (active, ended []string) {
	act := map[string]bool{}
	sc := bufio.NewScanner(bytes.NewReader(progress))
	for sc.Scan() {
		f := strings.Fields(sc.Text())
		if len(f) == 2 {
			if f[0] == "START" {
				act[f[1]] = true
			} else {
				delete(act, f[1])
				ended = append(ended, f[1])
			}
		}
	}
	for k := range act {
		active = append(active, k)
	}
	sort.Strings(active)
	return
}

// TestChild is the body of a child process; it only runs when TestCheck re-executes the test binary.
func TestChild(t *testing.T) {
	jobPath := os.Getenv("VERIF_C18_CHILD")
	if jobPath == "" {
		t.Skip("helper for TestCheck")
	}
	jb, err := os.ReadFile(jobPath)
	if err != nil {
		t.Fatal(err)
	}
	var job childJob
	if err := json.Unmarshal(jb, &job); err != nil {
		t.Fatal(err)
	}
	need := 6
	for _, n := range job.Spec.Cases {
		need += nodesNeeded(n)
	}
	fillNodePool(need, job.Dir)
	res := newResults()
	raceMode = job.Spec.Race
	if chunk = job.Spec.Chunk; chunk == 0 {
		var perr error
		for i := 0; i < 3; i++ {
			if perr = probeChunk(res); perr == nil {
				break
			}
		}
		if perr != nil {
			t.Fatalf("probe: %v", perr)
		}
		res.mu.Lock()
		res.Counts["packet_payload_bytes_last_probe"] = int64(chunk)
		res.mu.Unlock()
	}
	progress, _ := os.Create(filepath.Join(job.Dir, "progress"))
	runCases(res, job.Spec.Cases, max(1, job.Spec.Budget), progress)
	res.mu.Lock()
	out, _ := json.Marshal(res)
	res.mu.Unlock()
	if err := os.WriteFile(job.Out, out, 0o644); err != nil {
		t.Fatal(err)
	}
}

// ---------- race log parsing ----------

type raceBlock struct {
	text   string
	stacks [][]string // function names of the two racing accesses, outermost last
}

type raceReport struct {
	text       string
	n          int
	procs      []int
	casePrefix string
}

var (
	accessHead = regexp.MustCompile(`^(Previous )?([Rr]ead|[Ww]rite|[Aa]tomic [a-z]+) at 0x[0-9a-f]+ by `)
	frameLine  = regexp.MustCompile(`^  (\S.*)$`)
)

func parseRaceLog(s string) []raceBlock {
	var out []raceBlock
	parts := strings.Split(s, "WARNING: DATA RACE")
	for _, p := range parts[1:] {
		if i := strings.Index(p, "=================="); i >= 0 {
			p = p[:i]
		}
		b := raceBlock{text: "WARNING: DATA RACE" + p}
		if len(b.text) > 7000 {
			b.text = b.text[:7000] + "\n…"
		}
		cur := -1
		for _, ln := range strings.Split(p, "\n") {
			switch {
			case accessHead.MatchString(ln):
				b.stacks = append(b.stacks, nil)
				cur = len(b.stacks) - 1
			case strings.TrimSpace(ln) == "" || !strings.HasPrefix(ln, " "):
				if strings.TrimSpace(ln) != "" {
					cur = -1 // "Goroutine N created at:" and the like
				}
			case cur >= 0 && strings.HasPrefix(ln, "      "):
				// file:line of the frame above — line numbers are not part of the identity
			case cur >= 0:
				if m := frameLine.FindStringSubmatch(ln); m != nil {
					fn := m[1]
					if i := strings.LastIndex(fn, "("); i > 0 && strings.HasSuffix(fn, ")") {
						fn = fn[:i]
					}
					b.stacks[cur] = append(b.stacks[cur], fn)
				}
			}
		}
		out = append(out, b)
	}
	return out
}

const canopyPath = "github.com/canopy-network/canopy/"

// signature is "data-race <A> | <B>" with A, B the top-most canopy frames of the two accesses (or, for an
// access made by a consumer of canopy data outside canopy, its top harness frame marked "consumer:").
func (b raceBlock) signature() (sig string, harnessOnly bool) {
	var tops []string
	canopy := 0
	for _, st := range b.stacks {
		top := ""
		for _, fn := range st {
			if strings.HasPrefix(fn, canopyPath) {
				top = strings.TrimPrefix(fn, canopyPath)
				if strings.HasPrefix(st[0], "runtime.") {
					top += "[" + strings.TrimPrefix(st[0], "runtime.") + "]" // which runtime operation on canopy data (chansend, closechan, mapaccess, ...)
				}
				canopy++
				break
			}
		}
		if top == "" {
			for _, fn := range st {
				if strings.HasPrefix(fn, "verif/") {
					top = "consumer:" + fn
					break
				}
			}
		}
		if top == "" && len(st) > 0 {
			top = "other:" + st[0]
		}
		tops = append(tops, top)
	}
	for len(tops) < 2 {
		tops = append(tops, "?")
	}
	sort.Strings(tops)
	return "data-race " + tops[0] + " | " + tops[1], canopy == 0
}
