package c18

import (
	"fmt"
	"io"
	"os"
	"sync"
	"testing"
	"time"

	"github.com/canopy-network/canopy/p2p"
)

// TestBenchLink measures the raw throughput of the in-memory link under the real encrypted connection
// (diagnostic only; runs when VERIF_C18_BENCH is set).
func TestBenchLink(t *testing.T) {
	if os.Getenv("VERIF_C18_BENCH") == "" {
		t.Skip("diagnostic")
	}
	for _, capacity := range []int{2048, 65536, 1 << 20} {
		lk := newLink("bench", capacity, 0)
		var ea, eb *p2p.EncryptedConn
		var wg sync.WaitGroup
		wg.Add(2)
		go func() { defer wg.Done(); ea, _ = p2p.NewHandshake(lk.a, handshakeMeta.Copy(), newKey()) }()
		go func() { defer wg.Done(); eb, _ = p2p.NewHandshake(lk.b, handshakeMeta.Copy(), newKey()) }()
		wg.Wait()
		if ea == nil || eb == nil {
			t.Fatal("handshake")
		}
		buf := make([]byte, 1_000_000)
		const n = 50
		t0 := time.Now()
		go func() {
			for i := 0; i < n; i++ {
				_, _ = ea.Write(buf)
			}
		}()
		rb := make([]byte, 1_000_000)
		for i := 0; i < n; i++ {
			if _, err := io.ReadFull(eb, rb); err != nil {
				t.Fatal(err)
			}
		}
		fmt.Printf("BENCH capacity=%d: %d MB in %.3fs\n", capacity, n, time.Since(t0).Seconds())
	}
}
