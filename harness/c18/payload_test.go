package c18

// Self-describing payloads. Message number id of a case has the byte string
//   word(0) word(1) word(2) ... truncated to its size,  word(i) = big-endian (id<<26 | i) XOR mask
// so every aligned 8-byte word names the message it belongs to and its position in it. A delivered byte
// string that is not exactly one sent message can therefore be decoded into "bytes a..b of message x,
// then bytes c..d of message y" for the witness. The verdict itself only uses SHA-256 equality.

import (
	"crypto/sha256"
	"encoding/binary"
	"fmt"
)

const (
	posBits = 26 // 2^26 words = 512 MiB > the message size limit
	posMask = (1 << posBits) - 1
)

// fillPayload writes into a buffer nobody else has seen yet; the race detector need not watch 125 000 stores
// per megabyte.
//
//go:norace
func fillPayload(dst []byte, id uint64, mask uint64) {
	n := len(dst)
	full := n / 8
	base := id << posBits
	for i := 0; i < full; i++ {
		binary.BigEndian.PutUint64(dst[i*8:], (base|uint64(i))^mask)
	}
	if r := n - full*8; r > 0 {
		var w [8]byte
		binary.BigEndian.PutUint64(w[:], (base|uint64(full))^mask)
		copy(dst[full*8:], w[:r])
	}
}

func makePayload(size int, id uint64, mask uint64) []byte {
	b := make([]byte, size)
	fillPayload(b, id, mask)
	return b
}

type segment struct {
	ID       uint64 `json:"msg_id"`
	FromByte int    `json:"from_byte"` // offset inside the original message
	Len      int    `json:"len"`
	At       int    `json:"at"` // offset inside the delivered bytes
}

// decodeSegments explains delivered bytes as runs of known messages (best effort, witness only).
// known reports whether id is a message of this case and its size.
func decodeSegments(b []byte, mask uint64, known func(id uint64) (size int, ok bool)) (segs []segment, unexplained int) {
	o := 0
	for o+8 <= len(b) {
		w := binary.BigEndian.Uint64(b[o:]) ^ mask
		id, pos := w>>posBits, int(w&posMask)
		size, ok := known(id)
		if !ok || pos*8 >= size+8 {
			o++ // resynchronise bytewise
			unexplained++
			continue
		}
		// a lone matching word in the middle of other bytes is a coincidence, not a segment
		if o+16 <= len(b) && (pos+2)*8 <= size {
			w2 := binary.BigEndian.Uint64(b[o+8:]) ^ mask
			if w2>>posBits != id || int(w2&posMask) != pos+1 {
				o++
				unexplained++
				continue
			}
		}
		seg := segment{ID: id, FromByte: pos * 8, At: o}
		for o+8 <= len(b) {
			w2 := binary.BigEndian.Uint64(b[o:]) ^ mask
			if w2>>posBits != id || int(w2&posMask) != pos {
				break
			}
			// the original may end inside this word
			if (pos+1)*8 > size {
				seg.Len += size - pos*8
				o += size - pos*8
				pos++
				break
			}
			seg.Len += 8
			o += 8
			pos++
		}
		if seg.Len == 0 {
			o++
			unexplained++
			continue
		}
		segs = append(segs, seg)
		if len(segs) > 64 {
			break
		}
	}
	if len(segs) <= 64 {
		unexplained += len(b) - o
	}
	return
}

func sha(b []byte) [32]byte { return sha256.Sum256(b) }

func short(h [32]byte) string { return fmt.Sprintf("%x", h[:8]) }
