package c02

// C02 — finality gate. A full node (real controller.HandlePeerBlock -> CommitCertificate) is offered, for its next
// height, every deviation of an honestly produced (block, certificate) pair that an attacker could assemble; the
// monitor is store.Version() before/after plus the call's result, judged against refs.ValidCert — an independent
// reference of "valid +2/3 certificate bound to this block" that uses kyber directly.

import (
	"bytes"
	"fmt"
	"math/rand"
	"os"
	"testing"

	"github.com/canopy-network/canopy/fsm"
	"github.com/canopy-network/canopy/lib"
	"github.com/canopy-network/canopy/lib/crypto"
	"verif/core"
	"verif/node"
	"verif/refs"
)

const chainID = 1

type dev struct {
	name  string
	qc    *lib.QuorumCertificate
	valid bool   // label by construction
	byRef bool   // label taken from the reference only (construction cannot tell)
	noRef bool   // the reference cannot judge it (needs block execution): the label by construction stands
	env   uint64 // chain id written into the block-message envelope (0 = the node's own)
}

func clone(q *lib.QuorumCertificate) *lib.QuorumCertificate {
	bz, err := lib.Marshal(q)
	if err != nil {
		panic(err)
	}
	o := new(lib.QuorumCertificate)
	if err = lib.Unmarshal(bz, o); err != nil {
		panic(err)
	}
	return o
}

func refCommittee(n *node.Node, rootHeight uint64) ([]refs.Member, error) {
	ro, err := n.Store.NewReadOnly(rootHeight)
	if err != nil {
		return nil, err
	}
	defer ro.Discard()
	vals, e := refs.RawValidators(ro)
	if e != nil {
		return nil, e
	}
	p, err := n.C.FSM.GetParamsVal()
	if err != nil {
		return nil, err
	}
	return refs.Committee(vals, chainID, false, p.MaxCommitteeSize), nil
}

// subsets of the committee with a given relation to the threshold
func subsetWithPower(vs lib.ValidatorSet, want func(p uint64) bool, rng *rand.Rand) map[int]bool {
	n := len(vs.ValidatorSet.ValidatorSet)
	if n > 16 {
		n = 16
	}
	var hits []int
	for m := 1; m < 1<<uint(n); m++ {
		var p uint64
		for i := 0; i < n; i++ {
			if m&(1<<uint(i)) != 0 {
				p += vs.ValidatorSet.ValidatorSet[i].VotingPower
			}
		}
		if want(p) {
			hits = append(hits, m)
		}
	}
	if len(hits) == 0 {
		return nil
	}
	m := hits[rng.Intn(len(hits))]
	out := map[int]bool{}
	for i := 0; i < n; i++ {
		if m&(1<<uint(i)) != 0 {
			out[i] = true
		}
	}
	return out
}

func pickOf(s map[int]bool) func(int, *lib.ConsensusValidator) bool {
	return func(i int, _ *lib.ConsensusValidator) bool { return s[i] }
}

func runCase(t *testing.T, run *core.Run, name string, idx int, rng *rand.Rand) {
	sizes := []int{4, 7, 1, 3, 10, 5}
	n := sizes[(idx/3)%len(sizes)]
	spec := &node.GenesisSpec{ChainID: chainID, Params: fsm.DefaultParams(), Accounts: map[string]uint64{}}
	style := idx % 3 // 0: unit stakes (threshold-1 reachable exactly), 1: weighted, 2: equal large
	for i := 0; i < n; i++ {
		stake := uint64(1_000_000)
		switch style {
		case 1:
			stake = uint64(1+rng.Intn(9)) * 1_000_000
		case 0:
			stake = uint64(1 + rng.Intn(3))
		}
		spec.Validators = append(spec.Validators, node.GenesisVal{Key: node.BLSKey(i), Stake: stake, Committees: []uint64{chainID}, Compound: false})
		spec.Accounts[node.BLSKey(i).PublicKey().Address().String()] = 1_000_000
	}
	a0, a1 := node.EdKey(0), node.EdKey(1)
	spec.Accounts[a0.PublicKey().Address().String()] = 1_000_000_000
	ch, err := node.NewChain(spec, 1, nil)
	if err != nil {
		t.Fatalf("%s: new chain: %v", name, err)
	}
	defer ch.Close()
	nd := ch.Nodes[0]
	send := func(amt uint64) []byte {
		tx, e := fsm.NewSendTransaction(a0, a1.PublicKey().Address(), amt, node.NetworkID, chainID, 10000, nd.Height(), "")
		if e != nil {
			t.Fatal(e)
		}
		bz, _ := lib.Marshal(tx)
		return bz
	}
	// honest prefix: 3 blocks; signer subsets at / above the threshold; one validator pauses so the committee changes
	for h := 0; h < 3; h++ {
		txs := [][]byte{send(1000 + uint64(h))}
		if h == 1 && n >= 4 {
			k := node.BLSKey(n - 1)
			tx, e := fsm.NewPauseTx(k, k.PublicKey().Address(), node.NetworkID, chainID, 10000, nd.Height(), "")
			if e != nil {
				t.Fatal(e)
			}
			bz, _ := lib.Marshal(tx)
			txs = append(txs, bz)
		}
		vs, e := ch.Committee(nd, nd.Height())
		if e != nil {
			t.Fatalf("%s: committee: %v", name, e)
		}
		var pick func(int, *lib.ConsensusValidator) bool
		if s := subsetWithPower(vs, func(p uint64) bool { return p >= vs.MinimumMaj23 }, rng); s != nil && rng.Intn(2) == 0 {
			pick = pickOf(s)
		}
		if _, err := ch.Step(0, txs, pick); err != nil {
			t.Fatalf("%s: honest step %d: %v", name, h, err)
		}
		run.Count("honest_blocks_committed", 1)
	}
	// the honest pair for the next height
	p, e := ch.Propose(0, [][]byte{send(7777)}, nil)
	if e != nil {
		t.Fatalf("%s: propose: %v", name, e)
	}
	other, e := ch.Propose(0, [][]byte{send(8888)}, nil) // a different valid block for the same height (one more transaction)
	if e != nil {
		t.Fatalf("%s: propose other: %v", name, e)
	}
	next := p.Block.BlockHeader.Height
	vs, e := ch.Committee(nd, p.QC.Header.RootHeight)
	if e != nil {
		t.Fatal(e)
	}
	thr := vs.MinimumMaj23
	honest := clone(p.QC)
	if _, _, er := ch.Certify(honest, vs, nil); er != nil {
		t.Fatal(er)
	}
	var devs []dev
	add := func(name string, valid bool, q *lib.QuorumCertificate) {
		devs = append(devs, dev{name: name, qc: q, valid: valid})
	}
	addRef := func(name string, q *lib.QuorumCertificate) { devs = append(devs, dev{name: name, qc: q, byRef: true}) }
	resign := func(q *lib.QuorumCertificate, who func(int, *lib.ConsensusValidator) bool) *lib.QuorumCertificate {
		if _, _, er := ch.Certify(q, vs, who); er != nil {
			q.Signature = honest.Signature
		}
		return q
	}
	minority := subsetWithPower(vs, func(p uint64) bool { return 3*p < vs.TotalPower }, rng)
	below := subsetWithPower(vs, func(p uint64) bool { return p == thr-1 }, rng)
	maxBelow := subsetWithPower(vs, func(p uint64) bool { return p < thr && p+minPower(vs) >= thr }, rng)
	exact := subsetWithPower(vs, func(p uint64) bool { return p == thr }, rng)
	above := subsetWithPower(vs, func(p uint64) bool { return p >= thr }, rng)

	if os.Getenv("VERIF_DEBUG") != "" {
		fmt.Printf("DEBUG %s n=%d style=%d thr=%d total=%d below=%v maxBelow=%v minority=%v exact=%v\n", name, n, style, thr, vs.TotalPower, below, maxBelow, minority, exact)
	}
	// 1. signer subsets around the threshold
	if below != nil {
		add("subset-power-threshold-minus-1", false, resign(clone(p.QC), pickOf(below)))
	}
	if maxBelow != nil {
		add("subset-largest-below-threshold", false, resign(clone(p.QC), pickOf(maxBelow)))
	}
	if minority != nil {
		add("subset-minority", false, resign(clone(p.QC), pickOf(minority)))
	}
	// 2. bitmap padded with bits of members that did not sign
	for _, base := range []map[int]bool{below, maxBelow, minority, exact} {
		if base == nil {
			continue
		}
		q := resign(clone(p.QC), pickOf(base))
		padded := false
		for i := range vs.ValidatorSet.ValidatorSet {
			if !base[i] {
				q.Signature.Bitmap[i/8] |= 1 << uint(i%8)
				padded = true
				if rng.Intn(2) == 0 {
					break
				}
			}
		}
		if padded {
			add("bitmap-padded-with-non-signers", false, q)
		}
	}
	// 2b. the unused bits of the last bitmap byte (positions >= committee size, no validator behind them) set on a
	// certificate whose real signers stay below the threshold: the aggregate signature still verifies
	if nv := len(vs.ValidatorSet.ValidatorSet); nv%8 != 0 {
		for bi, base := range []map[int]bool{below, maxBelow, minority} {
			if base == nil {
				continue
			}
			q := resign(clone(p.QC), pickOf(base))
			bm := q.Signature.Bitmap
			for i := nv; i < 8*len(bm); i++ {
				// all unused bits, or exactly as many as there are non-signers (so that the count of set bits equals the committee size)
				if bi%2 == 0 || i-nv < nv-len(base) {
					bm[i/8] |= 1 << uint(i%8)
				}
			}
			add("bitmap-unused-bits-set", false, q)
		}
	}
	// 3. bitmap length
	{
		q := clone(honest)
		q.Signature.Bitmap = append(q.Signature.Bitmap, 0)
		add("bitmap-extra-byte", false, q)
		q = clone(honest)
		q.Signature.Bitmap = append(q.Signature.Bitmap, 0xFF)
		add("bitmap-extra-byte-ff", false, q)
		if len(honest.Signature.Bitmap) > 1 {
			q = clone(honest)
			q.Signature.Bitmap = q.Signature.Bitmap[:len(q.Signature.Bitmap)-1]
			add("bitmap-truncated", false, q)
		}
		q = clone(honest)
		q.Signature.Bitmap = nil
		add("bitmap-empty", false, q)
	}
	// 4. signature over another payload / garbage
	{
		q := clone(p.QC)
		q.BlockHash = crypto.Hash([]byte("other"))
		resign(q, nil)
		g := clone(p.QC)
		g.Signature = q.Signature
		add("signature-over-other-payload", false, g)
		g = clone(honest)
		g.Signature.Signature = bytes.Repeat([]byte{0xC0}, 1)
		g.Signature.Signature = append(g.Signature.Signature, make([]byte, 95)...)
		add("signature-infinity-point", false, g)
		g = clone(honest)
		g.Signature.Signature[10] ^= 0x40
		add("signature-bit-flipped", false, g)
	}
	// 5. header deviations: without re-signing, re-signed by a minority, re-signed by everybody
	type hmut struct {
		name string
		f    func(h *lib.View)
		// validity when the whole committee re-signs the deviated header
		fullValid, fullByRef bool
	}
	hm := []hmut{
		{"height+1", func(h *lib.View) { h.Height++ }, false, false},
		{"height-1", func(h *lib.View) { h.Height-- }, false, false},
		{"network+1", func(h *lib.View) { h.NetworkId++ }, false, false},
		{"chain+1", func(h *lib.View) { h.ChainId++ }, false, false},
		{"round+1", func(h *lib.View) { h.Round++ }, true, false},
		{"rootheight-1", func(h *lib.View) { h.RootHeight-- }, false, true},
		{"phase=ELECTION_VOTE", func(h *lib.View) { h.Phase = lib.Phase_ELECTION_VOTE }, false, false},
		{"phase=PROPOSE_VOTE", func(h *lib.View) { h.Phase = lib.Phase_PROPOSE_VOTE }, false, false},
		{"phase=PROPOSE", func(h *lib.View) { h.Phase = lib.Phase_PROPOSE }, false, false},
		{"phase=COMMIT", func(h *lib.View) { h.Phase = lib.Phase_COMMIT }, false, false},
		{"phase=UNKNOWN", func(h *lib.View) { h.Phase = 0 }, false, false},
	}
	for _, m := range hm {
		q := clone(honest)
		m.f(q.Header)
		add("header "+m.name+" not-resigned", false, q)
		if minority != nil {
			q = clone(p.QC)
			m.f(q.Header)
			add("header "+m.name+" resigned-by-minority", false, resign(q, pickOf(minority)))
		}
		q = clone(p.QC)
		m.f(q.Header)
		resign(q, nil)
		if m.fullByRef {
			addRef("header "+m.name+" resigned-by-all", q)
		} else {
			add("header "+m.name+" resigned-by-all", m.fullValid, q)
		}
	}
	// two-field deviations
	{
		q := clone(p.QC)
		q.Header.Height++
		q.Header.Phase = lib.Phase_PROPOSE_VOTE
		add("header height+1,phase resigned-by-all", false, resign(q, nil))
		q = clone(p.QC)
		q.Header.ChainId++
		q.Header.NetworkId++
		add("header chain+1,network+1 resigned-by-all", false, resign(q, nil))
		// a certificate made for another chain by the same validators, sent in an envelope that names that chain too
		for _, other := range []uint64{chainID + 1, chainID + 6} {
			q = clone(p.QC)
			q.Header.ChainId = other
			resign(q, nil)
			devs = append(devs, dev{name: "header chain=other resigned-by-all envelope=other", qc: q, valid: false, env: other})
		}
	}
	// 6. block / hash binding
	{
		q := clone(p.QC)
		q.BlockHash = other.Block.BlockHeader.Hash
		add("blockhash-of-other-block resigned-by-all", false, resign(q, nil))
		q = clone(honest)
		q.Block = other.BlockBytes
		add("block-swapped signature-kept", false, q)
		q = clone(honest)
		blk := new(lib.Block)
		_ = lib.Unmarshal(q.Block, blk)
		blk.Transactions = append(blk.Transactions, send(1))
		q.Block, _ = lib.Marshal(blk)
		devs = append(devs, dev{name: "block-extra-transaction", qc: q, valid: false, noRef: true})
		q = clone(honest)
		q.Block = nil
		add("block-missing", false, q)
	}
	// 7. results binding
	{
		q := clone(honest)
		q.Results.RewardRecipients.PaymentPercents[0].Percent--
		add("results-modified hash-kept", false, q)
		q = clone(honest)
		q.Results.RewardRecipients.PaymentPercents[0].Percent--
		q.ResultsHash = q.Results.Hash()
		add("results-modified hash-updated signature-kept", false, q)
		q = clone(honest)
		q.Results = nil
		add("results-missing", false, q)
	}
	// 8. certificates of the previous height
	{
		prev := ch.Records[len(ch.Records)-1].QC
		add("previous-height-certificate", false, clone(prev))
		q := clone(p.QC)
		q.Signature = clone(prev).Signature
		add("previous-height-signature-grafted", false, q)
	}
	// 9. election-vote shaped certificate signed by everybody
	{
		q := &lib.QuorumCertificate{Header: clone(p.QC).Header, ProposerKey: p.QC.ProposerKey}
		q.Header.Phase = lib.Phase_ELECTION_VOTE
		resign(q, nil)
		q.Block = p.QC.Block
		add("election-vote-certificate", false, q)
	}
	// 10. proposer key swapped
	{
		q := clone(honest)
		q.ProposerKey = node.BLSKey(50).PublicKey().Bytes()
		add("proposer-key-swapped signature-kept", false, q)
	}
	// 11. certificate built against another committee (the one before the pause): bitmap/order of the old set
	if n >= 4 {
		oldVS, e := ch.Committee(nd, 1)
		if e == nil && len(oldVS.ValidatorSet.ValidatorSet) != len(vs.ValidatorSet.ValidatorSet) {
			q := clone(p.QC)
			mk := oldVS.MultiKey.Copy()
			for i, v := range oldVS.ValidatorSet.ValidatorSet {
				if k, ok := ch.Keys[lib.BytesToString(v.PublicKey)]; ok {
					_ = mk.AddSigner(k.Sign(q.SignBytes()), i)
				}
			}
			if sig, er := mk.AggregateSignatures(); er == nil {
				q.Signature = &lib.AggregateSignature{Signature: sig, Bitmap: mk.Bitmap()}
				add("signed-by-old-committee claims-current-root-height", false, q)
			}
		}
	}
	rng.Shuffle(len(devs), func(i, j int) { devs[i], devs[j] = devs[j], devs[i] })

	// judge every deviation
	for _, d := range devs {
		com, er := refCommittee(nd, d.qc.Header.GetRootHeight())
		if er != nil {
			t.Fatalf("%s: ref committee: %v", name, er)
		}
		refOK, why := refs.ValidCert(com, node.NetworkID, chainID, next, d.qc)
		if d.byRef {
			d.valid = refOK
		} else if refOK != d.valid && !d.noRef {
			t.Fatalf("%s: harness self-check: deviation %q labelled valid=%v but reference says %v (%s)", name, d.name, d.valid, refOK, why)
		}
		if d.valid {
			continue // valid variants are exercised at the end (only one can be committed)
		}
		before := nd.Store.Version()
		ch.EnvelopeChainID = d.env
		err := ch.Deliver(0, d.qc, nil, false)
		ch.EnvelopeChainID = 0
		after := nd.Store.Version()
		run.Eval(1)
		run.Count("invalid_certificates_offered", 1)
		run.Count("offered:"+d.name, 1)
		run.Distinct(fmt.Sprintf("%s|n=%d|style=%d", d.name, n, style))
		if err == nil || after != before {
			run.Violation("invalid-certificate-committed deviation="+d.name, "^"+name+"$",
				map[string]any{"case": name, "committee_size": n, "deviation": d.name, "reference_reason": why, "version_before": before, "version_after": after, "error": fmt.Sprint(err)})
			return
		}
		run.Count("rejections_observed", 1)
	}
	// after all those rejections the node must still take a valid pair: pick one valid variant
	var valids []dev
	for _, d := range devs {
		if d.valid || (d.byRef && func() bool {
			com, _ := refCommittee(nd, d.qc.Header.GetRootHeight())
			ok, _ := refs.ValidCert(com, node.NetworkID, chainID, next, d.qc)
			return ok
		}()) {
			valids = append(valids, d)
		}
	}
	valids = append(valids, dev{name: "honest-all-signers", qc: honest, valid: true})
	if exact != nil {
		valids = append(valids, dev{name: "subset-power-exactly-threshold", qc: resign(clone(p.QC), pickOf(exact)), valid: true})
	}
	if above != nil {
		valids = append(valids, dev{name: "subset-power-above-threshold", qc: resign(clone(p.QC), pickOf(above)), valid: true})
	}
	v := valids[rng.Intn(len(valids))]
	before := nd.Store.Version()
	err = nil
	if e := ch.Deliver(0, v.qc, nil, false); e != nil {
		err = e
	}
	run.Eval(1)
	run.Count("valid_certificates_offered", 1)
	run.Distinct(fmt.Sprintf("valid:%s|n=%d|style=%d", v.name, n, style))
	if err != nil || nd.Store.Version() != before+1 {
		run.Violation("valid-certificate-rejected variant="+v.name, "^"+name+"$",
			map[string]any{"case": name, "committee_size": n, "variant": v.name, "error": fmt.Sprint(err)})
		return
	}
	run.Count("valid_certificates_committed", 1)
	if rng.Intn(4) == 0 {
		names := []string{}
		for _, d := range devs {
			names = append(names, d.name)
		}
		run.Sample(map[string]any{"case": name, "committee_size": n, "stake_style": style, "threshold": thr, "total_power": vs.TotalPower, "deviations": names, "valid_variant_committed": v.name})
	}
}

func minPower(vs lib.ValidatorSet) uint64 {
	m := ^uint64(0)
	for _, v := range vs.ValidatorSet.ValidatorSet {
		if v.VotingPower < m {
			m = v.VotingPower
		}
	}
	return m
}

func TestCheck(t *testing.T) {
	run := core.Start(t, "C02", "fault_enumeration",
		"per case: a committee (1..10 members, equal / weighted / tiny stakes), 3 honestly certified blocks (one validator pauses so the committee changes), then for the next "+
			"height every deviation of the honest (block, certificate) pair from a fixed list (signer subsets around the threshold, padded / resized bitmaps, foreign signatures, "+
			"each header field changed with and without re-signing by nobody / a minority / everybody, block and results binding, previous-height and election-phase certificates, "+
			"wrong-committee bitmaps) is offered to the real HandlePeerBlock; distinct_nontrivial = distinct (deviation, committee size, stake style)")
	defer run.Finish()
	run.MinDistinct = 30
	run.Assume("BLS (kyber bdn) and SHA-256 are secure; bits of the signer bitmap beyond the committee size carry no power and are not judged; the harness holds every validator key, so 're-signed by everybody' is a binding test, not an attack")
	n := core.Pick(12, 600)
	run.Sharded(n, func(i int) {
		name := fmt.Sprintf("gate/%d", i)
		if run.Want(name) {
			runCase(t, run, name, i, run.Rand(name))
		}
	})
}
