package c05

// Keys, accounts and signing helpers of the C05 check: single keys of every supported type, BLS multisig accounts
// (k-of-n, arbitrary signer subsets / claimed bitmaps / key orders) and Ethereum RLP wrappers (legacy "RLP" and "RLP.V2").

import (
	"crypto/ecdsa"
	"crypto/ed25519"
	"crypto/sha256"
	"encoding/binary"
	"fmt"
	"math/big"

	"github.com/canopy-network/canopy/fsm"
	"github.com/canopy-network/canopy/lib"
	"github.com/canopy-network/canopy/lib/crypto"
	"github.com/drand/kyber"
	"github.com/ethereum/go-ethereum/common"
	ethTypes "github.com/ethereum/go-ethereum/core/types"
	"verif/node"
)

const (
	kEd    = "ed25519"
	kSecp  = "secp256k1"
	kEth   = "eth-secp256k1"
	kBLS   = "bls"
	kMulti = "bls-multisig"
	kRLP   = "rlp"
	kRLP2  = "rlp-v2"
)

var nativeKinds = []string{kEd, kSecp, kEth, kBLS, kMulti}

// party is something that can own an account: a single key or a k-of-n BLS multisig.
type party struct {
	name  string
	kind  string
	key   crypto.PrivateKeyI // single-key parties
	multi *multiAcct
	a     []byte
}

func (p *party) addr() []byte {
	if p.a == nil {
		if p.multi != nil {
			p.a = p.multi.address()
		} else {
			p.a = p.key.PublicKey().Address().Bytes()
		}
	}
	return p.a
}

// pub is the public key as it appears on the wire when the party signs in the ordinary way.
func (p *party) pub() []byte {
	if p.multi != nil {
		pk, _ := p.multi.sign([]byte("x"), nil, nil, nil)
		return pk
	}
	return p.key.PublicKey().Bytes()
}

// seedKey derives a deterministic 32 byte seed from a label.
func seed32(label string) []byte {
	s := sha256.Sum256([]byte("c05/" + label))
	return s[:]
}

func newKey(kind, label string) crypto.PrivateKeyI {
	s := seed32(kind + "/" + label)
	switch kind {
	case kEd:
		return crypto.BytesToED25519Private(ed25519.NewKeyFromSeed(s))
	case kSecp:
		s[0] &= 0x7f
		k, err := crypto.BytesToSECP256K1Private(s)
		if err != nil {
			panic(err)
		}
		return k
	case kEth, kRLP, kRLP2:
		s[0] &= 0x7f
		k, err := crypto.BytesToEthSECP256K1Private(s)
		if err != nil {
			panic(err)
		}
		return k
	case kBLS:
		s[0] = 0x01 // below the group order
		k, err := crypto.BytesToBLS12381PrivateKey(s)
		if err != nil {
			panic(err)
		}
		return k
	}
	panic("kind " + kind)
}

// multiShape is the (n, threshold) of the multisig accounts of this process' current case.
var multiShape = [2]int{3, 2}

func newParty(kind, label string) *party {
	if kind == kMulti {
		m := &multiAcct{threshold: uint32(multiShape[1])}
		for i := 0; i < multiShape[0]; i++ {
			m.keys = append(m.keys, newKey(kBLS, fmt.Sprintf("%s/m%d", label, i)))
		}
		return &party{name: label, kind: kind, multi: m}
	}
	return &party{name: label, kind: kind, key: newKey(kind, label)}
}

// multiAcct is a k-of-n BLS multisig account.
type multiAcct struct {
	keys      []crypto.PrivateKeyI
	threshold uint32
}

func (m *multiAcct) points(order []int) []kyber.Point {
	var pts []kyber.Point
	for _, i := range order {
		p, err := crypto.BytesToBLS12381Point(m.keys[i].PublicKey().Bytes())
		if err != nil {
			panic(err)
		}
		pts = append(pts, p)
	}
	return pts
}

func (m *multiAcct) natural() []int {
	o := make([]int, len(m.keys))
	for i := range o {
		o[i] = i
	}
	return o
}

func (m *multiAcct) address() []byte {
	mk, err := crypto.NewAccountAuthMultiBLSFromPoints(m.points(m.natural()), nil, m.threshold)
	if err != nil {
		panic(err)
	}
	return mk.Address().Bytes()
}

// sign produces (wire public key, aggregate signature). order: the key order inside the serialized public key (nil =
// natural); signers: positions (in that order) whose keys really sign (nil = the first `threshold`); claim: positions set
// in the bitmap on the wire (nil = the signers).
func (m *multiAcct) sign(sb []byte, order, signers, claim []int) (pk, sig []byte) {
	return m.signThr(sb, order, signers, claim, m.threshold)
}

func (m *multiAcct) signThr(sb []byte, order, signers, claim []int, thr uint32) (pk, sig []byte) {
	if order == nil {
		order = m.natural()
	}
	if signers == nil {
		for i := 0; i < int(m.threshold); i++ {
			signers = append(signers, i)
		}
	}
	if claim == nil {
		claim = signers
	}
	mk, err := crypto.NewAccountAuthMultiBLSFromPoints(m.points(order), nil, thr)
	if err != nil {
		panic(err)
	}
	for _, pos := range signers {
		if err = mk.AddSigner(m.keys[order[pos]].Sign(sb), pos); err != nil {
			panic(err)
		}
	}
	sig, err = mk.AggregateSignatures()
	if err != nil {
		panic(err)
	}
	bm := make([]byte, (len(order)+7)/8)
	for _, pos := range claim {
		bm[pos/8] |= 1 << uint(pos%8)
	}
	if err = mk.SetBitmap(bm); err != nil {
		panic(err)
	}
	return mk.Bytes(), sig
}

// signTx signs the transaction the ordinary way (full threshold for a multisig).
func signTx(tx *lib.Transaction, p *party) {
	sb, err := tx.GetSignBytes()
	if err != nil {
		panic(err)
	}
	if p.multi != nil {
		pk, sig := p.multi.sign(sb, nil, nil, nil)
		tx.Signature = &lib.Signature{PublicKey: pk, Signature: sig}
		return
	}
	tx.Signature = &lib.Signature{PublicKey: p.key.PublicKey().Bytes(), Signature: p.key.Sign(sb)}
}

func enc(tx *lib.Transaction) []byte {
	bz, err := lib.Marshal(tx)
	if err != nil {
		panic(err)
	}
	return bz
}

func freshAddr(label string) []byte { return crypto.Hash([]byte("c05/addr/" + label))[:20] }

// ---- Ethereum wrappers ----

func ecdsaOf(p *party) *ecdsa.PrivateKey {
	k, ok := p.key.(*crypto.ETHSECP256K1PrivateKey)
	if !ok {
		panic("not an ethereum key")
	}
	return k.PrivateKey
}

var (
	ethCNPY  = common.HexToAddress(fsm.CNPYContractAddress)
	ethStake = common.HexToAddress(fsm.StakedCNPYContractAddress)
	ethSwap  = common.HexToAddress(fsm.SwapCNPYContractAddress)
)

// rlpSpec describes the ethereum transaction to sign.
type rlpSpec struct {
	v2      bool
	dynamic bool // EIP-1559 instead of legacy/EIP-155
	nonce   uint64
	gas     uint64
	to      common.Address
	value   *big.Int
	data    []byte
}

// rlpRaw signs the ethereum transaction and returns its binary encoding.
func rlpRaw(p *party, s rlpSpec) []byte {
	var evm uint64
	if s.v2 {
		var ok bool
		if evm, ok = fsm.CanopyIdsToEVMChainIdV2(1, node.NetworkID); !ok {
			panic("chain id")
		}
	} else {
		evm = fsm.CanopyIdsToEVMChainId(1, node.NetworkID)
	}
	chainID := new(big.Int).SetUint64(evm)
	price := big.NewInt(1_000_000_000_000) // fee = gas * price / 10^12 = gas
	val := s.value
	if val == nil {
		val = new(big.Int)
	}
	to := s.to
	var td ethTypes.TxData
	if s.dynamic {
		td = &ethTypes.DynamicFeeTx{ChainID: chainID, Nonce: s.nonce, GasFeeCap: price, GasTipCap: new(big.Int).Sub(price, big.NewInt(fsm.EthereumBaseFeePerGas)), Gas: s.gas, To: &to, Value: val, Data: s.data}
	} else {
		td = &ethTypes.LegacyTx{Nonce: s.nonce, GasPrice: price, Gas: s.gas, To: &to, Value: val, Data: s.data}
	}
	tx, err := ethTypes.SignNewTx(ecdsaOf(p), ethTypes.LatestSignerForChainID(chainID), td)
	if err != nil {
		panic(err)
	}
	raw, err := tx.MarshalBinary()
	if err != nil {
		panic(err)
	}
	return raw
}

// rlpWrap turns the raw ethereum transaction into the canopy wrapper exactly as the RPC layer does.
func rlpWrap(raw []byte, v2 bool) (*lib.Transaction, error) {
	var tx *lib.Transaction
	var err lib.ErrorI
	if v2 {
		tx, err = fsm.RLPToCanopyTransactionV2(raw)
	} else {
		tx, err = fsm.RLPToCanopyTransaction(raw)
	}
	if err != nil {
		return nil, err
	}
	return tx, nil
}

func selector(hexSel string) []byte {
	bz, err := lib.StringToBytes(hexSel)
	if err != nil {
		panic(err)
	}
	return bz
}

// protoCall is selector || proto(msg), the payload canopy expects for the pseudo-contract calls.
func protoCall(hexSel string, msg lib.MessageI) []byte {
	bz, err := lib.Marshal(msg)
	if err != nil {
		panic(err)
	}
	return append(selector(hexSel), bz...)
}

// erc20Transfer is the ABI encoding of transfer(address,uint256).
func erc20Transfer(to []byte, amount uint64) []byte {
	out := selector(fsm.SendSelector)
	word := make([]byte, 32)
	copy(word[12:], to)
	out = append(out, word...)
	amt := make([]byte, 32)
	binary.BigEndian.PutUint64(amt[24:], amount)
	return append(out, amt...)
}
