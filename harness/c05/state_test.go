package c05

// Raw state snapshots (every key of every prefix, read through the store iterator like node.DumpState) decoded into
// accounts / pools / validators / orders / parameters / dex batches, and the "who really signed what" entitlement ledger
// the block diff is judged against.

import (
	"bytes"
	"fmt"
	"sort"

	"github.com/canopy-network/canopy/fsm"
	"github.com/canopy-network/canopy/lib"
	"github.com/canopy-network/canopy/lib/crypto"
)

type snap struct {
	raw     map[string][]byte
	acc     map[string]uint64
	pools   map[uint64]uint64
	vals    map[string]*fsm.Validator
	orders  map[string]*lib.SellOrder // raw key -> order
	records int
}

func takeSnap(st lib.RStoreI) (*snap, error) {
	s := &snap{raw: map[string][]byte{}, acc: map[string]uint64{}, pools: map[uint64]uint64{}, vals: map[string]*fsm.Validator{}, orders: map[string]*lib.SellOrder{}}
	for p := 1; p < 256; p++ {
		it, err := st.Iterator(lib.JoinLenPrefix([]byte{byte(p)}))
		if err != nil {
			return nil, err
		}
		for ; it.Valid(); it.Next() {
			k, v := string(it.Key()), bytes.Clone(it.Value())
			s.raw[k] = v
			s.records++
			switch p {
			case 1:
				a := new(fsm.Account)
				if e := lib.Unmarshal(v, a); e != nil {
					it.Close()
					return nil, e
				}
				s.acc[string(a.Address)] = a.Amount
			case 2:
				pl := new(fsm.Pool)
				if e := lib.Unmarshal(v, pl); e != nil {
					it.Close()
					return nil, e
				}
				s.pools[pl.Id] = pl.Amount
			case 3:
				vl := new(fsm.Validator)
				if e := lib.Unmarshal(v, vl); e != nil {
					it.Close()
					return nil, e
				}
				s.vals[string(vl.Address)] = vl
			case 13:
				o := new(lib.SellOrder)
				if e := lib.Unmarshal(v, o); e != nil {
					it.Close()
					return nil, e
				}
				s.orders[k] = o
			}
		}
		it.Close()
	}
	return s, nil
}

func orderKey(chainID uint64, id []byte) string { return string(fsm.KeyForOrder(chainID, id)) }

// view is the part of the state the reference needs to decide who may sign what: validators (operator, output) and
// orders (seller). It starts as the state before the block and is advanced by the legitimately signed transactions of
// the block in block order.
type view struct {
	vals   map[string][2][]byte // validator address -> {operator address, output address}
	stake  map[string]uint64
	orders map[string]*lib.SellOrder
}

func newView(s *snap) *view {
	v := &view{vals: map[string][2][]byte{}, stake: map[string]uint64{}, orders: map[string]*lib.SellOrder{}}
	for a, x := range s.vals {
		v.vals[a] = [2][]byte{x.Address, x.Output}
		v.stake[a] = x.StakedAmount
	}
	for k, o := range s.orders {
		v.orders[k] = o
	}
	return v
}

func eq(a, b []byte) bool { return len(a) != 0 && bytes.Equal(a, b) }

func addrOfPub(pk []byte) []byte {
	k, err := crypto.NewPublicKeyFromBytes(pk)
	if err != nil {
		return nil
	}
	return k.Address().Bytes()
}

// refAuthorised is the reference oracle written from the property statement: may the holder of `signer` (the address of
// the key(s) that really signed exactly this content) cause the effect of msg in the state described by v?
//   - the sender for transfers, subsidies, order creation and DEX operations
//   - the operator or the output address for validator operations (a new validator: the operator key being staked or the
//     output address that funds it); only the output address may move the output address
//   - the seller for order edits and deletions
//   - the certificate's proposer for certificate results
//   - the named signer / recipient for governance proposals
func refAuthorised(msg lib.MessageI, signer []byte, v *view) bool {
	if len(signer) == 0 {
		return false
	}
	val := func(a []byte) (op, out []byte, ok bool) {
		x, found := v.vals[string(a)]
		return x[0], x[1], found
	}
	switch m := msg.(type) {
	case *fsm.MessageSend:
		return eq(signer, m.FromAddress)
	case *fsm.MessageSubsidy:
		return eq(signer, m.Address)
	case *fsm.MessageCreateOrder:
		return eq(signer, m.SellersSendAddress)
	case *fsm.MessageDexLimitOrder:
		return eq(signer, m.Address)
	case *fsm.MessageDexLiquidityDeposit:
		return eq(signer, m.Address)
	case *fsm.MessageDexLiquidityWithdraw:
		return eq(signer, m.Address)
	case *fsm.MessageEditOrder:
		o := v.orders[orderKey(m.ChainId, m.OrderId)]
		return o != nil && eq(signer, o.SellersSendAddress)
	case *fsm.MessageDeleteOrder:
		o := v.orders[orderKey(m.ChainId, m.OrderId)]
		return o != nil && eq(signer, o.SellersSendAddress)
	case *fsm.MessageStake:
		return eq(signer, addrOfPub(m.PublicKey)) || eq(signer, m.OutputAddress)
	case *fsm.MessageEditStake:
		op, out, ok := val(m.Address)
		if !ok || !(eq(signer, op) || eq(signer, out)) {
			return false
		}
		return bytes.Equal(m.OutputAddress, out) || eq(signer, out)
	case *fsm.MessageUnstake:
		op, out, ok := val(m.Address)
		return ok && (eq(signer, op) || eq(signer, out))
	case *fsm.MessagePause:
		op, out, ok := val(m.Address)
		return ok && (eq(signer, op) || eq(signer, out))
	case *fsm.MessageUnpause:
		op, out, ok := val(m.Address)
		return ok && (eq(signer, op) || eq(signer, out))
	case *fsm.MessageChangeParameter:
		return eq(signer, m.Signer)
	case *fsm.MessageDAOTransfer:
		return eq(signer, m.Address)
	case *fsm.MessageCertificateResults:
		return m.Qc != nil && eq(signer, addrOfPub(m.Qc.ProposerKey))
	}
	return false
}

// entitlements is what the legitimately signed transactions of one block allow to happen to existing records.
type entitlements struct {
	debit     map[string]uint64          // account -> maximal decrease
	valOps    map[string]map[string]bool // validator -> {"edit","output","unstake","pause","unpause"}
	newVals   map[string][]byte          // validator address -> output address it may be created with
	orderOps  map[string]bool            // order key -> may change / disappear
	newOrders map[string]*fsm.MessageCreateOrder
	poolDec   map[uint64]uint64
	params    bool
	dexAddr   map[string]bool
}

func newEnt() *entitlements {
	return &entitlements{debit: map[string]uint64{}, valOps: map[string]map[string]bool{}, newVals: map[string][]byte{}, orderOps: map[string]bool{},
		newOrders: map[string]*fsm.MessageCreateOrder{}, poolDec: map[uint64]uint64{}, dexAddr: map[string]bool{}}
}

func satAdd(a, b uint64) uint64 {
	if a+b < a {
		return ^uint64(0)
	}
	return a + b
}

func (e *entitlements) op(val []byte, what string) {
	if e.valOps[string(val)] == nil {
		e.valOps[string(val)] = map[string]bool{}
	}
	e.valOps[string(val)][what] = true
}

// grant records what one legitimately signed, included transaction entitles, and advances the view.
func (e *entitlements) grant(c *cand, signer []byte, v *view) {
	e.debit[string(signer)] = satAdd(e.debit[string(signer)], c.tx.Fee)
	switch m := c.msg.(type) {
	case *fsm.MessageSend:
		e.debit[string(signer)] = satAdd(e.debit[string(signer)], m.Amount)
	case *fsm.MessageSubsidy:
		e.debit[string(signer)] = satAdd(e.debit[string(signer)], m.Amount)
	case *fsm.MessageDexLimitOrder:
		e.debit[string(signer)] = satAdd(e.debit[string(signer)], m.AmountForSale)
		e.dexAddr[string(m.Address)] = true
	case *fsm.MessageDexLiquidityDeposit:
		e.debit[string(signer)] = satAdd(e.debit[string(signer)], m.Amount)
		e.dexAddr[string(m.Address)] = true
	case *fsm.MessageDexLiquidityWithdraw:
		e.dexAddr[string(m.Address)] = true
	case *fsm.MessageCreateOrder:
		e.debit[string(signer)] = satAdd(e.debit[string(signer)], m.AmountForSale)
		id := c.hashBytes()[:20]
		k := orderKey(m.ChainId, id)
		e.newOrders[k] = m
		v.orders[k] = &lib.SellOrder{Id: id, Committee: m.ChainId, AmountForSale: m.AmountForSale, SellersSendAddress: m.SellersSendAddress}
	case *fsm.MessageEditOrder:
		k := orderKey(m.ChainId, m.OrderId)
		e.orderOps[k] = true
		if o := v.orders[k]; o != nil {
			if m.AmountForSale > o.AmountForSale {
				e.debit[string(signer)] = satAdd(e.debit[string(signer)], m.AmountForSale-o.AmountForSale)
			} else {
				e.poolDec[m.ChainId+fsm.EscrowPoolAddend] = satAdd(e.poolDec[m.ChainId+fsm.EscrowPoolAddend], o.AmountForSale-m.AmountForSale)
			}
			v.orders[k] = &lib.SellOrder{Id: o.Id, Committee: o.Committee, AmountForSale: m.AmountForSale, SellersSendAddress: o.SellersSendAddress}
		}
	case *fsm.MessageDeleteOrder:
		k := orderKey(m.ChainId, m.OrderId)
		e.orderOps[k] = true
		if o := v.orders[k]; o != nil {
			e.poolDec[m.ChainId+fsm.EscrowPoolAddend] = satAdd(e.poolDec[m.ChainId+fsm.EscrowPoolAddend], o.AmountForSale)
			delete(v.orders, k)
		}
	case *fsm.MessageStake:
		e.debit[string(signer)] = satAdd(e.debit[string(signer)], m.Amount)
		a := addrOfPub(m.PublicKey)
		e.newVals[string(a)] = m.OutputAddress
		v.vals[string(a)] = [2][]byte{a, m.OutputAddress}
		v.stake[string(a)] = m.Amount
	case *fsm.MessageEditStake:
		e.op(m.Address, "edit")
		if st := v.stake[string(m.Address)]; m.Amount > st {
			e.debit[string(signer)] = satAdd(e.debit[string(signer)], m.Amount-st)
			v.stake[string(m.Address)] = m.Amount
		}
		x := v.vals[string(m.Address)]
		if !bytes.Equal(x[1], m.OutputAddress) {
			e.op(m.Address, "output")
			v.vals[string(m.Address)] = [2][]byte{x[0], m.OutputAddress}
		}
	case *fsm.MessageUnstake:
		e.op(m.Address, "unstake")
	case *fsm.MessagePause:
		e.op(m.Address, "pause")
	case *fsm.MessageUnpause:
		e.op(m.Address, "unpause")
	case *fsm.MessageChangeParameter:
		e.params = true
	case *fsm.MessageDAOTransfer:
		e.poolDec[lib.DAOPoolID] = satAdd(e.poolDec[lib.DAOPoolID], m.Amount)
	case *fsm.MessageCertificateResults:
		if m.Qc != nil && m.Qc.Results != nil && m.Qc.Results.Orders != nil {
			cid := m.Qc.Header.ChainId
			for _, l := range m.Qc.Results.Orders.LockOrders {
				e.orderOps[orderKey(cid, l.OrderId)] = true
			}
			for _, id := range m.Qc.Results.Orders.ResetOrders {
				e.orderOps[orderKey(cid, id)] = true
			}
			for _, id := range m.Qc.Results.Orders.CloseOrders {
				k := orderKey(cid, id)
				e.orderOps[k] = true
				if o := v.orders[k]; o != nil {
					e.poolDec[cid+fsm.EscrowPoolAddend] = satAdd(e.poolDec[cid+fsm.EscrowPoolAddend], o.AmountForSale)
				}
			}
		}
	}
}

type finding struct {
	kind   string
	detail string
}

func poolClass(id uint64) string {
	switch {
	case id == lib.DAOPoolID:
		return "dao"
	case id >= fsm.EscrowPoolAddend && id < fsm.Unused2PoolAddend:
		return "escrow"
	case id >= fsm.LiquidityPoolAddend && id < fsm.Unused1PoolAddend:
		return "liquidity"
	case id >= fsm.HoldingPoolAddend && id < fsm.LiquidityPoolAddend:
		return "holding"
	case id < fsm.HoldingPoolAddend:
		return "reward"
	}
	return "other"
}

func u64s(a []uint64) string { return fmt.Sprint(a) }

// diffProblems compares the state before and after a block with what the legitimately signed transactions in it entitle.
// Only debits and redirections are judged: credits (rewards, payments received) are nobody's loss.
func diffProblems(before, after *snap, e *entitlements) (out []finding, compared int) {
	add := func(kind, format string, a ...any) { out = append(out, finding{kind, fmt.Sprintf(format, a...)}) }
	// accounts
	for a, b := range before.acc {
		compared++
		if n := after.acc[a]; n < b && b-n > e.debit[a] {
			add("unentitled-debit record=account", "account %x: %d -> %d (decrease %d, entitled %d)", a, b, n, b-n, e.debit[a])
		}
	}
	// pools
	for id, b := range before.pools {
		compared++
		n := after.pools[id]
		if n >= b {
			continue
		}
		switch cl := poolClass(id); cl {
		case "reward":
			// paid out every block to the recipients the committee named
		default:
			if b-n > e.poolDec[id] {
				add("unentitled-debit record="+cl+"-pool", "pool %d: %d -> %d (decrease %d, entitled %d)", id, b, n, b-n, e.poolDec[id])
			}
		}
	}
	// validators
	for a, b := range before.vals {
		compared++
		n := after.vals[a]
		ops := e.valOps[a]
		if n == nil {
			add("unentitled-change record=validator field=deleted", "validator %x disappeared", a)
			continue
		}
		if !bytes.Equal(b.Output, n.Output) && !ops["output"] {
			add("unentitled-change record=validator field=output", "validator %x: output %x -> %x", a, b.Output, n.Output)
		}
		if (b.NetAddress != n.NetAddress || u64s(b.Committees) != u64s(n.Committees) || b.Compound != n.Compound) && !ops["edit"] {
			add("unentitled-change record=validator field=net-address/committees/compound", "validator %x: %q %v %v -> %q %v %v", a, b.NetAddress, b.Committees, b.Compound, n.NetAddress, n.Committees, n.Compound)
		}
		if b.UnstakingHeight != n.UnstakingHeight && !ops["unstake"] {
			add("unentitled-change record=validator field=unstaking", "validator %x: unstaking height %d -> %d", a, b.UnstakingHeight, n.UnstakingHeight)
		}
		if b.MaxPausedHeight != n.MaxPausedHeight && !(ops["pause"] || ops["unpause"]) {
			add("unentitled-change record=validator field=paused", "validator %x: max paused height %d -> %d", a, b.MaxPausedHeight, n.MaxPausedHeight)
		}
		if n.StakedAmount < b.StakedAmount {
			add("unentitled-debit record=validator-stake", "validator %x: stake %d -> %d", a, b.StakedAmount, n.StakedAmount)
		}
		if !bytes.Equal(b.PublicKey, n.PublicKey) || !bytes.Equal(b.Address, n.Address) || b.Delegate != n.Delegate {
			add("unentitled-change record=validator field=identity", "validator %x: key/address/delegate changed", a)
		}
	}
	for a, n := range after.vals {
		if before.vals[a] != nil {
			continue
		}
		compared++
		out1, ok := e.newVals[a]
		if !ok {
			add("unentitled-change record=validator field=created", "validator %x created (output %x) without a stake transaction signed by its operator or output", a, n.Output)
		} else if !bytes.Equal(out1, n.Output) {
			add("unentitled-change record=validator field=created-output", "validator %x created with output %x, signed content said %x", a, n.Output, out1)
		}
	}
	// orders
	for k, b := range before.orders {
		compared++
		n := after.orders[k]
		if e.orderOps[k] {
			if n != nil && !bytes.Equal(n.SellersSendAddress, b.SellersSendAddress) {
				add("unentitled-change record=order field=seller", "order %x: seller %x -> %x", b.Id, b.SellersSendAddress, n.SellersSendAddress)
			}
			continue
		}
		if n == nil {
			add("unentitled-change record=order field=deleted", "order %x (seller %x) disappeared", b.Id, b.SellersSendAddress)
			continue
		}
		bb, _ := lib.Marshal(b)
		nb, _ := lib.Marshal(n)
		if !bytes.Equal(bb, nb) {
			add("unentitled-change record=order field=content", "order %x (seller %x) changed: receive %x -> %x, amount %d -> %d, buyer %x -> %x", b.Id, b.SellersSendAddress,
				b.SellerReceiveAddress, n.SellerReceiveAddress, b.AmountForSale, n.AmountForSale, b.BuyerReceiveAddress, n.BuyerReceiveAddress)
		}
	}
	for k, n := range after.orders {
		if before.orders[k] != nil {
			continue
		}
		compared++
		m := e.newOrders[k]
		if m == nil {
			add("unentitled-change record=order field=created", "order %x created for seller %x without a create-order transaction signed by the seller", n.Id, n.SellersSendAddress)
		} else if !bytes.Equal(m.SellersSendAddress, n.SellersSendAddress) || !bytes.Equal(m.SellerReceiveAddress, n.SellerReceiveAddress) || m.AmountForSale != n.AmountForSale {
			add("unentitled-change record=order field=created-content", "order %x differs from the signed create-order content", n.Id)
		}
	}
	// raw prefixes without a decoded view
	keys := map[string]bool{}
	for k := range before.raw {
		keys[k] = true
	}
	for k := range after.raw {
		keys[k] = true
	}
	sorted := make([]string, 0, len(keys))
	for k := range keys {
		sorted = append(sorted, k)
	}
	sort.Strings(sorted)
	for _, k := range sorted {
		seg := lib.DecodeLengthPrefixed([]byte(k))
		if len(seg) == 0 || len(seg[0]) != 1 {
			continue
		}
		b, n := before.raw[k], after.raw[k]
		if bytes.Equal(b, n) {
			continue
		}
		switch seg[0][0] {
		case 7: // governance parameters
			compared++
			if !e.params {
				add("unentitled-change record=params", "parameter space %x changed without an approved change-parameter transaction signed by its named signer", seg)
			}
		case 14:
			compared++
			add("unentitled-change record=retired-committees", "retired committee list changed")
		case 15: // dex batches
			compared++
			bb, nb := new(lib.DexBatch), new(lib.DexBatch)
			_ = lib.Unmarshal(b, bb)
			_ = lib.Unmarshal(n, nb)
			if len(seg) > 1 && bytes.Equal(seg[1], []byte{1}) {
				add("unentitled-change record=dex-locked-batch", "locked dex batch changed")
				continue
			}
			had := map[string]bool{}
			for _, o := range bb.Orders {
				had["o"+string(o.OrderId)] = true
			}
			for _, o := range bb.Deposits {
				had["d"+string(o.OrderId)] = true
			}
			for _, o := range bb.Withdrawals {
				had["w"+string(o.OrderId)] = true
			}
			left := 0
			for _, o := range nb.Orders {
				if had["o"+string(o.OrderId)] {
					left++
				} else if !e.dexAddr[string(o.Address)] {
					add("unentitled-change record=dex-batch field=order", "dex limit order for %x entered the batch without a transaction signed by that address", o.Address)
				}
			}
			for _, o := range nb.Deposits {
				if had["d"+string(o.OrderId)] {
					left++
				} else if !e.dexAddr[string(o.Address)] {
					add("unentitled-change record=dex-batch field=deposit", "liquidity deposit for %x entered the batch without a transaction signed by that address", o.Address)
				}
			}
			for _, o := range nb.Withdrawals {
				if had["w"+string(o.OrderId)] {
					left++
				} else if !e.dexAddr[string(o.Address)] {
					add("unentitled-change record=dex-batch field=withdraw", "liquidity withdrawal for %x entered the batch without a transaction signed by that address", o.Address)
				}
			}
			if left != len(had) {
				add("unentitled-change record=dex-batch field=removed", "entries left the next dex batch")
			}
		}
	}
	return out, compared
}
