package c05

// C05 — authorization. A two-node chain (proposer + validating replica) whose genesis holds, for every key type
// (ed25519, secp256k1, eth-secp256k1, BLS, k-of-n BLS multisig with a per-case shape 2/3, 3/4, 2/2 or 3/5), a VICTIM
// (account, sell order, non-custodial validator whose output address is the victim; plus a custodial validator) whose keys
// never sign after the setup block, an ACTOR that lives an honest story, one step per block (send, subsidy, orders, DEX,
// stake signed by the output and by the operator, edit-stake by operator and by output, output hand-over, pause / unpause
// / unstake, approved and unapproved governance proposals, certificate results that lock and close orders, the same through
// Ethereum RLP / RLP.V2 wrappers), and a STRANGER. Every round offers ~1000 forged candidates: validly signed content
// that names somebody else's record (also with the owner's public key on the wire, with degenerate keys, with an address
// prefix twin, with the previous output address), honest transactions of the actor mutated after signing (every signed
// transaction field, payload fields, claimed owner, payload type with identical bytes, lifted signature, replaced public
// key), state-machine-owned fields supplied on the wire (signer, order id, proposal hash), multisig sub-threshold / forged
// bitmap / re-declared threshold / subset / superset keys, wrappers that do not re-derive from the signed ethereum
// transaction. Each forged candidate goes (a) alone through FSM.CheckTx, (b) into a block with good neighbours (batch
// verifier, cold signature cache), (c) again into the next block (warm cache), (d) into a block with bad ed25519
// signatures (batch failure fallback); one per block is spliced into the proposal and shown to the replica. Path (e)
// then offers small blocks in a chosen mempool order: stranger-signed transactions naming the victim (they take a batch
// verifier slot before the signer rule turns them away), forged ones with the victim's public key, honest neighbours -
// the slot / transaction bookkeeping of the batch verification must blame the right transaction. A candidate set the
// proposer cannot build any block from is retried in halves (counted) instead of ending the case. Path (f) puts an
// already-verified (cached) honest ed25519 signature into each of the 8 lists of the batch verifier and forged
// transactions of every other key type behind them in every list.
//
// Oracles: (1) the reference refAuthorised(msg, signer, state) (state_test.go), written from the property statement,
// decides for every transaction the proposer put into its block - walking the block in order, advancing the reference's
// own view of validators' outputs and orders' sellers - whether the key(s) that REALLY signed exactly that content (the
// harness ledger, not the wire) may cause it; (2) CheckTx alone must not accept a candidate whose real signer is not
// entitled; (3) the raw state before / after every committed block is diffed against the entitlements of the legitimately
// signed transactions in it: no account, pool, stake, validator, order, parameter or dex-batch record may be debited,
// redirected or created beyond them. An honest step that is not included makes the run inconclusive.

import (
	"encoding/json"
	"fmt"
	"math/rand"
	"os"
	"runtime/debug"
	"sort"
	"strings"
	"testing"
	"time"

	"github.com/canopy-network/canopy/fsm"
	"github.com/canopy-network/canopy/lib"
	"github.com/canopy-network/canopy/lib/crypto"
	"github.com/ethereum/go-ethereum/common"
	"verif/core"
	"verif/node"
)

// cand is one candidate transaction together with what the harness knows about how it was made.
type cand struct {
	mt      string // message type
	kind    string // key type of the signing key
	rel     string // who signed relative to the record named in the content
	tamper  string // what was done to it after / instead of honest signing ("none" = nothing)
	raw     []byte
	tx      *lib.Transaction
	msg     lib.MessageI
	signer  []byte // address of the key(s) that put a scheme-valid signature on exactly these bytes (nil: nobody)
	extraOK bool   // conditions next to the signer rule hold (governance approval, +2/3 of the committee on the certificate)
	handler bool   // the rule is enforced while the message is handled: CheckTx alone may let it pass
	must    bool   // honest and engineered to succeed: must be included when offered
	hash    string
	reached bool // path (a) got as far as signature / signer checking
	errA    string
}

func (c *cand) hashBytes() []byte { return crypto.Hash(c.raw) }
func (c *cand) tuple() string     { return c.mt + "|" + c.kind + "|" + c.rel + "|" + c.tamper }

type valRef struct {
	op  *party // operator (BLS)
	out *party // current output
}

type env struct {
	t    *testing.T
	run  *core.Run
	name string
	rng  *rand.Rand
	ch   *node.Chain
	n0   *node.Node
	seq  uint64
	v2   bool // protocol version 2: legacy RLP wrappers are switched off

	victim, actor, actor2, stranger map[string]*party
	vVal, hVal                      map[string]*valRef // validators whose output is victim[k] / actor[k]
	selfOp                          map[string]*party  // funded BLS keys that stake themselves in the story
	custV, custH                    *party
	com2                            []*party
	nb                              map[string]*party
	twin                            *party // ed25519 stranger whose address shares its first byte with victim[ed25519]
	rlpActor, rlpStranger           *party

	vOrder, keepOrder, aOrder, bOrder map[string][]byte
	orderAmt                          map[string]uint64
	certHeight                        uint64
	approvedHash                      string
	reordered                         []*cand // multisig transactions by the rightful owners in unusual but valid form
	off                               int
	byHash                            map[string]*cand
	last                              *snap
	tuples                            map[string]int
	stop                              bool
	nviol, bisected                   int
	refuted                           bool // a proposal with an unauthorised transaction was built (and refused by the replica)
	lastProposeErr                    string
	victimSig                         map[string]*lib.Signature // the one genuine signature of each victim (setup order)
}

func (e *env) next() uint64   { e.seq++; return e.seq }
func (e *env) height() uint64 { return e.n0.Height() }
func (e *env) fee(name string) uint64 {
	f, err := e.n0.C.FSM.GetFeeForMessageName(name)
	if err != nil {
		e.t.Fatalf("fee %s: %v", name, err)
	}
	return f
}

// newTx builds an unsigned transaction with a unique timestamp.
func (e *env) newTx(msg lib.MessageI, memo string) *lib.Transaction {
	a, err := lib.NewAny(msg)
	if err != nil {
		panic(err)
	}
	return &lib.Transaction{MessageType: msg.Name(), Msg: a, CreatedHeight: e.height(), Time: 1_800_000_000_000_000 + e.next(), Fee: e.fee(msg.Name()), Memo: memo, NetworkId: node.NetworkID, ChainId: 1}
}

// mk registers a candidate from final wire bytes.
func (e *env) mk(mt, kind, rel, tamper string, tx *lib.Transaction, signer []byte) *cand {
	raw := enc(tx)
	c := &cand{mt: mt, kind: kind, rel: rel, tamper: tamper, raw: raw, signer: signer, extraOK: true, hash: crypto.HashString(raw)}
	c.tx = new(lib.Transaction)
	if err := lib.Unmarshal(raw, c.tx); err == nil && c.tx.Msg != nil {
		if m, err := lib.FromAny(c.tx.Msg); err == nil {
			c.msg, _ = m.(lib.MessageI)
		}
	}
	return c
}

// honest signs msg with p the ordinary way.
func (e *env) honest(mt string, p *party, rel string, msg lib.MessageI) *cand {
	tx := e.newTx(msg, "")
	signTx(tx, p)
	c := e.mk(mt, p.kind, rel, "none", tx, p.addr())
	return c
}

func (e *env) uniq() uint64 { return 1_000_000 + e.next() }

// ---------------------------------------------------------------------------------------------------------------------
// content: the payload of message type mt naming `owner` as the party whose record is touched.

type target struct {
	acct   *party
	val    []byte // validator address
	order  []byte
	attack bool // forged content: redirect to the attacker where the message allows it
}

func (e *env) content(mt string, tg target, attacker *party) lib.MessageI {
	own := tg.acct.addr()
	redirect := freshAddr(fmt.Sprint(e.name, "/r/", e.next()))
	if tg.attack && attacker != nil {
		redirect = attacker.addr()
	}
	switch mt {
	case fsm.MessageSendName:
		return &fsm.MessageSend{FromAddress: own, ToAddress: redirect, Amount: e.uniq()}
	case fsm.MessageSubsidyName:
		return &fsm.MessageSubsidy{Address: own, ChainId: 2, Amount: e.uniq(), Opcode: []byte("c05")}
	case fsm.MessageCreateOrderName:
		return &fsm.MessageCreateOrder{ChainId: 2, Data: []byte("d"), AmountForSale: e.uniq(), RequestedAmount: 7, SellerReceiveAddress: redirect, SellersSendAddress: own}
	case fsm.MessageEditOrderName:
		return &fsm.MessageEditOrder{OrderId: tg.order, ChainId: 2, Data: []byte("e"), AmountForSale: e.orderAmt[string(tg.order)], RequestedAmount: 9, SellerReceiveAddress: redirect}
	case fsm.MessageDeleteOrderName:
		return &fsm.MessageDeleteOrder{OrderId: tg.order, ChainId: 2}
	case fsm.MessageDexLimitOrderName:
		return &fsm.MessageDexLimitOrder{ChainId: 2, AmountForSale: e.uniq(), RequestedAmount: 1, Address: own}
	case fsm.MessageDexLiquidityDepositName:
		return &fsm.MessageDexLiquidityDeposit{ChainId: 2, Amount: e.uniq(), Address: own}
	case fsm.MessageDexLiquidityWithdrawName:
		return &fsm.MessageDexLiquidityWithdraw{ChainId: 2, Percent: 50, Address: own}
	case fsm.MessageStakeName:
		nk := newKey(kBLS, fmt.Sprint(e.name, "/newval/", e.next()))
		e.ch.AddKey(nk) // should it join a committee the harness can sign for it
		pk := nk.PublicKey().Bytes()
		return &fsm.MessageStake{PublicKey: pk, Amount: e.uniq(), Committees: []uint64{2}, NetAddress: "tcp://new.example", OutputAddress: own, Compound: true}
	case fsm.MessageEditStakeName:
		st := uint64(0)
		out := own
		if v := e.last.vals[string(tg.val)]; v != nil {
			st, out = v.StakedAmount, v.Output
		}
		if tg.attack {
			out = redirect
		}
		if st == 0 {
			st = 1 // not (yet) a validator: the amount only has to be positive
		}
		return &fsm.MessageEditStake{Address: tg.val, Amount: st, Committees: []uint64{2, 3}, NetAddress: fmt.Sprintf("tcp://edit%d.example", e.next()), OutputAddress: out, Compound: true}
	case fsm.MessageUnstakeName:
		return &fsm.MessageUnstake{Address: tg.val}
	case fsm.MessagePauseName:
		return &fsm.MessagePause{Address: tg.val}
	case fsm.MessageUnpauseName:
		return &fsm.MessageUnpause{Address: tg.val}
	case fsm.MessageChangeParameterName:
		a, _ := lib.NewAny(&lib.UInt64Wrapper{Value: 100_000 + e.next()})
		return &fsm.MessageChangeParameter{ParameterSpace: fsm.ParamSpaceVal, ParameterKey: fsm.ParamMaxPauseBlocks, ParameterValue: a, StartHeight: e.height(), EndHeight: e.height() + 8, Signer: own}
	case fsm.MessageDAOTransferName:
		return &fsm.MessageDAOTransfer{Address: own, Amount: e.uniq(), StartHeight: e.height(), EndHeight: e.height() + 8}
	}
	panic("content " + mt)
}

func (e *env) victimTarget(k string) target {
	return target{acct: e.victim[k], val: e.vVal[k].op.addr(), order: e.vOrder[k], attack: true}
}
func (e *env) actorTarget(k string) target {
	return target{acct: e.actor[k], val: e.hVal[k].op.addr(), order: e.keepOrder[k]}
}

// ownerKey is the party entitled to sign mt for the actor of kind k at this moment.
func (e *env) actorSigner(mt, k string) (*party, string) {
	switch mt {
	case fsm.MessageEditStakeName, fsm.MessageUnstakeName, fsm.MessagePauseName, fsm.MessageUnpauseName:
		return e.hVal[k].out, "output"
	}
	return e.actor[k], "owner"
}

var accountMsgs = []string{fsm.MessageSendName, fsm.MessageSubsidyName, fsm.MessageCreateOrderName, fsm.MessageEditOrderName, fsm.MessageDeleteOrderName,
	fsm.MessageDexLimitOrderName, fsm.MessageDexLiquidityDepositName, fsm.MessageDexLiquidityWithdrawName, fsm.MessageStakeName, fsm.MessageEditStakeName,
	fsm.MessageUnstakeName, fsm.MessagePauseName, fsm.MessageUnpauseName, fsm.MessageChangeParameterName, fsm.MessageDAOTransferName}

type txMut struct {
	name string
	f    func(t *lib.Transaction)
}

var txMuts = []txMut{
	{"field:fee", func(t *lib.Transaction) { t.Fee++ }},
	{"field:time", func(t *lib.Transaction) { t.Time++ }},
	{"field:created-height", func(t *lib.Transaction) { t.CreatedHeight++ }},
	{"field:memo", func(t *lib.Transaction) { t.Memo += "x" }},
	{"field:nonce", func(t *lib.Transaction) { t.Nonce++ }},
	{"field:message-type", func(t *lib.Transaction) { t.MessageType += "2" }},
	{"field:chain-id", func(t *lib.Transaction) { t.ChainId++ }},
	{"field:network-id", func(t *lib.Transaction) { t.NetworkId++ }},
}

// msgMuts are payload mutations applied after signing.
func (e *env) msgMuts(m lib.MessageI, victim target, attacker *party) map[string]lib.MessageI {
	out := map[string]lib.MessageI{}
	att := attacker.addr()
	cp := func() lib.MessageI {
		bz, _ := lib.Marshal(m)
		n := m.New()
		_ = lib.Unmarshal(bz, n)
		return n
	}
	switch m.(type) {
	case *fsm.MessageSend:
		a, b, c := cp().(*fsm.MessageSend), cp().(*fsm.MessageSend), cp().(*fsm.MessageSend)
		a.Amount++
		b.ToAddress = att
		c.FromAddress = victim.acct.addr()
		out["msg:amount"], out["msg:recipient"], out["msg:owner-swapped"] = a, b, c
	case *fsm.MessageSubsidy:
		a, b, c := cp().(*fsm.MessageSubsidy), cp().(*fsm.MessageSubsidy), cp().(*fsm.MessageSubsidy)
		a.Amount++
		b.ChainId = 3
		c.Address = victim.acct.addr()
		out["msg:amount"], out["msg:committee"], out["msg:owner-swapped"] = a, b, c
	case *fsm.MessageCreateOrder:
		a, b, c := cp().(*fsm.MessageCreateOrder), cp().(*fsm.MessageCreateOrder), cp().(*fsm.MessageCreateOrder)
		a.AmountForSale++
		b.SellerReceiveAddress = att
		c.SellersSendAddress = victim.acct.addr()
		out["msg:amount"], out["msg:recipient"], out["msg:owner-swapped"] = a, b, c
	case *fsm.MessageEditOrder:
		a, b := cp().(*fsm.MessageEditOrder), cp().(*fsm.MessageEditOrder)
		a.SellerReceiveAddress = att
		b.OrderId = victim.order
		out["msg:recipient"], out["msg:owner-swapped"] = a, b
	case *fsm.MessageDeleteOrder:
		b := cp().(*fsm.MessageDeleteOrder)
		b.OrderId = victim.order
		out["msg:owner-swapped"] = b
	case *fsm.MessageDexLimitOrder:
		a, c := cp().(*fsm.MessageDexLimitOrder), cp().(*fsm.MessageDexLimitOrder)
		a.AmountForSale++
		c.Address = victim.acct.addr()
		out["msg:amount"], out["msg:owner-swapped"] = a, c
	case *fsm.MessageDexLiquidityDeposit:
		a, c := cp().(*fsm.MessageDexLiquidityDeposit), cp().(*fsm.MessageDexLiquidityDeposit)
		a.Amount++
		c.Address = victim.acct.addr()
		out["msg:amount"], out["msg:owner-swapped"] = a, c
	case *fsm.MessageDexLiquidityWithdraw:
		a, c := cp().(*fsm.MessageDexLiquidityWithdraw), cp().(*fsm.MessageDexLiquidityWithdraw)
		a.Percent = 100
		c.Address = victim.acct.addr()
		out["msg:amount"], out["msg:owner-swapped"] = a, c
	case *fsm.MessageStake:
		a, b := cp().(*fsm.MessageStake), cp().(*fsm.MessageStake)
		a.Amount++
		b.OutputAddress = att
		out["msg:amount"], out["msg:recipient"] = a, b
	case *fsm.MessageEditStake:
		a, b := cp().(*fsm.MessageEditStake), cp().(*fsm.MessageEditStake)
		a.OutputAddress = att
		b.Address = victim.val
		out["msg:recipient"], out["msg:owner-swapped"] = a, b
	case *fsm.MessageUnstake:
		b := cp().(*fsm.MessageUnstake)
		b.Address = victim.val
		out["msg:owner-swapped"] = b
		out["any-type-swapped"] = &fsm.MessagePause{Address: b.Address}
	case *fsm.MessagePause:
		b := cp().(*fsm.MessagePause)
		b.Address = victim.val
		out["msg:owner-swapped"] = b
		out["any-type-swapped"] = &fsm.MessageUnstake{Address: m.(*fsm.MessagePause).Address}
	case *fsm.MessageUnpause:
		b := cp().(*fsm.MessageUnpause)
		b.Address = victim.val
		out["msg:owner-swapped"] = b
		out["any-type-swapped"] = &fsm.MessageUnstake{Address: m.(*fsm.MessageUnpause).Address}
	case *fsm.MessageChangeParameter:
		a, c := cp().(*fsm.MessageChangeParameter), cp().(*fsm.MessageChangeParameter)
		a.ParameterValue, _ = lib.NewAny(&lib.UInt64Wrapper{Value: 77})
		c.Signer = victim.acct.addr()
		out["msg:amount"], out["msg:owner-swapped"] = a, c
	case *fsm.MessageDAOTransfer:
		a, c := cp().(*fsm.MessageDAOTransfer), cp().(*fsm.MessageDAOTransfer)
		a.Amount++
		c.Address = att
		out["msg:amount"], out["msg:recipient"] = a, c
	}
	return out
}

// forge builds the unauthorised candidates of one (message type, key kind).
func (e *env) forge(mt, k string) []*cand {
	var out []*cand
	str := e.stranger[k]
	vk := nativeKinds[e.rng.Intn(len(nativeKinds))] // the victim's key type is independent of the forger's
	if e.rng.Intn(2) == 0 {
		vk = k
	}
	vt := e.victimTarget(vk)
	approve := func(c *cand) *cand {
		if mt == fsm.MessageChangeParameterName || mt == fsm.MessageDAOTransferName {
			e.approve(c.raw) // even an approved proposal needs its named signer
		}
		return c
	}
	// validly signed by a stranger, content names the victim's record
	{
		tx := e.newTx(e.content(mt, vt, str), "")
		signTx(tx, str)
		out = append(out, approve(e.mk(mt, k, "stranger", "none", tx, str.addr())))
		// the same with the victim's public key on the wire
		t2 := e.newTx(e.content(mt, e.victimTarget(k), str), "")
		signTx(t2, str)
		t2.Signature.PublicKey = e.victim[k].pub()
		out = append(out, approve(e.mk(mt, k, "stranger", "public-key-replaced-by-owner", t2, nil)))
		if k == kEd {
			t4 := e.newTx(e.content(mt, e.victimTarget(kEd), e.twin), "")
			signTx(t4, e.twin)
			out = append(out, approve(e.mk(mt, k, "stranger-address-prefix-twin", "none", t4, e.twin.addr())))
		}
	}
	// keys for which "signatures" exist without a private key (ed25519 identity point, BLS point at infinity): whoever
	// uses them still is not the owner
	if k == kEd || k == kBLS {
		tx := e.newTx(e.content(mt, vt, str), "")
		if k == kEd {
			pk, sig := make([]byte, 32), make([]byte, 64)
			pk[0], sig[0] = 1, 1 // A = R = the identity, S = 0
			tx.Signature = &lib.Signature{PublicKey: pk, Signature: sig}
		} else {
			pk, sig := make([]byte, 48), make([]byte, 96)
			pk[0], sig[0] = 0xc0, 0xc0 // compressed points at infinity
			tx.Signature = &lib.Signature{PublicKey: pk, Signature: sig}
		}
		out = append(out, approve(e.mk(mt, k, "stranger", "degenerate-public-key", tx, nil)))
	}
	// the other accepted encoding of an ethereum key (0x04 || X || Y)
	if k == kEth {
		tx := e.newTx(e.content(mt, vt, str), "")
		signTx(tx, str)
		tx.Signature.PublicKey = append([]byte{4}, tx.Signature.PublicKey...)
		out = append(out, approve(e.mk(mt, k, "stranger", "public-key-65-byte-encoding", tx, str.addr())))
	}
	// the custodial validator: only its operator speaks for it
	switch mt {
	case fsm.MessageEditStakeName, fsm.MessageUnstakeName, fsm.MessagePauseName, fsm.MessageUnpauseName:
		tx := e.newTx(e.content(mt, target{acct: e.custV, val: e.custV.addr(), attack: true}, str), "")
		signTx(tx, str)
		out = append(out, e.mk(mt, k, "stranger", "custodial-validator", tx, str.addr()))
	}
	// validator operations: the operator may not move the output address
	if mt == fsm.MessageEditStakeName && k == kBLS {
		op := e.vVal[vk].op
		tx := e.newTx(e.content(mt, e.victimTarget(vk), str), "")
		signTx(tx, op)
		c := e.mk(mt, k, "operator", "output-address-change", tx, op.addr())
		c.handler = true
		out = append(out, c)
	}
	// fields the state machine fills in itself (the verified signer, the order id, the proposal hash), supplied on the wire
	switch mt {
	case fsm.MessageStakeName:
		// the stranger stakes a validator of its own (it is the output address) and names the victim as the payer
		m := e.content(mt, target{acct: str}, nil).(*fsm.MessageStake)
		m.Signer = e.victim[vk].addr()
		tx := e.newTx(m, "")
		signTx(tx, str)
		out = append(out, e.mk(mt, k, "output", "special-field-prefilled", tx, str.addr()))
	case fsm.MessageEditStakeName:
		if k == kBLS {
			// the operator claims to be the output address and moves the output address
			m := e.content(mt, e.victimTarget(vk), str).(*fsm.MessageEditStake)
			m.Signer = e.victim[vk].addr()
			tx := e.newTx(m, "")
			signTx(tx, e.vVal[vk].op)
			c := e.mk(mt, k, "operator", "special-field-prefilled", tx, e.vVal[vk].op.addr())
			c.handler = true
			out = append(out, c)
		}
	case fsm.MessageCreateOrderName:
		// the stranger creates an order of its own under the id of the victim's order
		m := e.content(mt, target{acct: str}, nil).(*fsm.MessageCreateOrder)
		m.OrderId = e.vOrder[vk]
		tx := e.newTx(m, "")
		signTx(tx, str)
		out = append(out, e.mk(mt, k, "owner", "special-field-prefilled", tx, str.addr()))
	case fsm.MessageDexLimitOrderName, fsm.MessageDexLiquidityDepositName, fsm.MessageDexLiquidityWithdrawName:
		// the order id (derived from the transaction hash by the state machine) supplied on the wire as the stranger's address
		tx := e.newTx(e.content(mt, vt, str), "")
		m0, _ := lib.FromAny(tx.Msg)
		switch m := m0.(type) {
		case *fsm.MessageDexLimitOrder:
			m.OrderId = str.addr()
		case *fsm.MessageDexLiquidityDeposit:
			m.OrderId = str.addr()
		case *fsm.MessageDexLiquidityWithdraw:
			m.OrderId = str.addr()
		}
		tx.Msg, _ = lib.NewAny(m0)
		signTx(tx, str)
		out = append(out, e.mk(mt, k, "stranger", "special-field-prefilled", tx, str.addr()))
	case fsm.MessageChangeParameterName:
		if e.approvedHash != "" {
			// a proposal nobody approved, carrying the hash of one that was
			m := e.content(mt, target{acct: str}, nil).(*fsm.MessageChangeParameter)
			m.ProposalHash = e.approvedHash
			tx := e.newTx(m, "")
			signTx(tx, str)
			c := e.mk(mt, k, "owner", "special-field-prefilled", tx, str.addr())
			c.extraOK, c.handler = false, true
			out = append(out, c)
		}
	}
	// an honest transaction of the actor, mutated after signing
	signer, rel := e.actorSigner(mt, k)
	at := e.actorTarget(k)
	base := func() *lib.Transaction {
		tx := e.newTx(e.content(mt, at, nil), "")
		signTx(tx, signer)
		return tx
	}
	for _, m := range txMuts {
		tx := base()
		m.f(tx)
		out = append(out, e.mk(mt, k, rel, m.name, tx, nil))
	}
	{
		tx := base()
		m0, _ := lib.FromAny(tx.Msg)
		muts := e.msgMuts(m0.(lib.MessageI), e.victimTarget(k), str)
		names := make([]string, 0, len(muts))
		for n := range muts {
			names = append(names, n)
		}
		sort.Strings(names)
		for _, n := range names {
			t2 := base()
			t2.Msg, _ = lib.NewAny(muts[n])
			out = append(out, approve(e.mk(mt, k, rel, n, t2, nil)))
		}
	}
	{
		a, b := base(), base()
		a.Signature = b.Signature
		out = append(out, e.mk(mt, k, rel, "signature-lifted-from-other-tx", a, nil))
		c := base()
		c.Signature.PublicKey = e.stranger[k].pub()
		out = append(out, e.mk(mt, k, rel, "public-key-replaced", c, nil))
		d := base()
		d.Signature.Signature[e.rng.Intn(len(d.Signature.Signature))] ^= byte(1 << uint(e.rng.Intn(8)))
		out = append(out, e.mk(mt, k, rel, "signature-bit-flipped", d, nil))
	}
	if k == kMulti && signer.multi != nil {
		m := signer.multi
		mkm := func(tamper string, f func(sb []byte) (pk, sig []byte), who []byte) {
			tx := e.newTx(e.content(mt, at, nil), "")
			sb, _ := tx.GetSignBytes()
			pk, sig := f(sb)
			tx.Signature = &lib.Signature{PublicKey: pk, Signature: sig}
			out = append(out, e.mk(mt, k, rel, tamper, tx, who))
		}
		n, thr := len(m.keys), int(m.threshold)
		firstN := func(k int) []int {
			o := e.rng.Perm(n)[:k]
			sort.Ints(o)
			return o
		}
		all := firstN(n)
		mkm("multisig-below-threshold", func(sb []byte) ([]byte, []byte) { return m.sign(sb, nil, firstN(thr-1), nil) }, nil)
		mkm("multisig-bitmap-claims-absent-signer", func(sb []byte) ([]byte, []byte) {
			c := firstN(thr)
			return m.sign(sb, nil, c[:thr-1], c)
		}, nil)
		mkm("multisig-bitmap-claims-all", func(sb []byte) ([]byte, []byte) { return m.sign(sb, nil, firstN(1), all) }, nil)
		// a different policy over the same keys is a different account: validly signed, by somebody else
		low := &multiAcct{keys: m.keys, threshold: uint32(thr - 1)}
		mkm("multisig-threshold-redeclared", func(sb []byte) ([]byte, []byte) { return low.sign(sb, nil, nil, nil) }, low.address())
		sub := &multiAcct{keys: m.keys[:n-1], threshold: uint32(min(thr, n-1))}
		mkm("multisig-subset-of-keys", func(sb []byte) ([]byte, []byte) { return sub.sign(sb, nil, nil, nil) }, sub.address())
		sup := &multiAcct{keys: append(append([]crypto.PrivateKeyI{}, m.keys...), e.stranger[kBLS].key), threshold: m.threshold}
		mkm("multisig-superset-with-attacker-key", func(sb []byte) ([]byte, []byte) {
			sg := append(firstN(thr-1), n)
			return sup.sign(sb, nil, sg, nil)
		}, sup.address())
		// the same account with its keys listed in another order and any sufficient subset signing: still the owner
		switch mt {
		case fsm.MessageSendName, fsm.MessageSubsidyName, fsm.MessageCreateOrderName, fsm.MessageDexLimitOrderName, fsm.MessageDexLiquidityDepositName:
			tx := e.newTx(e.content(mt, at, nil), "")
			sb, _ := tx.GetSignBytes()
			pk, sig := m.sign(sb, e.rng.Perm(n), firstN(thr+e.rng.Intn(n-thr+1)), nil)
			tx.Signature = &lib.Signature{PublicKey: pk, Signature: sig}
			e.reordered = append(e.reordered, e.mk(mt, k, rel, "multisig-keys-reordered-any-quorum", tx, signer.addr()))
		}
		zero := &multiAcct{keys: m.keys, threshold: 0}
		mkm("multisig-threshold-zero", func(sb []byte) ([]byte, []byte) {
			// threshold 0 cannot be built through the account constructor: serialize by hand
			pk, sig := m.sign(sb, nil, firstN(1), nil)
			mp := new(crypto.MultiPublicKey)
			_ = lib.Unmarshal(pk, mp)
			mp.Threshold = 0
			pk, _ = lib.Marshal(mp)
			return pk, sig
		}, zero.addressThr0())
	}
	return out
}

func (m *multiAcct) addressThr0() []byte {
	// Address() = hash(sorted keys || threshold)[:20]; reproduce through the decoder canopy itself uses
	pk, _ := m.signThr([]byte("x"), nil, []int{0}, nil, 1)
	mp := new(crypto.MultiPublicKey)
	_ = lib.Unmarshal(pk, mp)
	mp.Threshold = 0
	bz, _ := lib.Marshal(mp)
	k, err := crypto.NewPublicKeyFromBytes(bz)
	if err != nil {
		return nil
	}
	return k.Address().Bytes()
}

// ---------------------------------------------------------------------------------------------------------------------
// certificate results

type certOpts struct {
	proposer   *party   // whose key is named in the certificate
	signer     *party   // who signs the transaction
	lock       [][]byte // order ids to lock
	close      [][]byte
	partial    bool   // fewer than +2/3 sign the certificate
	swapAfter  *party // replace the proposer key after the committee signed
	buyer      []byte
	breakQCSig bool
}

func (e *env) cert(o certOpts) (*lib.Transaction, bool) {
	root := e.height() - 1
	vs, err := e.n0.C.FSM.LoadCommittee(2, root)
	if err != nil {
		e.t.Fatalf("%s: committee 2: %v", e.name, err)
	}
	res := &lib.CertificateResult{RewardRecipients: &lib.RewardRecipients{PaymentPercents: []*lib.PaymentPercents{{Address: freshAddr(e.name + "/reward"), Percent: 100, ChainId: 2}}}}
	if len(o.lock)+len(o.close) > 0 {
		res.Orders = &lib.Orders{CloseOrders: o.close}
		for _, id := range o.lock {
			res.Orders.LockOrders = append(res.Orders.LockOrders, &lib.LockOrder{OrderId: id, ChainId: 2, BuyerReceiveAddress: o.buyer, BuyerSendAddress: o.buyer, BuyerChainDeadline: 1_000_000})
		}
	}
	qc := &lib.QuorumCertificate{
		Header:      &lib.View{NetworkId: node.NetworkID, ChainId: 2, Height: e.certHeight + 1, RootHeight: root, Phase: lib.Phase_PRECOMMIT_VOTE},
		BlockHash:   crypto.Hash([]byte(fmt.Sprint(e.name, "/nested-block/", e.next()))),
		Results:     res,
		ResultsHash: res.Hash(),
		ProposerKey: o.proposer.key.PublicKey().Bytes(),
	}
	n := len(vs.ValidatorSet.ValidatorSet)
	pick := func(i int, _ *lib.ConsensusValidator) bool { return true }
	if o.partial {
		pick = func(i int, _ *lib.ConsensusValidator) bool { return i < n/3 }
	}
	if _, _, er := e.ch.Certify(qc, vs, pick); er != nil {
		e.t.Fatalf("%s: certify nested certificate: %v", e.name, er)
	}
	ok := !o.partial
	if o.swapAfter != nil {
		qc.ProposerKey = o.swapAfter.key.PublicKey().Bytes()
		ok = false
	}
	if o.breakQCSig {
		qc.Signature.Signature[11] ^= 0x10
		ok = false
	}
	tx := e.newTx(&fsm.MessageCertificateResults{Qc: qc}, "")
	tx.ChainId = 1
	signTx(tx, o.signer)
	return tx, ok
}

func (e *env) certCands() []*cand {
	mt := fsm.MessageCertificateResultsName
	var out []*cand
	prop := e.com2[0]
	var vIDs [][]byte
	for _, k := range nativeKinds {
		vIDs = append(vIDs, e.vOrder[k])
	}
	evil := e.stranger[kEd].addr()
	add := func(rel, tamper string, o certOpts, who *party, handler bool) {
		if o.lock == nil {
			o.lock = vIDs
		}
		o.buyer = evil
		tx, ok := e.cert(o)
		c := e.mk(mt, who.kind, rel, tamper, tx, who.addr())
		c.extraOK, c.handler = ok, handler
		out = append(out, c)
	}
	add("committee-member-not-proposer", "none", certOpts{proposer: prop, signer: e.com2[1]}, e.com2[1], false)
	for _, k := range nativeKinds {
		add("stranger", "none", certOpts{proposer: prop, signer: e.stranger[k]}, e.stranger[k], false)
	}
	add("proposer", "certificate-below-two-thirds", certOpts{proposer: prop, signer: prop, partial: true}, prop, true)
	add("proposer", "certificate-signature-broken", certOpts{proposer: prop, signer: prop, breakQCSig: true}, prop, true)
	add("self-declared-proposer", "proposer-key-swapped-after-certification", certOpts{proposer: prop, signer: e.stranger[kBLS], swapAfter: e.stranger[kBLS]}, e.stranger[kBLS], true)
	// mutated after signing
	base := func() *lib.Transaction {
		tx, _ := e.cert(certOpts{proposer: prop, signer: prop, lock: vIDs, buyer: evil})
		return tx
	}
	for _, m := range txMuts {
		tx := base()
		m.f(tx)
		out = append(out, e.mk(mt, kBLS, "proposer", m.name, tx, nil))
	}
	{
		tx := base()
		m0, _ := lib.FromAny(tx.Msg)
		cm := m0.(*fsm.MessageCertificateResults)
		cm.Qc.Results.Orders.LockOrders[0].BuyerReceiveAddress = e.stranger[kSecp].addr()
		cm.Qc.ResultsHash = cm.Qc.Results.Hash()
		tx.Msg, _ = lib.NewAny(cm)
		out = append(out, e.mk(mt, kBLS, "proposer", "msg:recipient", tx, nil))
		a, b := base(), base()
		a.Signature = b.Signature
		out = append(out, e.mk(mt, kBLS, "proposer", "signature-lifted-from-other-tx", a, nil))
		c := base()
		c.Signature.PublicKey = e.com2[1].pub()
		out = append(out, e.mk(mt, kBLS, "proposer", "public-key-replaced", c, nil))
	}
	return out
}

func (e *env) honestCert(lock, cls [][]byte) *cand {
	prop := e.com2[0]
	tx, _ := e.cert(certOpts{proposer: prop, signer: prop, lock: lock, close: cls, buyer: freshAddr(e.name + "/buyer")})
	c := e.mk(fsm.MessageCertificateResultsName, kBLS, "proposer", "none", tx, prop.addr())
	c.must = true
	return c
}

// ---------------------------------------------------------------------------------------------------------------------
// Ethereum wrappers

func (e *env) rlpCand(mt, kind, rel, tamper string, p *party, s rlpSpec, mut func(t *lib.Transaction)) *cand {
	s.v2 = kind == kRLP2
	s.gas = 100_000 + e.next()
	s.nonce = e.height()
	if s.v2 {
		// the account nonce is a floor and the mempool orders by fee: later nonces pay less, so they execute later
		s.nonce = e.next()
		s.gas = 2_000_000 - s.nonce
	}
	raw := rlpRaw(p, s)
	tx, err := rlpWrap(raw, s.v2)
	if err != nil {
		e.t.Fatalf("%s: rlp wrap %s/%s: %v", e.name, mt, tamper, err)
	}
	signer := p.addr()
	if mut != nil {
		mut(tx)
		signer = nil
	}
	return e.mk(mt, kind, rel, tamper, tx, signer)
}

func (e *env) rlpSpecFor(mt string, tg target, attacker *party, selfStake bool) rlpSpec {
	switch mt {
	case fsm.MessageSendName:
		to := freshAddr(fmt.Sprint(e.name, "/rlpto/", e.next()))
		if e.rng.Intn(2) == 0 {
			return rlpSpec{to: common.BytesToAddress(to), value: fsm.UpscaleTo18Decimals(e.uniq()), dynamic: e.rng.Intn(2) == 0}
		}
		return rlpSpec{to: ethCNPY, data: erc20Transfer(to, e.uniq())}
	case fsm.MessageSubsidyName:
		return rlpSpec{to: ethCNPY, data: protoCall(fsm.SubsidySelector, e.content(mt, tg, attacker))}
	case fsm.MessageStakeName:
		m := e.content(mt, tg, attacker).(*fsm.MessageStake)
		if selfStake {
			m.PublicKey, m.Delegate, m.NetAddress = nil, true, "" // the wallet's own key becomes a delegate
		}
		return rlpSpec{to: ethStake, data: protoCall(fsm.StakeSelector, m)}
	case fsm.MessageEditStakeName:
		return rlpSpec{to: ethStake, data: protoCall(fsm.EditStakeSelector, e.content(mt, tg, attacker)), dynamic: true}
	case fsm.MessageUnstakeName:
		return rlpSpec{to: ethStake, data: protoCall(fsm.UnstakeSelector, e.content(mt, tg, attacker))}
	case fsm.MessageCreateOrderName:
		return rlpSpec{to: ethSwap, data: protoCall(fsm.CreateOrderSelector, e.content(mt, tg, attacker))}
	case fsm.MessageEditOrderName:
		return rlpSpec{to: ethSwap, data: protoCall(fsm.EditOrderSelector, e.content(mt, tg, attacker)), dynamic: true}
	case fsm.MessageDeleteOrderName:
		return rlpSpec{to: ethSwap, data: protoCall(fsm.DeleteOrderSelector, e.content(mt, tg, attacker))}
	}
	panic("rlp " + mt)
}

var rlpMsgs = []string{fsm.MessageSendName, fsm.MessageSubsidyName, fsm.MessageStakeName, fsm.MessageEditStakeName, fsm.MessageUnstakeName,
	fsm.MessageCreateOrderName, fsm.MessageEditOrderName, fsm.MessageDeleteOrderName}

func (e *env) rlpKinds() []string {
	if e.v2 {
		return []string{kRLP2}
	}
	return []string{kRLP, kRLP2}
}

// rlpForge: wrappers signed by a stranger naming the victim's records, and honest wrappers of the actor altered so that
// they no longer re-derive from the signed ethereum transaction.
func (e *env) rlpForge(mt string) []*cand {
	var out []*cand
	for _, kind := range e.rlpKinds() {
		vt := e.victimTarget(kEth)
		if mt != fsm.MessageSendName { // the sender of a plain transfer is always the recovered key
			out = append(out, e.rlpCand(mt, kind, "stranger", "none", e.rlpStranger, e.rlpSpecFor(mt, vt, e.rlpStranger, false), nil))
		}
		at := target{acct: e.rlpActor, val: e.rlpActor.addr(), order: e.keepOrder[kRLP]}
		spec := func() rlpSpec { return e.rlpSpecFor(mt, at, nil, true) }
		type wm struct {
			name string
			f    func(t *lib.Transaction)
		}
		muts := []wm{
			{"rlp-wrapper:fee", func(t *lib.Transaction) { t.Fee++ }},
			{"rlp-wrapper:time", func(t *lib.Transaction) { t.Time++ }},
			{"rlp-wrapper:created-height", func(t *lib.Transaction) { t.CreatedHeight++ }},
			{"rlp-wrapper:nonce", func(t *lib.Transaction) { t.Nonce++ }},
			{"rlp-wrapper:message-type", func(t *lib.Transaction) { t.MessageType = fsm.MessagePauseName }},
			{"rlp-wrapper:public-key-replaced-by-owner", func(t *lib.Transaction) { t.Signature.PublicKey = e.victim[kEth].pub() }},
			{"rlp-wrapper:inner-bit-flipped", func(t *lib.Transaction) { t.Signature.Signature[len(t.Signature.Signature)-40] ^= 1 }},
		}
		if kind == kRLP {
			muts = append(muts, wm{"rlp-wrapper:memo-domain", func(t *lib.Transaction) { t.Memo = fsm.RLPV2Indicator }})
		} else {
			muts = append(muts, wm{"rlp-wrapper:memo-domain", func(t *lib.Transaction) { t.Memo = fsm.RLPIndicator }})
		}
		for _, m := range muts {
			out = append(out, e.rlpCand(mt, kind, "owner", m.name, e.rlpActor, spec(), m.f))
		}
		// payload of the wrapper differs from the payload inside the signed ethereum transaction
		inner := func(t *lib.Transaction) lib.MessageI {
			m, _ := lib.FromAny(t.Msg)
			return m.(lib.MessageI)
		}
		pm := e.msgMuts(inner(e.rlpCand(mt, kind, "owner", "x", e.rlpActor, spec(), nil).tx), vt, e.rlpStranger)
		names := make([]string, 0, len(pm))
		for n := range pm {
			names = append(names, n)
		}
		sort.Strings(names)
		for _, n := range names {
			repl := pm[n]
			out = append(out, e.rlpCand(mt, kind, "owner", "rlp-wrapper:"+n, e.rlpActor, spec(), func(t *lib.Transaction) {
				t.Msg, _ = lib.NewAny(repl)
				if strings.Contains(n, "any-type") {
					t.MessageType = repl.Name()
				}
			}))
		}
	}
	return out
}

// ---------------------------------------------------------------------------------------------------------------------
// governance approve list (proposals.json of every node)

func (e *env) approve(raw []byte) {
	t := new(lib.Transaction)
	if err := lib.Unmarshal(raw, t); err != nil {
		return
	}
	j, err := json.Marshal(t)
	if err != nil {
		return
	}
	for _, n := range e.ch.Nodes {
		p := make(fsm.GovProposals)
		_ = p.NewFromFile(n.Dir)
		p[crypto.HashString(raw)] = fsm.GovProposalWithVote{Proposal: j, Approve: true}
		_ = p.SaveToFile(n.Dir)
	}
}

// ---------------------------------------------------------------------------------------------------------------------
// running candidates

func reachedSig(err lib.ErrorI) bool {
	if err == nil {
		return true
	}
	for _, x := range []lib.ErrorI{fsm.ErrInvalidSignature(), fsm.ErrUnauthorizedTx(), fsm.ErrInvalidPublicKey(fmt.Errorf("x")), fsm.ErrEmptySignature()} {
		if err.Code() == x.Code() && err.Module() == x.Module() {
			return true
		}
	}
	return false
}

func (e *env) viol(kind string, c *cand, path string, w map[string]any) {
	if w == nil {
		w = map[string]any{}
	}
	sig := kind
	if c != nil {
		sig = fmt.Sprintf("%s msg=%s key=%s relation=%s tamper=%s path=%s", kind, c.mt, c.kind, c.rel, c.tamper, path)
		w["tx"], w["tx_hash"], w["really_signed_by"], w["checktx_alone"] = fmt.Sprintf("%x", c.raw), c.hash, fmt.Sprintf("%x", c.signer), c.errA
		if j, err := json.Marshal(c.tx); err == nil {
			w["tx_json"] = json.RawMessage(j)
		}
	}
	w["case"], w["height"] = e.name, e.height()
	e.run.Count("violation_events_"+kind, 1)
	e.nviol++
	e.run.Violation(sig, "^"+e.name+"$", w)
}

// pathA: alone through CheckTx on the committed state.
func (e *env) pathA(cs []*cand) {
	v := newView(e.last)
	for _, c := range cs {
		e.run.Eval(1)
		_, err := e.n0.C.FSM.CheckTx(c.raw, "", nil)
		c.reached = reachedSig(err)
		c.errA = "accepted"
		if err != nil {
			c.errA = err.Error()
		}
		e.run.Count("path_a_checktx_alone", 1)
		if !c.reached {
			e.run.Count("turned_away_before_signature_check", 1)
			if os.Getenv("VERIF_C05_DEBUG") != "" {
				fmt.Printf("DEBUG unreached %s: %s\n", c.tuple(), strings.ReplaceAll(c.errA, "\n", " "))
			}
		}
		e.note(c, "a")
		okSigner := c.signer != nil && (refAuthorised(c.msg, c.signer, v) || c.handler)
		if err == nil && !okSigner {
			e.viol("unauthorised-accepted-by-checktx", c, "a", nil)
		}
		if err != nil && c.must {
			e.inconclusive("%s: honest %s rejected by CheckTx alone: %v", e.name, c.tuple(), err)
			e.stop = true
		}
	}
}

func (e *env) inconclusive(format string, a ...any) {
	fmt.Printf("DEBUG inconclusive: "+format+"\n", a...)
	e.run.Inconclusive(format, a...)
}

func (e *env) note(c *cand, path string) {
	e.tuples[c.tuple()]++
	if c.reached {
		e.run.Distinct(c.tuple() + "|" + path)
	}
}

func rehash(b *lib.Block) []byte {
	if _, err := b.BlockHeader.SetHash(); err != nil {
		panic(err)
	}
	bz, err := lib.Marshal(b)
	if err != nil {
		panic(err)
	}
	return bz
}

// block offers the forged candidates together with the honest ones (story step, neighbours) to the proposer. If the
// proposer cannot build any block from the set (ApplyTransactions aborting is itself abnormal: one bad transaction must
// never keep the others out) the same forged candidates are retried in halves - the honest ones stay with the first
// half, the second half gets fresh neighbours - so that the run still ends in judged blocks; only a group of at most
// one forged candidate that still cannot be built leaves the case inconclusive.
func (e *env) block(path string, forged, honest []*cand, extra [][]byte) {
	if e.stop {
		return
	}
	if e.tryBlock(path, forged, honest, extra) {
		return
	}
	e.run.Count("proposer_could_not_build_block", 1)
	if len(forged) <= 1 || e.bisected >= 40 {
		e.inconclusive("%s: proposer cannot build a block even from %d forged candidate(s) plus honest neighbours (path %s): %s", e.name, len(forged), path, e.lastProposeErr)
		e.stop = true
		return
	}
	if e.nviol > 0 || e.refuted {
		return // the case is refuted already: no need to search this set any further
	}
	e.bisected++
	e.run.Count("candidate_sets_bisected", 1)
	h := len(forged) / 2
	was := e.nviol
	e.block(path, forged[:h], honest, extra)
	if e.nviol == was {
		e.block(path, forged[h:], e.neighbours(4), nil)
	}
}

// tryBlock hands one set to the mempool, shows the replica a copy of the proposal with one unauthorised candidate
// spliced in, commits the honest block on both nodes and judges it. It returns false when the proposer built nothing.
func (e *env) tryBlock(path string, forged, honest []*cand, extra [][]byte) bool {
	cs := append(append([]*cand{}, forged...), honest...)
	var txs [][]byte
	for _, c := range cs {
		txs = append(txs, c.raw)
		e.byHash[c.hash] = c
	}
	txs = append(txs, extra...)
	all := txs
	if path != "e" && path != "f" { // paths (e), (f) choose the order themselves
		e.rng.Shuffle(len(txs), func(i, j int) { txs[i], txs[j] = txs[j], txs[i] })
	}
	ch := e.ch
	// hand the whole set to the mempool at once (one sort instead of one per transaction); a set the mempool turns away
	// as a whole (a member failing the stateless checks) goes in one by one through Propose
	if er := e.n0.C.Mempool.HandleTransactions(txs...); er == nil {
		txs = nil
	}
	p, err := ch.Propose(0, txs, nil)
	if err != nil {
		e.lastProposeErr = strings.Join(strings.Fields(err.Error()), " ")
		e.n0.C.Mempool.L.Lock()
		e.n0.C.Mempool.DeleteTransaction(all...)
		e.n0.C.Mempool.L.Unlock()
		return false
	}
	before := e.last
	// walk the proposed block in order: a transaction nobody entitled signed must not be in what the proposer built (it
	// would be applied by every node once +2/3 sign the proposal)
	v := newView(before)
	ent := newEnt()
	included := map[string]bool{}
	flagged := 0
	for _, raw := range p.Block.Transactions {
		h := crypto.HashString(raw)
		included[h] = true
		c := e.byHash[h]
		if c == nil {
			e.t.Fatalf("%s: block %d contains a transaction the harness never made", e.name, p.Block.BlockHeader.Height)
		}
		legit := c.signer != nil && c.extraOK && refAuthorised(c.msg, c.signer, v)
		if !legit {
			flagged++
			e.viol("unauthorised-tx-included", c, path, map[string]any{"block_height": p.Block.BlockHeader.Height})
			continue
		}
		ent.grant(c, c.signer, v)
		e.run.Count("legitimate_txs_included", 1)
		if c.msg != nil {
			e.applied(c)
		}
	}
	// the replica must reject the proposal once a transaction nobody entitled signed is in it
	v0 := newView(before)
	var bads []*cand
	for _, c := range cs {
		if !(c.signer != nil && c.extraOK && refAuthorised(c.msg, c.signer, v0)) {
			bads = append(bads, c)
		}
	}
	if len(bads) > 0 && path != "e" && path != "f" {
		c := bads[e.rng.Intn(len(bads))]
		blk := new(lib.Block)
		if er := lib.Unmarshal(p.BlockBytes, blk); er != nil {
			panic(er)
		}
		pos := e.rng.Intn(len(blk.Transactions) + 1)
		blk.Transactions = append(blk.Transactions[:pos:pos], append([][]byte{c.raw}, blk.Transactions[pos:]...)...)
		blk.BlockHeader.NumTxs++
		blk.BlockHeader.TotalTxs++
		bz := rehash(blk)
		q := &node.Proposal{RCBuildHeight: p.RCBuildHeight, BlockBytes: bz, Block: blk, Results: p.Results, Proposer: 0}
		q.QC = &lib.QuorumCertificate{Header: p.QC.Header, Block: bz, BlockHash: blk.BlockHeader.Hash, Results: p.Results, ResultsHash: p.Results.Hash(), ProposerKey: p.QC.ProposerKey}
		_, er := ch.Validate(1, q, nil)
		ch.Nodes[1].C.ResetFSM()
		e.run.Count("replica_shown_block_with_unauthorised_tx", 1)
		if er == nil {
			e.viol("replica-accepted-block-with-unauthorised-tx", c, path, nil)
		}
	}
	res, er := ch.Validate(1, p, nil)
	if er != nil {
		// nothing was committed: take the set back out of the proposer's mempool and let the replica forget the proposal
		ch.Nodes[1].C.ResetFSM()
		e.n0.C.Mempool.L.Lock()
		e.n0.C.Mempool.DeleteTransaction(all...)
		e.n0.C.Mempool.L.Unlock()
		if flagged == 0 {
			e.inconclusive("%s: replica rejects the honest proposal at height %d: %v", e.name, p.Block.BlockHeader.Height, er)
			e.stop = true
			return true
		}
		// the proposer put a transaction nobody entitled signed into its block (reported above) and the replica refused
		// it: the honest story cannot go on from here, the small ordered blocks of path (e) still can
		e.run.Count("proposals_with_unauthorised_tx_rejected_by_replica", 1)
		e.refuted = true
		return true
	}
	vs, er := ch.Committee(ch.Nodes[0], p.QC.Header.RootHeight)
	if er != nil {
		e.t.Fatalf("%s: committee: %v", e.name, er)
	}
	if _, _, err := ch.Certify(p.QC, vs, nil); err != nil {
		e.t.Fatalf("%s: certify: %v", e.name, err)
	}
	for i := range ch.Nodes {
		var cached *lib.BlockResult
		if i == 1 {
			cached = res
		}
		if er := ch.Deliver(i, p.QC, cached, false); er != nil {
			e.inconclusive("%s: node %d cannot commit the honest block at height %d: %v", e.name, i, p.Block.BlockHeader.Height, er)
			e.stop = true
			return true
		}
	}
	after, e2 := takeSnap(e.n0.C.FSM.Store())
	if e2 != nil {
		e.t.Fatalf("%s: snapshot: %v", e.name, e2)
	}
	e.last = after
	e.run.Count("blocks_judged", 1)
	e.run.Count("path_"+path+"_offered_in_block", int64(len(cs)))
	for _, c := range cs {
		e.run.Eval(1)
		e.note(c, path)
		if c.must && !included[c.hash] {
			e.inconclusive("%s: honest %s was not included at height %d (path %s, CheckTx alone: %s)", e.name, c.tuple(), p.Block.BlockHeader.Height, path, c.errA)
			e.stop = true
		}
	}
	probs, n := diffProblems(before, after, ent)
	e.run.Count("state_records_compared", int64(n))
	for _, f := range probs {
		var suspects []string
		for _, c := range cs {
			if !(c.signer != nil && c.extraOK) || c.handler {
				suspects = append(suspects, c.tuple())
			}
		}
		if len(suspects) > 12 {
			suspects = suspects[:12]
		}
		e.run.Count("violation_events_"+strings.Fields(f.kind)[0], 1)
		e.nviol++
		e.run.Violation(f.kind+" path="+path, "^"+e.name+"$", map[string]any{"case": e.name, "height": p.Block.BlockHeader.Height, "detail": f.detail,
			"included": len(p.Block.Transactions), "some_unauthorised_candidates_in_mempool": suspects})
	}
	return true
}

// applied keeps the harness' own notes about the honest story up to date (order amounts).
func (e *env) applied(c *cand) {
	switch m := c.msg.(type) {
	case *fsm.MessageCreateOrder:
		e.orderAmt[string(c.hashBytes()[:20])] = m.AmountForSale
	case *fsm.MessageEditOrder:
		e.orderAmt[string(m.OrderId)] = m.AmountForSale
	}
}

func (e *env) neighbours(n int) []*cand {
	var out []*cand
	kinds := []string{kEd, kSecp, kEth, kBLS}
	for i := 0; i < n; i++ {
		p := e.nb[kinds[i%len(kinds)]]
		c := e.honest(fsm.MessageSendName, p, "owner", &fsm.MessageSend{FromAddress: p.addr(), ToAddress: freshAddr(fmt.Sprint(e.name, "/nb/", e.next())), Amount: e.uniq()})
		c.must = true
		out = append(out, c)
	}
	return out
}

func (e *env) badEd(n int) [][]byte {
	var out [][]byte
	p := e.nb[kEd]
	for i := 0; i < n; i++ {
		tx := e.newTx(&fsm.MessageSend{FromAddress: p.addr(), ToAddress: freshAddr(fmt.Sprint(e.name, "/bad/", e.next())), Amount: e.uniq()}, "")
		signTx(tx, p)
		tx.Signature.Signature[7] ^= 0x40
		c := e.mk(fsm.MessageSendName, kEd, "owner", "signature-bit-flipped", tx, nil)
		e.byHash[c.hash] = c
		out = append(out, c.raw)
	}
	return out
}

// round runs one set of forged candidates through all paths; each of its three blocks also carries one step of the
// honest story (generated and checked alone right before its block, because its content depends on the step before).
func (e *env) round(r int, forged []*cand) {
	if e.stop {
		return
	}
	crypto.SignatureCache.Reset()
	e.pathA(forged)
	for j, path := range []string{"b", "c", "d"} {
		if e.stop || e.refuted {
			return
		}
		step := 3*r + j
		honest := e.story(step)
		for _, c := range e.reordered {
			c.must = true
			honest = append(honest, c)
		}
		e.reordered = nil
		var lock, cls [][]byte
		switch step {
		case 1:
			for _, k := range nativeKinds {
				lock = append(lock, e.bOrder[k])
			}
		case 4:
			for _, k := range nativeKinds {
				cls = append(cls, e.bOrder[k])
			}
		}
		if lock != nil || cls != nil {
			honest = append(honest, e.honestCert(lock, cls))
		}
		e.pathA(honest)
		var extra [][]byte
		nbs := 8
		switch path {
		case "b": // cold cache, batch verifier, good neighbours
			crypto.SignatureCache.Reset()
		case "c": // the same forged candidates again: what verified in the last block is in the signature cache now
			nbs = 4
		case "d": // cold cache and bad ed25519 signatures next to them: the batch fails and falls back to one by one
			crypto.SignatureCache.Reset()
			extra = e.badEd(24)
		}
		e.block(path, forged, append(honest, e.neighbours(nbs)...), extra)
		for _, c := range honest {
			if c.must && c.mt == fsm.MessageCertificateResultsName {
				e.certHeight++
			}
		}
	}
}

// pathE: small blocks whose order in the mempool (fee descending) is chosen: validly signed transactions of a stranger
// that name the victim's account (U: they occupy a slot in the batch verifier and are then turned away by the signer
// rule), forged transactions that carry the victim's public key and a signature the victim never made, or made over
// something else (F: they pass everything but the batch verification), and honest neighbours (N), in every relative
// order. The bookkeeping between batch slots and transactions must survive the U's: the F's must not execute, the N's must.
func (e *env) pathE(idx int) {
	perms := []string{"UFNNN", "FUNNN", "UUFNNN", "NUFNN", "UNFNN", "UFFNNN", "UNUFN", "NNUF"}
	nbKinds := []string{kEd, kSecp, kEth, kBLS}
	for ki, k := range nativeKinds {
		var chosen []string
		if core.Thorough() {
			chosen = perms
		} else {
			chosen = []string{perms[(idx+ki)%len(perms)]}
		}
		for _, perm := range chosen {
			if e.stop {
				return
			}
			var forged, honest []*cand
			str, vic := e.stranger[k], e.victim[k]
			for i, r := range perm {
				fee := e.fee(fsm.MessageSendName) + uint64(len(perm)-i)*100
				switch r {
				case 'U':
					tx := e.newTx(&fsm.MessageSend{FromAddress: vic.addr(), ToAddress: str.addr(), Amount: e.uniq()}, "")
					tx.Fee = fee
					signTx(tx, str)
					forged = append(forged, e.mk(fsm.MessageSendName, k, "stranger", "none", tx, str.addr()))
				case 'F':
					tx := e.newTx(&fsm.MessageSend{FromAddress: vic.addr(), ToAddress: str.addr(), Amount: e.uniq()}, "")
					tx.Fee = fee
					tamper := "public-key-replaced-by-owner"
					if lifted := e.victimSig[k]; lifted != nil && e.rng.Intn(2) == 0 {
						tx.Signature, tamper = &lib.Signature{PublicKey: lifted.PublicKey, Signature: lifted.Signature}, "signature-lifted-from-other-tx"
					} else {
						signTx(tx, str)
						tx.Signature.PublicKey = vic.pub()
					}
					forged = append(forged, e.mk(fsm.MessageSendName, k, "stranger", tamper, tx, nil))
				default:
					q := e.nb[nbKinds[(i+ki)%len(nbKinds)]]
					tx := e.newTx(&fsm.MessageSend{FromAddress: q.addr(), ToAddress: freshAddr(fmt.Sprint(e.name, "/nbe/", e.next())), Amount: e.uniq()}, "")
					tx.Fee = fee
					signTx(tx, q)
					c := e.mk(fsm.MessageSendName, q.kind, "owner", "none", tx, q.addr())
					c.must = true
					honest = append(honest, c)
				}
			}
			crypto.SignatureCache.Reset()
			e.pathA(append(append([]*cand{}, forged...), honest...))
			crypto.SignatureCache.Reset()
			e.run.Count("path_e_small_ordered_blocks", 1)
			e.run.Distinct("path-e|" + k + "|" + perm)
			e.block("e", forged, honest, nil)
		}
	}
}

// pathF: warm-cache shards. The batch verifier spreads the signatures of a block over 8 lists (slot number mod 8) and
// each list handles its ed25519 signatures first, skipping those the process-wide signature cache already knows. Here
// every list gets exactly such an ed25519 signature - honest neighbour sends the node has verified once already (CheckTx
// alone, as when a transaction is admitted before the block is built) - and, behind them, forged transactions of every
// other key type (the owner's BLS / secp256k1 / eth-secp256k1 / multisig public key with a signature made by an unrelated
// key: sends debiting the victim, a pause and an edit-stake of the victim's validator) at every list position. Whatever
// the cache says about the neighbours, the other signatures of the same list still have to be verified.
func (e *env) pathF(idx int) {
	if e.stop {
		return
	}
	kinds := []string{kBLS, kSecp, kEth, kMulti}
	var forged, honest []*cand
	lead := 8
	if core.Thorough() {
		lead = 8 * (1 + idx%2) // one or two cached ed25519 signatures per list
	}
	total := lead + 8*len(kinds) + 2*len(kinds)
	pos := 0
	fee := func() uint64 { pos++; return e.fee(fsm.MessageSendName) + uint64(total-pos+1)*10 }
	q := e.nb[kEd]
	for i := 0; i < lead; i++ {
		tx := e.newTx(&fsm.MessageSend{FromAddress: q.addr(), ToAddress: freshAddr(fmt.Sprint(e.name, "/nbf/", e.next())), Amount: e.uniq()}, "")
		tx.Fee = fee()
		signTx(tx, q)
		c := e.mk(fsm.MessageSendName, kEd, "owner", "none", tx, q.addr())
		c.must = true
		honest = append(honest, c)
	}
	forge := func(mt, k string, msg lib.MessageI) {
		tx := e.newTx(msg, "")
		tx.Fee = fee()
		signTx(tx, e.stranger[k])
		tx.Signature.PublicKey = e.victim[k].pub()
		forged = append(forged, e.mk(mt, k, "stranger", "public-key-replaced-by-owner", tx, nil))
	}
	for i := 0; i < 8*len(kinds); i++ { // consecutive slots: every key type lands in every list
		k := kinds[(i+i/8)%len(kinds)]
		forge(fsm.MessageSendName, k, &fsm.MessageSend{FromAddress: e.victim[k].addr(), ToAddress: e.stranger[k].addr(), Amount: e.uniq()})
	}
	for _, k := range kinds {
		forge(fsm.MessagePauseName, k, &fsm.MessagePause{Address: e.vVal[k].op.addr()})
		forge(fsm.MessageEditStakeName, k, e.content(fsm.MessageEditStakeName, e.victimTarget(k), e.stranger[k]))
	}
	crypto.SignatureCache.Reset()
	e.pathA(forged)
	crypto.SignatureCache.Reset()
	e.pathA(honest) // verified once, not in any block yet: their signatures are in the cache from here on
	e.run.Count("path_f_warm_cache_shard_blocks", 1)
	for i, c := range forged {
		e.run.Distinct(fmt.Sprintf("path-f|%s|%s|list%d", c.mt, c.kind, (lead+i)%8))
	}
	e.block("f", forged, honest, nil)
}

// cacheProbes: the signature cache is keyed by publicKey || message || signature without length prefixes. For each key type
// a genuinely verified (and therefore cached) tuple is re-split at another boundary into a tuple of a shorter key type
// that nobody signed, and the real VerifyBytes is asked about it. Whether such a tuple can be dressed as a transaction is
// a different question (its message part would have to be the sign bytes of a transaction): every such hit is only
// counted, the transaction-level consequence is what the candidates above would show.
func (e *env) cacheProbes() {
	crypto.SignatureCache.Reset()
	msg := crypto.Hash([]byte(e.name + "/cache-probe"))
	for _, k := range []string{kEth, kSecp, kBLS} {
		key := e.nb[k].key
		pk, sig := key.PublicKey().Bytes(), key.Sign(msg)
		if !key.PublicKey().VerifyBytes(msg, sig) {
			e.t.Fatalf("%s: honest %s signature does not verify", e.name, k)
		}
		// as an ed25519 tuple: key = first 32 bytes, signature = last 64 bytes, message = everything between
		all := append(append(append([]byte{}, pk...), msg...), sig...)
		edPk, edMsg, edSig := all[:32], all[32:len(all)-64], all[len(all)-64:]
		e.run.Count("sigcache_resplit_probes", 1)
		if crypto.BytesToED25519Public(edPk).VerifyBytes(edMsg, edSig) {
			e.run.Count("sigcache_resplit_probes_verified_without_a_signature", 1)
		}
		// ... and dressed as a transaction: the public key / signature of the re-split tuple on an honest payload
		tx := e.newTx(e.content(fsm.MessageSendName, e.victimTarget(kEd), e.stranger[kEd]), "")
		tx.Signature = &lib.Signature{PublicKey: edPk, Signature: edSig}
		c := e.mk(fsm.MessageSendName, kEd, "stranger", "signature-cache-resplit-"+k, tx, nil)
		e.pathA([]*cand{c})
	}
	crypto.SignatureCache.Reset()
}

// ---------------------------------------------------------------------------------------------------------------------

func (e *env) setup(idx int) {
	e.victim, e.actor, e.actor2, e.stranger = map[string]*party{}, map[string]*party{}, map[string]*party{}, map[string]*party{}
	e.vVal, e.hVal, e.nb, e.selfOp = map[string]*valRef{}, map[string]*valRef{}, map[string]*party{}, map[string]*party{}
	e.vOrder, e.keepOrder, e.aOrder, e.bOrder, e.orderAmt = map[string][]byte{}, map[string][]byte{}, map[string][]byte{}, map[string][]byte{}, map[string]uint64{}
	e.byHash, e.tuples = map[string]*cand{}, map[string]int{}
	const funds = 50_000_000_000_000
	p := fsm.DefaultParams()
	p.Validator.UnstakingBlocks, p.Validator.DelegateUnstakingBlocks, p.Validator.MaxPauseBlocks = 100_000, 100_000, 100_000
	p.Validator.MinimumOrderSize = 1000
	p.Consensus.RootChainId = 1
	e.v2 = idx%2 == 1
	p.Consensus.ProtocolVersion = fsm.NewProtocolVersion(0, uint64(1+idx%2))
	spec := &node.GenesisSpec{ChainID: 1, Params: p, Accounts: map[string]uint64{}, Pools: map[uint64]uint64{2 + fsm.LiquidityPoolAddend: 1_000_000_000, lib.DAOPoolID: 1_000_000_000_000}}
	fund := func(q *party) *party { spec.Accounts[lib.BytesToString(q.addr())] = funds; return q }
	val := func(op *party, out []byte, coms []uint64, stake uint64) {
		spec.Validators = append(spec.Validators, node.GenesisVal{Key: op.key, Output: crypto.NewAddressFromBytes(out), Stake: stake, Committees: coms, Compound: true})
	}
	tag := fmt.Sprintf("%s/seed%d", e.name, core.Seed())
	multiShape = [][2]int{{3, 2}, {4, 3}, {2, 2}, {5, 3}}[e.rng.Intn(4)]
	e.off = e.rng.Intn(2)
	anchor := &party{name: "anchor", kind: kBLS, key: node.BLSKey(0)}
	fund(anchor)
	val(anchor, anchor.addr(), []uint64{1}, 5_000_000_000)
	for i := 0; i < 3; i++ {
		q := fund(newParty(kBLS, fmt.Sprint(tag, "/com2/", i)))
		e.com2 = append(e.com2, q)
		val(q, q.addr(), []uint64{2}, 3_000_000+uint64(i))
	}
	e.custV, e.custH = fund(newParty(kBLS, tag+"/custV")), fund(newParty(kBLS, tag+"/custH"))
	val(e.custV, e.custV.addr(), []uint64{2}, 1_000_000)
	val(e.custH, e.custH.addr(), []uint64{2}, 1_000_001)
	for i, k := range nativeKinds {
		e.victim[k], e.actor[k], e.actor2[k], e.stranger[k] = fund(newParty(k, tag+"/victim")), fund(newParty(k, tag+"/actor")), fund(newParty(k, tag+"/actor2")), fund(newParty(k, tag+"/stranger"))
		e.vVal[k] = &valRef{op: fund(newParty(kBLS, tag+"/vop/"+k)), out: e.victim[k]}
		e.hVal[k] = &valRef{op: fund(newParty(kBLS, tag+"/hop/"+k)), out: e.actor[k]}
		e.selfOp[k] = fund(newParty(kBLS, tag+"/selfop/"+k))
		val(e.vVal[k].op, e.victim[k].addr(), []uint64{2}, 1_000_100+uint64(i))
		val(e.hVal[k].op, e.actor[k].addr(), []uint64{2}, 1_000_200+uint64(i))
	}
	for _, k := range []string{kEd, kSecp, kEth, kBLS} {
		e.nb[k] = fund(newParty(k, tag+"/neighbour"))
	}
	e.rlpActor, e.rlpStranger = fund(newParty(kEth, tag+"/rlp-actor")), fund(newParty(kEth, tag+"/rlp-stranger"))
	// an ed25519 stranger whose address starts like the victim's
	want := e.victim[kEd].addr()[0]
	for i := 0; ; i++ {
		q := newParty(kEd, fmt.Sprint(tag, "/twin/", i))
		if q.addr()[0] == want {
			e.twin = fund(q)
			break
		}
	}
	ch, err := node.NewChain(spec, 2, nil)
	if err != nil {
		e.t.Fatalf("%s: chain: %v", e.name, err)
	}
	e.ch, e.n0 = ch, ch.Nodes[0]
	ch.OnNode = func(n *node.Node) {
		n.C.Consensus.VerifSetProposalVoteDeadline(time.Now().Add(1000 * time.Hour).UnixMilli())
	}
	for _, n := range ch.Nodes {
		ch.OnNode(n)
	}
	s, e2 := takeSnap(e.n0.C.FSM.Store())
	if e2 != nil {
		e.t.Fatalf("%s: snapshot: %v", e.name, e2)
	}
	e.last = s
	// setup block: the victims (and the actors) create the orders that later candidates aim at. After this block the
	// victims' keys never sign again.
	var cs []*cand
	mkOrder := func(p *party, into map[string][]byte, key string) {
		c := e.honest(fsm.MessageCreateOrderName, p, "owner", e.content(fsm.MessageCreateOrderName, target{acct: p}, nil))
		c.must = true
		into[key] = c.hashBytes()[:20]
		cs = append(cs, c)
	}
	e.victimSig = map[string]*lib.Signature{}
	for _, k := range nativeKinds {
		mkOrder(e.victim[k], e.vOrder, k)
		e.victimSig[k] = cs[len(cs)-1].tx.Signature
		mkOrder(e.actor[k], e.keepOrder, k)
	}
	// the wallet key: a keep-order through a wrapper
	{
		kind := kRLP2
		c := e.rlpCand(fsm.MessageCreateOrderName, kind, "owner", "none", e.rlpActor, e.rlpSpecFor(fsm.MessageCreateOrderName, target{acct: e.rlpActor}, nil, false), nil)
		c.must = true
		e.keepOrder[kRLP] = c.hashBytes()[:20]
		cs = append(cs, c)
		// ... and becomes a delegate (the public key is left out of the payload: the recovered key is staked)
		d := e.rlpCand(fsm.MessageStakeName, kind, "owner", "none", e.rlpActor, e.rlpSpecFor(fsm.MessageStakeName, target{acct: e.rlpActor}, nil, true), nil)
		d.must = true
		cs = append(cs, d)
	}
	e.block("b", nil, append(cs, e.neighbours(4)...), nil)
}

// story returns the honest candidates of round r.
func (e *env) story(r int) []*cand {
	var out []*cand
	must := func(c *cand) *cand { c.must = true; out = append(out, c); return c }
	for _, k := range nativeKinds {
		a, a2 := e.actor[k], e.actor2[k]
		hv := e.hVal[k]
		own := target{acct: a}
		switch r {
		case 0:
			for _, mt := range []string{fsm.MessageSendName, fsm.MessageSubsidyName, fsm.MessageDexLimitOrderName, fsm.MessageDexLiquidityDepositName} {
				must(e.honest(mt, a, "owner", e.content(mt, own, nil)))
			}
			w := e.honest(fsm.MessageDexLiquidityWithdrawName, a, "owner", e.content(fsm.MessageDexLiquidityWithdrawName, own, nil))
			out = append(out, w) // no liquidity points: fails while handled, after the signer was accepted
			e.aOrder[k] = must(e.honest(fsm.MessageCreateOrderName, a, "owner", e.content(fsm.MessageCreateOrderName, own, nil))).hashBytes()[:20]
			e.bOrder[k] = must(e.honest(fsm.MessageCreateOrderName, a, "owner", e.content(fsm.MessageCreateOrderName, own, nil))).hashBytes()[:20]
			// a new validator funded and signed by its output address
			must(e.honest(fsm.MessageStakeName, a, "output", e.content(fsm.MessageStakeName, own, nil)))
			// a new validator funded and signed by its operator key, rewards to the actor
			so := e.selfOp[k]
			sm := e.content(fsm.MessageStakeName, own, nil).(*fsm.MessageStake)
			sm.PublicKey = so.key.PublicKey().Bytes()
			must(e.honest(fsm.MessageStakeName, so, "operator", sm))
		case 1:
			m := e.content(fsm.MessageEditOrderName, target{acct: a, order: e.aOrder[k]}, nil).(*fsm.MessageEditOrder)
			m.AmountForSale = e.orderAmt[string(e.aOrder[k])] + e.uniq()
			must(e.honest(fsm.MessageEditOrderName, a, "owner", m))
			es := e.content(fsm.MessageEditStakeName, target{acct: a, val: hv.op.addr()}, nil).(*fsm.MessageEditStake)
			es.Amount += e.uniq()
			must(e.honest(fsm.MessageEditStakeName, hv.op, "operator", es))
			cp := must(e.honest(fsm.MessageChangeParameterName, a, "owner", e.content(fsm.MessageChangeParameterName, own, nil)))
			e.approve(cp.raw)
			e.approvedHash = cp.hash
			dt := must(e.honest(fsm.MessageDAOTransferName, a, "owner", e.content(fsm.MessageDAOTransferName, own, nil)))
			e.approve(dt.raw)
			// a proposal nobody approved: the named signer alone is not enough
			un := e.honest(fsm.MessageChangeParameterName, a, "owner", e.content(fsm.MessageChangeParameterName, own, nil))
			un.tamper, un.extraOK, un.handler = "not-approved", false, true
			out = append(out, un)
		case 2:
			// the output address hands the validator over to a new output address ...
			es := e.content(fsm.MessageEditStakeName, target{acct: a, val: hv.op.addr()}, nil).(*fsm.MessageEditStake)
			es.OutputAddress = a2.addr()
			c := e.honest(fsm.MessageEditStakeName, a, "output", es)
			c.tx.Fee += 5000 // ... ahead of (the mempool orders by fee) an unstake by the output address being replaced
			signTx(c.tx, a)
			c = e.mk(c.mt, c.kind, c.rel, c.tamper, c.tx, a.addr())
			must(c)
			u := e.honest(fsm.MessageUnstakeName, a, "previous-output", &fsm.MessageUnstake{Address: hv.op.addr()})
			u.tamper = "same-block-after-output-change"
			out = append(out, u)
			hv.out = a2
		case 3:
			must(e.honest(fsm.MessagePauseName, a2, "output", &fsm.MessagePause{Address: hv.op.addr()}))
			must(e.honest(fsm.MessageDeleteOrderName, a, "owner", &fsm.MessageDeleteOrder{OrderId: e.aOrder[k], ChainId: 2}))
		case 4:
			must(e.honest(fsm.MessageUnpauseName, hv.op, "operator", &fsm.MessageUnpause{Address: hv.op.addr()}))
		case 5:
			must(e.honest(fsm.MessageUnstakeName, a2, "output", &fsm.MessageUnstake{Address: hv.op.addr()}))
		}
	}
	// custodial validator: the operator does everything
	switch r {
	case 1:
		must(e.honest(fsm.MessagePauseName, e.custH, "operator", &fsm.MessagePause{Address: e.custH.addr()}))
	case 2:
		must(e.honest(fsm.MessageUnpauseName, e.custH, "operator", &fsm.MessageUnpause{Address: e.custH.addr()}))
	}
	// the wallet
	for _, kind := range e.rlpKinds() {
		ra := e.rlpActor
		own := target{acct: ra, val: ra.addr()}
		switch r {
		case 0:
			must(e.rlpCand(fsm.MessageSendName, kind, "owner", "none", ra, e.rlpSpecFor(fsm.MessageSendName, own, nil, false), nil))
			must(e.rlpCand(fsm.MessageSubsidyName, kind, "owner", "none", ra, e.rlpSpecFor(fsm.MessageSubsidyName, own, nil, false), nil))
			e.aOrder[kind] = must(e.rlpCand(fsm.MessageCreateOrderName, kind, "owner", "none", ra, e.rlpSpecFor(fsm.MessageCreateOrderName, own, nil, false), nil)).hashBytes()[:20]
		case 1:
			m := e.content(fsm.MessageEditOrderName, target{acct: ra, order: e.aOrder[kind]}, nil).(*fsm.MessageEditOrder)
			m.AmountForSale = e.orderAmt[string(e.aOrder[kind])] + e.uniq()
			must(e.rlpCand(fsm.MessageEditOrderName, kind, "owner", "none", ra, rlpSpec{to: ethSwap, data: protoCall(fsm.EditOrderSelector, m)}, nil))
		case 3:
			must(e.rlpCand(fsm.MessageDeleteOrderName, kind, "owner", "none", ra, rlpSpec{to: ethSwap, data: protoCall(fsm.DeleteOrderSelector, &fsm.MessageDeleteOrder{OrderId: e.aOrder[kind], ChainId: 2})}, nil))
		}
	}
	return out
}

func runCase(t *testing.T, run *core.Run, name string, idx int, rng *rand.Rand) {
	e := &env{t: t, run: run, name: name, rng: rng}
	e.setup(idx)
	defer e.ch.Close()
	// quick: two rounds (six blocks = the six steps of the honest story), every message type once per case;
	// thorough: four rounds, every message type x key type in every round
	rounds := core.Pick(2, 4)
	for r := 0; r < rounds && !e.stop && !e.refuted; r++ {
		var forged []*cand
		for i, mt := range accountMsgs {
			if core.Thorough() || (i+r+e.off)%2 == 0 {
				for _, k := range nativeKinds {
					forged = append(forged, e.forge(mt, k)...)
				}
			}
		}
		for i, mt := range rlpMsgs {
			if core.Thorough() || (i+r+e.off)%2 == 0 {
				forged = append(forged, e.rlpForge(mt)...)
			}
		}
		if core.Thorough() || r%2 == 1 {
			forged = append(forged, e.certCands()...)
		}
		if r >= 1 {
			// the output address that was replaced in step 2 no longer speaks for the validator
			for _, k := range nativeKinds {
				old, hv := e.actor[k], e.hVal[k]
				for _, mt := range []string{fsm.MessageUnstakeName, fsm.MessagePauseName, fsm.MessageUnpauseName, fsm.MessageEditStakeName} {
					m := e.content(mt, target{acct: old, val: hv.op.addr(), attack: true}, old)
					forged = append(forged, e.honest(mt, old, "previous-output", m))
				}
			}
		}
		e.round(r, forged)
	}
	e.pathE(idx)
	e.pathF(idx)
	if !e.stop {
		e.cacheProbes()
	}
	run.Extra("candidates_by_tuple_in_one_case", e.tuples)
	run.Sample(map[string]any{"case": name, "legacy_rlp_enabled": !e.v2, "distinct_candidate_tuples": len(e.tuples), "height": e.height()})
}

func TestCheck(t *testing.T) {
	run := core.Start(t, "C05", "exploration",
		"candidates = (message type of 16) x (key type: ed25519, secp256k1, eth-secp256k1, BLS, 2-of-3 BLS multisig, RLP, RLP.V2) x (who signed: owner / operator / output / previous output / stranger / "+
			"address-prefix twin / proposer / committee member) x (tampering: none, each signed transaction field, payload fields, claimed owner, payload type, lifted signature, replaced public key, multisig "+
			"threshold games, wrapper not re-deriving), each through (a) CheckTx alone (b) block with cold signature cache (c) block with warm cache (d) block whose ed25519 batch fails (e) small blocks in a chosen order U(nauthorised, validly signed) / F(orged with the owner's key) / N(eighbour) (f) a block whose 8 batch lists each start with cached ed25519 signatures followed by forged non-ed25519 ones; "+
			"distinct_nontrivial = distinct (message type, key type, signer relation, tampering, path) whose CheckTx verdict was acceptance or a signature / signer error (i.e. not turned away earlier)")
	defer run.Finish()
	run.MinDistinct = 400
	run.Assume("signature schemes themselves (ed25519, ECDSA, BDN-BLS, address derivation) are trusted; buyer-side lock/close memos of a nested chain are out of scope (certificate results carry them here); " +
		"the replica-side probe can only show rejection (a spliced block never has a matching header), sensitivity comes from the proposer + replica pair committing real blocks")
	debug.SetGCPercent(400) // every ApplyBlock allocates a ~46 MB batch verifier: do not collect after each one
	n := core.Pick(6, 120)
	run.Sharded(n, func(i int) {
		name := fmt.Sprintf("auth/%d", i)
		if run.Want(name) {
			runCase(t, run, name, i, run.Rand(name))
		}
	})
}
