package c12

// C12 — staking bookkeeping stays consistent and the chain never wedges itself. Full nodes (real controller/fsm/store)
// run seeded chains of stake / edit / pause / unpause / unstake / parameter-change transactions with tiny stakes,
// non-signing committee members and high slash percentages. After every committed block the raw staking records of
// the state (validators, unstaking and paused markers, supply tallies) are cross-checked by refs.StakingProblems; the
// chain itself is the wedge probe: every later height, including a cool-down of empty blocks that outlasts every
// pending deferred action, must be producible, accepted by every node and committed.

import (
	"fmt"
	"math/rand"
	"strings"
	"testing"

	"github.com/canopy-network/canopy/fsm"
	"verif/core"
	"verif/node"
	"verif/refs"
)

func runCase(t *testing.T, run *core.Run, name string, idx int, rng *rand.Rand) {
	proto := uint64(1 + idx%2)
	slashPct := []uint64{1, 10, 50, 100}[rng.Intn(4)]
	opts := node.WorldOpts{
		Nodes: 2, GenesisVals: 4 + rng.Intn(5), ExtraVals: 4, Users: 6, Gov: idx%3 != 0, Delegates: rng.Intn(2),
		Stake: func(i int, r *rand.Rand) uint64 {
			if idx%4 == 3 {
				return uint64(100_000 + r.Intn(15_000)) // just above the minimum stake of these chains: one capped slash drops below it
			}
			switch r.Intn(4) {
			case 0:
				return uint64(1 + r.Intn(5)) // slashes round such stakes to zero
			case 1:
				return uint64(50 + r.Intn(200))
			}
			return uint64(100_000 + r.Intn(2_000_000))
		},
		Compound: func(i int) bool { return i%2 == 0 },
		Params: func(p *fsm.Params, r *rand.Rand) {
			p.Consensus.ProtocolVersion = fsm.NewProtocolVersion(0, proto)
			p.Validator.UnstakingBlocks, p.Validator.DelegateUnstakingBlocks = uint64(2+r.Intn(4)), uint64(2+r.Intn(3))
			p.Validator.MaxPauseBlocks = uint64(2 + r.Intn(6))
			p.Validator.NonSignWindow, p.Validator.MaxNonSign = uint64(2+r.Intn(3)), uint64(r.Intn(2))
			p.Validator.NonSignSlashPercentage, p.Validator.DoubleSignSlashPercentage = slashPct, slashPct
			p.Validator.MaxSlashPerCommittee = []uint64{15, 100}[r.Intn(2)]
			if idx%4 == 3 { // (odd index: protocol version 2, committee-scoped slashing)
				// a slash that reaches the per-committee cap (ejection from the committee) AND leaves a stake below the minimum
				// (forced unstaking) in one step
				p.Validator.MinimumStakeForValidators, p.Validator.MaxSlashPerCommittee = 95_000, 15
				p.Validator.NonSignSlashPercentage, p.Validator.DoubleSignSlashPercentage = 50, 50
			}
		},
		Weights: map[string]int{"send": 8, "send-edge": 2, "stake": 12, "edit-stake": 12, "unstake": 9, "pause": 9, "unpause": 6, "subsidy": 2, "invalid": 2, "change-param": 8, "dao-transfer": 1},
	}
	w, err := node.NewWorld(rng, opts)
	if err != nil {
		t.Fatalf("%s: world: %v", name, err)
	}
	defer w.Ch.Close()
	blocks := core.Pick(30, 60)
	var history []string
	check := func(h uint64) bool {
		probs, stats, err := refs.StakingProblems(w.Ch.Nodes[0].C.FSM.Store())
		if err != nil {
			t.Fatalf("%s: scan: %v", name, err)
		}
		run.Count("states_cross_checked", 1)
		run.Count("validator_records_scanned", int64(stats["validators"]))
		run.Count("unstaking_markers_scanned", int64(stats["unstaking_markers"]))
		run.Count("paused_markers_scanned", int64(stats["paused_markers"]))
		for _, p := range probs {
			kind := strings.SplitN(p, " ", 2)[0]
			run.Violation("staking-records-disagree kind="+kind, "^"+name+"$", map[string]any{"case": name, "height": h, "problem": p, "all_problems": probs, "history_tail": tail(history, 60), "protocol": proto})
		}
		return len(probs) == 0
	}
	wedge := func(h uint64, err error) {
		stage := "commit"
		switch {
		case strings.HasPrefix(err.Error(), "propose:"):
			stage = "propose"
		case strings.Contains(err.Error(), "rejects honest proposal"):
			stage = "validate"
		}
		probs, _, _ := refs.StakingProblems(w.Ch.Nodes[0].C.FSM.Store())
		cause := "other"
		for _, p := range probs {
			if strings.HasPrefix(p, "marker-") {
				cause = strings.SplitN(p, " ", 2)[0]
			}
		}
		run.Violation(fmt.Sprintf("wedge stage=%s cause=%s", stage, cause), "^"+name+"$",
			map[string]any{"case": name, "height": h, "error": err.Error(), "staking_problems": probs, "history_tail": tail(history, 80), "protocol": proto, "slash_percent": slashPct})
	}
	ok := true
	for b := 0; b < blocks && ok; b++ {
		h := w.Height()
		rec, infos, err := w.Step(2 + rng.Intn(6))
		for _, ti := range infos {
			history = append(history, fmt.Sprintf("h%d %s %s", h, ti.Kind, ti.Note))
		}
		if err != nil {
			wedge(h, err)
			return
		}
		history = append(history, fmt.Sprintf("h%d committed txs=%d signers=%d", h, len(rec.Block.Transactions), len(rec.Signers)))
		run.Count("blocks_committed", 1)
		run.Count("transactions_included", int64(len(rec.Block.Transactions)))
		ok = check(h)
	}
	if !ok {
		return
	}
	// cool-down: empty blocks, everybody signs, until every deferred action had its turn
	for b := 0; b < 24; b++ {
		h := w.Height()
		if _, err := w.Ch.Step(b%len(w.Ch.Nodes), nil, nil); err != nil {
			wedge(h, err)
			return
		}
		run.Count("cooldown_blocks_committed", 1)
		if !check(h) {
			return
		}
	}
	if err := w.Ch.SameHeads(); err != nil {
		run.Violation("nodes-diverged", "^"+name+"$", map[string]any{"case": name, "error": err.Error()})
	}
	run.Eval(1)
	for k, n := range w.NTx {
		run.Count("generated_"+k, int64(n))
	}
	run.Distinct(fmt.Sprintf("%s|%d", name, len(history)))
	if idx%5 == 0 {
		run.Sample(map[string]any{"case": name, "protocol_version": proto, "slash_percent": slashPct, "genesis_validators": opts.GenesisVals, "history_head": head(history, 25)})
	}
}

func tail(s []string, n int) []string {
	if len(s) > n {
		return s[len(s)-n:]
	}
	return s
}

func head(s []string, n int) []string {
	if len(s) > n {
		return s[:n]
	}
	return s
}

func TestCheck(t *testing.T) {
	run := core.Start(t, "C12", "exploration",
		"seeded chains on two full nodes: 4-8 genesis validators (stakes 1..5, ~100, ~1e6; some delegates, some non-custodial), 30/90 blocks of weighted-random "+
			"stake/edit/pause/unpause/unstake/parameter-change transactions with random signer subsets (non-signers accrue), slash percentages 1..100, then 24 empty blocks; "+
			"after every block the staking records are cross-checked and every block must be producible/accepted/committed; distinct_nontrivial = distinct completed chains")
	defer run.Finish()
	run.MinDistinct = 3
	run.Assume("double-sign slashes are exercised by C14; plugin-written records are out of scope; governance proposals are approved through the node's approve list (verif hook sets the vote deadline)")
	n := core.Pick(16, 200)
	run.Sharded(n, func(i int) {
		name := fmt.Sprintf("chain/%d", i)
		if run.Want(name) {
			runCase(t, run, name, i, run.Rand(name))
		}
	})
}
