package c06

// C06 — replay protection. Every generated transaction pays a unique amount to a brand-new recipient address, so a
// raw state scan tells how many times its effect occurred ("unique values make histories unambiguous"). The
// transaction is included in block k; then every byte string of txvar.Variants (same signed content: explicit default
// fields, reordered fields, non-minimal varints, split embedded messages, alternative key encodings, malleated
// signatures) plus the identical bytes is offered in the same block and in later blocks through the real mempool /
// ProduceProposal / commit path. Refuting observation: the recipient holds more than one payment.

import (
	"fmt"
	"math/rand"
	"testing"

	"github.com/canopy-network/canopy/fsm"
	"github.com/canopy-network/canopy/lib"
	"github.com/canopy-network/canopy/lib/crypto"
	"verif/core"
	"verif/node"
	"verif/txvar"
)

type payment struct {
	kind   string // key type of the sender
	to     crypto.AddressI
	amount uint64
	tx     []byte
}

func balance(n *node.Node, a crypto.AddressI) uint64 {
	acc, err := n.C.FSM.GetAccount(a)
	if err != nil || acc == nil {
		return 0
	}
	return acc.Amount
}

func runCase(t *testing.T, run *core.Run, name string, idx int, rng *rand.Rand) {
	// senders of every key type
	type sender struct {
		kind string
		key  crypto.PrivateKeyI
	}
	eth, err := crypto.BytesToEthSECP256K1Private(append([]byte{byte(idx + 1), 0xE7}, make([]byte, 30)...))
	if err != nil {
		t.Fatal(err)
	}
	senders := []sender{{"ed25519", node.EdKey(500 + idx)}, {"secp256k1", node.SecpKey(500 + idx)}, {"eth-secp256k1", eth}, {"bls", node.BLSKey(500 + idx)}}
	w, err := node.NewWorld(rng, node.WorldOpts{Nodes: 1, GenesisVals: 3, Users: 3, Weights: map[string]int{"send": 1}, Params: func(p *fsm.Params, r *rand.Rand) {
		p.Consensus.ProtocolVersion = fsm.NewProtocolVersion(0, uint64(1+idx%2))
	}})
	if err != nil {
		t.Fatalf("%s: world: %v", name, err)
	}
	defer w.Ch.Close()
	nd := w.Ch.Nodes[0]
	// fund the senders
	var fund [][]byte
	for i, s := range senders {
		tx, e := fsm.NewSendTransaction(w.Users[i%len(w.Users)], s.key.PublicKey().Address(), 100_000_000, node.NetworkID, 1, 10000, nd.Height(), "")
		if e != nil {
			t.Fatal(e)
		}
		bz, _ := lib.Marshal(tx)
		fund = append(fund, bz)
	}
	if _, err := w.Ch.Step(0, fund, nil); err != nil {
		t.Fatalf("%s: funding: %v", name, err)
	}
	seq := 0
	mk := func(s sender, memo string) payment {
		seq++
		to := crypto.NewAddressFromBytes(crypto.Hash([]byte(fmt.Sprintf("%s/%d", name, seq)))[:20])
		amt := uint64(1_000 + seq)
		// every other payment is dated in the future (inside the acceptance window): it is included now, and everything that
		// is re-offered afterwards arrives at heights still below its creation height
		created := nd.Height()
		if seq%2 == 1 {
			created += uint64(40 + seq%7)
		}
		tx, e := fsm.NewSendTransaction(s.key, to, amt, node.NetworkID, 1, 10000, created, memo)
		if e != nil {
			t.Fatal(e)
		}
		bz, _ := lib.Marshal(tx)
		return payment{kind: s.kind, to: to, amount: amt, tx: bz}
	}
	judge := func(p payment, v txvar.Variant, when string) bool {
		run.Eval(1)
		run.Count("variants_offered", 1)
		run.Count("offered_family_"+v.Family, 1)
		got := balance(nd, p.to)
		run.Distinct(fmt.Sprintf("%s|%s|%s|%s", v.Family, v.Name, p.kind, when))
		if got > p.amount {
			run.Violation(fmt.Sprintf("replayed family=%s variant=%s key=%s when=%s", v.Family, v.Name, p.kind, when), "^"+name+"$",
				map[string]any{"case": name, "original": core.Hex(p.tx), "variant": core.Hex(v.Bytes), "recipient_balance": got, "paid_once": p.amount, "executions": got / p.amount})
			return false
		}
		return true
	}
	rounds := core.Pick(3, 8)
	for r := 0; r < rounds; r++ {
		for _, s := range senders {
			// "RLP": the memo that marks an ethereum-wrapped transaction, here on a natively signed one (handled as native)
			for _, memo := range []string{"", "note", "RLP"} {
				if memo != "" && r%2 == 0 {
					continue
				}
				// legal only below protocol version 2 and for keys that are not ethereum keys (those take the wrapper path)
				if memo == "RLP" && (idx%2 != 0 || s.kind == "eth-secp256k1") {
					continue
				}
				run.Count("payments_with_memo_"+memo, 1)
				// (a) original in block k, then each variant in a later block of its own
				p := mk(s, memo)
				vars := append([]txvar.Variant{{Family: "identical-bytes", Name: "same", Bytes: p.tx}}, txvar.Variants(p.tx)...)
				if _, err := w.Ch.Step(0, [][]byte{p.tx}, nil); err != nil {
					t.Fatalf("%s: step: %v", name, err)
				}
				if balance(nd, p.to) != p.amount {
					_, ce := nd.C.FSM.CheckTx(p.tx, "", nil)
					t.Fatalf("%s: original payment not applied (key %s): sender balance %d, CheckTx now says: %v", name, s.kind, balance(nd, s.key.PublicKey().Address()), ce)
				}
				run.Count("originals_included", 1)
				// offer a PRNG half of the variants one per block, the rest together in one block
				perm := rng.Perm(len(vars))
				var together [][]byte
				for j, vi := range perm {
					v := vars[vi]
					if j%2 == 0 {
						if _, err := w.Ch.Step(0, [][]byte{v.Bytes}, nil); err != nil {
							t.Fatalf("%s: step with variant %s: %v", name, v.Name, err)
						}
						if !judge(p, v, "later-block") {
							return
						}
					} else {
						together = append(together, v.Bytes)
					}
				}
				if _, err := w.Ch.Step(0, together, nil); err != nil {
					t.Fatalf("%s: step with variants: %v", name, err)
				}
				for j, vi := range perm {
					if j%2 == 1 && !judge(p, vars[vi], "later-block-batch") {
						return
					}
				}
				// (b) original and one variant in the SAME block
				q := mk(s, memo)
				qv := txvar.Variants(q.tx)
				if len(qv) > 0 {
					v := qv[rng.Intn(len(qv))]
					if _, err := w.Ch.Step(0, [][]byte{q.tx, v.Bytes}, nil); err != nil {
						// the proposer must still be able to build a block
						run.Violation("block-not-producible-with-variant-in-mempool", "^"+name+"$", map[string]any{"case": name, "error": err.Error(), "variant": v.Name})
						return
					}
					if !judge(q, v, "same-block") {
						return
					}
				}
				// controls: different content must be rejected too
				for _, c := range txvar.Controls(p.tx) {
					if _, err := w.Ch.Step(0, [][]byte{c.Bytes}, nil); err != nil {
						t.Fatalf("%s: step with control: %v", name, err)
					}
					if !judge(p, c, "later-block") {
						return
					}
				}
			}
		}
	}
	// cross network / chain and the creation-height window
	s := senders[0]
	h := nd.Height()
	type wcase struct {
		name string
		mut  func(t *lib.Transaction)
		ok   bool
		post func(t *lib.Transaction) // applied AFTER signing: the envelope is re-labelled, the signature kept
	}
	for _, c := range []wcase{
		{"other-chain", func(t *lib.Transaction) { t.ChainId = 2 }, false, nil},
		{"other-network", func(t *lib.Transaction) { t.NetworkId = 2 }, false, nil},
		{"height-above-window", func(t *lib.Transaction) { t.CreatedHeight = h + fsm.BlockAcceptanceRange + 3 }, false, nil},
		{"height-at-window-edge", func(t *lib.Transaction) { t.CreatedHeight = h + fsm.BlockAcceptanceRange }, true, nil},
		{"height-zero", func(t *lib.Transaction) { t.CreatedHeight = 0 }, false, nil},
		// signed for another chain / network / creation height, then re-labelled for this one without re-signing: the
		// signature must cover the domain fields
		{"signed-for-chain-2-relabelled", func(t *lib.Transaction) { t.ChainId = 2 }, false, func(t *lib.Transaction) { t.ChainId = 1 }},
		{"signed-for-chain-7-relabelled", func(t *lib.Transaction) { t.ChainId = 7 }, false, func(t *lib.Transaction) { t.ChainId = 1 }},
		{"signed-for-network-2-relabelled", func(t *lib.Transaction) { t.NetworkId = 2 }, false, func(t *lib.Transaction) { t.NetworkId = node.NetworkID }},
		{"signed-for-far-future-height-relabelled", func(t *lib.Transaction) { t.CreatedHeight = h + 100000 }, false, func(t *lib.Transaction) { t.CreatedHeight = h }},
	} {
		seq++
		to := crypto.NewAddressFromBytes(crypto.Hash([]byte(fmt.Sprintf("%s/w%d", name, seq)))[:20])
		a, _ := lib.NewAny(&fsm.MessageSend{FromAddress: s.key.PublicKey().Address().Bytes(), ToAddress: to.Bytes(), Amount: 777})
		tx := &lib.Transaction{MessageType: fsm.MessageSendName, Msg: a, CreatedHeight: h, Time: uint64(1_800_000_000_000_000 + seq), Fee: 10000, NetworkId: node.NetworkID, ChainId: 1}
		c.mut(tx)
		_ = tx.Sign(s.key)
		if c.post != nil {
			c.post(tx)
		}
		bz, _ := lib.Marshal(tx)
		if _, err := w.Ch.Step(0, [][]byte{bz}, nil); err != nil {
			t.Fatalf("%s: window step: %v", name, err)
		}
		got := balance(nd, to)
		run.Eval(1)
		run.Count("window_and_domain_cases", 1)
		if (got != 0) != c.ok {
			run.Violation("domain-or-window case="+c.name, "^"+name+"$", map[string]any{"case": name, "expected_accepted": c.ok, "recipient_balance": got, "height": h})
			return
		}
	}
	run.Sample(map[string]any{"case": name, "rounds": rounds, "key_kinds": []string{"ed25519", "secp256k1", "eth-secp256k1", "bls"}})
}

func TestCheck(t *testing.T) {
	run := core.Start(t, "C06", "exploration",
		"per case: sends from ed25519 / secp256k1 / eth-secp256k1 / BLS keys, each to a unique fresh recipient; after the original is committed every variant of its bytes "+
			"(identical, explicit default fields, reordered, non-minimal varints, duplicated scalar, split embedded messages, alternative key encodings, malleated signatures, controls) is offered "+
			"alone in a later block, batched in a later block, or in the same block; the recipient balance counts executions; distinct_nontrivial = distinct (family, variant, key type, timing)")
	defer run.Finish()
	run.MinDistinct = 20
	run.Assume("Ethereum-wrapped (RLP / RLP.V2) transactions and the lower edge of the creation-height window (needs > 4320 blocks) are not generated; signature schemes are trusted")
	n := core.Pick(3, 30)
	run.Sharded(n, func(i int) {
		name := fmt.Sprintf("replay/%d", i)
		if run.Want(name) {
			runCase(t, run, name, i, run.Rand(name))
		}
	})
}
