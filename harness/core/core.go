// Package core is the shared runtime of every property check: seeded PRNG streams, case filtering for
// replay, the evidence writer (measured counters only), three-valued verdicts, replay files and the
// known-findings filter.
package core

import (
	"bytes"
	"crypto/sha256"
	"encoding/binary"
	"encoding/hex"
	"encoding/json"
	"fmt"
	"math/rand"
	"os"
	"os/exec"
	"path/filepath"
	"regexp"
	"runtime"
	"sort"
	"strconv"
	"strings"
	"sync"
	"testing"
	"time"
)

// Root returns the directory that holds MANIFEST.json, evidence/ and known_findings.json.
func Root() string {
	if r := os.Getenv("VERIF_ROOT"); r != "" {
		return r
	}
	return "/verif"
}

// Tier is "quick" or "thorough".
func Tier() string {
	if os.Getenv("VERIF_TIER") == "thorough" {
		return "thorough"
	}
	return "quick"
}

// Thorough reports whether the thorough tier was requested.
func Thorough() bool { return Tier() == "thorough" }

// Seed is VERIF_SEED (default 1).
func Seed() int64 {
	if s := os.Getenv("VERIF_SEED"); s != "" {
		if v, err := strconv.ParseInt(s, 10, 64); err == nil {
			return v
		}
	}
	return 1
}

// Pick returns q on the quick tier and th on the thorough tier.
func Pick(q, th int) int {
	if Thorough() {
		return th
	}
	return q
}

// Workers is the worker-pool width.
func Workers() int {
	if s := os.Getenv("VERIF_WORKERS"); s != "" {
		if v, err := strconv.Atoi(s); err == nil && v > 0 {
			return v
		}
	}
	n := runtime.NumCPU()
	if n > 16 {
		n = 16
	}
	return n
}

// KnownFinding is one entry of known_findings.json.
type KnownFinding struct {
	Property string `json:"property"`
	// Match is a regular expression over the violation signature ("kind key=value ...") a check emits.
	Match string `json:"match"`
	What  string `json:"what"`
	re    *regexp.Regexp
}

type knownFile struct {
	Findings []KnownFinding `json:"findings"`
	Fixed    []string       `json:"fixed"`
}

// Run accumulates what one execution of one check observed.
type Run struct {
	ID    string
	Level string
	Rule  string
	// MinDistinct is the number of distinct non-trivial cases below which the run is inconclusive.
	MinDistinct int

	t        *testing.T
	start    time.Time
	mu       sync.Mutex
	evals    int64
	distinct map[string]struct{}
	counters map[string]int64
	samples  []any
	assume   []string
	extra    map[string]any
	viol     int
	known    []KnownFinding
	knownHit map[int]int
	violSigs map[string]int
	inconcl  []string
	caseRe   *regexp.Regexp
	replayN  int
	knownSig map[int]string
	shardErr []string
}

// Start begins a run of check id.
func Start(t *testing.T, id, level, rule string) *Run {
	r := &Run{ID: id, Level: level, Rule: rule, MinDistinct: 2, t: t, start: time.Now(),
		distinct: map[string]struct{}{}, counters: map[string]int64{}, extra: map[string]any{},
		knownHit: map[int]int{}, violSigs: map[string]int{}, knownSig: map[int]string{}}
	if bz, err := os.ReadFile(filepath.Join(Root(), "known_findings.json")); err == nil {
		var kf knownFile
		if err := json.Unmarshal(bz, &kf); err != nil {
			t.Fatalf("known_findings.json: %v", err)
		}
		for _, f := range kf.Findings {
			if f.Property != id {
				continue
			}
			f.re = regexp.MustCompile(f.Match)
			r.known = append(r.known, f)
		}
	}
	if c := os.Getenv("VERIF_CASE"); c != "" {
		r.caseRe = regexp.MustCompile(c)
	}
	if _, _, child := shardEnv(); !child {
		fmt.Printf("CHECK property=%s tier=%s seed=%d workers=%d\n", id, Tier(), Seed(), Workers())
	}
	return r
}

// Want reports whether the named case is selected (all cases unless VERIF_CASE narrows the run for replay).
func (r *Run) Want(name string) bool { return r.caseRe == nil || r.caseRe.MatchString(name) }

// Rand returns a PRNG that is a pure function of (seed, stream name).
func (r *Run) Rand(stream string) *rand.Rand { return NewRand(Seed(), r.ID+"/"+stream) }

// NewRand derives a PRNG from a seed and a stream name.
func NewRand(seed int64, stream string) *rand.Rand {
	h := sha256.New()
	var b [8]byte
	binary.BigEndian.PutUint64(b[:], uint64(seed))
	h.Write(b[:])
	h.Write([]byte(stream))
	s := h.Sum(nil)
	return rand.New(rand.NewSource(int64(binary.BigEndian.Uint64(s[:8]))))
}

// Eval counts executed cases.
func (r *Run) Eval(n int) { r.mu.Lock(); r.evals += int64(n); r.mu.Unlock() }

// Distinct records the identity of a non-trivial case (by the rule in Rule); duplicates collapse.
func (r *Run) Distinct(key string) {
	r.mu.Lock()
	if len(key) > 64 {
		s := sha256.Sum256([]byte(key))
		key = hex.EncodeToString(s[:16])
	}
	r.distinct[key] = struct{}{}
	r.mu.Unlock()
}

// Count bumps a named measured counter.
func (r *Run) Count(name string, n int64) { r.mu.Lock(); r.counters[name] += n; r.mu.Unlock() }

// Counter reads a counter.
func (r *Run) Counter(name string) int64 { r.mu.Lock(); defer r.mu.Unlock(); return r.counters[name] }

// Sample keeps up to eight written-out cases.
func (r *Run) Sample(v any) {
	r.mu.Lock()
	if len(r.samples) < 8 {
		r.samples = append(r.samples, v)
	}
	r.mu.Unlock()
}

// Assume records a trusted-base statement.
func (r *Run) Assume(s string) { r.mu.Lock(); r.assume = append(r.assume, s); r.mu.Unlock() }

// Extra records an extra coverage key.
func (r *Run) Extra(k string, v any) { r.mu.Lock(); r.extra[k] = v; r.mu.Unlock() }

// Inconclusive records a reason the run cannot give a verdict.
func (r *Run) Inconclusive(format string, a ...any) {
	r.mu.Lock()
	r.inconcl = append(r.inconcl, fmt.Sprintf(format, a...))
	r.mu.Unlock()
}

// Violation reports a refuting observation. sig is a stable one-line signature (used to match
// known findings and to de-duplicate); caseName re-selects the case on replay; witness is written
// to the replay file. Returns true when it was a listed known finding.
func (r *Run) Violation(sig, caseName string, witness any) bool {
	r.mu.Lock()
	defer r.mu.Unlock()
	for i, k := range r.known {
		if k.re.MatchString(sig) {
			if r.knownHit[i] == 0 {
				r.knownSig[i] = sig
				if _, _, child := shardEnv(); !child {
					fmt.Printf("KNOWN-FINDING: property=%s %s (first witness: %s)\n", r.ID, k.What, sig)
				}
			}
			r.knownHit[i]++
			return true
		}
	}
	r.violSigs[sig]++
	if r.violSigs[sig] > 1 || len(r.violSigs) > 20 {
		r.viol++
		return false
	}
	r.viol++
	dir := filepath.Join(Root(), "evidence", "replay", r.ID)
	_ = os.MkdirAll(dir, 0o755)
	r.replayN++
	shard := ""
	if k, _, ok := shardEnv(); ok {
		shard = fmt.Sprintf("s%d-", k)
	}
	path := filepath.Join(dir, fmt.Sprintf("%s-seed%d-%s%d.json", Tier(), Seed(), shard, r.replayN))
	bz, _ := json.MarshalIndent(map[string]any{
		"property": r.ID, "tier": Tier(), "seed": Seed(), "case": caseName, "signature": sig, "witness": witness,
	}, "", " ")
	_ = os.WriteFile(path, bz, 0o644)
	fmt.Printf("VIOLATION property=%s replay=%s\n", r.ID, path)
	fmt.Printf("  signature: %s\n", sig)
	return false
}

// Violations returns the number of unlisted violations so far.
func (r *Run) Violations() int { r.mu.Lock(); defer r.mu.Unlock(); return r.viol }

// partial is what a shard child hands back to its parent.
type partial struct {
	Evals     int64            `json:"evals"`
	Distinct  []string         `json:"distinct"`
	Counters  map[string]int64 `json:"counters"`
	Samples   []any            `json:"samples"`
	Viol      int              `json:"viol"`
	ViolSigs  map[string]int   `json:"viol_sigs"`
	KnownHits map[int]int      `json:"known_hits"`
	KnownSigs map[int]string   `json:"known_sigs"`
	Inconcl   []string         `json:"inconclusive"`
	Extra     map[string]any   `json:"extra"`
}

func shardEnv() (k, w int, ok bool) {
	if _, err := fmt.Sscanf(os.Getenv("VERIF_SHARD"), "%d/%d", &k, &w); err == nil && w > 0 {
		return k, w, true
	}
	return 0, 0, false
}

// Sharded runs fn(i) for i in [0,total) in child processes (one per worker, cases i%W==k, sequentially inside a
// child). Use it where the code under test keeps process-global state (canopy's block cache is keyed by height
// only), so that independent cases never share a process at the same time. Children print VIOLATION lines
// themselves; counters, distinct keys and samples are merged into the parent run.
func (r *Run) Sharded(total int, fn func(i int)) {
	if k, w, ok := shardEnv(); ok {
		for i := k; i < total; i += w {
			fn(i)
		}
		return
	}
	w := Workers()
	if w > total {
		w = total
	}
	if r.caseRe != nil {
		w = 1 // a replay selects one case: no need to fan out
	}
	type res struct {
		p   partial
		err error
		out string
	}
	results := make([]res, w)
	var wg sync.WaitGroup
	for k := 0; k < w; k++ {
		wg.Add(1)
		go func(k int) {
			defer wg.Done()
			f, err := os.CreateTemp("", "verif-shard-*.json")
			if err != nil {
				results[k].err = err
				return
			}
			f.Close()
			defer os.Remove(f.Name())
			cmd := exec.Command(os.Args[0], "-test.run", "^TestCheck$", "-test.count=1", "-test.timeout", "12h")
			cmd.Env = append(os.Environ(), fmt.Sprintf("VERIF_SHARD=%d/%d", k, w), "VERIF_SHARD_OUT="+f.Name())
			var buf bytes.Buffer
			cmd.Stdout, cmd.Stderr = &buf, &buf
			err = cmd.Run()
			results[k].out = buf.String()
			bz, _ := os.ReadFile(f.Name())
			if e := json.Unmarshal(bz, &results[k].p); e != nil {
				results[k].err = fmt.Errorf("shard %d/%d gave no result (%v): %v", k, w, err, e)
			} else if err != nil {
				// the child wrote its partial result but still failed: a t.Fatal in the harness or a crash after the cases
				lines := strings.Split(strings.TrimSpace(buf.String()), "\n")
				if len(lines) > 25 {
					lines = lines[len(lines)-25:]
				}
				results[k].err = fmt.Errorf("shard %d/%d exited with %v:\n%s", k, w, err, strings.Join(lines, "\n"))
			}
		}(k)
	}
	wg.Wait()
	r.mu.Lock()
	defer r.mu.Unlock()
	for k, x := range results {
		// pass through what the child printed that matters
		for _, line := range strings.Split(x.out, "\n") {
			if strings.HasPrefix(line, "VIOLATION ") || strings.HasPrefix(line, "DEBUG") || strings.HasPrefix(line, "  signature:") || strings.HasPrefix(line, "panic:") ||
				strings.HasPrefix(line, "fatal error:") || strings.Contains(line, "github.com/canopy-network/canopy/") || strings.HasPrefix(line, "    ") {
				fmt.Println(line)
			}
		}
		if x.err != nil {
			fmt.Printf("shard %d failed: %v\n", k, x.err)
			r.shardErr = append(r.shardErr, x.err.Error())
			continue
		}
		r.evals += x.p.Evals
		for _, d := range x.p.Distinct {
			r.distinct[d] = struct{}{}
		}
		for c, n := range x.p.Counters {
			r.counters[c] += n
		}
		for _, sm := range x.p.Samples {
			if len(r.samples) < 8 {
				r.samples = append(r.samples, sm)
			}
		}
		r.viol += x.p.Viol
		for sg, n := range x.p.ViolSigs {
			r.violSigs[sg] += n
		}
		for i, n := range x.p.KnownHits {
			if r.knownHit[i] == 0 && i < len(r.known) {
				fmt.Printf("KNOWN-FINDING: property=%s %s (first witness: %s)\n", r.ID, r.known[i].What, x.p.KnownSigs[i])
			}
			r.knownHit[i] += n
		}
		r.inconcl = append(r.inconcl, x.p.Inconcl...)
		for ek, ev := range x.p.Extra {
			r.extra[ek] = ev
		}
	}
}

// Finish writes the evidence file and sets the verdict.
func (r *Run) Finish() {
	r.mu.Lock()
	defer r.mu.Unlock()
	if _, _, ok := shardEnv(); ok {
		p := partial{Evals: r.evals, Counters: r.counters, Samples: r.samples, Viol: r.viol, ViolSigs: r.violSigs, KnownHits: r.knownHit, KnownSigs: r.knownSig, Inconcl: r.inconcl, Extra: r.extra}
		for d := range r.distinct {
			p.Distinct = append(p.Distinct, d)
		}
		bz, _ := json.Marshal(p)
		_ = os.WriteFile(os.Getenv("VERIF_SHARD_OUT"), bz, 0o644)
		return
	}
	if len(r.shardErr) > 0 {
		fmt.Printf("ERROR property=%s shard failures: %v\n", r.ID, r.shardErr)
		r.t.Fail()
		return
	}
	cov := map[string]any{
		"evaluations":         r.evals,
		"distinct_nontrivial": len(r.distinct),
		"rule":                r.Rule,
		"samples":             r.samples,
		"counters":            r.counters,
	}
	for k, v := range r.extra {
		cov[k] = v
	}
	if len(r.samples) == 0 {
		cov["samples"] = []any{"(none recorded)"}
	}
	kn := map[string]int{}
	for i, n := range r.knownHit {
		kn[r.known[i].Match] = n
	}
	if len(kn) > 0 {
		cov["known_finding_hits"] = kn
	}
	if len(r.inconcl) > 0 {
		cov["inconclusive"] = r.inconcl
	}
	ev := map[string]any{
		"property_id": r.ID, "tier": Tier(), "seed": Seed(), "level": r.Level, "coverage": cov,
		"assumptions": r.assume, "wall_s": time.Since(r.start).Seconds(), "violations": r.viol,
	}
	if r.assume == nil {
		ev["assumptions"] = []string{}
	}
	bz, _ := json.MarshalIndent(ev, "", " ")
	if r.caseRe == nil { // a replay of one case must not overwrite the evidence of the full run
		_ = os.MkdirAll(filepath.Join(Root(), "evidence"), 0o755)
		if err := os.WriteFile(filepath.Join(Root(), "evidence", r.ID+".json"), bz, 0o644); err != nil {
			r.t.Errorf("write evidence: %v", err)
		}
	}
	names := make([]string, 0, len(r.counters))
	for k := range r.counters {
		names = append(names, k)
	}
	sort.Strings(names)
	var sb strings.Builder
	for _, k := range names {
		fmt.Fprintf(&sb, " %s=%d", k, r.counters[k])
	}
	fmt.Printf("OBSERVED property=%s evaluations=%d distinct_nontrivial=%d%s wall=%.1fs\n", r.ID, r.evals,
		len(r.distinct), sb.String(), time.Since(r.start).Seconds())
	switch {
	case r.viol > 0:
		fmt.Printf("VERDICT property=%s violated (%d violation events, %d distinct signatures)\n", r.ID, r.viol, len(r.violSigs))
		r.t.Fail()
	case r.caseRe == nil && (len(r.inconcl) > 0 || len(r.distinct) < r.MinDistinct || r.evals == 0):
		fmt.Printf("INCONCLUSIVE property=%s reasons=%v distinct=%d (min %d)\n", r.ID, r.inconcl, len(r.distinct), r.MinDistinct)
		r.t.Fail()
	default:
		fmt.Printf("VERDICT property=%s held on everything observed\n", r.ID)
	}
}

// Parallel runs fn(i) for i in [0,n) on Workers() goroutines; a panic in fn is re-raised with its case index.
func Parallel(n int, fn func(i int)) {
	w := Workers()
	if w > n {
		w = n
	}
	if w <= 1 {
		for i := 0; i < n; i++ {
			fn(i)
		}
		return
	}
	var wg sync.WaitGroup
	ch := make(chan int)
	for k := 0; k < w; k++ {
		wg.Add(1)
		go func() {
			defer wg.Done()
			for i := range ch {
				fn(i)
			}
		}()
	}
	for i := 0; i < n; i++ {
		ch <- i
	}
	close(ch)
	wg.Wait()
}

// Hex is a short hex rendering for evidence samples.
func Hex(b []byte) string {
	if len(b) > 24 {
		return hex.EncodeToString(b[:24]) + fmt.Sprintf("…(%dB)", len(b))
	}
	return hex.EncodeToString(b)
}
