package node

import (
	"fmt"
	"strings"
	"testing"

	"github.com/canopy-network/canopy/fsm"
	"github.com/canopy-network/canopy/lib"
)

type capLog struct {
	lib.LoggerI
	out *[]string
}

func (c capLog) Errorf(f string, a ...any) {
	s := fmt.Sprintf(f, a...)
	if strings.HasPrefix(s, "Candidate") || strings.HasPrefix(s, "Compare") {
		*c.out = append(*c.out, s)
	}
}

func TestDebugUnequal(t *testing.T) {
	for style := 0; style < 3; style++ {
		for _, n := range []int{1, 3, 4, 7} {
			spec := &GenesisSpec{ChainID: 1, Params: fsm.DefaultParams(), Accounts: map[string]uint64{}}
			for i := 0; i < n; i++ {
				stake := uint64(1_000_000)
				if style == 1 {
					stake = uint64(1+i) * 1_000_000
				}
				if style == 2 {
					stake = uint64(1 + i%5)
				}
				spec.Validators = append(spec.Validators, GenesisVal{Key: BLSKey(i), Stake: stake, Committees: []uint64{1}, Compound: true})
				spec.Accounts[BLSKey(i).PublicKey().Address().String()] = 1_000_000
			}
			a0, a1 := EdKey(0), EdKey(1)
			spec.Accounts[a0.PublicKey().Address().String()] = 1_000_000_000
			ch, err := NewChain(spec, 1, nil)
			if err != nil {
				t.Fatal(err)
			}
			tx, _ := fsm.NewSendTransaction(a0, a1.PublicKey().Address(), 1000, NetworkID, 1, 10000, ch.Nodes[0].Height(), "")
			bz, _ := lib.Marshal(tx)
			_, err = ch.Step(0, [][]byte{bz}, nil)
			fmt.Printf("style=%d n=%d err=%v\n", style, n, err)
			ch.Close()
		}
	}
}
