package node

import (
	"crypto/sha256"
	"encoding/binary"
	"encoding/json"
	"fmt"
	"math/rand"
	"time"

	"github.com/canopy-network/canopy/fsm"
	"github.com/canopy-network/canopy/lib"
	"github.com/canopy-network/canopy/lib/crypto"
)

// World is a chain plus a population of keys and a seeded generator of transactions and blocks. It is workload
// machinery only: it may peek at the state through FSM getters to make transactions plausible, but no oracle
// depends on what it believes.
type World struct {
	Ch      *Chain
	Rng     *rand.Rand
	Users   []crypto.PrivateKeyI // account keys (ed25519 / secp256k1 / BLS)
	ValKeys []crypto.PrivateKeyI // BLS keys of every validator that exists or may stake later
	Opts    WorldOpts
	NTx     map[string]int // generated per kind
	txTime  uint64
	Sent    []TxInfo
}

// TxInfo describes a generated transaction.
type TxInfo struct {
	Kind  string
	Bytes []byte
	Hash  string
	Note  string
}

// WorldOpts configures a world.
type WorldOpts struct {
	ChainID     uint64
	Nodes       int
	GenesisVals int // validators staked at genesis
	ExtraVals   int // keys that may stake later
	Users       int
	Stake       func(i int, rng *rand.Rand) uint64
	Params      func(p *fsm.Params, rng *rand.Rand)
	Gov         bool // put nodes in approve-list mode and approve every generated proposal
	Weights     map[string]int
	UserFunds   uint64
	Compound    func(i int) bool
	Tweak       func(c *lib.Config)
	Committees  func(i int, rng *rand.Rand) []uint64
	Delegates   int // how many of the genesis validators are delegates
	NoAnchor    bool
	AnchorStake uint64 // stake of the anchor validator (default 5e9: it then dominates every committee tally)
	NodeOpts    func(i int, o *Options)
}

// NewWorld builds the chain and the population.
func NewWorld(rng *rand.Rand, o WorldOpts) (*World, error) {
	if o.ChainID == 0 {
		o.ChainID = 1
	}
	if o.Nodes == 0 {
		o.Nodes = 1
	}
	if o.UserFunds == 0 {
		o.UserFunds = 5_000_000_000
	}
	w := &World{Rng: rng, Opts: o, NTx: map[string]int{}, txTime: 1_700_000_000_000_000}
	p := fsm.DefaultParams()
	p.Validator.UnstakingBlocks, p.Validator.DelegateUnstakingBlocks, p.Validator.MaxPauseBlocks = 3, 2, 6
	p.Validator.NonSignWindow, p.Validator.MaxNonSign = 4, 2
	p.Consensus.RootChainId = o.ChainID
	if o.Params != nil {
		o.Params(p, rng)
	}
	spec := &GenesisSpec{ChainID: o.ChainID, Params: p, Accounts: map[string]uint64{}}
	for i := 0; i < o.GenesisVals+o.ExtraVals; i++ {
		k := BLSKey(i)
		w.ValKeys = append(w.ValKeys, k)
		spec.Accounts[k.PublicKey().Address().String()] = o.UserFunds / 10
		if i >= o.GenesisVals {
			continue
		}
		stake := uint64(1_000_000)
		if o.Stake != nil {
			stake = o.Stake(i, rng)
		}
		coms := []uint64{o.ChainID}
		if o.Committees != nil {
			coms = o.Committees(i, rng)
		}
		if i == 0 && !o.NoAnchor {
			// the anchor: a validator the generator never pauses, unstakes or edits and that signs every block, so the
			// committee is never empty (a chain whose validators all left cannot certify blocks; that is not a wedge)
			stake = 5_000_000_000
			if o.AnchorStake != 0 {
				stake = o.AnchorStake
			}
			coms = []uint64{o.ChainID} // only the own committee: a lowered MaxCommittees must not be able to trim it away
		}
		compound := true
		if o.Compound != nil {
			compound = o.Compound(i)
		}
		gv := GenesisVal{Key: k, Stake: stake, Committees: coms, Compound: compound, Delegate: i >= o.GenesisVals-o.Delegates}
		if i%3 == 2 {
			// non-custodial: a separate output key
			gv.Output = EdKey(1000 + i).PublicKey().Address()
		}
		spec.Validators = append(spec.Validators, gv)
	}
	for i := 0; i < o.Users; i++ {
		var k crypto.PrivateKeyI
		switch i % 4 {
		case 3:
			k = SecpKey(i)
		default:
			k = EdKey(i)
		}
		w.Users = append(w.Users, k)
		spec.Accounts[k.PublicKey().Address().String()] = o.UserFunds
	}
	// the output keys of non-custodial validators also act
	for i := 0; i < o.GenesisVals; i++ {
		if i%3 == 2 {
			k := EdKey(1000 + i)
			w.Users = append(w.Users, k)
			spec.Accounts[k.PublicKey().Address().String()] = o.UserFunds / 10
		}
	}
	ch, err := NewChain(spec, o.Nodes, o.Tweak, o.NodeOpts)
	if err != nil {
		return nil, err
	}
	for _, k := range w.ValKeys {
		ch.AddKey(k)
	}
	w.Ch = ch
	if o.Gov {
		// every node (also late joiners and restarted ones) is in approve-list mode: the same governance-vote configuration
		ch.OnNode = func(n *Node) {
			n.C.Consensus.VerifSetProposalVoteDeadline(time.Now().Add(1000 * time.Hour).UnixMilli())
		}
		for _, n := range ch.Nodes {
			ch.OnNode(n)
		}
	}
	return w, nil
}

// SecpKey returns deterministic secp256k1 key i.
func SecpKey(i int) crypto.PrivateKeyI {
	seed := make([]byte, 32)
	seed[0], seed[1], seed[2], seed[31] = byte(i+1), byte((i+1)>>8), 0x5E, 0xC9
	k, err := crypto.BytesToSECP256K1Private(seed)
	if err != nil {
		panic(err)
	}
	return k
}

func (w *World) n0() *Node { return w.Ch.Nodes[0] }

// Height of the next block.
func (w *World) Height() uint64 { return w.n0().Height() }

func (w *World) pick(ws map[string]int) string {
	total := 0
	keys := make([]string, 0, len(ws))
	for k := range defaultWeights {
		if ws[k] > 0 {
			keys = append(keys, k)
			total += ws[k]
		}
	}
	if total == 0 {
		return "send"
	}
	// deterministic order
	sortStrings(keys)
	r := w.Rng.Intn(total)
	for _, k := range keys {
		if r < ws[k] {
			return k
		}
		r -= ws[k]
	}
	return keys[0]
}

func sortStrings(a []string) {
	for i := 1; i < len(a); i++ {
		for j := i; j > 0 && a[j] < a[j-1]; j-- {
			a[j], a[j-1] = a[j-1], a[j]
		}
	}
}

var defaultWeights = map[string]int{
	"send": 30, "send-edge": 10, "stake": 8, "edit-stake": 8, "unstake": 5, "pause": 5, "unpause": 4, "subsidy": 4,
	"change-param": 0, "dao-transfer": 0, "invalid": 6, "create-order": 0, "edit-order": 0, "delete-order": 0,
}

func (w *World) weights() map[string]int {
	ws := map[string]int{}
	for k, v := range defaultWeights {
		ws[k] = v
	}
	if w.Opts.Gov {
		ws["change-param"], ws["dao-transfer"] = 5, 3
	}
	for k, v := range w.Opts.Weights {
		ws[k] = v
	}
	return ws
}

// sign builds and signs a transaction with the world's deterministic clock.
func (w *World) sign(k crypto.PrivateKeyI, msg lib.MessageI, fee, height uint64, memo string, mut func(t *lib.Transaction)) []byte {
	a, err := lib.NewAny(msg)
	if err != nil {
		panic(err)
	}
	w.txTime += 1000
	t := &lib.Transaction{MessageType: msg.Name(), Msg: a, CreatedHeight: height, Time: w.txTime, Fee: fee, Memo: memo, NetworkId: NetworkID, ChainId: w.Opts.ChainID}
	if mut != nil {
		mut(t)
	}
	if e := t.Sign(k); e != nil {
		panic(e)
	}
	bz, e := lib.Marshal(t)
	if e != nil {
		panic(e)
	}
	return bz
}

func (w *World) fee(name string) uint64 {
	f, err := w.n0().C.FSM.GetFeeForMessageName(name)
	if err != nil {
		return 10000
	}
	return f
}

func (w *World) user() crypto.PrivateKeyI { return w.Users[w.Rng.Intn(len(w.Users))] }

func (w *World) balance(a crypto.AddressI) uint64 {
	acc, err := w.n0().C.FSM.GetAccount(a)
	if err != nil || acc == nil {
		return 0
	}
	return acc.Amount
}

// stakedVals / unstakedVals partition the validator keys by what node 0's state says.
func (w *World) vals() (staked, free []crypto.PrivateKeyI) {
	for i, k := range w.ValKeys {
		if i == 0 && !w.Opts.NoAnchor {
			continue
		}
		if ok, _ := w.n0().C.FSM.GetValidatorExists(k.PublicKey().Address()); ok {
			staked = append(staked, k)
		} else {
			free = append(free, k)
		}
	}
	return
}

// authKey returns a key allowed to act for the validator (operator, or the output key for non-custodial ones).
func (w *World) authKey(op crypto.PrivateKeyI) crypto.PrivateKeyI {
	v, err := w.n0().C.FSM.GetValidator(op.PublicKey().Address())
	if err != nil || v == nil {
		return op
	}
	if w.Rng.Intn(2) == 0 {
		for _, u := range w.Users {
			if string(u.PublicKey().Address().Bytes()) == string(v.Output) {
				return u
			}
		}
	}
	return op
}

// RandomTx generates one transaction of a weighted-random kind (nil when the kind is not applicable right now).
func (w *World) RandomTx() *TxInfo {
	kind := w.pick(w.weights())
	bz, note := w.Make(kind)
	if bz == nil {
		return nil
	}
	w.NTx[kind]++
	ti := TxInfo{Kind: kind, Bytes: bz, Hash: crypto.HashString(bz), Note: note}
	w.Sent = append(w.Sent, ti)
	return &ti
}

// Make builds a transaction of the given kind.
func (w *World) Make(kind string) ([]byte, string) {
	h := w.Height()
	rng := w.Rng
	switch kind {
	case "send":
		from, to := w.user(), w.user()
		amt := uint64(1 + rng.Intn(100_000))
		return w.sign(from, &fsm.MessageSend{FromAddress: from.PublicKey().Address().Bytes(), ToAddress: to.PublicKey().Address().Bytes(), Amount: amt}, w.fee(fsm.MessageSendName), h, "", nil), ""
	case "send-edge":
		from := w.user()
		bal := w.balance(from.PublicKey().Address())
		fee := w.fee(fsm.MessageSendName)
		to := w.user().PublicKey().Address().Bytes()
		if rng.Intn(3) == 0 {
			to = crypto.Hash([]byte(fmt.Sprint("fresh", rng.Int63())))[:20] // a brand-new account
		}
		var amt uint64
		note := ""
		switch rng.Intn(7) {
		case 0:
			amt, note = 1, "one"
		case 1:
			if bal > fee {
				amt, note = bal-fee, "exact-balance"
			}
		case 2:
			amt, note = bal, "balance-without-fee" // fails after the fee was deducted
		case 3:
			amt, note = bal+1, "over-balance"
		case 4:
			amt, note = ^uint64(0)-uint64(rng.Intn(3)), "near-2^64"
		case 5:
			amt, note = ^uint64(0)-fee+1, "amount+fee overflows"
		default:
			amt, note = 0, "zero"
		}
		return w.sign(from, &fsm.MessageSend{FromAddress: from.PublicKey().Address().Bytes(), ToAddress: to, Amount: amt}, fee, h, "", nil), note
	case "stake":
		_, free := w.vals()
		if len(free) == 0 {
			return nil, ""
		}
		k := free[rng.Intn(len(free))]
		signer, out := k, k.PublicKey().Address()
		if rng.Intn(3) == 0 { // non-custodial: a user funds and controls the output
			signer = w.user()
			out = signer.PublicKey().Address()
		}
		bal := w.balance(signer.PublicKey().Address())
		amt := uint64(1 + rng.Intn(2_000_000))
		switch rng.Intn(6) {
		case 0:
			amt = uint64(1 + rng.Intn(9)) // tiny stakes: slashes round to zero
		case 1:
			amt = bal + 1
		}
		coms := []uint64{w.Opts.ChainID}
		for c := uint64(2); c < 5; c++ {
			if rng.Intn(3) == 0 {
				coms = append(coms, c)
			}
		}
		if rng.Intn(3) == 0 { // committee lists need not be sorted
			rng.Shuffle(len(coms), func(i, j int) { coms[i], coms[j] = coms[j], coms[i] })
		}
		delegate := rng.Intn(5) == 0
		return w.sign(signer, &fsm.MessageStake{PublicKey: k.PublicKey().Bytes(), Amount: amt, Committees: coms, NetAddress: netAddr(delegate), OutputAddress: out.Bytes(), Delegate: delegate, Compound: rng.Intn(2) == 0},
			w.fee(fsm.MessageStakeName), h, "", nil), fmt.Sprintf("amount=%d delegate=%v", amt, delegate)
	case "edit-stake":
		staked, _ := w.vals()
		if len(staked) == 0 {
			return nil, ""
		}
		k := staked[rng.Intn(len(staked))]
		v, err := w.n0().C.FSM.GetValidator(k.PublicKey().Address())
		if err != nil || v == nil {
			return nil, ""
		}
		amt := v.StakedAmount + uint64(rng.Intn(3))*uint64(1+rng.Intn(500_000))
		if rng.Intn(8) == 0 && amt > 0 {
			amt-- // lowering the stake is not allowed
		}
		coms := []uint64{}
		for c := uint64(1); c < 6; c++ {
			if rng.Intn(2) == 0 || c == w.Opts.ChainID && rng.Intn(4) != 0 {
				coms = append(coms, c)
			}
		}
		if len(coms) == 0 {
			coms = []uint64{w.Opts.ChainID}
		}
		if rng.Intn(3) == 0 { // committee lists need not be sorted
			rng.Shuffle(len(coms), func(i, j int) { coms[i], coms[j] = coms[j], coms[i] })
		}
		out := v.Output
		if rng.Intn(4) == 0 {
			out = w.user().PublicKey().Address().Bytes()
		}
		return w.sign(w.authKey(k), &fsm.MessageEditStake{Address: v.Address, Amount: amt, Committees: coms, NetAddress: netAddr(v.Delegate), OutputAddress: out, Compound: rng.Intn(2) == 0},
			w.fee(fsm.MessageEditStakeName), h, "", nil), fmt.Sprintf("amount %d->%d", v.StakedAmount, amt)
	case "unstake", "pause", "unpause":
		staked, _ := w.vals()
		if len(staked) == 0 {
			return nil, ""
		}
		k := staked[rng.Intn(len(staked))]
		addr := k.PublicKey().Address().Bytes()
		var msg lib.MessageI
		name := ""
		switch kind {
		case "unstake":
			msg, name = &fsm.MessageUnstake{Address: addr}, fsm.MessageUnstakeName
		case "pause":
			msg, name = &fsm.MessagePause{Address: addr}, fsm.MessagePauseName
		default:
			msg, name = &fsm.MessageUnpause{Address: addr}, fsm.MessageUnpauseName
		}
		return w.sign(w.authKey(k), msg, w.fee(name), h, "", nil), ""
	case "subsidy":
		from := w.user()
		return w.sign(from, &fsm.MessageSubsidy{Address: from.PublicKey().Address().Bytes(), ChainId: uint64(1 + rng.Intn(4)), Amount: uint64(1 + rng.Intn(50_000)), Opcode: []byte("note")},
			w.fee(fsm.MessageSubsidyName), h, "", nil), ""
	case "change-param":
		type pc struct {
			space, key string
			val        uint64
		}
		opts := []pc{
			{fsm.ParamSpaceVal, fsm.ParamUnstakingBlocks, uint64(1 + rng.Intn(6))},
			{fsm.ParamSpaceVal, fsm.ParamDelegateUnstakingBlocks, uint64(1 + rng.Intn(6))},
			{fsm.ParamSpaceVal, fsm.ParamMaxPauseBlocks, uint64(1 + rng.Intn(8))},
			{fsm.ParamSpaceVal, fsm.ParamMinimumStakeForValidators, uint64(rng.Intn(3)) * uint64(rng.Intn(1_500_000))},
			{fsm.ParamSpaceVal, fsm.ParamMinimumStakeForDelegates, uint64(rng.Intn(3)) * uint64(rng.Intn(1_500_000))},
			{fsm.ParamSpaceVal, fsm.ParamMaxCommittees, uint64(1 + rng.Intn(4))},
			{fsm.ParamSpaceVal, fsm.ParamMaxCommitteeSize, uint64(1 + rng.Intn(8))},
			{fsm.ParamSpaceVal, fsm.ParamNonSignWindow, uint64(1 + rng.Intn(6))},
			{fsm.ParamSpaceVal, fsm.ParamMaxNonSign, uint64(1 + rng.Intn(4))},
			{fsm.ParamSpaceVal, fsm.ParamNonSignSlashPercentage, uint64(1 + rng.Intn(100))},
			{fsm.ParamSpaceVal, fsm.ParamDoubleSignSlashPercentage, uint64(1 + rng.Intn(100))},
			{fsm.ParamSpaceVal, fsm.ParamMaxSlashPerCommittee, uint64(1 + rng.Intn(100))},
			{fsm.ParamSpaceVal, fsm.ParamEarlyWithdrawalPenalty, uint64(rng.Intn(101))},
			{fsm.ParamSpaceVal, fsm.ParamStakePercentForSubsidizedCommittee, uint64(1 + rng.Intn(100))},
			{fsm.ParamSpaceGov, "daoRewardPercentage", []uint64{0, 100, 1, uint64(rng.Intn(101))}[rng.Intn(4)]}, // boundary values often
			{fsm.ParamSpaceFee, "sendFee", uint64(1 + rng.Intn(20000))},
			{fsm.ParamSpaceGov, "daoRewardPercentage", uint64(rng.Intn(2)) * 100},           // the two ends of the legal range
			{fsm.ParamSpaceVal, fsm.ParamMaxCommitteeSize, uint64(1 + rng.Intn(3))},         // caps that cut into the population
			{fsm.ParamSpaceVal, fsm.ParamMaximumDelegatesPerCommittee, uint64(rng.Intn(3))}, // 0 = unlimited
			{fsm.ParamSpaceVal, fsm.ParamEarlyWithdrawalPenalty, uint64(rng.Intn(2)) * 100},
		}
		c := opts[rng.Intn(len(opts))]
		if rng.Intn(5) == 0 {
			// a value the parameter space rejects only inside the handler (after fee deduction and after the cached
			// parameter object was written): the transaction fails in the middle of the block
			bad := []pc{
				{fsm.ParamSpaceVal, fsm.ParamUnstakingBlocks, 0},
				{fsm.ParamSpaceVal, fsm.ParamDelegateUnstakingBlocks, 0},
				{fsm.ParamSpaceVal, fsm.ParamMaxPauseBlocks, 0},
				{fsm.ParamSpaceVal, fsm.ParamNonSignWindow, 0},
				{fsm.ParamSpaceVal, fsm.ParamMaxSlashPerCommittee, 0},
				{fsm.ParamSpaceVal, fsm.ParamEarlyWithdrawalPenalty, 101},
				{fsm.ParamSpaceVal, fsm.ParamMaxCommitteeSize, 0},
				{fsm.ParamSpaceVal, fsm.ParamMaxCommittees, 101},
				{fsm.ParamSpaceGov, "daoRewardPercentage", 101},
				{fsm.ParamSpaceFee, "sendFee", 0},
			}
			c = bad[rng.Intn(len(bad))]
		}
		a, _ := lib.NewAny(&lib.UInt64Wrapper{Value: c.val})
		from := w.user()
		start, end := h, h+uint64(1+rng.Intn(5))
		if rng.Intn(8) == 0 {
			start = h + 3 // not yet active
		}
		bz := w.sign(from, &fsm.MessageChangeParameter{ParameterSpace: c.space, ParameterKey: c.key, ParameterValue: a, StartHeight: start, EndHeight: end, Signer: from.PublicKey().Address().Bytes()},
			w.fee(fsm.MessageChangeParameterName), h, "", nil)
		w.approve(bz)
		return bz, fmt.Sprintf("%s/%s=%d", c.space, c.key, c.val)
	case "dao-transfer":
		from := w.user()
		amt := uint64(1 + rng.Intn(2_000_000))
		bz := w.sign(from, &fsm.MessageDAOTransfer{Address: from.PublicKey().Address().Bytes(), Amount: amt, Mint: rng.Intn(2) == 0, StartHeight: h, EndHeight: h + uint64(1+rng.Intn(4))},
			w.fee(fsm.MessageDAOTransferName), h, "", nil)
		if rng.Intn(5) != 0 {
			w.approve(bz)
		}
		return bz, fmt.Sprintf("amount=%d", amt)
	case "invalid":
		from, to := w.user(), w.user()
		msg := &fsm.MessageSend{FromAddress: from.PublicKey().Address().Bytes(), ToAddress: to.PublicKey().Address().Bytes(), Amount: 5}
		fee := w.fee(fsm.MessageSendName)
		switch rng.Intn(7) {
		case 0:
			return w.sign(from, msg, fee, h, "", func(t *lib.Transaction) { t.ChainId++ }), "wrong-chain"
		case 1:
			return w.sign(from, msg, fee, h, "", func(t *lib.Transaction) { t.NetworkId++ }), "wrong-network"
		case 2:
			return w.sign(from, msg, fee, h+fsm.BlockAcceptanceRange+2, "", nil), "height-above-window"
		case 3:
			return w.sign(from, msg, fee-1, h, "", nil), "fee-too-low"
		case 4:
			// signed by somebody else
			return w.sign(to, msg, fee, h, "", nil), "unauthorized-signer"
		case 5:
			bz := w.sign(from, msg, fee, h, "", nil)
			t := new(lib.Transaction)
			_ = lib.Unmarshal(bz, t)
			t.Signature.Signature[3] ^= 1
			out, _ := lib.Marshal(t)
			return out, "bad-signature"
		default:
			if len(w.Sent) > 0 {
				return w.Sent[rng.Intn(len(w.Sent))].Bytes, "replay-of-earlier-tx"
			}
			return nil, ""
		}
	}
	return nil, ""
}

func netAddr(delegate bool) string {
	if delegate {
		return ""
	}
	return "tcp://node.example"
}

// approve puts the proposal transaction on every node's approve list (proposals.json in the data dir).
func (w *World) approve(txBytes []byte) {
	t := new(lib.Transaction)
	if err := lib.Unmarshal(txBytes, t); err != nil {
		return
	}
	j, err := json.Marshal(t)
	if err != nil {
		return
	}
	for _, n := range w.Ch.Nodes {
		p := make(fsm.GovProposals)
		_ = p.NewFromFile(n.Dir)
		// key by the hash of the exact bytes that go on chain (what the state machine computes for ProposalHash)
		p[crypto.HashString(txBytes)] = fsm.GovProposalWithVote{Proposal: j, Approve: true}
		_ = p.SaveToFile(n.Dir)
	}
}

// Step generates up to nTx transactions and commits one block with a random proposer and a random signer set (>= +2/3).
func (w *World) Step(nTx int) (*BlockRecord, []TxInfo, error) {
	var txs [][]byte
	var infos []TxInfo
	for i := 0; i < nTx; i++ {
		if ti := w.RandomTx(); ti != nil {
			txs = append(txs, ti.Bytes)
			infos = append(infos, *ti)
		}
	}
	proposer := w.Rng.Intn(len(w.Ch.Nodes))
	pick := w.SignerPick()
	rec, err := w.Ch.Step(proposer, txs, pick)
	return rec, infos, err
}

// SignerPick returns a signer subset with at least the +2/3 power of the committee currently in force (nil = everybody).
func (w *World) SignerPick() func(int, *lib.ConsensusValidator) bool {
	if w.Rng.Intn(3) == 0 {
		return nil
	}
	vs, err := w.Ch.Committee(w.n0(), w.Height())
	if err != nil {
		return nil
	}
	// drop members one by one while the rest still holds the threshold
	out := map[int]bool{}
	power := vs.TotalPower
	anchor := w.ValKeys[0].PublicKey().Bytes()
	for _, i := range w.Rng.Perm(len(vs.ValidatorSet.ValidatorSet)) {
		p := vs.ValidatorSet.ValidatorSet[i].VotingPower
		if !w.Opts.NoAnchor && string(vs.ValidatorSet.ValidatorSet[i].PublicKey) == string(anchor) {
			continue
		}
		if power-p >= vs.MinimumMaj23 && w.Rng.Intn(2) == 0 {
			out[i] = true
			power -= p
		}
	}
	return func(i int, _ *lib.ConsensusValidator) bool { return !out[i] }
}

// HashOf is the transaction hash (hex of SHA-256 of the raw bytes).
func HashOf(tx []byte) string { return crypto.HashString(tx) }

func hashOf(tx []byte) string { return HashOf(tx) }

// DumpState hashes every key/value of a state view (and counts them).
func DumpState(st lib.RStoreI) (string, int, error) {
	h := sha256.New()
	n := 0
	for p := 1; p < 256; p++ {
		it, err := st.Iterator(lib.JoinLenPrefix([]byte{byte(p)}))
		if err != nil {
			return "", 0, err
		}
		for ; it.Valid(); it.Next() {
			k, v := it.Key(), it.Value()
			var l [8]byte
			binary.BigEndian.PutUint32(l[:4], uint32(len(k)))
			binary.BigEndian.PutUint32(l[4:], uint32(len(v)))
			h.Write(l[:])
			h.Write(k)
			h.Write(v)
			n++
		}
		it.Close()
	}
	return fmt.Sprintf("%x", h.Sum(nil)[:16]), n, nil
}
