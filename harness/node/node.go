// Package node assembles full canopy nodes from canopy's own constructors (pebble -> store -> fsm -> controller)
// and drives chains of blocks through the real ProduceProposal / ValidateProposal / HandlePeerBlock /
// CommitCertificate paths. The root-chain client (RPC / web-socket in production) is replaced by RCM, which
// answers every lib.RCManagerI query by calling the root node's state machine the way the RPC server does.
package node

import (
	"encoding/json"
	"fmt"
	"os"
	"path/filepath"
	"sync"

	"github.com/canopy-network/canopy/controller"
	"github.com/canopy-network/canopy/fsm"
	"github.com/canopy-network/canopy/lib"
	"github.com/canopy-network/canopy/lib/crypto"
	"github.com/canopy-network/canopy/store"
	"github.com/cockroachdb/pebble/v2"
	"github.com/cockroachdb/pebble/v2/vfs"
)

const NetworkID = 1

// Node is one full node.
type Node struct {
	opts  Options
	Name  string
	Key   crypto.PrivateKeyI
	Dir   string
	Cfg   lib.Config
	FS    vfs.FS
	DB    *pebble.DB
	Store *store.Store
	C     *controller.Controller
	RCM   *RCM
}

// Options for a node.
type Options struct {
	Name    string
	ChainID uint64
	Key     crypto.PrivateKeyI
	Genesis *fsm.GenesisState
	FS      vfs.FS // nil = fresh in-memory file system
	Dir     string // data dir for genesis.json (a temp dir is created when empty)
	// Tweak may adjust the configuration before the node is built
	Tweak func(c *lib.Config)
	// MemTableSize for stores on an explicit FS (0 = production value)
	MemTableSize uint64
}

var dirMu sync.Mutex

// New builds a node: genesis file -> store -> fsm -> controller (+ harness root-chain manager).
func New(o Options) (*Node, error) {
	n := &Node{Name: o.Name, Key: o.Key, Dir: o.Dir, FS: o.FS, opts: o}
	if n.Dir == "" {
		d, err := os.MkdirTemp("", "verif-node-")
		if err != nil {
			return nil, err
		}
		n.Dir = d
	}
	if o.Genesis != nil {
		bz, err := json.Marshal(o.Genesis)
		if err != nil {
			return nil, err
		}
		if err = os.WriteFile(filepath.Join(n.Dir, lib.GenesisFilePath), bz, 0o644); err != nil {
			return nil, err
		}
	}
	c := lib.DefaultConfig()
	c.ChainId = o.ChainID
	c.P2PConfig.NetworkID = NetworkID
	c.DataDirPath = n.Dir
	c.StoreConfig.DataDirPath = n.Dir
	c.StoreConfig.LSSCompactionInterval = 0
	c.StoreConfig.InMemory = true
	c.RunVDF = false
	c.Plugin = ""
	c.MempoolConfig.LazyMempoolCheckFrequencyS = 0
	c.RootChain = nil
	if o.Tweak != nil {
		o.Tweak(&c)
	}
	n.Cfg = c
	var log lib.LoggerI = lib.NewNullLogger()
	if os.Getenv("VERIF_NODE_LOG") != "" {
		log = lib.NewDefaultLogger()
	}
	var st *store.Store
	if n.FS == nil {
		s, err := store.NewStoreInMemory(log, c)
		if err != nil {
			return nil, err
		}
		st = s.(*store.Store)
	} else {
		// the options of store.NewStore on the given file system (verif hook), optionally with small memtables
		s, e := store.VerifNewStoreOnFS(c, n.FS, "db", o.MemTableSize, log)
		if e != nil {
			return nil, e
		}
		st = s
	}
	n.Store, n.DB = st, st.DB()
	sm, err := fsm.New(c, st, nil, nil, log)
	if err != nil {
		return nil, fmt.Errorf("fsm.New: %v", err)
	}
	ctl, err := controller.New(sm, c, o.Key, nil, log)
	if err != nil {
		return nil, fmt.Errorf("controller.New: %v", err)
	}
	n.C = ctl
	n.RCM = &RCM{self: n, root: n}
	ctl.RCManager = n.RCM
	return n, nil
}

// Start does what Controller.Start() does before the listeners: learn the root-chain info and check the mempool once
// (CommitCertificate calls Mempool.stop unconditionally, which only exists after the first CheckMempool).
func (n *Node) Start() error {
	rc, err := n.C.FSM.GetRootChainId()
	if err != nil {
		return err
	}
	if _, err = n.RCM.GetRootChainInfo(rc, n.Cfg.ChainId); err != nil {
		return fmt.Errorf("root chain info: %v", err)
	}
	reset := n.C.SetFSMInConsensusModeForProposals()
	defer reset()
	if e := n.C.Mempool.CheckMempool(); e != nil {
		return fmt.Errorf("initial CheckMempool: %v", e)
	}
	return nil
}

// Close stops the node and removes its data dir.
func (n *Node) Close() {
	defer func() { _ = recover() }()
	n.C.Mempool.FSM.Discard()
	_ = n.Store.Close()
	if n.Dir != "" {
		_ = os.RemoveAll(n.Dir)
	}
}

// Height is the height of the next block.
func (n *Node) Height() uint64 { return n.C.FSM.Height() }

// Reopen closes the store and builds the node again on the same file system and data dir (a process restart).
// Only nodes created on an explicit FS can be reopened.
func (n *Node) Reopen() (*Node, error) {
	if n.FS == nil {
		return nil, fmt.Errorf("node %s has no persistent file system", n.Name)
	}
	func() {
		defer func() { _ = recover() }()
		n.C.Mempool.FSM.Discard()
	}()
	if err := n.Store.Close(); err != nil {
		return nil, fmt.Errorf("close: %v", err)
	}
	o := n.opts
	o.Genesis, o.Dir, o.FS = nil, n.Dir, n.FS
	m, err := New(o)
	if err != nil {
		return nil, err
	}
	if err = m.Start(); err != nil {
		return nil, err
	}
	return m, nil
}
