package node

import (
	"fmt"
	"testing"

	"github.com/canopy-network/canopy/fsm"
	"github.com/canopy-network/canopy/lib"
)

func TestSmokeChain(t *testing.T) {
	spec := &GenesisSpec{ChainID: 1, Params: fsm.DefaultParams(), Accounts: map[string]uint64{}}
	for i := 0; i < 4; i++ {
		spec.Validators = append(spec.Validators, GenesisVal{Key: BLSKey(i), Stake: 1_000_000 * uint64(i+1), Committees: []uint64{1}, Compound: true})
	}
	a0, a1 := EdKey(0), EdKey(1)
	spec.Accounts[a0.PublicKey().Address().String()] = 1_000_000_000
	spec.Accounts[a1.PublicKey().Address().String()] = 5
	ch, err := NewChain(spec, 3, nil)
	if err != nil {
		t.Fatal(err)
	}
	defer ch.Close()
	for h := 0; h < 5; h++ {
		var txs [][]byte
		tx, e := fsm.NewSendTransaction(a0, a1.PublicKey().Address(), 1000+uint64(h), NetworkID, 1, 10000, ch.Nodes[0].Height(), "")
		if e != nil {
			t.Fatal(e)
		}
		bz, _ := lib.Marshal(tx)
		txs = append(txs, bz)
		rec, err := ch.Step(h%3, txs, nil)
		if err != nil {
			t.Fatal(err)
		}
		fmt.Printf("height %d hash %x txs %d signers %v\n", rec.Height, rec.BlockHash[:6], len(rec.Block.Transactions), rec.Signers)
		if err := ch.SameHeads(); err != nil {
			t.Fatal(err)
		}
	}
	acc, _ := ch.Nodes[1].C.FSM.GetAccount(a1.PublicKey().Address())
	fmt.Println("a1 balance", acc.Amount)
}
