package node

import (
	"fmt"
	"math/rand"
	"testing"
	"time"
)

func TestWorldSmoke(t *testing.T) {
	rng := rand.New(rand.NewSource(7))
	w, err := NewWorld(rng, WorldOpts{Nodes: 2, GenesisVals: 5, ExtraVals: 4, Users: 8, Gov: true})
	if err != nil {
		t.Fatal(err)
	}
	defer w.Ch.Close()
	included := map[string]int{}
	byHash := map[string]string{}
	start := time.Now()
	for b := 0; b < 25; b++ {
		rec, infos, err := w.Step(8)
		if err != nil {
			t.Fatalf("block %d: %v", b, err)
		}
		for _, ti := range infos {
			byHash[ti.Hash] = ti.Kind
		}
		for _, tx := range rec.Block.Transactions {
			included[byHash[hashOf(tx)]]++
		}
		if err := w.Ch.SameHeads(); err != nil {
			t.Fatal(err)
		}
	}
	fmt.Println("generated", w.NTx)
	fmt.Println("included ", included)
	fmt.Println("elapsed", time.Since(start))
	vals, _ := w.n0().C.FSM.GetValidators()
	for _, v := range vals {
		fmt.Printf("val %x stake=%d paused=%d unstaking=%d committees=%v delegate=%v\n", v.Address[:4], v.StakedAmount, v.MaxPausedHeight, v.UnstakingHeight, v.Committees, v.Delegate)
	}
	p, _ := w.n0().C.FSM.GetParamsVal()
	fmt.Printf("params %+v\n", p)
}
