package node

import (
	"bytes"
	"crypto/ed25519"
	"fmt"
	"sort"

	"github.com/canopy-network/canopy/bft"
	"github.com/canopy-network/canopy/fsm"
	"github.com/canopy-network/canopy/lib"
	"github.com/canopy-network/canopy/lib/crypto"
	"github.com/canopy-network/canopy/store"
)

// ValKey is a validator identity the harness holds the key of.
type ValKey struct {
	Key   crypto.PrivateKeyI // BLS consensus key
	Stake uint64
}

// Chain is a set of nodes that follow the same chain, plus every key needed to certify its blocks.
type Chain struct {
	MidwayRecheck   bool   // Propose also runs the mempool re-check the controller's background loop would run
	EnvelopeChainID uint64 // if non-zero: the chain id Deliver writes into the block-message envelope
	ChainID         uint64
	Nodes           []*Node
	Keys            map[string]crypto.PrivateKeyI // BLS public key hex -> private key (every validator that may ever join the committee)
	Records         []*BlockRecord                // committed heights in order
	Time            uint64
	last            *Node // the node driven last (see enter)
	gen             *fsm.GenesisState
	tweak           func(c *lib.Config)
	valKeys         []crypto.PrivateKeyI
	// NodeOpts may adjust the options of node i before it is built (file system, memtable size)
	NodeOpts func(i int, o *Options)
	// OnNode is applied to every node the chain builds or re-opens (ex. put it in the common governance-vote mode)
	OnNode func(n *Node)
}

// enter is called before a node is driven. All nodes of a test binary share canopy's process-wide caches (the block
// cache is keyed by height only), which real nodes - one per process - do not. Whenever control passes from one node to
// another the caches are purged, so each node only ever sees cache entries it put there itself.
func (ch *Chain) enter(n *Node) {
	if ch.last != n {
		store.VerifPurgeProcessCaches()
		ch.last = n
	}
}

// BlockRecord is what the driver recorded when a height was committed.
type BlockRecord struct {
	Height    uint64
	QC        *lib.QuorumCertificate // with block and results
	BlockHash []byte
	StateRoot []byte
	Block     *lib.Block
	Result    *lib.BlockResult
	Signers   []int
}

var blsCache = map[int]crypto.PrivateKeyI{}

// BLSKey returns deterministic BLS key i.
func BLSKey(i int) crypto.PrivateKeyI {
	if k, ok := blsCache[i]; ok {
		return k
	}
	seed := make([]byte, 32)
	seed[0], seed[1], seed[29], seed[30], seed[31] = 0x01, 0xB1, byte((i+1)>>8), byte(i+1), 0x33 // below the group order
	k, err := crypto.BytesToBLS12381PrivateKey(seed)
	if err != nil {
		panic(err)
	}
	blsCache[i] = k
	return k
}

// EdKey returns deterministic ed25519 key i.
func EdKey(i int) crypto.PrivateKeyI {
	seed := make([]byte, 32)
	seed[0], seed[1], seed[2], seed[31] = byte(i+1), byte((i+1)>>8), 0xED, 0x25
	return crypto.BytesToED25519Private(ed25519.NewKeyFromSeed(seed))
}

// GenesisSpec describes the initial state.
type GenesisSpec struct {
	ChainID    uint64
	Validators []GenesisVal
	Accounts   map[string]uint64 // address hex -> amount
	Pools      map[uint64]uint64
	Params     *fsm.Params
}

// GenesisVal is one genesis validator.
type GenesisVal struct {
	Key        crypto.PrivateKeyI
	Output     crypto.AddressI
	Stake      uint64
	Committees []uint64
	Delegate   bool
	Compound   bool
}

// Build renders the genesis state.
func (g *GenesisSpec) Build() *fsm.GenesisState {
	gs := &fsm.GenesisState{Time: 1_700_000_000_000_000, Params: g.Params}
	for _, v := range g.Validators {
		out := v.Output
		if out == nil {
			out = v.Key.PublicKey().Address()
		}
		gs.Validators = append(gs.Validators, &fsm.Validator{
			Address: v.Key.PublicKey().Address().Bytes(), PublicKey: v.Key.PublicKey().Bytes(), NetAddress: "tcp://v", StakedAmount: v.Stake,
			Committees: v.Committees, Output: out.Bytes(), Delegate: v.Delegate, Compound: v.Compound,
		})
	}
	addrs := make([]string, 0, len(g.Accounts))
	for a := range g.Accounts {
		addrs = append(addrs, a)
	}
	sort.Strings(addrs)
	for _, a := range addrs {
		bz, _ := lib.StringToBytes(a)
		gs.Accounts = append(gs.Accounts, &fsm.Account{Address: bz, Amount: g.Accounts[a]})
	}
	ids := make([]uint64, 0, len(g.Pools))
	for id := range g.Pools {
		ids = append(ids, id)
	}
	sort.Slice(ids, func(i, j int) bool { return ids[i] < ids[j] })
	for _, id := range ids {
		gs.Pools = append(gs.Pools, &fsm.Pool{Id: id, Amount: g.Pools[id]})
	}
	return gs
}

// NewChain builds nNodes nodes on the same genesis; node i runs with validator key i (mod validators).
func NewChain(spec *GenesisSpec, nNodes int, tweak func(c *lib.Config), nodeOpts ...func(i int, o *Options)) (*Chain, error) {
	ch := &Chain{ChainID: spec.ChainID, Keys: map[string]crypto.PrivateKeyI{}, Time: 1_700_000_100_000_000, tweak: tweak}
	if len(nodeOpts) > 0 {
		ch.NodeOpts = nodeOpts[0]
	}
	for _, v := range spec.Validators {
		ch.Keys[lib.BytesToString(v.Key.PublicKey().Bytes())] = v.Key
		ch.valKeys = append(ch.valKeys, v.Key)
	}
	ch.gen = spec.Build()
	for i := 0; i < nNodes; i++ {
		if _, err := ch.AddNode(); err != nil {
			return nil, err
		}
	}
	return ch, nil
}

// AddNode builds one more node on the chain's genesis (a late joiner starts at height 1) and returns its index.
func (ch *Chain) AddNode() (int, error) {
	i := len(ch.Nodes)
	o := Options{Name: fmt.Sprintf("n%d", i), ChainID: ch.ChainID, Key: ch.valKeys[i%len(ch.valKeys)], Genesis: ch.gen, Tweak: ch.tweak}
	if ch.NodeOpts != nil {
		ch.NodeOpts(i, &o)
	}
	n, err := New(o)
	if err != nil {
		return 0, err
	}
	ch.enter(n)
	if err = n.Start(); err != nil {
		return 0, err
	}
	if ch.OnNode != nil {
		ch.OnNode(n)
	}
	ch.Nodes = append(ch.Nodes, n)
	return i, nil
}

// Restart re-opens node i on its file system (process restart) and replaces it in the chain.
func (ch *Chain) Restart(i int) error {
	ch.last = nil
	store.VerifPurgeProcessCaches()
	m, err := ch.Nodes[i].Reopen()
	if err != nil {
		return err
	}
	if ch.OnNode != nil {
		ch.OnNode(m)
	}
	ch.Nodes[i] = m
	ch.last = m
	return nil
}

// AddKey registers another validator key (for validators that stake later).
func (ch *Chain) AddKey(k crypto.PrivateKeyI) {
	ch.Keys[lib.BytesToString(k.PublicKey().Bytes())] = k
}

// Close closes all nodes.
func (ch *Chain) Close() {
	for _, n := range ch.Nodes {
		n.Close()
	}
}

// Proposal is a block proposal as the BFT would carry it.
type Proposal struct {
	RCBuildHeight uint64
	BlockBytes    []byte
	Block         *lib.Block
	Results       *lib.CertificateResult
	QC            *lib.QuorumCertificate // header + hashes + block + results (+ signature once certified)
	Proposer      int
}

// Propose feeds txs to the proposer's mempool and runs the real ProduceProposal.
func (ch *Chain) Propose(proposer int, txs [][]byte, evidence *bft.ByzantineEvidence) (*Proposal, lib.ErrorI) {
	n := ch.Nodes[proposer]
	ch.enter(n)
	for i, tx := range txs {
		// one by one: a rejected transaction must not keep the others out
		_ = n.C.Mempool.HandleTransactions(tx)
		if ch.MidwayRecheck && i == len(txs)/2 {
			// the controller's background loop re-checks a dirty mempool at any time: the proposal for one height is
			// usually built more than once before it is used
			_ = n.C.Mempool.CheckMempool()
		}
	}
	if ch.MidwayRecheck {
		_ = n.C.Mempool.CheckMempool()
	}
	if evidence == nil {
		evidence = &bft.ByzantineEvidence{DSE: bft.DoubleSignEvidences{}}
	}
	n.C.Lock()
	rc, blk, res, err := n.C.ProduceProposal(evidence, nil)
	n.C.Unlock()
	if err != nil {
		return nil, err
	}
	b := new(lib.Block)
	if err = lib.Unmarshal(blk, b); err != nil {
		return nil, err
	}
	p := &Proposal{RCBuildHeight: rc, BlockBytes: blk, Block: b, Results: res, Proposer: proposer}
	p.QC = &lib.QuorumCertificate{
		Header:      &lib.View{NetworkId: NetworkID, ChainId: ch.ChainID, Height: b.BlockHeader.Height, RootHeight: rc, Round: 0, Phase: lib.Phase_PRECOMMIT_VOTE},
		Block:       blk,
		BlockHash:   b.BlockHeader.Hash,
		Results:     res,
		ResultsHash: res.Hash(),
		ProposerKey: n.C.PublicKey,
	}
	return p, nil
}

// Validate runs the real replica-side ValidateProposal on node i.
func (ch *Chain) Validate(i int, p *Proposal, evidence *bft.ByzantineEvidence) (*lib.BlockResult, lib.ErrorI) {
	if evidence == nil {
		evidence = &bft.ByzantineEvidence{DSE: bft.DoubleSignEvidences{}}
	}
	n := ch.Nodes[i]
	ch.enter(n)
	n.C.Lock()
	defer n.C.Unlock()
	return n.C.ValidateProposal(p.RCBuildHeight, cloneQC(p.QC), evidence)
}

func cloneQC(q *lib.QuorumCertificate) *lib.QuorumCertificate {
	bz, err := lib.Marshal(q)
	if err != nil {
		panic(err)
	}
	out := new(lib.QuorumCertificate)
	if err = lib.Unmarshal(bz, out); err != nil {
		panic(err)
	}
	return out
}

// Committee returns the validator set that certifies p (as node 0 derives it).
func (ch *Chain) Committee(n *Node, rootHeight uint64) (lib.ValidatorSet, lib.ErrorI) {
	ch.enter(n)
	return n.C.LoadCommittee(n.C.LoadRootChainId(n.C.ChainHeight()), rootHeight)
}

// Certify signs qc with the harness-held keys of the committee members selected by pick (nil = everybody).
// It returns the indices (in committee order) that signed and their power.
func (ch *Chain) Certify(qc *lib.QuorumCertificate, vs lib.ValidatorSet, pick func(idx int, v *lib.ConsensusValidator) bool) ([]int, uint64, error) {
	mk := vs.MultiKey.Copy()
	sb := qc.SignBytes()
	var signers []int
	var power uint64
	for i, v := range vs.ValidatorSet.ValidatorSet {
		if pick != nil && !pick(i, v) {
			continue
		}
		k, ok := ch.Keys[lib.BytesToString(v.PublicKey)]
		if !ok {
			continue
		}
		if err := mk.AddSigner(k.Sign(sb), i); err != nil {
			return nil, 0, err
		}
		signers = append(signers, i)
		power += v.VotingPower
	}
	if len(signers) == 0 {
		return nil, 0, fmt.Errorf("no signer")
	}
	sig, err := mk.AggregateSignatures()
	if err != nil {
		return nil, 0, err
	}
	qc.Signature = &lib.AggregateSignature{Signature: sig, Bitmap: mk.Bitmap()}
	return signers, power, nil
}

// Deliver hands (block, certificate) to node i through the real HandlePeerBlock, as ListenForBlock does.
// cached: the node first validates the proposal (as a replica in PROPOSE_VOTE does) so the commit uses the cached result.
func (ch *Chain) Deliver(i int, qc *lib.QuorumCertificate, cached *lib.BlockResult, syncing bool) lib.ErrorI {
	n := ch.Nodes[i]
	ch.enter(n)
	n.C.Lock()
	defer n.C.Unlock()
	n.C.Consensus.BlockResult = cached
	ch.Time += 1_000_000
	env := ch.ChainID
	if ch.EnvelopeChainID != 0 {
		env = ch.EnvelopeChainID // a sender may write any chain id into the (unsigned) envelope of a block message
	}
	_, err := n.C.HandlePeerBlock(&lib.BlockMessage{ChainId: env, BlockAndCertificate: cloneQC(qc), Time: ch.Time}, syncing)
	n.C.Consensus.BlockResult = nil
	if err == nil {
		// the subscription to the (own) root chain delivers the new info
		if e := n.RCM.Sync(); e != nil {
			return e
		}
		// what bft.NewHeight() does on a running node: height, root height, committee and committee data of the new height
		n.C.Consensus.RefreshRootChainInfo()
	}
	return err
}

// Step produces, validates, certifies (all members sign unless pick says otherwise) and commits one block on every node.
func (ch *Chain) Step(proposer int, txs [][]byte, pick func(idx int, v *lib.ConsensusValidator) bool) (*BlockRecord, error) {
	p, err := ch.Propose(proposer, txs, nil)
	if err != nil {
		return nil, fmt.Errorf("propose: %v", err)
	}
	results := make([]*lib.BlockResult, len(ch.Nodes))
	for i := range ch.Nodes {
		if i == proposer {
			continue
		}
		r, e := ch.Validate(i, p, nil)
		if e != nil {
			return nil, fmt.Errorf("node %d rejects honest proposal at height %d: %v", i, p.Block.BlockHeader.Height, e)
		}
		results[i] = r
	}
	vs, e := ch.Committee(ch.Nodes[proposer], p.QC.Header.RootHeight)
	if e != nil {
		return nil, fmt.Errorf("committee: %v", e)
	}
	signers, power, er := ch.Certify(p.QC, vs, pick)
	if er != nil {
		return nil, er
	}
	if power < vs.MinimumMaj23 {
		return nil, fmt.Errorf("picked signers hold %d < %d", power, vs.MinimumMaj23)
	}
	for i := range ch.Nodes {
		if e := ch.Deliver(i, p.QC, results[i], false); e != nil {
			return nil, fmt.Errorf("node %d failed to commit height %d: %#v", i, p.Block.BlockHeader.Height, e)
		}
	}
	rec := &BlockRecord{Height: p.Block.BlockHeader.Height, QC: p.QC, BlockHash: p.Block.BlockHeader.Hash, StateRoot: p.Block.BlockHeader.StateRoot, Block: p.Block, Signers: signers}
	ch.Records = append(ch.Records, rec)
	return rec, nil
}

// SameHeads checks that every node is at the same height with the same last block hash.
func (ch *Chain) SameHeads() error {
	var h uint64
	var hash []byte
	for i, n := range ch.Nodes {
		blk, err := n.C.FSM.LoadBlock(n.Height() - 1)
		if err != nil {
			return fmt.Errorf("node %d load block: %v", i, err)
		}
		if i == 0 {
			h, hash = n.Height(), blk.BlockHeader.Hash
			continue
		}
		if n.Height() != h || !bytes.Equal(hash, blk.BlockHeader.Hash) {
			return fmt.Errorf("node %d at height %d hash %x, node 0 at %d hash %x", i, n.Height(), blk.BlockHeader.Hash, h, hash)
		}
	}
	return nil
}

// Archive returns what node i serves for a committed height (certificate with the block re-assembled by the indexer).
func (ch *Chain) Archive(i int, height uint64) (*lib.QuorumCertificate, lib.ErrorI) {
	n := ch.Nodes[i]
	ch.enter(n)
	return n.C.LoadCertificate(height)
}

// Block returns the indexed block of node i at a height.
func (ch *Chain) Block(i int, height uint64) (*lib.BlockResult, lib.ErrorI) {
	n := ch.Nodes[i]
	ch.enter(n)
	return n.C.FSM.LoadBlock(height)
}
