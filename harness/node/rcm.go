package node

import (
	"bytes"
	"slices"

	"github.com/canopy-network/canopy/fsm"
	"github.com/canopy-network/canopy/lib"
	"github.com/canopy-network/canopy/lib/crypto"
)

// RCM implements lib.RCManagerI for one node. Every query is answered from the root node's state machine with the
// same calls cmd/rpc makes (query.go handlers run the callback on FSM.TimeMachine(height)); the caching rules of
// cmd/rpc/sock.go (answer from the last received RootChainInfo when the height matches) are reproduced.
type RCM struct {
	self *Node
	root *Node // the node that plays the root chain for `self` (self when the chain is its own root)
	Info *lib.RootChainInfo
	// nested-chain subscribers of this node (chain ids) and what was published to them
	Subs      []uint64
	Published []*lib.RootChainInfo
	// OnTransaction receives transactions a nested chain submits to this root (certificate-result txs)
	Submitted [][]byte
	// Frozen: when set, the root-chain info is not refreshed by Sync (models a nested chain that has not heard yet)
	Frozen bool
}

var _ lib.RCManagerI = (*RCM)(nil)

// SetRoot points the node at another node as its root chain.
func (r *RCM) SetRoot(root *Node) { r.root = root }

// Sync delivers the latest root-chain info to this node (what the web-socket subscription does after the root commits).
func (r *RCM) Sync() lib.ErrorI {
	if r.Frozen {
		return nil
	}
	info, err := r.root.C.FSM.LoadRootChainInfo(r.self.Cfg.ChainId, 0)
	if err != nil {
		return err
	}
	r.Info = info
	return nil
}

func (r *RCM) tm(height uint64) (*fsm.StateMachine, lib.ErrorI) {
	return r.root.C.FSM.TimeMachine(height)
}

func (r *RCM) Publish(chainId uint64, info *lib.RootChainInfo) {
	// called from a goroutine by CommitCertificate: only record (the driver delivers with Sync)
}

func (r *RCM) ChainIds() []uint64 { return r.Subs }

func (r *RCM) GetHeight(uint64) uint64 {
	if r.Info == nil {
		return 0
	}
	return r.Info.Height
}

func (r *RCM) GetRootChainInfo(_, chainId uint64) (*lib.RootChainInfo, lib.ErrorI) {
	info, err := r.root.C.FSM.LoadRootChainInfo(chainId, 0)
	if err != nil {
		return nil, err
	}
	r.Info = info
	return info, nil
}

// GetValidatorSet: note the production implementation's parameter order is (rootChainId, id, rootHeight)
func (r *RCM) GetValidatorSet(_, id, rootHeight uint64) (lib.ValidatorSet, lib.ErrorI) {
	if r.Info != nil {
		if rootHeight == r.Info.Height || rootHeight == 0 {
			return lib.NewValidatorSet(r.Info.ValidatorSet)
		}
		if rootHeight == r.Info.Height-1 {
			return lib.NewValidatorSet(r.Info.LastValidatorSet)
		}
	}
	sm, err := r.tm(rootHeight)
	if err != nil {
		return lib.ValidatorSet{}, err
	}
	defer discard(sm, r.root)
	return sm.GetCommitteeMembers(id)
}

func discard(sm *fsm.StateMachine, root *Node) {
	if sm != root.C.FSM {
		sm.Discard()
	}
}

func (r *RCM) GetLotteryWinner(_, height, id uint64) (*lib.LotteryWinner, lib.ErrorI) {
	if r.Info != nil && r.Info.Height == height {
		return r.Info.LotteryWinner, nil
	}
	sm, err := r.tm(height)
	if err != nil {
		return nil, err
	}
	defer discard(sm, r.root)
	return sm.LotteryWinner(id)
}

func (r *RCM) GetOrders(_, rootHeight, id uint64) (*lib.OrderBook, lib.ErrorI) {
	if r.Info != nil && r.Info.Height == rootHeight {
		return r.Info.Orders, nil
	}
	sm, err := r.tm(rootHeight)
	if err != nil {
		return nil, err
	}
	defer discard(sm, r.root)
	return sm.GetOrderBook(id)
}

func (r *RCM) GetOrder(_, height uint64, orderId string, chainId uint64) (*lib.SellOrder, lib.ErrorI) {
	sm, err := r.tm(height)
	if err != nil {
		return nil, err
	}
	defer discard(sm, r.root)
	id, err := lib.StringToBytes(orderId)
	if err != nil {
		return nil, err
	}
	return sm.GetOrder(id, chainId)
}

func (r *RCM) GetDexBatch(_, height, committee uint64, withPoints bool) (*lib.DexBatch, lib.ErrorI) {
	sm, err := r.tm(height)
	if err != nil {
		return nil, err
	}
	defer discard(sm, r.root)
	return sm.GetDexBatch(committee, true, withPoints)
}

// IsValidDoubleSigner mirrors cmd/rpc/query.go: the last certificate is inspected before the index
func (r *RCM) IsValidDoubleSigner(_, height uint64, address string) (*bool, lib.ErrorI) {
	addr, err := lib.StringToBytes(address)
	if err != nil {
		return nil, err
	}
	st := r.root.C.FSM.Store().(lib.StoreI)
	f := false
	if v := st.Version(); v > 1 {
		if qc, e := st.GetQCByHeight(v - 1); e == nil && qc != nil && qc.Results != nil && qc.Results.SlashRecipients != nil {
			for _, ds := range qc.Results.SlashRecipients.DoubleSigners {
				pk, e := crypto.NewPublicKeyFromBytes(ds.Id)
				if e != nil {
					continue
				}
				if bytes.Equal(pk.Address().Bytes(), addr) && slices.Contains(ds.Heights, height) {
					return &f, nil
				}
			}
		}
	}
	ok, err := st.IsValidDoubleSigner(addr, height)
	if err != nil {
		return nil, err
	}
	return &ok, nil
}

func (r *RCM) GetMinimumEvidenceHeight(_, rootHeight uint64) (*uint64, lib.ErrorI) {
	sm, err := r.tm(rootHeight)
	if err != nil {
		return nil, err
	}
	defer discard(sm, r.root)
	h, err := sm.LoadMinimumEvidenceHeight()
	if err != nil {
		return nil, err
	}
	return &h, nil
}

func (r *RCM) GetCheckpoint(_, height, id uint64) (lib.HexBytes, lib.ErrorI) {
	return r.root.C.FSM.Store().(lib.StoreI).GetCheckpoint(id, height)
}

func (r *RCM) Transaction(_ uint64, tx lib.TransactionI) (*string, lib.ErrorI) {
	bz, err := lib.Marshal(tx)
	if err != nil {
		return nil, err
	}
	r.root.RCM.Submitted = append(r.root.RCM.Submitted, bz)
	h := crypto.HashString(bz)
	return &h, nil
}
